#!/usr/bin/env python3
"""Regenerates MANIFEST.json from the table below (kept valid at all times)."""
import json, os
ROOT = os.path.dirname(os.path.dirname(os.path.abspath(__file__)))
props = [json.loads(l) for l in open(os.path.join(ROOT, "properties.jsonl"))]

# pid -> (level text, level note, technique)
CLAIMED = {
 "C19": ("Arithmetic laws proved in Coq for all n (not only n <= 100000) and for all duplicate-free sets; the model is tied to the code by an "
         "exhaustive correspondence n=0..100000 of SuperMajority/TrustCount (fresh, grown by WithNewPeer and shrunk sets) and by the "
         "SetAnchorBlock/CheckBlock/CheckBlockWithTrusted (known = the signers, known = everybody) decisions around every threshold with real signatures",
         "8 theorems by lia/induction; math.Ceil(float64(n)/3) modelled as (n+2)/3 (tie checked exhaustively); trusted: Coq kernel, extraction, harness",
         "Coq theorems (lia, induction on duplicate-free lists) + exhaustive model/implementation correspondence"),
 "C18": ("Median model (int64 wrap written explicitly) proved in Coq to stay within the honest range for every list with fewer than half (a fortiori a third) "
         "arbitrary values, order-independent; the premise on honest values is exact (closed range refuted); Go Median compared with the model on "
         "generated lists with extreme Byzantine values in several orders",
         "21 theorems, no axioms; END TO END: proved over every operation sequence of the HgImpl model (insertions of arbitrary events, ProcessSigPool) "
         "that the timestamp of every delivered block is that median over the timestamps of the famous witnesses of its round-received -- the set is frozen "
         "once the round is processed, stored events keep their body -- hence lies within [min, max] of the honest witnesses' timestamps when fewer than half "
         "(a fortiori a third) of them are Byzantine (C18_block_timestamp_is_median / _in_honest_range / _third / _odd; premises: event ids determine events, "
         "honest values in the no-wrap range); the same link is also exercised by the consensus correspondence (C01 histories)",
         "Coq theorems (sorted-permutation + counting) + model/implementation correspondence"),
 "C07": ("Invariant proved in Coq for every reachable state of every sequence of insertion attempts (valid or tampered, any genesis), also when interleaved "
         "in any way with ProcessSigPool calls (the operation alphabet of the other properties: C07_admitted_wf_hrun / _ops): stored events are signed, "
         "of known participants, parent-complete, extend their creator's chain by exactly one (index = self-parent index + 1), no fork, gap-free listings; "
         "a rejected attempt leaves the whole state unchanged; the consensus passes never touch the admitted DAG. Tied to the code by a tamper-grammar "
         "harness (direct and wire paths) whose result class and observables are compared with the model after every attempt; a quarter of the sequences run on an InmemStore of 5..12 events with a lazy creator (admission oracle only, the model has no cache)",
         "theorems are about the HgImpl model of Hashgraph.InsertEvent after fix 26c0384; premise: event ids (hash ordinals) determine the event; "
         "e_sigok is the observed Event.Verify() result",
         "Coq invariant proof (induction over attempt lists, frame lemmas for every consensus pass) + tamper-grammar correspondence"),
 "C02": ("Proved in Coq for all operation sequences of a node (insertions in any order incl. late witnesses, ProcessSigPool, commits): commit callbacks carry "
         "consecutive indexes from 0 (the delivery sequence carries exactly the indexes 0..n-1 in order, n = last index + 1, and is append-only: C02_no_gaps, "
         "C02_append_only); a delivered block is reported by the store with the delivered body for ever -- field by field: index, round-received, timestamp, "
         "transactions, internal transactions, frame, peers, committed flag, receipts, body id (C02_block_immutable_after_delivery) --, signatures only grow; every recorded "
         "signature is over the node's own body; round-received strictly increases along the delivery sequence (invariant of the pending-rounds queue: "
         "strictly sorted, above the last consensus round, rounds contiguous, a processed round stays flagged decided and is never re-queued). "
         "Tied to the code by per-action comparison of all observables of real cores in random gossip histories (static and dynamic membership)",
         "HgImpl model with in-memory store semantics; Badger DB copy covered by C16; fast-sync reset not in these theorems (C13): roundLowerBound is None "
         "in every state of the model",
         "Coq invariant proof over operation lists + gossip-history correspondence + implementation oracle"),
 "C04": ("Proved in Coq for every reachable state of every operation sequence over events whose identifiers determine them: Lamport timestamps (event field "
         "and the cache used by frames) are 1 + max of the parents', hence strictly increasing along every ancestry chain; the frame sort is the sorted "
         "permutation by (timestamp, signature rank), unique when keys are distinct; in a frame and in a delivered block an ancestor precedes its descendant; "
         "a block's payload is the concatenation of its frame events' payloads (contiguous, creator order) and the frame is the cached frame of its "
         "round-received; round-received is assigned once and kept, received lists hold exactly the events of that round-received without repetition, frames "
         "of distinct rounds are disjoint, so no event is committed twice. Under static membership: round-received is monotone along ancestry, an ancestor of an event of a processed round is "
         "received not later, every ancestor with payload of a committed event is committed in an earlier block or earlier in the same block "
         "(C04_order_extends_causality), received sets of processed rounds are final. Two literal readings are refuted by witnesses that are facts about the "
         "algorithm (a frame without transactions produces no block; an ancestor of a received event can be unreceived while its round is still undecided). "
         "Under DYNAMIC membership and the distance bound: frames extend causality, committed ancestors, processed rounds complete (single node), and the committed orders of two nodes "
         "agree: k-th blocks list the same (event, Lamport) pairs in the same order and the shorter committed order is a prefix (C04_block_events_agree_dynamic, C04_committed_order_prefix_dynamic). "
         "The oracle runs on every history incl. dynamic-membership ones with retried membership requests",
         "30 theorems, no axioms; premise: event ids (hash ordinals) determine the event; signature ranks / coin bits are harness-supplied data; "
         "frames of reset nodes: oracle from the anchor on",
         "Coq invariant proof over operation lists + gossip-history correspondence (keys e/d/r) + implementation oracle (orderOracle, frameOracle)"),
 "C17": ("State gate of the node (processRPC gate, the four handlers' answer classes, read-only sync / fast-forward handlers with the eventDiff + limit + "
         "knownEvents answer, join / addTransaction pool arithmetic, Init's initial state, checkSuspend / Suspend) modelled in Coq; proved for every "
         "non-Babbling state and every sequence of requests (any eager-sync effect), transactions and heartbeats: state, DAG, self-events, delivered "
         "blocks, undetermined events and internal-transaction pool unchanged, only the transaction pool grows, every request refused except a "
         "Suspended sync, whose answer is the same function as in Babbling and a correct difference; checkSuspend suspends a Babbling node iff over "
         "limit x validators or evicted. Tied to the code by real Nodes driven through the hooks in all 6 states, no-quorum runs and a consensus eviction, two thirds of them with an application whose state-change handler fails",
         "10 theorems, no axioms; the effect of core.sync on a Babbling node is data; handlers are called synchronously: the concurrent check-then-act "
         "window between the gate and a handler is not covered",
         "Coq invariant proof over input lists + per-request correspondence with real Nodes + implementation oracles"),
 "C20": ("Retry loop of both socket clients, the net/rpc + jsonrpc error conventions, the socket server methods' normalisation (handler error message never "
         "empty, nil byte-slice reply sent as empty), peers.NewPeer's UTF-8 normalisation and the JSON field mapping of Block / CommitResponse / transactions "
         "(base64 at digit level, nil vs empty, invalid UTF-8) modelled in Coq; proved: a success is the reply of the first attempt that went through, all "
         "attempts failing is an error, at most three attempts / deliveries, successive calls are independent (the k-th reply depends on the k-th call only; the harness keeps every value a call returned or delivered and re-compares it after every later call); a call the application handled in none of its attempts is an error whatever the "
         "error message, a call it handled is a success with its reply also when that is a nil slice; the mapping is the identity on content (nil and empty "
         "kept apart) for every block whose peers come from NewPeer with arbitrary address / moniker strings. Three defects found by this check are fixed in "
         "/repo (ebb9c0a, faf0201, b2c4118); their inputs are permanent regression inputs. Tied to the code by real socket proxies in both directions through "
         "a fault-injecting message-aware relay next to the inmem proxy",
         "24 theorems, no axioms; TCP, net/rpc, timeouts are runtime; a retried call is delivered again (noted, at-least-once); key / signature strings "
         "assumed encoder outputs; a Peer struct literal with a stray byte is still altered by JSON (control case)",
         "Coq theorems (induction over attempt lists, base64 round trip, ToValidUTF8 model) + model/implementation correspondence + content / order / failure oracles"),
 "C12": ("Decision rule of core.fastForward / Node.fastForward modelled in Coq (CheckBlock over the signature MAP with re-spelled keys, distinct known signers, "
         "peer-set and frame digests, Reset outcome as data, check-then-Restore order, highest-index selection). Proved for the rule the tree implements (after "
         "a556752, 52c591c, a41e4c4): adoption => both digests match and more than one third of the DISTINCT members have a verifying signature; body tampering "
         "refused while the adversary owns at most a third; frame tampering refused; order-independence over the Go map; a response refused by the checks leaves "
         "core, application and node state untouched; the application is restored only from a checked response. The rule before those commits is kept as "
         "refuted regression witnesses replayed on every run. Still refuted (open finding F4): a response passing every check whose frame Reset cannot insert. "
         "Tied to the code by a mutation grammar over valid (block, frame, snapshot) triples from honest histories applied to victims in 5 states and to real Nodes; "
         "and to STATEFUL victims (sequences of 2-3 interactions on one core / Node: check passes but Restore fails, refused-then-valid, applied-then-second; "
         "the decision is proved to have no memory: C12_decision_independent_of_history; the model is folded over each sequence); "
         "the tree is REQUIRED to implement the repaired rule",
         "26 theorems, no axioms; ECDSA outcomes, SHA256 ordinals and the outcome of Hashgraph.Reset are data observed by the harness; a lost repair is named by the "
         "rule diagnostic; open: F4 (needs more than TrustCount known Byzantine signers) and the malformed-signature-map panic pending the C08 repair",
         "Coq decision-rule theorems + regression witnesses + mutation-grammar correspondence (core and node level) + implementation oracle"),
 "C14": ("Proved in Coq for the rule the tree implements (a41e4c4): a response whose verifying signatures all come from keys outside every set the node knows "
         "(configured peers, genesis peers, validators, store peer sets) is never adopted, at core and node level; an adopted response carries more than TrustCount "
         "distinct KNOWN members' signatures; and the exact liveness condition: an honest response is adopted iff more than TrustCount of its signers are known "
         "(C14_honest_accept_iff). The rule before a41e4c4 (decision blind to the node's state; self-made validator set adopted; single-peer takeover by block index) is "
         "kept as refuted regression witnesses replayed on every run. Forged responses (1/2/4 strangers, with/without honest events and peer-set history, respelled "
         "peer keys, forged index, stale honest signatures + stranger signatures) against victims in 5 states and real Nodes",
         "10 theorems, no axioms; residual outside the property's quantifier: a KNOWN validator can declare the set {itself} (findings/fastsync/FINDINGS.md F3)",
         "Coq decision-rule theorems + regression witnesses + forged-response correspondence + implementation oracle"),

 "C15": ("Field-level model of events, blocks and frames (nil vs empty slices, nil pointers, maps in insertion order, strings with invalid bytes) with the "
         "JSON codecs as abstract syntax: proved in Coq that ToWire/ReadWireInfo on a store satisfying the admission invariant, encoding/json, MarshalDB/UnmarshalDB "
         "and the frame codec give back an object with the same digest input (hence the same hash under any hash function), the same signature and payload, which "
         "private fields survive the database form, and that the frame digest is invariant under the fill order of Roots and PeerSets. The unconditional statement "
         "is refuted with concrete witnesses replayed on the real code (two findings). Tied to the code by pushing the shape product through the real conversions "
         "(TCP and in-memory transports, BadgerStore) and comparing the whole resulting object with the extracted model",
         "17 theorems, no axioms; hashes modelled by their input (collision resistance assumed), base64/hex abstract; premises: two parent slots, own block "
         "signatures, valid UTF-8 (all produced by correct nodes); out-of-domain shapes are generated too and must deviate as the model predicts",
         "Coq round-trip theorems over a JSON abstract syntax + refutation witnesses + object-level correspondence on the shape product + implementation oracle"),
 "C08": ("No-panic / no-hang theorem proved in Coq for the REPAIRED validation layer (all helpers, core.fastForward checks, ProcessSigPool, the four RPC "
         "handlers and both responses) for every value of every field, with `rejected input leaves blocks and application state unchanged` and `what was "
         "served before is served after`; the same statements are REFUTED for the code as it was, one vm_compute witness per site. Tied to "
         "the code by ~4400 helper/handler cases replayed on the model under the detected repair configuration, an oracle on real nodes in every state "
         "(recover + watchdog + delivered blocks before/after + liveness probe), multi-step scenarios and raw bytes on a real TCP transport",
         "31 theorems, no axioms; signature validity, store/consensus acceptance and hash comparisons are universally quantified data; inside Hashgraph.Reset / "
         "the consensus passes only the dereferences are modelled; Go 1.23 ecdsa/big/hex/utf8 and codec v1.1.7 quoteStr behaviours transliterated",
         "Coq theorems + refutation witnesses + helper/handler-level correspondence + implementation oracle (panic/hang/wedge/blocks) + TCP exploration"),
 "C11": ("Proved in Coq for every node history (insertion attempts valid or not, ProcessSigPool at any moment, any genesis set) and EVERY crash point of its "
         "write log (also between the writes of one operation): Bootstrap succeeds; the blocks re-delivered to the reset application, and the last block "
         "index, are exactly those of the node when the operations that had started completed, so every block delivered before the crash reappears "
         "identically at the same position, and no block of the previous life is ever read from the database (C11_redelivers, unconditional since fix "
         "d90db55); the recovered event table (with the recomputed rounds, lamport timestamps, round-received, coordinates), per-creator indexes and "
         "KnownEvents are exactly the written ones; head/seq are the own written event of greatest index; on any continuation the recovered node keeps "
         "the admission and block-store invariants, delivers what the never-crashed node delivers and equals it in every component but collected block "
         "signatures / anchor / pending signatures. Regression witness proved for the ProcessSigPool of before d90db55 (re-delivered blocks renumbered). "
         "Tied to the code by recoveries from snapshots of a real Badger directory at store-write granularity AND inside one store write (value-log prefixes at entry boundaries and torn entries) inside gossip histories, real kills (also inside a write) with "
         "continuation, restart twice, clean shutdown, real SIGKILLs, the directed early-signature regression scenario staged on every run, each "
         "compared with the durable pre-crash observations and with the extracted model on every observable",
         "11 theorems, no axioms; assumed: Badger per-transaction atomicity and commit-order durability, deterministic reset application, cache larger "
         "than the history, node never fast-forwarded; premise: hash ordinals identify events",
         "Coq: non-interference of the block bookkeeping (HgSim.v) + log/prefix invariant + simulation of the batch loop; regression witness by "
         "vm_compute; crash-point correspondence harness + oracle"),
 "C16": ("Store model (LRU, RollingIndex with roll, InmemStore, BadgerStore as cache+DB) proved to refine a plain map for all operation sequences and all cache "
         "sizes under the admission discipline, also across reopen; cache coherence unconditionally; listings exact; the deviations of the real store from a "
         "plain map are proved as refutation witnesses (W1-W5). Tied to the code by replaying every operation of generated sequences on the real BadgerStore, and by replaying the complete store traffic of a real node core (BadgerStore, caches 3..10000, late block signatures, snapshots and close/reopen) in seeded gossip histories on the model, with a plain-map oracle of the last acknowledged write per key",
         "13 theorems, no axioms; Badger atomicity/durability and codecs assumed (C15); Reset/Bootstrap out of this model (C11/C13)",
         "Coq refinement proof (simulation relation) + operation-level correspondence with the real BadgerStore"),
 "C01": ("PROVED in Coq for static membership (C01_agreement, C01_agreement_prefix): for any two nodes reachable by any operation sequences (insertions in any order incl. "
         "late witnesses and invalid attempts, ProcessSigPool) over one fork-free event universe, delivered blocks with the same position are equal in index, "
         "round-received, timestamp, transactions, internal transactions, frame and peers, and the shorter chain is a prefix of the longer. For DYNAMIC membership: "
         "REFUTED as stated - two ledger forks found by the proof attempt and replayed on real cores on every run: (1) the six-round window is not enforced "
         "(open known finding C01-window-fork: the order of delivery alone forks four honest validators after one join), (2) DecideFame took its quorum from the "
         "wrong round's set (fixed in /repo 05eda0b; regression input). With the repaired quorum and under the locally checkable distance bound (gap_runb: the node never divides an event more than "
         "six rounds above its last consensus round) on both nodes started from the same genesis set, PROVED under dynamic membership: the validator-set tables agree "
         "(C01_tables_agree_dynamic, no premise on the tables), rounds, fame, famous-witness sets and round-received agree (C01_consensus_values_agree_dynamic; abstract voting loop "
         "with per-round set sizes) and delivered blocks with the same position agree in index, round-received, timestamp, transactions, internal transactions and peers, the shorter chain "
         "being a prefix of the longer (C01_agreement_dynamic_gap, C01_agreement_prefix_dynamic_gap), and finally the FULL seven-field statement incl. the frame record "
         "(C01_agreement_full_dynamic_gap, C01_agreement_full_prefix_dynamic_gap): C01_agreement holds verbatim under dynamic membership with the static premise replaced by the distance bound. The oracle evaluates agreement on real cores after every action of random, lagging-view, split-vote (coin rounds, lone decider) "
         "and dynamic-membership histories; every observable of every node is compared with the model after every action",
         "46 theorems, no axioms; premises: event id determines the event, signature tie-break values pairwise distinct, fork-free universe; static membership for "
         "the full seven-field block theorems; same genesis + distance bound (gap_runb, evaluated by the runner on every insertion) and no failed pass on both runs for the dynamic theorems; without the distance bound the statement is false of the code (open finding)",
         "Coq invariant proofs over operation lists (about 45000 lines for the consensus core) + refutation / regression witnesses + gossip-history correspondence + prefix-consistency oracle + pinned fork replays"),
 "C03": ("PROVED in Coq (per-event mode, static membership, fork-free attempt sets): two topological insertion orders of one attempt set (valid and invalid "
         "attempts, possibly on two nodes) admit exactly the same events (C03_admission_order_independent) and give every event the same observables "
         "(C03_order_independent); a run over a superset admits a superset and the delivered transactions of a downward-closed prefix are a prefix "
         "(C03_admission_monotone, C03_prefix, C03_blocks_order_consistent); round / witness / Lamport / strongly-see are functions of the ancestry; fame "
         "decisions are independent of witness iteration order. The statement without fork freedom is refuted (2-event witness). REFUTED with a 15-event witness "
         "replayed on the code: results depend on the batching of consensus passes (known finding). Store and cache independence are evaluated on generated "
         "DAGs (random topological orders incl. maximally delayed creators, cuts, Badger vs in-memory, batch sizes, small-cache Badger node in gossip), each run "
         "also replayed on the model. Under DYNAMIC membership and the distance bound: Lamport (no premise), round, strongly-see, round-received are functions of ancestry, "
         "observables of shared events are order independent and the k-th blocks of two insertion orders agree (C03_order_independent_shared_dynamic, C03_blocks_order_consistent_dynamic)",
         "20 theorems, no axioms; store type / cache size independence is exploration + correspondence only (the store refinement is C16); batching clause is a known finding",
         "Coq theorems + refutation witnesses + DAG re-feeding differential oracle + model replay (per-event and batched)"),
 "C05": ("Pool discipline of core.addSelfEvent proved in Coq for every sequence of submissions and succeeding / failing insertions (with appends during the insertion): "
         "accepted transactions = payloads of the node's own events ++ pending pool, in order; exactly one event per transaction; a failed insertion keeps everything "
         "pending. Tied to the code by predicting every self-event's payload and the pool after every action of real cores in gossip histories with injected store "
         "failures, truncations and lost responses. Commit side proved on the hashgraph model for every operation sequence: the committed transaction stream is "
         "the concatenation in commit order of the payloads of the committed events, no event is committed twice, hence no transaction is committed twice when "
         "admitted events have duplicate-free pairwise disjoint payloads -- which the pool theorem gives node by node when accepted transactions are distinct "
         "(C05_submitted_committed_at_most_once) --, and every committed transaction is in the payload of an admitted (stored, signed, attempted) event; the same "
         "is evaluated by the oracle on every history. COMBINED MODEL (Model/CoreModel.v: pools, head, seq of core.go over the hashgraph model; addTransactions, "
         "addInternalTransaction, addSelfEvent incl. the d513dd9 case, insertEventAndRunConsensus, the loop of sync, processSigPool), for every operation sequence "
         "from the initial state: the hashgraph component is an hrun state; the node's own stored events are exactly the self-events of addSelfEvent, in order, "
         "with the payloads captured from the pools, seq/head are those of the last one; what addTransactions accepted = payloads of the own stored events ++ pool "
         "(the statement of the Go oracle `conservation`), each accepted transaction in exactly one own event or in the pool; a transaction committed through an "
         "own event was accepted, none twice; the former hypothesis from_pools is a theorem (C05_nodes_from_pools) and "
         "C05_submitted_committed_at_most_once_cores has no pool hypothesis left. The runner drives this model (extracted) for every T line and every inserted "
         "event: a self-event is BUILT by the model from its pools, head and seq and compared with the implementation's",
         "19 theorems, no axioms; premises: identifiers determine events among the events handed to the hashgraph (freshness of self-event identifiers follows), "
         "an event claiming the node as creator does not verify unless the node made it (e_sigok is data); network-level premise of the last theorem (an admitted "
         "event is stored at its creator's node) is not derived from a network model; the pool of own block signatures is an input of CoreModel (C09), the "
         "internal-transaction pool is not observable in the trace (loaded from the self-event by the runner); fast-forward / bootstrap outside CoreModel",
         "Coq invariant over operation lists + pool-level correspondence + conservation oracle with fault injection"),
 "C06": ("PARTIAL. Proved in Coq: the idle condition (busy = false iff nothing pending), a successful self-event empties the pools, the voting loop never gets "
         "stuck in a well-formed view and decides as soon as a deciding witness exists; the deterministic core of termination on the abstract voting loop: "
         "unanimous votes are decided at the next normal round, hence within 2 rounds (distance 2 when the round-(r+1) witnesses all see or all miss the "
         "candidate); a supermajority of equal votes makes the next normal round unanimous, hence decided within 3 rounds (that it is DECIDED in that next "
         "round is refuted by a 4-validator view); in a coin round a witness flips its coin only if its tally has no supermajority, supermajority tallies of "
         "one round agree, nobody decides in a coin round, after a unanimous round the coin is never used. NOT proved: that a coin round eventually yields "
         "unanimity (probabilistic) and the bound on fair cycles (needs a scheduler model). The bound is explored on real cores: arbitrary adversarial prefix (truncation, loss, silent minority < n/3), then "
         "fair all-pairs cycles until quiescence; oracle: within 30 cycles nobody is busy and everything accepted is committed by all (measured: 1-7 cycles); flavours: random, split-vote backlog, minority silent for good with a small cache, a lagging validator that wakes up holding uncommitted loaded events, fast-forwards and makes a truncated first sync",
         "partial: runtime behaviour not exhibited by the model: timers, goroutine scheduling, random peer selection; the convergence bound is exploration only",
         "Coq lemmas on the logic + controlled-schedule exploration with a deterministic fair suffix"),
 "C13": ("The reset path is in the Coq model (Model/HgReset.v: Hashgraph.Reset, InmemStore.Reset, InsertFrameEvent, SortedFrameEvents, core.fastForward after "
         "checkFastForward, node.fastForward's receipts). Proved, for EVERY victim state / block / frame with distinct non-negative event ids and a sorted table: the state "
         "left by a fast-forward (block store = the anchor, frame cache = the frame, table = the frame's table, validators = its latest set, lower bound = last consensus "
         "round = the block's round-received, empty queues; DAG = exactly the root and frame events with the recorded round / Lamport / witness flag in events, memo tables "
         "and round table). Proved for every reachable serving state: the anchor answer is a delivered block with the frame it was built from; every frame event carries the "
         "server's memoised values (never overwritten); the reset node's table and every lookup in it do not depend on the order in which Store.Reset walks the Go map Frame.PeerSets; a frame records the table that C10's replay gives for the earlier blocks, so a reset node ends with exactly the table and "
         "validators C10 specifies for blocks 0..k (pending changes inside the six-round window included). Continuity: an event inserted after the reset gets the same round / "
         "witness flag / Lamport timestamp as on a full-history node PROVIDED roots_sufficient (the parent-round witnesses it strongly sees are known to the reset node, the "
         "coordinate comparisons agree). The unconditional statement is REFUTED on the faithful model (C13_roots_insufficient_refuted: 49-action history found and minimised "
         "on the real cores by harness/cmd/resetwit, replayed by vm_compute, and shown to violate exactly roots_sufficient) = known finding C13-roots-insufficient. The "
         "block-level continuity statement is a Definition (not proved). After a reset (any continuation): deliveries have consecutive indexes from the anchor, round-received strictly increasing above the anchor, the admission invariant holds with the frame events as exempt set, index windows only grow, no fork; frame_shape is DERIVED for every frame an honest static server caches or serves. Correspondence: every fast-forward of the gossip histories is replayed on the model (the "
         "received block/frame/event bodies vs the model of the serving node, then the reset itself), and reset nodes are compared with the model on all observables after "
         "every action like any other node (0 differences); oracle: reset nodes vs full-history nodes (blocks, hashes, validator-set history, rounds) and, on reset nodes, GetPeerSet(r) for every round r against the node's own reported history",
         "partial: continuity only under roots_sufficient; BadgerStore.Reset, checkFastForward (C12/C14) and the wire fields of frame events (C15) are outside this model; "
         "known finding C13-roots-insufficient is tolerated, identified by its root cause",
         "Coq model of the reset path + invariants over all operation sequences + refutation witness replayed on the code + per-action correspondence of reset nodes + differential oracle"),
 "C10": ("Proved in Coq for every operation sequence of a node with an application (insertions of arbitrary events carrying arbitrary join/leave "
         "requests, accepted or refused, ProcessSigPool, commits): the PeerSetCache table and core.validators equal the replay of the node's own delivered "
         "blocks (accepted receipts in order, new set at round-received+6, 'round already recorded' error branch included); nothing but commit writes them; "
         "the table is sorted with first key 0, Get returns the entry with the greatest round <= r (the 'below all keys' branch is dead); a commit of "
         "round-received rr changes no round below rr+6, at table level and along every continuation of every history; every delivered block carries the "
         "peer set its frame's table snapshot gives for its round-received. UNCONDITIONALLY (round-received increasing along the delivered blocks is now the "
         "theorem C02_rr_increasing) the set of round r >= 0 is genesis modified in block order by exactly the accepted receipts of the delivered blocks with "
         "rr+6 <= r (C10_lookup_is_effective_prefix), and the 'round already recorded' branch of SetPeerSet is dead for delivered blocks. Tied to the code by per-action comparison of the table (observable ps) of real cores in dynamic-membership gossip "
         "histories and by an independent replay oracle on the implementation (table, lookup, PeersHash)",
         "27 theorems, no axioms; the WINDOW property (the set of round r is final when round r is computed) is REFUTED (C10_window_refuted; open known finding C10-window, replayed on real cores every run; the runner evaluates the window and the distance bound on every insertion of every history); under the locally checkable distance bound every lookup is final (C10_gap_lookup_final) and every memoised round / witness flag satisfies its equation read with the FINAL table (C10_round_gate_dynamic, C10_witness_gate_dynamic)",
         "Coq invariant proof over operation lists (commit footprint + generic lifting) + dynamic-membership gossip correspondence + replay oracle"),
 "C09": ("Proved in Coq for every operation sequence and every signature payload (other bodies, non-members, removed / not yet effective validators, "
         "duplicates, unknown or future indexes, encodings that verify against nothing): a signature is recorded on a block only if it verifies against the "
         "node's own body of that block and its signer is in the peer set the table gives for the block's round-received, when it is recorded AND in the final "
         "table of every later state (C09_recorded_member_final; unconditional since C02_rr_increasing is a theorem); signers of a block are pairwise distinct; every pool entry and recorded signature was "
         "carried by an inserted event and, given the wire layer's attribution, is keyed by that event's creator; the anchor block is stored and has more "
         "than TrustCount signatures of its round's set, i.e. distinct member signatures from more than a third of it (any signature for one validator); the "
         "anchor index never decreases; the node's own signatures exist only for delivered blocks, over the delivered body. Tied to the code by gossip "
         "histories with an adversarial signature stream (a harness-driven validator whose events carry bad payloads) compared with the model after every "
         "action, and by an oracle that re-verifies every stored signature with keys.Verify and re-counts the anchor's signatures",
         "14 theorems, no axioms, no hypothesis on round-received left, no full statement left as a Definition; bs_over (which body a signature verifies against) is supplied by the harness from keys.Verify; fast-forward blocks (C12/C14) "
         "and resets are outside hrun",
         "Coq invariant proof over operation lists + adversarial-signature gossip correspondence + implementation oracle"),
}
NOT_YET = "check not built yet in this commit (work in progress; to be claimed)"
NA = {}

m = {
 "version": 1,
 "setup_cmd": "bin/setup",
 "hooks": {"guard": "verif (Go build tag)", "enable": "go build -tags verif (harness module /verif/harness, go.mod replace => /repo)",
           "baseline_off_cmd": "cd /repo && GOFLAGS=-mod=mod GOPROXY=off go test -vet=off -count=1 -timeout 25m ./...",
           "source_commits": ["9785482", "ab29244", "7f1519b"], "add_only": True},
 "engines": [{"name": "coq-model", "path": "coq/", "serves_properties": sorted(CLAIMED),
              "kind_free_text": "Gallina model + theorems (Coq 8.16.1), extracted to an OCaml runner"},
             {"name": "go-harness", "path": "harness/", "serves_properties": sorted(CLAIMED),
              "kind_free_text": "differential correspondence harness against the real Go code (-tags verif)"}],
 "checks": [], "not_applicable": [],
 "notes": "Every check = (1) full Coq build + Print Assumptions of Properties/Cxx.v, (2) correspondence of the extracted model with /repo's current "
          "tree, (3) the property's oracle on the implementation's observations. See DESIGN.md.",
}
for p in props:
    pid = p["id"]
    if pid in CLAIMED:
        t = CLAIMED[pid]
        m["checks"].append({"property_id": pid, "quick_cmd": "bin/check %s --tier quick" % pid,
            "thorough_cmd": "bin/check %s --tier thorough" % pid, "evidence_file": "evidence/%s.json" % pid,
            "replay_cmd_template": "bin/check %s --replay {path}" % pid, "engine": "coq-model",
            "level_claimed": {"category": "proof", "text": t[0], "design_ref": "DESIGN.md section 5 " + pid},
            "level_note": t[1], "technique": t[2]})
    else:
        m["not_applicable"].append({"property_id": pid, "reason": NA.get(pid, NOT_YET)})
json.dump(m, open(os.path.join(ROOT, "MANIFEST.json"), "w"), indent=1)
print("claimed:", sorted(CLAIMED))
