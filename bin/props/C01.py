"""C01 agreement."""
from props import simcommon, winforkcommon

HARNESS = ["sim", "winfork"]
ASSUMPTIONS = ["no equivocation (fork-free DAG); honest nodes only; signature R components pairwise distinct",
               "ECDSA signing is randomised: a seed fixes the schedule, not the signature bytes",
               "theorems: full block agreement / prefix consistency (C01_agreement, C01_agreement_prefix) for every two reachable states of the per-event pipeline under static membership over a fork-free universe with pairwise distinct signature tie-break values; no consensus pass ever fails there; dynamic membership and cross-node forks are covered by the oracle and the correspondence only"]

def run(ctx):
    cov, findings, diffs = None, [], []
    for fl in ("static", "dyn", "split", "stall"):
        # stall: quorum loss then recovery with node 0 on a BadgerStore whose cache (100) is smaller than the undetermined backlog:
        # events and rounds of that node are evicted and re-read from the database while the others keep everything in memory
        res = simcommon.run(ctx, fl)
        f, d = simcommon.findings_for(res, "C01", None)
        findings += f; diffs += d
        c = simcommon.coverage_from(res, "Oracle: pairwise prefix-consistency of delivered blocks (index, round-received, transactions, internal "
            "transactions + receipts, frame hash, peers hash, timestamp, state hash through the body id) after every action. flavour=" + fl)
        if cov is None: cov = c
        else:
            for k in ("evaluations", "distinct_nontrivial", "histories", "traces_validated_against_impl"):
                cov[k] += c[k]
            cov["samples"] += c["samples"][:1]; cov["histogram_" + fl] = c["histogram"]; cov["distribution_" + fl] = c["distribution"]
    if diffs and not findings:
        ctx["notes"].append("correspondence broken without an oracle finding: escalated search (more and longer histories, other seeds)")
        for fl in ("split", "static", "dagrun"):
            findings += simcommon.escalate(ctx, fl, "C01")
            if findings: break
    # the recorded fork under a late validator-set change (known finding C01-window-fork): real cores + model, every run
    winforkcommon.apply("C01", ctx, findings, diffs, cov)
    return dict(findings=findings, coverage=cov, corr_diffs=diffs)
