"""C01 agreement."""
import vlib
from props import simcommon

HARNESS = ["sim"]
ASSUMPTIONS = ["no equivocation (fork-free DAG); honest nodes only; signature R components pairwise distinct",
               "ECDSA signing is randomised: a seed fixes the schedule, not the signature bytes"]

def run(ctx):
    res = simcommon.run(ctx, "static")
    findings, diffs = simcommon.findings_for(res, "C01", None)
    cov = simcommon.coverage_from(res, "Oracle: pairwise prefix-consistency of delivered blocks (all listed fields, state hash through the body id) after every action.")
    return dict(findings=findings, coverage=cov, corr_diffs=diffs)
