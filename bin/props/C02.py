"""C02 finality."""
from props import simcommon, storehgcommon
HARNESS = ["sim", "storehg"]
ASSUMPTIONS = ["model: in-memory store (pointer-shared blocks); the Badger DB copy is covered by C16/C11. Flavour latesigs evaluates the oracle "
               "(consecutive indexes, store and database copy = deliveries, LastBlockIndex = highest delivered) on a BadgerStore node with "
               "cache 100 after > 100 blocks and late signatures for evicted blocks; that node is not model-compared",
               "HTTP service serialisation is not modelled (it only calls Store.GetBlock)"]
def run(ctx):
    from concurrent.futures import ThreadPoolExecutor
    ex = ThreadPoolExecutor(max_workers=1)
    hg_future = ex.submit(storehgcommon.run, ctx)   # alongside the cmd/sim histories
    cov, findings, diffs = None, [], []
    for fl in ("static", "dyn", "latesigs", "split", "splitfaults"):
        res = simcommon.run(ctx, fl)
        f, d = simcommon.findings_for(res, "C02", ["d", "g", "st", "I"])
        findings += f; diffs += d
        c = simcommon.coverage_from(res, "Oracle: sequence of commit callbacks (consecutive indexes, increasing round-received) and "
                                    "Store.GetBlock(i) for every delivered i re-read after every action (body unchanged, signatures only grow). flavour=" + fl)
        if cov is None: cov = c
        else:
            cov["evaluations"] += c["evaluations"]; cov["distinct_nontrivial"] += c["distinct_nontrivial"]
            cov["histories"] += c["histories"]; cov["traces_validated_against_impl"] += c["traces_validated_against_impl"]
            cov["samples"] += c["samples"][:1]; cov["histogram_" + fl] = c["histogram"]; cov["distribution_" + fl] = c["distribution"]
    hgres = hg_future.result()
    ex.shutdown()
    findings = storehgcommon.findings_for(hgres, "C02") + findings
    hgcov = storehgcommon.coverage_from(hgres)
    cov["evaluations"] += hgcov["totals"].get("c02_checks", 0)
    cov["histories"] += hgcov["histories"]
    cov["persistent_node"] = dict(histories=hgcov["histories"], caches=hgcov["caches"],
                                  totals={k: v for k, v in hgcov["totals"].items() if k.startswith(("blk", "blocks", "deliveries", "c02", "evicted_blocks", "node_blk", "harness_blk", "a:x-"))})
    return dict(findings=findings[:12], coverage=cov, corr_diffs=diffs)
