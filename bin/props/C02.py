"""C02 finality."""
from props import simcommon
HARNESS = ["sim"]
ASSUMPTIONS = ["in-memory store (pointer-shared blocks); the Badger DB copy is covered by C16/C11",
               "HTTP service serialisation is not modelled (it only calls Store.GetBlock)"]
def run(ctx):
    cov, findings, diffs = None, [], []
    for fl in ("static", "dyn"):
        res = simcommon.run(ctx, fl)
        f, d = simcommon.findings_for(res, "C02", ["d", "g", "st", "I"])
        findings += f; diffs += d
        c = simcommon.coverage_from(res, "Oracle: sequence of commit callbacks (consecutive indexes, increasing round-received) and "
                                    "Store.GetBlock(i) for every delivered i re-read after every action (body unchanged, signatures only grow). flavour=" + fl)
        if cov is None: cov = c
        else:
            cov["evaluations"] += c["evaluations"]; cov["distinct_nontrivial"] += c["distinct_nontrivial"]
            cov["histories"] += c["histories"]; cov["traces_validated_against_impl"] += c["traces_validated_against_impl"]
            cov["samples"] += c["samples"][:1]; cov["histogram_" + fl] = c["histogram"]
    return dict(findings=findings, coverage=cov, corr_diffs=diffs)
