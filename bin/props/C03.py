"""C03 consensus output is a function of the DAG only."""
from props import simcommon
HARNESS = ["sim"]
ASSUMPTIONS = ["fork-free DAGs produced by honest cores; cache sizes above the number of events (below the in-flight window is not claimed)",
               "batching clause: known finding C03-batching-dependence (refuted in Coq, replayed on the code)",
               "theorems (per-event mode, static membership, fork-free attempt sets): admission and every observable are independent of the topological insertion order, prefix consistency, functions of ancestry; store type / cache size independence is exploration (DAG re-feeding, a small-cache Badger node in live gossip) on top of the store refinement C16"]
def run(ctx):
    res = simcommon.run(ctx, "dagrun")
    findings, diffs = simcommon.findings_for(res, "C03", None)
    extra = {}
    for fl in ("split", "splitdag", "dagodd"):
        # dagodd: long histories of 2..3 validators re-fed to a Badger store whose ODD cache size is below the number of events per creator
        # directed split-vote schedules: the round-received rule oracle (V C03 round-received-*) after every action of
        # every node, and (splitdag) the same DAGs re-fed under orders / cuts / stores
        r2 = simcommon.run(ctx, fl)
        f2, d2 = simcommon.findings_for(r2, "C03", None)
        findings = f2 + findings; diffs = d2 + diffs   # first: the known batching classes must not crowd them out
        extra[fl] = simcommon.coverage_from(r2)
    # store type / cache size in live gossip: node 0 runs on a BadgerStore with cache 100 while the undetermined backlog exceeds the
    # cache (stall flavour) / while more than cache-size blocks are delivered (latesigs flavour); any disagreement of that node with
    # the in-memory nodes on a delivered block is a dependence of the consensus output on the store (oracle line V C01 blocks-differ)
    for fl in ("stall",):
        r3 = simcommon.run(ctx, fl)
        for v in r3["vlines"]:
            m = __import__("re").search(r" V C01 (blocks-differ\S*) (.*)$", v)
            if m:
                findings.insert(0, dict(cls="store-or-cache-dependence:" + m.group(1), key=("flavour=%s " % fl) + m.group(2)[:180], detail=v))
        extra[fl] = simcommon.coverage_from(r3)
    cov = simcommon.coverage_from(res, "Each history's global DAG is re-fed to fresh Hashgraphs: 3-6 random topological orders, 3 downward-closed "
        "cuts, Badger store with two cache sizes, batch sizes {2,3,5,7,11,once-at-end}; pairwise comparison of projected observables (round, witness, "
        "lamport, projected fame, round-received, blocks incl. frame hash) and per-run replay on the model (per-event and batched).")
    agg = cov.get("histogram", {}).get("totals", {})
    cov["distinct_nontrivial"] = sum(1 for s in res["stats"] if s.get("blocks", 0) > 0 and s.get("a:dag-order-runs", 0) > 0)
    for fl, c in extra.items():
        cov["evaluations"] += c["evaluations"]; cov["histories"] += c["histories"]
        cov["traces_validated_against_impl"] += c["traces_validated_against_impl"]
        cov["distinct_nontrivial"] += sum(1 for s in simcommon.run(ctx, fl)["stats"] if s.get("a:later-round-decided-first", 0) > 0)
        cov["distribution_" + fl] = c["distribution"]; cov["histogram_" + fl] = c["histogram"]
    cov["rule"] += (" Flavours split/splitdag: directed schedules (split votes up to the coin round); a history is non-trivial when after some "
                    "action a later round was completely decided while an earlier one was not; oracle: every event that obtains a round-received "
                    "i has all rounds between its round and i decided at that moment, none of them qualifying, and all famous witnesses of i see it.")
    # at most three findings per class, the classes of the known batching finding last: they must not crowd out anything else
    per, kept = {}, []
    for f in findings:
        per[f["cls"]] = per.get(f["cls"], 0) + 1
        if per[f["cls"]] <= 3:
            kept.append(f)
    kept.sort(key=lambda f: f["cls"].startswith("batching"))
    return dict(findings=kept[:15], coverage=cov, corr_diffs=diffs[:10])
