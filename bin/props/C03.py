"""C03 consensus output is a function of the DAG only."""
from props import simcommon
HARNESS = ["sim"]
ASSUMPTIONS = ["fork-free DAGs produced by honest cores; cache sizes above the number of events (below the in-flight window is not claimed)",
               "batching clause: known finding C03-batching-dependence (refuted in Coq, replayed on the code)",
               "theorems: round / witness / Lamport timestamp / strongly-see of a stored event are functions of its ancestry in per-event mode under static membership (C03_*_function_of_ancestry); admission, round-received, frames, blocks not yet covered"]
def run(ctx):
    res = simcommon.run(ctx, "dagrun")
    findings, diffs = simcommon.findings_for(res, "C03", None)
    cov = simcommon.coverage_from(res, "Each history's global DAG is re-fed to fresh Hashgraphs: 3-6 random topological orders, 3 downward-closed "
        "cuts, Badger store with two cache sizes, batch sizes {2,3,5,7,11,once-at-end}; pairwise comparison of projected observables (round, witness, "
        "lamport, projected fame, round-received, blocks incl. frame hash) and per-run replay on the model (per-event and batched).")
    agg = cov.get("histogram", {}).get("totals", {})
    cov["distinct_nontrivial"] = sum(1 for s in res["stats"] if s.get("blocks", 0) > 0 and s.get("a:dag-order-runs", 0) > 0)
    return dict(findings=findings, coverage=cov, corr_diffs=diffs)
