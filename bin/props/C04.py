"""C04 committed order extends causality; events are committed whole and once."""
from props import simcommon

HARNESS = ["sim"]
ASSUMPTIONS = [
    "event identifiers (SHA-256 hashes) determine events: no collision among the events a node is offered",
    "no equivocation in the generated histories (fork-free DAG); honest creators",
    "round-received monotone along ancestry and 'every ancestor of a committed event is committed' are NOT proved "
    "(C04_rr_monotone_statement / C04_order_extends_causality_statement are kept as Definitions): they are evaluated by "
    "the oracle on every history",
    "frames of a node that was fast-forwarded (Reset) are compared from the anchor frame on",
]

def _sum(stats, k):
    return sum(s.get(k, 0) for s in stats)

def run(ctx):
    res = simcommon.run(ctx, "static")
    # oracle findings of C04 + correspondence on the observables C04 depends on:
    #   e<id> = (round, lamport, round-received) of every stored event, d<k> = delivered block bodies
    #   (transactions in committed order), r<r> = RoundInfo (created / received lists)
    findings, diffs = simcommon.findings_for(res, "C04", ["e", "d", "r", "I"])
    cov = simcommon.coverage_from(
        res,
        "Oracle (end of every history, every node): committed sequence = frames of the processed rounds in order, joined "
        "with the harness's record of each event's parents and payload: no event twice, every parent committed earlier; "
        "block payload = concatenation of the frame events' payloads in frame order (contiguous, creator order); frame of "
        "round r = exactly the stored events with round-received r, sorted by Lamport timestamp, payload as created; "
        "Lamport timestamp = 1 + max of the parents'.")
    for fl in ("split", "stall", "splitfaults", "dyn"):
        # dyn: membership requests in the payload, some of them retried through a second validator (the same request body under
        # another signature in two events, often of the same frame): the block must carry the payload of its events whole
        # split: directed schedules (later round decided before an earlier one); stall: quorum loss then recovery with node 0 on
        # a BadgerStore whose cache (100) is smaller than the undetermined backlog: C04 oracle on that node after every action
        r2 = simcommon.run(ctx, fl)
        f2, d2 = simcommon.findings_for(r2, "C04", ["e", "d", "r", "I"])
        findings += f2; diffs += d2
        c2 = simcommon.coverage_from(r2)
        cov["evaluations"] += c2["evaluations"]; cov["histories"] += c2["histories"]
        cov["traces_validated_against_impl"] += c2["traces_validated_against_impl"]
        cov["distribution_" + fl] = c2["distribution"]; cov["histogram_" + fl] = c2["histogram"]
    findings, diffs = findings[:10], diffs[:10]
    st = res["stats"]
    cov["histogram"]["c04"] = dict(frames_checked=_sum(st, "frames"), lamport_parent_pairs=_sum(st, "ltpairs"),
                                   blocks=_sum(st, "blocks"), events=_sum(st, "events"))
    # non-trivial for C04: a history in which some block was delivered (a frame with payload was ordered)
    # while a node was lagging (late-arriving events exist)
    cov["distinct_nontrivial"] = sum(1 for s in st if s.get("lagging", 0) > 0 and s.get("blocks", 0) > 0)
    cov["rule"] += (" For C04 a history counts as non-trivial when additionally at least one block was delivered; "
                    "frames_checked / lamport_parent_pairs in histogram.c04 are the numbers of frames and (event, parent) "
                    "timestamp pairs the oracle evaluated.")
    return dict(findings=findings, coverage=cov, corr_diffs=diffs)
