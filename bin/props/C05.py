"""C05 transaction integrity."""
from props import simcommon
HARNESS = ["sim"]
ASSUMPTIONS = ["transactions are tagged with harness serial numbers (byte identity through the proxies: C20; through wire/DB: C15)",
               "injected failures: the store write of a NEW event inside InsertEvent fails (self-events and received events alike); "
               "writes of ProcessDecidedRounds (SetFrame, SetBlock, AddConsensusEvent) fail as well: after such a fault the node is no longer compared with the model (no such fault point there) but the implementation oracles go on; "
               "sync-limit truncation and lost responses come from the schedule"]
def run(ctx):
    cov, findings, diffs = None, [], []
    for fl in ("faults", "static", "splitfaults", "relag"):   # relag: a validator fast-forwards while it holds accepted, not yet recorded transactions
        res = simcommon.run(ctx, fl)
        f, d = simcommon.findings_for(res, "C05", ["pl", "SELF"])
        findings += f
        diffs += [x for x in res["diffs"] if " DIFF SELF " in " " + x or " key=pl" in x][:10]
        c = simcommon.coverage_from(res, "Oracle after every action: accepted transactions (in order) == payload of the node's own events ++ pool; "
            "every committed transaction was submitted and is committed once. Model: the pool machine predicts the payload of every self-event and the pool. flavour=" + fl)
        if fl == "faults":
            c["distinct_nontrivial"] = sum(1 for s in res["stats"] if s.get("a:fault-injected", 0) > 0)
        if fl == "splitfaults":
            # directed: a write of ProcessDecidedRounds fails while the call that unblocks a backlog of decided rounds is in a later round
            c["distinct_nontrivial"] = sum(1 for s in res["stats"] if s.get("a:pass-fault-injected", 0) > 0)

        if cov is None: cov = c
        else:
            for k in ("evaluations", "distinct_nontrivial", "histories", "traces_validated_against_impl"):
                cov[k] += c[k]
            cov["histogram_" + fl] = c["histogram"]; cov["distribution_" + fl] = c["distribution"]
    return dict(findings=findings, coverage=cov, corr_diffs=diffs)
