"""C06 liveness under fair gossip (theorems on the logic; the convergence bound is explored)."""
from props import simcommon
HARNESS = ["sim"]
ASSUMPTIONS = ["no equivocation; fewer than n/3 validators silent; PARTIAL: the bound on fair cycles is explored on real cores, not proved",
               "wall-clock timers, goroutines and the random peer selector are replaced by a deterministic fair all-pairs schedule"]
def run(ctx):
    res = simcommon.run(ctx, "live")
    findings, diffs = simcommon.findings_for(res, "C06", ["st", "pl", "I"])
    cov = simcommon.coverage_from(res, "Adversarial prefix (random schedule, truncations, lost responses, silent minority < n/3 from a random point) then "
        "fair all-pairs cycles among the live nodes until quiescence (nobody busy, everything accepted is committed by all, equal block counts); bound 30 cycles.")
    allstats = list(res["stats"])
    for fl in ("splitlive", "longsilent", "relag"):
        # relag: one validator lags from the start, wakes up holding uncommitted loaded events and fast-forwards, then the fair suffix
        # splitlive: directed split-vote prefix (undecided rounds backlog) then the fair suffix; longsilent: a minority silent for good,
        # node 0 on an InmemStore with cache 200, more than 200 further events, then the fair suffix
        r2 = simcommon.run(ctx, fl)
        f2, d2 = simcommon.findings_for(r2, "C06", ["st", "pl", "I"])
        findings += f2; diffs += d2
        c2 = simcommon.coverage_from(r2)
        cov["evaluations"] += c2["evaluations"]; cov["histories"] += c2["histories"]
        cov["traces_validated_against_impl"] += c2["traces_validated_against_impl"]
        cov["distribution_" + fl] = c2["distribution"]; cov["histogram_" + fl] = c2["histogram"]
        allstats += r2["stats"]
    findings, diffs = findings[:10], diffs[:10]
    cyc = [s.get("a:live-cycles", 0) for s in allstats]
    cov["fair_cycles_needed"] = dict(max=max(cyc) if cyc else 0, mean=round(sum(cyc) / max(1, len(cyc)), 2),
                                     histogram={str(k): cyc.count(k) for k in sorted(set(cyc))})
    cov["distinct_nontrivial"] = sum(1 for s in allstats if s.get("a:live-cycles", 0) > 0 and s.get("blocks", 0) > 0)
    return dict(findings=findings, coverage=cov, corr_diffs=diffs)
