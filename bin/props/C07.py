"""C07 event admission: tamper grammar against a bare Hashgraph, replayed on the model."""
import re, subprocess, os
import vlib

HARNESS = ["admit"]
ASSUMPTIONS = ["ECDSA verification is the harness-observed Event.Verify() result (e_sigok); hashes are injective on the run",
               "attempts arrive through InsertEventAndRunConsensus (the only entry point core.go uses)"]

def run(ctx):
    thorough = ctx["tier"] == "thorough"
    seqs, steps = (400, 80) if thorough else (40, 60)
    rc, out, dt = vlib.run_harness("admit", ["-seed", ctx["seed"], "-seqs", seqs, "-steps", steps], timeout=2400)
    if rc != 0:
        return dict(findings=[dict(cls="harness-crash", key="admit rc=%d" % rc, detail=out[-1500:])], coverage={})
    ncases, diffs, raw = vlib.run_model(out)
    findings, kinds, results = [], {}, {}
    seen = set()
    for l in out.splitlines():
        if l.startswith("V "):
            t = l.split(None, 3)
            if t[1] != "C07":
                continue
            kind = re.search(r"kind=(\S+)", l)
            key = "%s kind=%s" % (t[2], kind.group(1) if kind else "?")
            if key not in seen:
                seen.add(key)
                findings.append(dict(cls=t[2], key=key, detail=l[:600]))
        elif l.startswith("# attempt kind="):
            k = l.split("=", 1)[1]
            kinds[k] = kinds.get(k, 0) + 1
        elif l.startswith("I "):
            r = l.rsplit("=> ", 1)[1]
            results[r] = results.get(r, 0) + 1
    samples = [l[:260] for l in out.splitlines() if l.startswith("I ") and not l.endswith("=> ok")][:4]
    attempts = sum(kinds.values())
    cov = dict(evaluations=ncases, distinct_nontrivial=attempts - kinds.get("valid", 0),
               rule="%d sequences x ~%d insertion attempts into a bare Hashgraph: valid gossip interleaved with the tamper grammar "
                    "(wrong/duplicate/negative/skipped/huge index re-signed by the creator, stale signature, foreign signer, equivocation, "
                    "unknown parents, foreign creator, mis-signed membership request, duplicates, re-submission and children of rejected events); "
                    "result class and all observables compared with the model after every attempt; non-trivial = tampered attempts" % (seqs, steps),
               samples=samples, histogram=dict(kinds=kinds, results=results), traces_validated_against_impl=attempts)
    return dict(findings=findings[:12], coverage=cov, corr_diffs=diffs[:10])
