"""C08 hostile network input: helpers / real nodes / raw TCP under recover and a watchdog; the helper- and
handler-level outcomes are replayed on the Coq model Hostile.v under the detected repair configuration."""
import re
import vlib

HARNESS = ["hostile"]
ASSUMPTIONS = [
    "whether an ECDSA signature verifies, whether the store/consensus layer accepts a well-formed object, and hash "
    "comparisons are DATA (computed by the harness with its own safe reference code, universally quantified in the theorems)",
    "the model covers the validation layer (helpers, core.fastForward checks, ProcessSigPool, RPC handlers); what happens "
    "inside Hashgraph.Reset / the consensus passes after validation is observed by the oracle only (parts b, c)",
    "Go 1.23 standard library behaviour of ecdsa.Verify / big.Int.SetString / big.Int.Cmp / encoding/hex / strings.Split / "
    "utf8.ValidString and of github.com/ugorji/go/codec v1.1.7 quoteStr as transliterated in Model/Hostile.v",
    "a join request of a new peer is never fulfilled within JoinTimeout in the harness's worlds (the application refuses "
    "membership changes), so an accepted-for-consensus join is observed as a timeout error",
    "raw TCP input (part c) is exploration: sampled prefixes / truncations / bit flips / hostile JSON, not a proof about the JSON decoder",
]
TRUSTED_EXTRA = [
    "harness/cmd/hostile panic/hang classification (recover + 2 s watchdog; the site is the innermost babble function on the stack)",
    "the detected repair configuration (line C8F) selects the model variant per site from ONE probe per site; every other input of the site must agree with it",
]


def run(ctx):
    thorough = ctx["tier"] == "thorough"
    args = ["-seed", ctx["seed"]] + (["-thorough", "-cases", 1200] if thorough else ["-cases", 170])
    rc, out, dt = vlib.run_harness("hostile", args, timeout=3000)
    if rc != 0:
        return dict(findings=[dict(cls="harness-crash", key="hostile rc=%d" % rc, detail=out[-1500:])], coverage={})
    model_lines = "\n".join(l for l in out.splitlines() if l.startswith("C8")) + "\n"
    ncases, diffs, raw = vlib.run_model(model_lines, timeout=3000)

    findings, seen = [], set()
    stats, vstats = {}, {}
    helpers, outcomes_b, kinds_b, states_b = {}, {}, {}, {}
    cfg = ""
    nb = nc = 0
    samples = []
    for l in out.splitlines():
        if l.startswith("V C08 "):
            t = l.split(None, 4)
            cls = t[2].replace("/", ".")  # the class becomes part of a replay file name
            sub = t[3] if len(t) > 3 else ""
            key = cls + " " + sub
            if key not in seen:
                seen.add(key)
                findings.append(dict(cls=cls, key=(sub + " " + (t[4] if len(t) > 4 else ""))[:300], detail=l[:700]))
        elif l.startswith("Z violations["):
            m = re.match(r"Z violations\[(.*)\] (\d+)", l)
            if m:
                vstats[m.group(1)] = int(m.group(2))
        elif l.startswith("Z "):
            t = l.split()
            if len(t) == 3 and t[2].lstrip("-").isdigit():
                stats[t[1]] = int(t[2])
        elif l.startswith("C8F "):
            cfg = l[4:]
        elif l.startswith("C8 "):
            h = l.split()[1]
            helpers[h] = helpers.get(h, 0) + 1
        elif l.startswith("N "):
            nb += 1
            if len(samples) < 3 and ("PANIC" in l or "wedged" in l):
                samples.append(re.sub(r"0X[0-9A-F]{20,}", "HASH", l)[:220])
        elif l.startswith("T "):
            nc += 1
    for k, v in stats.items():
        if k.startswith("b.outcome."):
            outcomes_b[k[10:]] = v
        elif k.startswith("b.kind."):
            kinds_b[k[7:]] = v
        elif k.startswith("b.state."):
            states_b[k[8:]] = v
    # non-trivial: helper cases whose outcome is not plain success + node-level cases that were not answered ok + tcp cases
    nontriv_a = sum(v for k, v in stats.items() if k.startswith("a.") and k.count(".") == 2 and
                    k.rsplit(".", 1)[1] in ("panic", "err", "hang", "nil", "xynil") and not k.startswith("a.internal"))
    nontriv_b = sum(v for k, v in outcomes_b.items() if k != "ok")
    cov = dict(
        evaluations=ncases + nb + nc,
        distinct_nontrivial=nontriv_a + nontriv_b + nc,
        rule="(a) %d helper / handler cases replayed on the model (every validation helper over the hostile value grammar: strings, signatures, "
             "keys, integers, null elements; core.fastForward on mutated responses; ProcessSigPool); (b) %d node-level cases: real node.Node objects "
             "in every state fed SyncRequest / EagerSyncRequest / JoinRequest / FastForwardRequest / SyncResponse / FastForwardResponse objects mutated "
             "in one field (passed through the JSON wire encoding), events validly signed by a Byzantine validator, 4 multi-step scenarios, each under "
             "recover + watchdog with delivered blocks compared before/after and a liveness probe (valid sync request + valid eager sync, or a valid "
             "fast-forward retry) afterwards; (c) %d raw byte strings on a real TCP transport. non-trivial = helper cases ending in panic/error/hang/"
             "nil key, node-level cases not answered ok, all TCP cases" % (ncases, nb, nc),
        samples=samples,
        histogram=dict(model_lines_by_helper=helpers, node_outcomes=outcomes_b, node_kinds=kinds_b, node_states=states_b,
                       violations_by_class=vstats,
                       tcp={k[2:]: v for k, v in stats.items() if k.startswith("c.")},
                       repair_configuration=cfg, rebuilds=stats.get("b.rebuilds", 0), worlds=stats.get("b.worlds", 0)),
        traces_validated_against_impl=ncases,
    )
    return dict(findings=findings[:60], coverage=cov, corr_diffs=[d[:500] for d in diffs[:10]])
