"""C09 block signatures: only valid validator signatures count; the fast-sync anchor needs > 1/3."""
import re
from props import simcommon
HARNESS = ["sim"]
ASSUMPTIONS = ["in-memory store (blocks are shared pointers); the Badger copy of Block.Signatures is covered by C16",
               "ECDSA itself is trusted: the oracle re-verifies every recorded signature with keys.Verify over the node's own "
               "Body.Hash(); in the model a signature is the identifier of the body it verifies against (harness-observed)",
               "adversarial signatures travel the way the network delivers them: inside validly signed, correctly chained events of "
               "the adversary, through core.sync + ProcessSigPool (the wire format carries no signer field)",
               "after a malformed signature made ProcessSigPool panic or abort (reported), the harness removes that entry from the "
               "node's pool so that the history can continue; a real node would have crashed / would abort at every later call"]

NONVALID = ["other-body", "wrong-index", "future", "unknown-index", "malformed", "stolen", "foreign-removed", "foreign-not-yet-effective"]

RULE = ("Oracle c09Oracle (harness/cmd/sim/oracles_c09.go) after every action of every node, on the implementation only: every "
        "entry of Block.Signatures of every stored block is re-verified (keys.Verify) against that node's own body hash under the "
        "signer key of the entry, the signer must be in Store.GetPeerSet(round-received) AND in the harness' own replay of the node's "
        "delivered blocks, no signer twice under different key encodings, the node's own signatures exist only for blocks it "
        "delivered and are over the delivered body (state hash included), also inside its own gossiped events; Hashgraph.AnchorBlock "
        "is stored, carries more than ceil(n/3) (any, for n=1) distinct valid member signatures, never decreases, and "
        "GetAnchorBlockWithFrame returns that block. Flavour advsigs (-dyn -advsigs): an extra genesis validator X without a core "
        "(and, later, a joining key Y, in half of the histories already before its join is effective) gossip correctly chained events whose BlockSignatures payload is drawn from: valid, valid in a "
        "non-canonical encoding, other-body, wrong-index, future / unknown (negative) index, duplicate (same entry twice and re-sent), "
        "malformed strings, stolen (another validator's genuine signature re-sent under the adversary's event), foreign-removed (X "
        "after its own leave request took effect, for blocks of later rounds), foreign-not-yet-effective (Y for blocks of rounds "
        "before its join is effective), and events naming another validator in the signer field (must be refused on the wire path). "
        "The harness knows the ground truth of every entry it sent: a recorded entry that is not recordable, or that the key never "
        "sent, is a violation; a recordable one delivered to a node that has the block must be recorded after ProcessSigPool. "
        "A history is non-trivial when at least one non-valid adversarial signature entered a node's pool "
        "(a:c09-adv-nonvalid-pooled > 0) AND at least one node got an anchor block (a:c09-anchor-advances > 0).")

def _tier_flags(tier):
    # later flags override the ones simcommon.run puts first (Go flag package): keep the adversarial flavour inside the time budget
    if tier == "thorough":
        return ["-dyn", "-advsigs", "-maxn", "6", "-steps", "300", "-hist", "32"]
    return ["-dyn", "-advsigs", "-maxn", "5", "-steps", "200"]

def _findings(res, pid, prefixes):
    """like simcommon.findings_for, but keeps every class visible (at most 3 examples per class)"""
    per, out = {}, []
    for v in res["vlines"]:
        m = re.search(r" V (\S+) (\S+) (.*)$", v)
        if not m or m.group(1) != pid:
            continue
        cls = m.group(2)
        per[cls] = per.get(cls, 0) + 1
        if per[cls] <= 3:
            out.append(dict(cls=cls, key=m.group(3)[:200], detail=v))
    for c in res["crashed"]:
        out.append(dict(cls="harness-crash", key=c[:200], detail=c))
    _, diffs = simcommon.findings_for(res, pid, prefixes)
    return out, diffs, per

def run(ctx):
    cov, findings, diffs, classes = None, [], [], {}
    adv_stats = []
    for fl in ("dyn", "advsigs"):
        if fl == "advsigs":
            simcommon.FLAVOURS["advsigs"] = _tier_flags(ctx["tier"])
        res = simcommon.run(ctx, fl)
        f, d, per = _findings(res, "C09", ["g", "st", "ps", "I"])
        findings += f; diffs += d
        for k, v in per.items():
            classes[k] = classes.get(k, 0) + v
        c = simcommon.coverage_from(res, "")
        if fl == "advsigs":
            adv_stats = res["stats"]
        if cov is None:
            cov = c
        else:
            cov["evaluations"] += c["evaluations"]; cov["histories"] += c["histories"]
            cov["traces_validated_against_impl"] += c["traces_validated_against_impl"]
            cov["samples"] += c["samples"][:1]
        cov["histogram_" + fl] = c["histogram"]
        cov["sim_args_" + fl] = c["sim_args"]
        cov["wall_" + fl] = dict(sim_s=c["wall_sim_s"], model_s=c["wall_model_s"])
    tot = lambda k: sum(s.get(k, 0) for s in adv_stats)
    kinds, recorded = {}, {}
    for s in adv_stats:
        for k, v in s.items():
            if k.startswith("a:c09-adv-kind-"):
                kinds[k[len("a:c09-adv-kind-"):]] = kinds.get(k[len("a:c09-adv-kind-"):], 0) + v
            elif k.startswith("a:c09-adv-recorded-"):
                recorded[k[len("a:c09-adv-recorded-"):]] = recorded.get(k[len("a:c09-adv-recorded-"):], 0) + v
    nontrivial = sum(1 for s in adv_stats if s.get("a:c09-adv-nonvalid-pooled", 0) > 0 and s.get("a:c09-anchor-advances", 0) > 0)
    cov["rule"] = RULE
    cov["distinct_nontrivial"] = nontrivial
    cov.pop("histogram", None)
    cov["histogram"] = dict(
        adversarial_kinds_sent=kinds, adversarial_recorded_by_kind=recorded,
        adversarial=dict(events=tot("a:c09-adv-events"), events_by_X=tot("a:c09-adv-events-by-X"), events_by_Y=tot("a:c09-adv-events-by-Y"),
                         events_by_Y_before_its_effective_round=tot("a:c09-adv-events-by-Y-premature"),
                         signatures=tot("a:c09-adv-sigs"), inserts=tot("a:c09-adv-inserts"), deferred=tot("a:c09-adv-insert-deferred"),
                         nonvalid_pooled=tot("a:c09-adv-nonvalid-pooled"), valid_pooled=tot("a:c09-adv-valid-pooled"),
                         valid_due_and_recorded=tot("a:c09-adv-valid-due"), valid_reencoded=tot("a:c09-adv-valid-reencoded"),
                         leave_requests_by_X=tot("a:c09-adv-leave-request"), join_requests_by_Y=tot("a:c09-adv-join-request"),
                         forged_validator_events=tot("a:c09-adv-forged-validator-events"),
                         forged_validator_rejected=tot("a:c09-adv-forged-validator-rejected"),
                         sigpool_panics=tot("a:c09-sigpool-panic"), sigpool_error_aborts=tot("a:c09-sigpool-error-abort")),
        oracle_advsigs=dict(signatures_checked=tot("a:c09-sigs-checked"), distinct_verifications=tot("a:c09-sigs-verified-fresh"),
                            blocks_checked=tot("a:c09-blocks-checked"), self_signatures_checked=tot("a:c09-self-sigs-checked"),
                            own_gossiped_signatures_checked=tot("a:c09-own-gossiped-sigs-checked"),
                            anchor_checks=tot("a:c09-anchor-checks"), anchor_advances=tot("a:c09-anchor-advances"),
                            anchor_with_frame_calls=tot("a:c09-anchor-with-frame-calls"),
                            anchor_margin={str(m): tot("a:c09-anchor-margin-%d" % m) for m in (1, 2, 3)}),
        histories_with_anchor=sum(1 for s in adv_stats if s.get("a:c09-anchor-advances", 0) > 0),
        histories_with_nonvalid_pooled=sum(1 for s in adv_stats if s.get("a:c09-adv-nonvalid-pooled", 0) > 0),
        violation_classes=classes)
    bad = {k: v for k, v in recorded.items() if k in NONVALID and v > 0}
    if bad and not any(f["cls"] == "adversarial-signature-recorded" for f in findings):
        findings.append(dict(cls="adversarial-signature-recorded", key="counters %s" % bad, detail="Z counters a:c09-adv-recorded-*: %s" % bad))
    return dict(findings=findings[:24], coverage=cov, corr_diffs=diffs)
