"""C11 crash recovery: Badger-backed real cores inside gossip histories, crash points at store-write
granularity (directory snapshots), real kills with continuation, clean shutdown, restart twice, the directed
early-signature scenario (regression input of fix d90db55: staged on every run, must show identical re-delivery),
real SIGKILLs of a child node process; every recovery is compared with the durable
pre-crash observations (oracle) and with the extracted model of Bootstrap run on the write-log prefix."""
import os, re, subprocess, time
from concurrent.futures import ThreadPoolExecutor
import vlib

HARNESS = ["crash"]
ASSUMPTIONS = [
    "Badger: a committed transaction is atomic and durable, transactions become durable in commit order (the crashed "
    "database is the write log cut at an arbitrary entry); SyncWrites=false as configured by babble: durability against "
    "process death (SIGKILL), not against power loss",
    "crash points are taken between two hg.Store write calls (SetEvent, SetRound, SetBlock, SetFrame, SetPeerSet, Reset) by "
    "copying the Badger directory after the call's Commit returned (no concurrent writer below the 64 MB memtable threshold); "
    "crash points inside one BadgerStore method (SetPeerSet = several transactions) and inside Badger are only reached by the "
    "real SIGKILL exploration",
    "the application is deterministic and reset before bootstrap (it answers the same state hash / receipts for the same blocks)",
    "store cache larger than the history (no LRU eviction during bootstrap); a node that fast-forwarded (Hashgraph.Reset restarts the "
    "topological counter; documented in the code: 'WE CAN ONLY BOOTSTRAP FROM 0') is out of scope",
    "hash ordinals identify events on the run (premise wf of the theorems)",
]
TRUSTED_EXTRA = ["runner/crashdrv.ml (log parsing, installs the bootstrapped model state as a trace node of hgdrv)"]

CLASSES = ["redelivered-block-differs", "redelivery-missing-block", "unknown-event-after-restart", "event-lost-after-restart",
           "self-fork-after-restart", "disagreement-after-restart", "not-persisted-after-restart"]


def _exe(name):
    # vlib.exe (newer vlib): binaries built against a scratch tree ($VERIF_REPO) live in build/alt
    return vlib.exe(name) if hasattr(vlib, "exe") else os.path.join(vlib.BUILD, name)


def _shard(job):
    name, args, path = job
    t0 = time.time()
    with open(path, "w") as fo:
        p = subprocess.run([_exe("crash")] + [str(a) for a in args], stdout=fo,
                           stderr=subprocess.PIPE, env=vlib.GOENV, timeout=3400)
    t1 = time.time()
    for attempt in (1, 2):
        with open(path) as fi:
            q = subprocess.run([os.path.join(vlib.BUILD, "runner")], stdin=fi, stdout=subprocess.PIPE,
                               stderr=subprocess.STDOUT, timeout=3400)
        if q.returncode >= 0:
            break          # a negative code = killed by a signal (shared machine): one more try, then reported
    return dict(name=name, args=[str(a) for a in args], rc=p.returncode, err=p.stderr.decode("utf-8", "replace")[-1500:],
                run_rc=q.returncode, runner_out=q.stdout.decode("utf-8", "replace"), path=path,
                sim_s=t1 - t0, run_s=time.time() - t1)


def run(ctx):
    thorough = ctx["tier"] == "thorough"
    seed = ctx["seed"]
    tdir = os.path.join(vlib.BUILD, "c11-%s-%d" % (ctx["tier"], seed))
    os.makedirs(tdir, exist_ok=True)
    jobs = []
    if thorough:
        for i in range(12):
            jobs.append(("static%d" % i, ["-seed", seed * 1000 + i, "-hist", 5, "-maxn", 6, "-steps", 280, "-fullops", 4,
                                         "-snaprate", 0.02, "-kills", 3], None))
        for i in range(6):
            jobs.append(("dyn%d" % i, ["-seed", seed * 1000 + 100 + i, "-hist", 3, "-maxn", 5, "-steps", 520, "-dyn", "-fullops", 3,
                                      "-snaprate", 0.01, "-kills", 3], None))
        for i in range(3):
            jobs.append(("byz%d" % i, ["-seed", seed * 1000 + 200 + i, "-hist", 0, "-byz"], None))
        for i in range(4):
            jobs.append(("sigkill%d" % i, ["-seed", seed * 1000 + 300 + i, "-hist", 0, "-sigkill", 12, "-maxn", 5], None))
        workers = 8
    else:
        for i in range(5):
            jobs.append(("static%d" % i, ["-seed", seed * 1000 + i, "-hist", 2, "-maxn", 5, "-steps", 100, "-fullops", 1,
                                         "-snaprate", 0.008, "-kills", 2], None))
        for i in range(2):
            jobs.append(("dyn%d" % i, ["-seed", seed * 1000 + 100 + i, "-hist", 1, "-maxn", 4, "-steps", 260, "-dyn", "-fullops", 1,
                                      "-snaprate", 0.004, "-kills", 2], None))
        for i in range(2):
            jobs.append(("byz%d" % i, ["-seed", seed * 1000 + 200 + i, "-hist", 0, "-byz"], None))
        jobs.append(("sigkill0", ["-seed", seed * 1000 + 300, "-hist", 0, "-sigkill", 3, "-maxn", 4], None))
        workers = 10
    jobs = [(n, a, os.path.join(tdir, n + ".txt")) for (n, a, _) in jobs]
    with ThreadPoolExecutor(max_workers=workers) as ex:
        res = list(ex.map(_shard, jobs))

    findings, diffs, seen = [], [], set()
    cases, hist, tot = 0, 0, {}
    samples = []
    staged_byz, byz_jobs, byz_identical = 0, 0, 0
    for r in res:
        if r["rc"] != 0:
            findings.append(dict(cls="harness-crash", key="crash %s rc=%d" % (r["name"], r["rc"]), detail=r["err"]))
        m = re.search(r"^DONE (\d+) (\d+)", r["runner_out"], re.M)
        if r["run_rc"] != 0 or not m:
            diffs.append("runner failed on %s (rc=%s): %s" % (r["name"], r["run_rc"], r["runner_out"][-600:]))
        else:
            cases += int(m.group(1))
        for l in r["runner_out"].splitlines():
            if l.startswith("DIFF"):
                diffs.append("%s %s" % (r["name"], l[:500]))
        with open(r["path"]) as f:
            for l in f:
                if l.startswith("V "):
                    t = l.split(None, 3)
                    if t[1] != "C11":
                        # an oracle of another property fired inside these histories: report it under its own class
                        findings.append(dict(cls="other-property-" + t[1] + "-" + t[2], key=(t[3] if len(t) > 3 else "")[:200], detail=l[:600]))
                        continue
                    sc = re.search(r"scenario=(\S+)", l)
                    kind = re.search(r"kind=(\S+)", l)
                    key = "%s scenario=%s kind=%s" % (t[2], sc.group(1) if sc else "?", kind.group(1) if kind else "-")
                    if key not in seen:
                        seen.add(key)
                        findings.append(dict(cls=t[2], key=key, detail=("%s [replay: build/crash %s]: " % (r["name"], " ".join(r["args"]))) + l.strip()[:700]))
                elif l.startswith("Z "):
                    hist += 1
                    for kv in l.split()[2:]:
                        k, v = kv.split("=")
                        tot[k] = max(tot.get(k, 0), int(v)) if k == "maxevents" else tot.get(k, 0) + int(v)
                elif l.startswith("CC ") and len(samples) < 3:
                    samples.append(l.strip()[:240])
                elif l.startswith("# byz: signature") and len(samples) < 5:
                    samples.append(l.strip()[:240])
        if r["name"].startswith("byz"):
            with open(r["path"]) as f:
                txt = f.read()
                byz_jobs += 1
                staged_byz += 1 if "a:byz-signature-before-block-across-batch-boundary=1" in txt else 0
                byz_identical += 1 if "a:byz-redelivery-identical=1" in txt else 0
        if not os.environ.get("VERIF_KEEP_TRACES"):
            try: os.remove(r["path"])
            except OSError: pass
    # regression input of fix d90db55 (KNOWN_FINDINGS C11-bootstrap-sigpool-reads-old-blocks, fixed): every directed scenario must
    # really have been staged (a signature inserted before its block, across a bootstrap batch boundary); a run in which it cannot
    # be staged proves nothing about the fix and is reported. If the fix is reverted the oracle reports
    # redelivered-block-differs scenario=early-signature as an ordinary VIOLATION (the known entry is not open any more).
    if staged_byz < byz_jobs or byz_jobs == 0:
        diffs.append("directed early-signature scenario (regression input of d90db55) could not be staged in %d of %d runs"
                     % (byz_jobs - staged_byz, byz_jobs))
    snap_kinds = {k[2:]: v for k, v in tot.items() if k.startswith("s:")}
    writes = {k[4:]: v for k, v in tot.items() if k.startswith("a:w:")}
    cov = dict(
        evaluations=cases, distinct_nontrivial=tot.get("midop", 0), histories=hist,
        recoveries_checked=tot.get("checks", 0), recoveries_compared_with_model=tot.get("modelchecks", 0),
        rule="gossip histories over real node.core objects with 1-2 nodes on a real BadgerStore (static and dynamic membership); "
             "the decorated store logs every acknowledged write; a recovery check = copy of the DB directory at a write ordinal, fresh "
             "BadgerStore + core with a reset application, core.bootstrap + setHeadAndSeq, then (oracle) blocks re-delivered vs the durable "
             "pre-crash delivery log, events / KnownEvents vs the events whose write completed, the DB's own topological listing vs the log, "
             "head/seq vs the last own written event and vs what the other nodes know, and (model) Recovery.bootstrap on the log prefix "
             "compared on every observable of the recovered node. EVERY write ordinal inside selected operations, random ordinals elsewhere, "
             "real kills (operation abandoned at the k-th write, node replaced by the recovered one, history continues: agreement, fresh "
             "self-event, persistence of post-restart writes, restart twice), clean shutdown of every Badger node, the directed early-signature "
             "scenario (a signature inserted before its block across a bootstrap batch boundary: regression input of fix d90db55), real SIGKILLs "
             "of a child node process. non-trivial = recovery checks whose crash point lies inside an operation "
             "(taken from within a store write, not at an operation boundary)",
        samples=samples,
        histogram=dict(crash_points_after_write_kind=snap_kinds, writes_logged=writes,
                       restarts=tot.get("restarts", 0), lineages_restarted_twice=tot.get("restarted-twice", 0),
                       killed_mid_operation=tot.get("killed-mid-operation", 0), blocks_redelivered_compared=tot.get("redelivered", 0),
                       fresh_self_event_checks=tot.get("a:fresh-self-event-checked", 0), max_events_in_a_recovery=tot.get("maxevents", 0),
                       sigkills=tot.get("a:sigkill", 0), sigkill_too_early=tot.get("a:sigkill-too-early", 0),
                       joins=tot.get("a:node-joined", 0), leaves=tot.get("a:node-left", 0),
                       regression_early_signature=dict(runs=byz_jobs, staged=staged_byz, identical_redelivery=byz_identical)),
        traces_validated_against_impl=hist, shards=[dict(name=r["name"], args=" ".join(r["args"]), sim_s=round(r["sim_s"], 1),
                                                        model_s=round(r["run_s"], 1)) for r in res])
    return dict(findings=findings[:12], coverage=cov, corr_diffs=diffs[:10])
