"""C12 fast-sync acceptance: mutation grammar on valid (block, frame, snapshot) responses against real cores and Nodes."""
from props import ffcommon

HARNESS = ["ff"]
ASSUMPTIONS = [
    "ECDSA verification is data: the outcome of Block.Verify on each signature-map entry (true / false-or-error / panic) is observed by the harness",
    "SHA256 is injective on the run: frame hashes are ordinals; a peer-set hash is identified with the ordered key list it is the hash of",
    "Hashgraph.Reset is the subject of C13: whether Reset+setHeadAndSeq succeed on a frame that passed the checks is observed, not modelled",
    "the node's own configured / stored peers have canonical key strings (0X + upper-case hex); spellings in RESPONSES are arbitrary and modelled",
    "proxy.Restore does not fail (the recording application proxy of the harness never returns an error)",
]
TRUSTED_EXTRA = ["runner/ffdrv.ml (parsing of FR/FF/NF lines) and harness/cmd/ff (mutation grammar, state digest, oracle) are trusted glue"]


def run(ctx):
    res = ffcommon.run(ctx)
    findings = ffcommon.findings_for(res, "C12")
    cov = ffcommon.coverage_from(res, "Oracle (independent of the model): an adopted response must have frame hash = block frame hash, "
                                 "peer-set hash = block peers hash, and verifying signatures of more than a third of the DISTINCT members "
                                 "(by key bytes) of the frame's set; a refused response must leave the full state digest (known events, last "
                                 "events and roots, blocks with signatures, peer sets, rounds, hashgraph scalars, head/seq, validators, peers, "
                                 "pools) and the application's Restore log unchanged; a panic is a violation.")
    if res["rule"] != ffcommon.REQUIRED_RULE:
        ctx["notes"].append("the tree does not implement the repaired fast-sync rule: detected %s, missing: %s"
                            % (res["rule"], ", ".join(res.get("lost_repairs", []))))
    return dict(findings=findings, coverage=cov, corr_diffs=res["diffs"][:12])
