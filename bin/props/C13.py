"""C13 fast-sync continuity: joiners that reset themselves from an honest peer's anchor vs full-history nodes."""
from props import simcommon
HARNESS = ["sim"]
ASSUMPTIONS = ["PARTIAL: Reset / InsertFrameEvent are not in the Coq model yet; reset nodes are compared with full-history nodes (oracle), "
               "full-history nodes with the model", "honest serving peers; anchor + frame pass through a JSON round trip as on the transport"]
def run(ctx):
    res = simcommon.run(ctx, "ff")
    findings, diffs = simcommon.findings_for(res, "C13", None)
    cov = simcommon.coverage_from(res, "Dynamic-membership histories in which half of the joiners fast-forward from a random peer's anchor "
        "(any pending join/leave inside the six-round window included) and keep gossiping; after every action: blocks of reset nodes vs full-history "
        "nodes index by index (body, frame hash, peers hash), validator-set history, rounds of the events inserted after the reset.")
    ffs = sum(s.get("a:fast-forwards", 0) for s in res["stats"])
    cov["fast_forwards"] = ffs
    cov["distinct_nontrivial"] = sum(1 for s in res["stats"] if s.get("a:fast-forwards", 0) > 0)
    return dict(findings=findings, coverage=cov, corr_diffs=diffs)
