"""C13 fast-sync continuity: joiners that reset themselves from an honest peer's anchor vs full-history nodes,
and the reset path itself (Hashgraph.Reset / InsertFrameEvent / core.fastForward) vs the Coq model."""
import os, re, subprocess
import vlib
from props import simcommon
HARNESS = ["sim", "resetwit"]
ASSUMPTIONS = [
    "the model of the reset path (Model/HgReset.v) covers InmemStore.Reset (the store every harness node uses for joiners); "
    "BadgerStore.Reset is not modelled",
    "checkFastForward (signatures / frame hash) is C12/C14's model; the reset model starts after it succeeded; honest serving peers; "
    "anchor + frame pass through a JSON round trip as on the transport",
    "Frame.SortedFrameEvents: no two root / frame events tie on (Lamport timestamp, signature R) -- Go's sort is unstable and its input order "
    "is a map iteration; the model's insertion sort is THE sorted order only when the keys are distinct (distinct signatures)",
    "setHeadAndSeq / setPeers (head, seq, peer selector) are not part of the model state; the error return of setHeadAndSeq inside core.fastForward "
    "(unreachable with InmemStore) is not modelled",
    "setFrameEventWireInfo has no counterpart in the model state (wire fields are C15's model); its effect is covered by the oracle only",
    "continuity after the reset is proved only under roots_sufficient (C13_continuity_round_partial); without it the statement is "
    "refuted (C13_roots_insufficient_refuted = known finding C13-roots-insufficient); the block-level statement is a Definition",
]
WITNESS = os.path.join(vlib.ROOT, "corpus", "C13-roots-insufficient.trace")
# the history behind C13_after_reset_served_nonvacuous (Proofs/ResetWitnessDeliv.v): a reset node that delivers two more blocks
AFTER_RESET_EXAMPLE = os.path.join(vlib.ROOT, "corpus", "C13-after-reset-example.trace")

def replay_witness(ctx, path=WITNESS):
    """Replay a recorded history (by default the minimised one behind C13_roots_insufficient_refuted) on the real cores
    and on the model."""
    if not os.path.exists(path):
        return None
    script, n = None, 0
    for l in open(path):
        if l.startswith("# SCRIPT "):
            script = l[len("# SCRIPT "):].strip()
        elif l.startswith("N "):
            n += 1
    if not script:
        return None
    p = subprocess.run([vlib.exe("resetwit"), "-n", str(n), "-script", script],
                       stdout=subprocess.PIPE, stderr=subprocess.PIPE, env=vlib.GOENV, timeout=600)
    trace = p.stdout.decode("utf-8", "replace")
    q = subprocess.run([os.path.join(vlib.BUILD, "runner")], input=p.stdout, stdout=subprocess.PIPE,
                       stderr=subprocess.STDOUT, timeout=600)
    rout = q.stdout.decode("utf-8", "replace")
    m = re.search(r"^DONE (\d+) (\d+)", rout, re.M)
    vl = [l for l in trace.splitlines() if l.startswith("V ")]
    return dict(rc=p.returncode, vlines=vl, cases=int(m.group(1)) if m else 0,
                diffs=[l[:600] for l in rout.splitlines() if l.startswith("DIFF")],
                runner_ok=bool(m) and q.returncode == 0, resets=trace.count("\nR "), script=script, n=n,
                err=p.stderr.decode("utf-8", "replace")[-400:])

def nonfresh_resets(ctx):
    """Random scripted histories (harness/cmd/resetwit -emit) in which the fast-forwarding validator took part in the
    gossip before falling behind: Reset from a non-trivial state, replayed on the model like everything else."""
    n = 24 if ctx["tier"] != "thorough" else 400
    p = subprocess.run([vlib.exe("resetwit"), "-emit", str(n), "-seed", str(ctx["seed"] * 31 + 7), "-n", "5", "-len", "300"],
                       stdout=subprocess.PIPE, stderr=subprocess.PIPE, env=vlib.GOENV, timeout=3000)
    q = subprocess.run([os.path.join(vlib.BUILD, "runner")], input=p.stdout, stdout=subprocess.PIPE, stderr=subprocess.STDOUT, timeout=3000)
    trace, rout = p.stdout.decode("utf-8", "replace"), q.stdout.decode("utf-8", "replace")
    m = re.search(r"^DONE (\d+) (\d+)", rout, re.M)
    z = re.search(r"^Z emit scripts=(\d+) resets=(\d+) diverged=(\d+)", trace, re.M)
    return dict(rc=p.returncode, runner_ok=bool(m) and q.returncode == 0, cases=int(m.group(1)) if m else 0,
                diffs=[l[:600] for l in rout.splitlines() if l.startswith("DIFF")],
                vlines=[l for l in trace.splitlines() if l.startswith("V ")],
                scripts=int(z.group(1)) if z else 0, resets=int(z.group(2)) if z else 0, diverged=int(z.group(3)) if z else 0,
                err=p.stderr.decode("utf-8", "replace")[-400:])

def run(ctx):
    res = simcommon.run(ctx, "ff")
    findings, diffs = simcommon.findings_for(res, "C13", None)
    cov = simcommon.coverage_from(res, "Dynamic-membership histories in which half of the joiners fast-forward from a random peer's anchor "
        "(any pending join/leave inside the six-round window included) and keep gossiping. The fast-forward itself is replayed on the model: "
        "the block + frame + event bodies the victim received are compared with what the model of the SERVING node answers (kinds RB, RF, RC), "
        "the premises of the reset-state and after-reset theorems are evaluated on the received data (kinds RS = frame_shapeb, RP = after_reset_premisesb), "
        "the model victim is reset from them (kind R) and from then on every observable of the reset node (events with round / Lamport / "
        "round-received and coordinates, round table, blocks, signatures, queues, counters, known map, validator-set table) is compared "
        "with the model after every action, like any other node. Oracle, after every action: blocks of reset nodes vs full-history "
        "nodes index by index (body, frame hash, peers hash), validator-set history, rounds of the events inserted after the reset.")
    ffs = sum(s.get("a:fast-forwards", 0) for s in res["stats"])
    cov["fast_forwards"] = ffs
    cov["fast_forwards_replayed_on_model"] = ffs
    cov["reset_node_actions_compared_with_model"] = sum(s.get("a:ff-model-compared-actions", 0) for s in res["stats"])
    cov["frame_events_inserted"] = sum(s.get("a:ff-frame-events", 0) for s in res["stats"])
    cov["root_events_inserted"] = sum(s.get("a:ff-root-events", 0) for s in res["stats"])
    cov["frames_with_pending_membership_change"] = sum(s.get("a:ff-multi-peerset-frames", 0) for s in res["stats"])
    cov["frames_by_peerset_history_length"] = {k: sum(s.get("a:ff-frames-with-%s" % k, 0) for s in res["stats"])
                                               for k in ("1-peerset", "2-peersets", "3plus-peersets")}
    cov["reset_node_lookup_probes"] = sum(s.get("a:ff-lookup-probes", 0) for s in res["stats"])
    # legitimate refusals since fix a41e4c4 (at most TrustCount signers known to the joiner: C14_honest_accept_iff); statistic only
    cov["honest_anchor_refused_too_few_known_signers"] = sum(s.get("a:honest-anchor-refused-too-few-known-signers", 0) for s in res["stats"])
    cov["distinct_nontrivial"] = sum(1 for s in res["stats"] if s.get("a:fast-forwards", 0) > 0 and s.get("a:ff-model-compared-actions", 0) > 0)
    cov["rule"] += (" For C13 a history is non-trivial when at least one node fast-forwarded AND went on to act afterwards "
                    "(its later observables were compared with the model).")
    # the refutation witness, replayed on the implementation and on the model
    w = replay_witness(ctx)
    if w is not None:
        cov["witness_replay"] = dict(script=w["script"], validators=w["n"], resets=w["resets"], model_cases=w["cases"],
                                     model_diffs=len(w["diffs"]), oracle=[v[:300] for v in w["vlines"]][:3])
        cov["evaluations"] = cov.get("evaluations", 0) + w["cases"]
        if w["rc"] != 0 or not w["runner_ok"]:
            findings.append(dict(cls="harness-crash", key="resetwit replay rc=%s %s" % (w["rc"], w["err"][:200]), detail=w["err"]))
        for d in w["diffs"][:5]:
            diffs.append("witness-replay " + d)
        for v in w["vlines"]:
            m = re.search(r"^V (\S+) (\S+) (.*)$", v)
            if m and m.group(1) == "C13":
                findings.append(dict(cls=m.group(2), key=m.group(3)[:200], detail="witness-replay " + v))
        if not any("round-differs-after-reset" in v for v in w["vlines"]):
            ctx["notes"].append("the recorded witness of C13_roots_insufficient_refuted no longer diverges on this tree "
                                "(the Coq refutation is about the model of the pinned code)")
    # the non-vacuity example of the after-reset theorems: same replay, no divergence and no model difference expected
    x = replay_witness(ctx, AFTER_RESET_EXAMPLE)
    if x is not None:
        cov["after_reset_example_replay"] = dict(script=x["script"], validators=x["n"], resets=x["resets"], model_cases=x["cases"],
                                                 model_diffs=len(x["diffs"]), oracle=[v[:300] for v in x["vlines"]][:3])
        cov["evaluations"] = cov.get("evaluations", 0) + x["cases"]
        if x["rc"] != 0 or not x["runner_ok"]:
            findings.append(dict(cls="harness-crash", key="resetwit example replay rc=%s %s" % (x["rc"], x["err"][:200]), detail=x["err"]))
        for d in x["diffs"][:5]:
            diffs.append("after-reset-example " + d)
        for v in x["vlines"][:5]:
            m = re.search(r"^V (\S+) (\S+) (.*)$", v)
            if m and m.group(1) == "C13":
                findings.append(dict(cls=m.group(2), key=m.group(3)[:200], detail="after-reset-example " + v))
    # resets of validators that already had a history (the sim's joiners are fresh)
    e = nonfresh_resets(ctx)
    cov["nonfresh_reset_scripts"] = dict(scripts=e["scripts"], resets=e["resets"], model_cases=e["cases"], model_diffs=len(e["diffs"]),
                                         round_divergences=e["diverged"])
    cov["evaluations"] = cov.get("evaluations", 0) + e["cases"]
    cov["fast_forwards_replayed_on_model"] = cov.get("fast_forwards_replayed_on_model", 0) + e["resets"]
    if e["rc"] != 0 or not e["runner_ok"]:
        findings.append(dict(cls="harness-crash", key="resetwit -emit rc=%s %s" % (e["rc"], e["err"][:200]), detail=e["err"]))
    for d in e["diffs"][:5]:
        diffs.append("nonfresh-reset " + d)
    for v in e["vlines"][:5]:
        m = re.search(r"^V (\S+) (\S+) (.*)$", v)
        if m and m.group(1) == "C13":
            findings.append(dict(cls=m.group(2), key=m.group(3)[:200], detail="nonfresh-reset " + v))
    return dict(findings=findings[:12], coverage=cov, corr_diffs=diffs)
