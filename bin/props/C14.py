"""C14 fast-sync trust: forged responses (self-made validator sets signed by strangers) against real cores and Nodes."""
from props import ffcommon

HARNESS = ["ff"]
ASSUMPTIONS = [
    "the sets a node has reason to trust are: its configured peers, its genesis peers, its current validators, the peer sets of its store",
    "ECDSA verification, SHA256 and Hashgraph.Reset as for C12 (observed data)",
]
TRUSTED_EXTRA = ["runner/ffdrv.ml and harness/cmd/ff are trusted glue"]


def run(ctx):
    res = ffcommon.run(ctx)
    findings = ffcommon.findings_for(res, "C14")
    cov = ffcommon.coverage_from(res, "Oracle (independent of the model): a response is adopted although none of the distinct members with a "
                                 "verifying signature belongs to a set the victim knew before the call (configured peers, genesis peers, "
                                 "validators, store peer sets) -> stranger-set-adopted. Forged responses: validator sets of 1, 2, 4 strangers "
                                 "(with/without the honest events and peer-set history), one stranger respelled, a forged set naming the "
                                 "victim's key, a forged block index of 1000000 competing with honest answers at node level.")
    forged = res["kinds"].get("forged", 0) + res["kinds"].get("honest+forged", 0) + res["kinds"].get("insider", 0)
    cov["distinct_nontrivial"] = res.get("distinct_forged", 0)
    cov["rule"] += (" For C14: distinct_nontrivial = distinct (forged/insider mutation kind, victim state, result class); "
                    "%d forged-response cases in this run." % forged)
    # disagreements that are panics on malformed signature maps are C12's (known finding there)
    diffs = [d for d in res["diffs"] if not isinstance(d, dict)]
    return dict(findings=findings, coverage=cov, corr_diffs=diffs[:12])
