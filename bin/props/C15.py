"""C15 encoding identity: events, blocks and frames over the shape product through the real conversions
(ToWire/ReadWireInfo, encoding/json, TCP and in-memory transports, MarshalDB, BadgerStore, ugorji frames),
compared before/after (oracle) and with the extracted Coq model (correspondence)."""
import re
import vlib

HARNESS = ["wire"]
ASSUMPTIONS = [
    "SHA256 is collision resistant: a hash is modelled by its input (the JSON document); base64 and hex are bijections",
    "JSON text <-> abstract syntax is a bijection except for the one distinction the model keeps explicit "
    "(an invalid UTF-8 byte is written as the escape \\ufffd, a valid U+FFFD as itself)",
    "ECDSA: a signature verifies after a conversion iff the signed digest input, the key and the signature string are unchanged",
    "domain of the round trip theorems: exactly two parent slots, self-parent by the same creator, block signatures by the "
    "creator (what core.go produces and InsertEvent admits), valid UTF-8 strings; shapes outside are generated too and must "
    "deviate exactly as the model predicts",
]
TRUSTED_EXTRA = ["W C15 raw-codec-hangs-on-refused-text: ugorji v1.1.7 still does not terminate on U+FFFD (C15_frame_hash_total_refuted, a fact about "
                 "the library, exercised by direct Frame.Hash calls in child processes); it is a violation only when Frame.ValidateText accepts the frame",
                 "token printers/parsers harness/cmd/wire/tokens.go and runner/wiredrv.ml (string and key atoms: h<n>, k<n>)",
                 "cases whose frame codec may not terminate run in child processes with a 3 s deadline (HANG0/HANG1)"]


def run(ctx):
    thorough = ctx["tier"] == "thorough"
    args = ["-seed", ctx["seed"]] + (["-thorough"] if thorough else ["-scens", 8, "-steps", 60, "-cscens", 2, "-syn", 140, "-risky", 4])
    rc, out, dt = vlib.run_harness("wire", args, timeout=3000)
    if rc != 0:
        return dict(findings=[dict(cls="harness-crash", key="wire rc=%d" % rc, detail=out[-1500:])], coverage={})
    # replays on real node cores: the join request with U+FFFD text must be refused / must not stop the
    # network (F1, fixed by bc8842f); thorough: a node that fast-forwarded over TCP serves readable events (F2, 5bf08c3)
    for rp in (["ufffd-join", "rewire"] if thorough else ["ufffd-join"]):
        rc2, out2, _ = vlib.run_harness("wire", ["-seed", ctx["seed"], "-replay", rp], timeout=1200)
        if rc2 != 0:
            return dict(findings=[dict(cls="harness-crash", key="wire -replay %s rc=%d" % (rp, rc2), detail=out2[-1500:])], coverage={})
        out += "\n" + out2
    ncases, diffs, raw = vlib.run_model(out, timeout=3000)
    findings, seen = [], set()
    stats, shapes, kinds, wcount, replays = {}, {}, {}, {}, []
    samples = []
    for l in out.splitlines():
        if l.startswith("V C15 "):
            t = l.split(None, 3)
            cls, detail = t[2], (t[3] if len(t) > 3 else "")
            # one finding per class and (for the codec hang) per string shape
            m = re.search(r"str:(\w+)", detail)
            norm = cls + ":" + (m.group(1) if m else re.sub(r"\d+", "N", detail)[:80])
            if norm not in seen:
                seen.add(norm)
                findings.append(dict(cls=cls, key=detail[:300], detail=l[:600]))
        elif l.startswith("W C15 "):
            t = l.split()
            wcount[t[2]] = wcount.get(t[2], 0) + 1
        elif l.startswith("Z replay "):
            replays.append(l[:300])
        elif l.startswith("Z stat "):
            t = l.split()
            stats[t[2]] = int(t[3])
        elif l.startswith("Z shape "):
            t = l.split()
            shapes[t[2]] = int(t[3])
        elif l.startswith("C15 "):
            t = l.split(None, 4)
            k = " ".join(t[1:4]) if t[1] == "W" else (t[1] if t[1] == "C" else " ".join(t[1:3]))
            kinds[k] = kinds.get(k, 0) + 1
            if len(samples) < 5 and len(l) < 500 and t[1] in ("D", "I", "B", "C") and kinds[k] == 3:
                samples.append(l[:400])
    nontriv = [s for s in shapes if not re.match(r"^(nil/nil/nil/|block:tx:nil/itx:nil/rc:0/sigs:0$)", s)]
    cov = dict(evaluations=ncases, distinct_nontrivial=len(nontriv),
               rule="every case = one object pushed through one real conversion path and compared with the model's output "
                    "(whole resulting object, hash-unchanged bit, signature-verifies bit); shape product: events "
                    "{8 transaction shapes} x {nil, [], 1, many internal transactions} x {nil, [], 1, many block signatures} x "
                    "{4 parent combinations} + hostile shapes (foreign/nil validator, invalid UTF-8, U+FFFD); blocks and frames with "
                    "nil/empty/non-empty at every slice, map and pointer level, real blocks/frames of consensus runs; non-trivial = "
                    "distinct shape-product points exercised other than the all-nil ones",
               samples=samples, histogram=dict(cases_by_kind_and_path=kinds, harness_stats=stats, documented_library_facts=wcount),
               replays_on_real_cores=replays,
               shapes_exercised=len(shapes), traces_validated_against_impl=ncases)
    return dict(findings=findings[:12], coverage=cov, corr_diffs=diffs[:10])
