"""C16 store fidelity: every operation of generated sequences on the real BadgerStore vs the Coq model and vs a plain map."""
import re
from concurrent.futures import ThreadPoolExecutor
import vlib
from props import storehgcommon

HARNESS = ["store", "storehg"]
ASSUMPTIONS = ["Badger's per-transaction atomicity and durability; JSON codecs are the identity on the modelled content (C15)",
               "indexes in [0, 10^9) (the %09d key format); Reset/Bootstrap/maintenance mode are covered by C11/C13"]
TRUSTED_EXTRA = ["documented deviations W1-W5 of the real store from a plain map (DESIGN.md C16) are classified by the harness, proved as refutation witnesses in Properties/C16.v, and never reported as violations"]

def run(ctx):
    thorough = ctx["tier"] == "thorough"
    # part "hg-traffic" (real gossip histories through a recording decorator) runs alongside the direct sequences
    ex = ThreadPoolExecutor(max_workers=1)
    hg_future = ex.submit(storehgcommon.run, ctx)
    args = ["-seed", ctx["seed"]] + (["-thorough"] if thorough else ["-seqs", 300, "-ops", 150])
    rc, out, dt = vlib.run_harness("store", args, timeout=3000)
    if rc != 0:
        return dict(findings=[dict(cls="harness-crash", key="store rc=%d" % rc, detail=out[-1500:])], coverage={})
    ncases, diffs, raw = vlib.run_model(out, timeout=3000)
    findings, seen, wcount, kinds, seqs, nontriv = [], set(), {}, {}, 0, 0
    samples = []
    for l in out.splitlines():
        if l.startswith("V "):
            t = l.split(None, 3)
            key = t[2]
            if key not in seen:
                seen.add(key)
                findings.append(dict(cls=t[2], key=(t[3] if len(t) > 3 else "")[:200], detail=l[:600]))
        elif l.startswith("W "):
            w = l.split()[1]
            wcount[w] = wcount.get(w, 0) + 1
        elif l.startswith("Z "):
            seqs += 1
            m = re.search(r"evict>=(\d+)", l)
            r = re.search(r"reopen=(\d+)", l)
            if (m and int(m.group(1)) > 0) or (r and int(r.group(1)) > 0):
                nontriv += 1
        elif l.startswith("S ") and " => " in l:
            op = l.split()[3]
            kinds[op] = kinds.get(op, 0) + 1
            if len(samples) < 4 and op in ("SetEvent", "PEvents", "DbTopo", "Reopen"):
                samples.append(l[:200])
    cov = dict(evaluations=ncases, distinct_nontrivial=nontriv,
               rule="operation sequences (disciplined ~75%% / undisciplined) on a real BadgerStore with cache sizes {1,2,3,4,5,8,50,10000} incl. "
                    "close/reopen; every operation's result compared with the extracted model, and every compared read with a plain Go map "
                    "of the acknowledged writes; non-trivial = sequences in which an eviction was forced or the store was reopened (%d sequences)" % seqs,
               samples=samples, histogram=dict(ops=kinds, documented_deviations=wcount), traces_validated_against_impl=seqs)
    hgres = hg_future.result()
    ex.shutdown()
    hgf = storehgcommon.findings_for(hgres, "C16")
    hgcov = storehgcommon.coverage_from(hgres)
    cov["evaluations"] += hgres["cases"]
    cov["distinct_nontrivial"] += hgcov["nontrivial"]
    cov["traces_validated_against_impl"] += hgcov["histories"]
    cov["rule"] += ("; PART hg-traffic: the store traffic of a real node core (node 0, BadgerStore behind a recording decorator) in seeded gossip "
                    "histories with in-memory peers and a late block signer, regimes stress (cache 3..30, far below the node's window), window "
                    "(cache 100, > cache-size blocks, late signatures re-save evicted blocks) and default (cache 10000); every store operation of "
                    "the node is replayed on the extracted model; oracle = plain map of the last acknowledged write per key, checked on every "
                    "DB fall-through read of the node, on harness reads through the same store after every action (incl. the oldest keys), "
                    "on the DB copy of every key written in the action, on snapshot copies and after the final close/reopen; non-trivial = "
                    "histories in which the node read or re-saved an evicted key (%d of %d histories)" % (hgcov["nontrivial"], hgcov["histories"]))
    cov["hg_traffic"] = hgcov
    cov["samples"] = cov["samples"][:3] + hgcov["samples"][:2]
    return dict(findings=(hgf + findings)[:12], coverage=cov, corr_diffs=(hgres["diffs"] + diffs)[:10])
