"""C16 store fidelity: every operation of generated sequences on the real BadgerStore vs the Coq model and vs a plain map."""
import re
import vlib

HARNESS = ["store"]
ASSUMPTIONS = ["Badger's per-transaction atomicity and durability; JSON codecs are the identity on the modelled content (C15)",
               "indexes in [0, 10^9) (the %09d key format); Reset/Bootstrap/maintenance mode are covered by C11/C13"]
TRUSTED_EXTRA = ["documented deviations W1-W5 of the real store from a plain map (DESIGN.md C16) are classified by the harness, proved as refutation witnesses in Properties/C16.v, and never reported as violations"]

def run(ctx):
    thorough = ctx["tier"] == "thorough"
    args = ["-seed", ctx["seed"]] + (["-thorough"] if thorough else ["-seqs", 300, "-ops", 150])
    rc, out, dt = vlib.run_harness("store", args, timeout=3000)
    if rc != 0:
        return dict(findings=[dict(cls="harness-crash", key="store rc=%d" % rc, detail=out[-1500:])], coverage={})
    ncases, diffs, raw = vlib.run_model(out, timeout=3000)
    findings, seen, wcount, kinds, seqs, nontriv = [], set(), {}, {}, 0, 0
    samples = []
    for l in out.splitlines():
        if l.startswith("V "):
            t = l.split(None, 3)
            key = t[2]
            if key not in seen:
                seen.add(key)
                findings.append(dict(cls=t[2], key=(t[3] if len(t) > 3 else "")[:200], detail=l[:600]))
        elif l.startswith("W "):
            w = l.split()[1]
            wcount[w] = wcount.get(w, 0) + 1
        elif l.startswith("Z "):
            seqs += 1
            m = re.search(r"evict>=(\d+)", l)
            r = re.search(r"reopen=(\d+)", l)
            if (m and int(m.group(1)) > 0) or (r and int(r.group(1)) > 0):
                nontriv += 1
        elif l.startswith("S ") and " => " in l:
            op = l.split()[3]
            kinds[op] = kinds.get(op, 0) + 1
            if len(samples) < 4 and op in ("SetEvent", "PEvents", "DbTopo", "Reopen"):
                samples.append(l[:200])
    cov = dict(evaluations=ncases, distinct_nontrivial=nontriv,
               rule="operation sequences (disciplined ~75%% / undisciplined) on a real BadgerStore with cache sizes {1,2,3,4,5,8,50,10000} incl. "
                    "close/reopen; every operation's result compared with the extracted model, and every compared read with a plain Go map "
                    "of the acknowledged writes; non-trivial = sequences in which an eviction was forced or the store was reopened (%d sequences)" % seqs,
               samples=samples, histogram=dict(ops=kinds, documented_deviations=wcount), traces_validated_against_impl=seqs)
    return dict(findings=findings[:10], coverage=cov, corr_diffs=diffs[:10])
