"""C17 state gate: real Nodes driven through processRPC / addTransaction / checkSuspend in every state vs the Gate model,
plus the frozen-node / suspended-sync / suspension oracles evaluated on the implementation."""
import re
import vlib

HARNESS = ["gate"]
ASSUMPTIONS = [
    "handlers are invoked synchronously through Node.VerifProcessRPC: the check-then-act window between the state gate and a "
    "handler when the state changes concurrently (goroutines of doBackgroundWork) is outside the model and the harness",
    "the effect of core.sync + processSigPool on a Babbling node is data of the model (record effect); the theorems hold for every effect",
    "Known values below -1 make the store's RollingIndex report TooLate (modelled as diff_fails) only while nothing has been evicted "
    "(cache size 50000 in the harness); SyncLimit >= 0 (a negative limit panics: listed under C08)",
    "SuspendLimit * validators does not overflow int",
]
TRUSTED_EXTRA = ["hooks used: Node.VerifProcessRPC / VerifSetState / VerifCheckSuspend / VerifAddTransaction / VerifSync / VerifMonologue / "
                 "VerifInitialUndetermined / VerifCore (src/node/verif_hooks.go)"]

FROZEN = ("CatchingUp", "Joining", "Leaving", "Shutdown", "Suspended")


def run(ctx):
    thorough = ctx["tier"] == "thorough"
    seeds = [ctx["seed"]] if not thorough else [ctx["seed"] + i for i in range(16)]
    args = ["-nets", 4, "-rounds", 14, "-seq", 7, "-noquorum", 10, "-evict", 3, "-member", 6]
    if thorough:
        args = ["-nets", 12, "-rounds", 30, "-seq", 9, "-noquorum", 40, "-evict", 8, "-member", 18]
    findings, diffs, seen = [], [], set()
    ncases, hist, distinct, samples = 0, {}, set(), []
    zstats = {}
    for sd in seeds:
        rc, out, dt = vlib.run_harness("gate", ["-seed", sd] + args, timeout=2400)
        if rc != 0:
            # the oracle lines printed before the crash come first: they carry the failing input
            fs = []
            for l in out.splitlines():
                if l.startswith("V ") and len(l.split(None, 3)) > 2 and l.split(None, 3)[2] not in [f["cls"] for f in fs]:
                    t = l.split(None, 3)
                    fs.append(dict(cls=t[2], key=(t[3] if len(t) > 3 else "")[:300], detail=l[:800]))
            return dict(findings=fs + [dict(cls="harness-crash", key="gate rc=%d" % rc, detail=out[-1500:])], coverage={})
        n, d, raw = vlib.run_model(out, timeout=2400)
        ncases += n
        diffs.extend(d[:10])
        for l in out.splitlines():
            if l.startswith("V "):
                t = l.split(None, 3)
                cls = t[2]
                if cls not in seen:
                    seen.add(cls)
                    findings.append(dict(cls=cls, key=(t[3] if len(t) > 3 else "")[:300], detail=l[:800]))
            elif l.startswith("Z ") and not l.startswith("Z violations"):
                for kv in l.split()[1:]:
                    k, _, v = kv.partition("=")
                    if v.isdigit():
                        zstats[k] = zstats.get(k, 0) + int(v)
            elif l.startswith("GT G "):
                m = re.match(r"GT G (\d+) (\w+)(.*?) ; (\w+) (.*?) => (.*?) ; (\w+) ", l)
                if not m:
                    continue
                node, kind, rest, st, dig, ans = m.group(1), m.group(2), m.group(3), m.group(4), m.group(5), m.group(6)
                hist["%s/%s" % (st, kind)] = hist.get("%s/%s" % (st, kind), 0) + 1
                dag = len(dig.split()) > 0
                nontriv = False
                if st in FROZEN:
                    if kind == "eager" and rest.split()[0] != "0":
                        nontriv = True
                    elif kind == "join" and rest.split()[0] == "1":
                        nontriv = True
                    elif kind == "sync" and st == "Suspended" and re.search(r" E \d", ans):
                        nontriv = True
                    elif kind in ("ff",) and dig.split()[-1] == "1":
                        nontriv = True
                if nontriv:
                    distinct.add((st, kind, rest.strip(), dig))
                    if len(samples) < 4 and (kind, st) not in [(s.split()[3], s.split(";")[1].split()[0]) for s in samples]:
                        samples.append(l[:260])
            elif l.startswith("GT H "):
                m = re.match(r"GT H \d+ ; (\w+) (.*?) => (\w+)", l)
                if m:
                    hist["check/%s->%s" % (m.group(1), m.group(3))] = hist.get("check/%s->%s" % (m.group(1), m.group(3)), 0) + 1
                    if m.group(1) == "Babbling" and m.group(3) == "Suspended":
                        distinct.add(("suspend", m.group(2)))
                        if len([s for s in samples if s.startswith("GT H")]) < 2:
                            samples.append(l[:200])
            elif l.startswith("GT X "):
                st = l.split(";")[1].split()[0]
                hist["%s/tx" % st] = hist.get("%s/tx" % st, 0) + 1
    cov = dict(evaluations=ncases, distinct_nontrivial=len(distinct),
               rule="real Nodes (inmem transport + inmem dummy app) in gossiping networks of 3-5 validators; a target node is put in each of the 6 states "
                    "and receives generated sequences of sync (various Known maps incl. unknown ids, values above the node's and below -1; limits 0..1000), "
                    "eager sync (empty / already known / new / truncated / corrupted / gapped events of another real node), fast-forward, join (stranger, "
                    "forged, already present) and unknown commands, with transactions in between; nodes started with every (maintenance, in-peer-set, "
                    "fast-sync) combination; runs with at most 2n/3 validators alive until the suspend limit; runs in which a validator is removed through "
                    "consensus; membership runs: a join (3 -> 4) or a leave (4 -> 3) goes through consensus and is learned from committed blocks, then a node "
                    "configured with the OLD set obtains the new one through the real Node.fastForward (the joiner: 3 -> 4; a validator restarted from scratch: "
                    "4 -> 3) or a Badger-backed validator is restarted with Bootstrap, then two nodes babble without quorum with checkSuspend after every step "
                    "(the oracle and the model use the validator count the node reports at that heartbeat). Every line is compared with the model. non-trivial = request in a non-Babbling state that would change a Babbling node "
                    "(eager sync with events, join with a valid signature, fast-forward with an anchor block) or a Suspended sync answered with events, "
                    "or a checkSuspend that suspended a Babbling node; distinct = distinct (state, request, node digest)",
               samples=samples, histogram=dict(requests=hist, harness=zstats), traces_validated_against_impl=ncases)
    return dict(findings=findings[:10], coverage=cov, corr_diffs=diffs[:10])
