"""C18 Byzantine-tolerant median: Go common.Median vs the model on generated lists, plus the range oracle."""
import vlib
from props import simcommon, C09

HARNESS = ["median", "sim"]
ASSUMPTIONS = ["honest timestamps within [-2^62, 2^62-1] (sum of two does not wrap int64); Byzantine values arbitrary",
               "the famous witnesses of a decided round have pairwise distinct creators (one witness per creator per round)",
               "end to end: in the gossip histories (flavours static and advsigs) the timestamp of every delivered block is recomputed from the claimed times of the "
               "famous witnesses of its round-received; in the advsigs flavour the harness-driven validator X claims extreme times (int64 extremes, 0, +-1, 2^63*2/3)"]

def run(ctx):
    n = 40000 if ctx["tier"] == "thorough" else 4000
    rc, out, dt = vlib.run_harness("median", ["-seed", ctx["seed"], "-n", n], timeout=1200)
    if rc != 0:
        return dict(findings=[dict(cls="harness-crash", key="median rc=%d" % rc, detail=out[-1500:])], coverage={})
    ncases, diffs, raw = vlib.run_model(out)
    findings, distinct, nontriv, samples = [], set(), 0, []
    hist = {}
    for line in out.splitlines():
        t = line.split()
        if not t or t[0] != "M":
            continue
        nh, nb = int(t[1]), int(t[2])
        iH, iB, iL, iR = t.index("H"), t.index("B"), t.index("L"), t.index("=>")
        hon = list(map(int, t[iH + 1:iB])); byz = list(map(int, t[iB + 1:iL])); med = int(t[iR + 1])
        if int(t[iR + 2]):
            findings.append(dict(cls="median-mutates-input", key="len=%d" % (nh + nb), detail=line[:400]))
        key = (tuple(sorted(hon)), tuple(sorted(byz)))
        distinct.add(key)
        hist["len=%d" % ((nh + nb) // 10 * 10)] = hist.get("len=%d" % ((nh + nb) // 10 * 10), 0) + 1
        if nb > 0:
            nontriv += 1
        inrange = all(-2**62 <= h <= 2**62 - 1 for h in hon)
        if hon and 2 * nb < nh + nb and inrange and not (min(hon) <= med <= max(hon)):
            findings.append(dict(cls="median-outside-honest-range",
                                 key="nh=%d nb=%d" % (nh, nb), detail=line[:600]))
        if nb > 0 and len(samples) < 3:
            samples.append(line[:300])
    cov = dict(evaluations=ncases, distinct_nontrivial=len([k for k in distinct if k[1]]),
               rule="lists of 0..50 int64 values = honest values (clustered, incl. near +-2^62) plus 0..(n-1)/2 Byzantine values drawn from "
                    "int64 extremes, +-2^64/3, random; each list passed in 3 random orders; non-trivial = contains Byzantine values; "
                    "distinct = distinct (sorted honest, sorted Byzantine) pair",
               samples=samples, histogram=hist, traces_validated_against_impl=ncases)
    # end to end: block timestamp = median of the famous witnesses' claimed times, within the honest range (cmd/sim oracle)
    e2e = dict(blocks_checked=0, blocks_with_byzantine_famous_witness=0, histories=0)
    for fl in ("static", "advsigs", "dyn"):   # dyn: membership changes, removed validators that keep gossiping
        if fl == "advsigs":
            simcommon.FLAVOURS["advsigs"] = C09._tier_flags(ctx["tier"])
        res = simcommon.run(ctx, fl)
        f, d = simcommon.findings_for(res, "C18", ["d"])
        findings += f
        diffs += d
        for st in res["stats"]:
            e2e["blocks_checked"] += st.get("tschecked", 0)
            e2e["blocks_with_byzantine_famous_witness"] += st.get("a:c18-blocks-with-byzantine-famous-witness", 0)
            e2e["histories"] += 1
    cov["end_to_end"] = e2e
    cov["evaluations"] += e2e["blocks_checked"]
    return dict(findings=findings[:10], coverage=cov, corr_diffs=diffs[:10])
