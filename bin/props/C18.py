"""C18 Byzantine-tolerant median: Go common.Median vs the model on generated lists, plus the range oracle."""
import vlib

HARNESS = ["median"]
ASSUMPTIONS = ["honest timestamps within [-2^62, 2^62-1] (sum of two does not wrap int64); Byzantine values arbitrary",
               "the famous witnesses of a decided round have pairwise distinct creators (one witness per creator per round)"]

def run(ctx):
    n = 40000 if ctx["tier"] == "thorough" else 4000
    rc, out, dt = vlib.run_harness("median", ["-seed", ctx["seed"], "-n", n], timeout=1200)
    if rc != 0:
        return dict(findings=[dict(cls="harness-crash", key="median rc=%d" % rc, detail=out[-1500:])], coverage={})
    ncases, diffs, raw = vlib.run_model(out)
    findings, distinct, nontriv, samples = [], set(), 0, []
    hist = {}
    for line in out.splitlines():
        t = line.split()
        if not t or t[0] != "M":
            continue
        nh, nb = int(t[1]), int(t[2])
        iH, iB, iL, iR = t.index("H"), t.index("B"), t.index("L"), t.index("=>")
        hon = list(map(int, t[iH + 1:iB])); byz = list(map(int, t[iB + 1:iL])); med = int(t[iR + 1])
        if int(t[iR + 2]):
            findings.append(dict(cls="median-mutates-input", key="len=%d" % (nh + nb), detail=line[:400]))
        key = (tuple(sorted(hon)), tuple(sorted(byz)))
        distinct.add(key)
        hist["len=%d" % ((nh + nb) // 10 * 10)] = hist.get("len=%d" % ((nh + nb) // 10 * 10), 0) + 1
        if nb > 0:
            nontriv += 1
        inrange = all(-2**62 <= h <= 2**62 - 1 for h in hon)
        if hon and 2 * nb < nh + nb and inrange and not (min(hon) <= med <= max(hon)):
            findings.append(dict(cls="median-outside-honest-range",
                                 key="nh=%d nb=%d" % (nh, nb), detail=line[:600]))
        if nb > 0 and len(samples) < 3:
            samples.append(line[:300])
    cov = dict(evaluations=ncases, distinct_nontrivial=len([k for k in distinct if k[1]]),
               rule="lists of 0..50 int64 values = honest values (clustered, incl. near +-2^62) plus 0..(n-1)/2 Byzantine values drawn from "
                    "int64 extremes, +-2^64/3, random; each list passed in 3 random orders; non-trivial = contains Byzantine values; "
                    "distinct = distinct (sorted honest, sorted Byzantine) pair",
               samples=samples, histogram=hist, traces_validated_against_impl=ncases)
    return dict(findings=findings[:10], coverage=cov, corr_diffs=diffs[:10])
