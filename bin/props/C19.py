"""C19 quorum thresholds: exhaustive correspondence n = 0..100000 + acceptance decisions."""
import vlib

HARNESS = ["quorum"]
ASSUMPTIONS = [
    "math.Ceil(float64(n)/3) is modelled as (n+2)/3; equality is part of the exhaustive correspondence (n <= 100000)",
    "PeerSet.Len() = number of distinct upper-cased keys; Peer.ID is a function of the key",
]


def run(ctx):
    thorough = ctx["tier"] == "thorough"
    n = 100000
    dec = 90 if thorough else 40
    ops = 3000 if thorough else 300
    rc, out, dt = vlib.run_harness("quorum", ["-n", n, "-dec", dec, "-seed", ctx["seed"], "-ops", ops], timeout=1200)
    findings, diffs = [], []
    if rc != 0:
        return dict(findings=[dict(cls="harness-crash", key="quorum rc=%d" % rc, detail=out[-1500:])],
                    coverage=dict(evaluations=0, distinct_nontrivial=0, rule="harness crashed", samples=[]))
    ncases, d, raw = vlib.run_model(out)
    diffs = d[:20]
    # property oracle evaluated directly on the implementation's values
    hist = {"Q": 0, "A": 0, "C": 0, "O": 0}
    distinct = set()
    samples = []
    for line in out.splitlines():
        t = line.split()
        if not t:
            continue
        hist[t[0]] = hist.get(t[0], 0) + 1
        if t[0] == "Q":
            nn, sl, sm, tc = map(int, t[1:5])
            distinct.add(("Q", nn, sl))
            if nn >= 1 and not (3 * sm > 2 * nn and 3 * (sm - 1) <= 2 * nn):
                findings.append(dict(cls="sm-not-least", key="n=%d sm=%d" % (nn, sm), detail=line))
            if nn >= 2 and sl >= 2 and not (3 * tc >= nn and 3 * (tc - 1) < nn):
                # trusted k  <=> k > tc ; need (k > tc => 3k > n): tc >= floor(n/3) suffices; exact ceil expected
                if not 3 * (tc + 1) > nn:
                    findings.append(dict(cls="trust-too-low", key="n=%d tc=%d" % (nn, tc), detail=line))
            if nn == 1 and sl == 1 and tc != 0:
                findings.append(dict(cls="single-validator-needs-more-than-one", key="tc=%d" % tc, detail=line))
            if nn >= 2 and sl == nn and tc < 1:
                findings.append(dict(cls="one-signature-trusted", key="n=%d" % nn, detail=line))
        elif t[0] in ("A", "C"):
            k, nn, acc = map(int, t[1:4])
            distinct.add((t[0], k, nn))
            if acc and not 3 * k > nn:
                findings.append(dict(cls="accepted-with-at-most-third", key="%s k=%d n=%d" % (t[0], k, nn), detail=line))
            if nn == 1 and k == 1 and not acc:
                findings.append(dict(cls="single-validator-rejected", key=t[0], detail=line))
            if len(samples) < 3:
                samples.append(line)
        elif t[0] == "O":
            distinct.add(line)
            if len(samples) < 6 and len(t) > 12:
                samples.append(line)
    samples = [l for l in out.splitlines() if l.startswith("Q ")][98:101] + samples
    cov = dict(evaluations=ncases, distinct_nontrivial=len(distinct),
               rule="exhaustive n=0..%d on a peer set grown in place (Q), hostile repeated-key slices, SetAnchorBlock (A) and "
                    "CheckBlock (C) decisions with k around the threshold for n<=%d with real signatures, and %d random "
                    "add/remove sequences (O); distinct = distinct (kind,n,slice) / (kind,k,n) / sequence" % (n, dec, ops),
               samples=samples, histogram=hist, exhaustive=True, traces_validated_against_impl=ncases)
    return dict(findings=findings[:10], coverage=cov, corr_diffs=diffs)
