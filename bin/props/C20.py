"""C20 proxy transparency: socket proxies (both directions, through a fault-injecting message-aware TCP relay) next to the inmem proxy
vs the Proxy model (retry loop, handler-result mapping, JSON field mapping), plus the content / order / failure-reporting oracles."""
import re
import vlib

HARNESS = ["proxy"]
ASSUMPTIONS = [
    "TCP, net/rpc and encoding/json are runtime; the model carries the retry loop, what net/rpc + jsonrpc treat as an error, the server methods' "
    "normalisation (error message never empty, nil byte-slice reply -> empty: ebb9c0a, faf0201), peers.NewPeer's normalisation (b2c4118) and the field mapping",
    "internal transactions carry peers made by peers.NewPeer or decoded from JSON (the code builds no Peer literal); key and signature strings are "
    "outputs of the hex / base-36 encoders; a Peer literal with a stray byte is still altered by JSON (control case, documented deviation D1)",
    "per-attempt outcomes are injected by the relay (drop after request / before reply / mid-reply, stall, listener down, connection killed) and by "
    "the handler script; a dial failure followed by a successful dial inside one call cannot be injected (the client retries immediately)",
    "base64 is modelled at the level of 6-bit digits; Go strings are sequences of runes and stray bytes (utf8.DecodeRune classification by the harness)",
    "concurrent SubmitTx on ONE SocketBabbleProxy is not covered (its client field is not locked); order is per client connection",
]
TRUSTED_EXTRA = ["harness/cmd/proxy/relay.go (JSON-message-aware TCP relay) is trusted glue"]



def run(ctx):
    thorough = ctx["tier"] == "thorough"
    args = ["-seed", ctx["seed"], "-n", 40, "-ntx", 200, "-faults", 60, "-large", 200000, "-retain", 120, "-maxsec", 240]
    if thorough:
        args = ["-seed", ctx["seed"], "-n", 400, "-ntx", 3000, "-faults", 1500, "-large", 3000000, "-retain", 1200, "-maxsec", 2000]
    rc, out, dt = vlib.run_harness("proxy", args, timeout=2400 if thorough else 600)
    if rc in (3, 124):
        # the harness's own watchdog (-maxsec: goroutine dump, exit 3) or the timeout: the application-side socket client has
        # no timeout by design, a stalled endpoint blocks it for ever (seen once on a machine shared with other processes using
        # ephemeral ports); one retry, the first attempt's goroutine dump is kept in the notes
        ctx["notes"].append("proxy harness stalled once (rc=%d), retried: %s" % (rc, out[-600:]))
        rc, out, dt = vlib.run_harness("proxy", args, timeout=2400 if thorough else 600)
    if rc != 0:
        return dict(findings=[dict(cls="harness-crash", key="proxy rc=%d" % rc, detail=out[-1500:])], coverage={})
    ncases, diffs, raw = vlib.run_model(out, timeout=2400)
    kept = list(diffs)
    findings, seen, hist, distinct, samples = [], set(), {}, set(), []
    zstats = {}
    for l in out.splitlines():
        if l.startswith("V "):
            t = l.split(None, 3)
            cls, key = t[2], (t[3] if len(t) > 3 else "")
            sig = (cls, "" if cls.startswith("content-changed-after-later-call") or cls.startswith("content-aliased") else key[:60])
            if sig not in seen:
                seen.add(sig)
                findings.append(dict(cls=cls, key=key[:300], detail=l[:800]))
        elif l.startswith("Z "):
            for kv in l.split()[1:]:
                k, _, v = kv.partition("=")
                if v.isdigit():
                    zstats[k] = int(v)
        elif l.startswith("PX P "):
            t = l.split()
            outs = tuple(t[5:9])
            hist["call/" + t[3]] = hist.get("call/" + t[3], 0) + 1
            hist["result/" + t[10]] = hist.get("result/" + t[10], 0) + 1
            if any(o != "ok" for o in outs[:3]):
                distinct.add((t[2], t[3], t[4]) + outs)
                if len(samples) < 4 and (t[10] == "err" or int(t[12]) > 1):
                    samples.append(l[:200])
        elif l.startswith("PX C "):
            hist["commit"] = hist.get("commit", 0) + 1
            m = re.search(r"txs=(\d+) bytes=(\d+)", l)
            if m and int(m.group(2)) > 100000:
                hist["commit_large"] = hist.get("commit_large", 0) + 1
            distinct.add(("C", l.split("=>")[0]))
            if len(samples) < 6 and "flips" in l:
                samples.append(l[:200])
        elif l.startswith("PX K "):
            hist["retained-call"] = hist.get("retained-call", 0) + 1
            distinct.add(("K",) + tuple(l.split()[3:5]))
        elif l.startswith("PX A "):
            k = "alias-probe/" + "/".join(l.split()[2:4]) + "/" + l.split()[-1]
            hist[k] = hist.get(k, 0) + 1
        elif l.startswith("PX T "):
            hist["tx-run"] = hist.get("tx-run", 0) + 1
    # the inputs of the three repaired findings must still be generated (they are regression inputs now)
    n_f1 = sum(1 for l in out.splitlines() if l.startswith("PX P ") and re.search(r"\bherren?\b", l.split("=>")[0]))
    n_f2 = sum(1 for l in out.splitlines() if l.startswith("PX P ") and re.search(r"\bhokn\b", l.split("=>")[0]))
    n_f3 = zstats.get("invalid_utf8_raw_inputs", 0)
    hist["regression_inputs"] = dict(empty_error_message=n_f1, nil_reply=n_f2, invalid_utf8_through_NewPeer=n_f3,
                                     raw_literal_control_changed=zstats.get("raw_literal_control_changed", 0))
    if min(n_f1, n_f2, n_f3) == 0:
        kept.append("regression inputs missing: empty-message=%d nil-reply=%d invalid-utf8=%d" % (n_f1, n_f2, n_f3))
    cov = dict(evaluations=ncases, distinct_nontrivial=len(distinct),
               rule="(1) generated blocks / commit responses / snapshots (nil vs empty slices, binary and non-UTF-8 bytes, all 256 byte values, "
                    "lengths around the base64 group size, large payloads, int64 extremes, many internal transactions with receipts, signature maps) "
                    "sent through SocketAppProxy -> relay -> SocketBabbleProxy and through InmemProxy; handler arguments and returned values compared "
                    "field by field on both ends and with the model's JSON mapping (blocks up to 300-byte strings); (2) transactions (nil, empty, "
                    "binary, large) through SocketBabbleProxy -> relay -> SocketAppProxy and InmemProxy, sequentially and from 3 concurrent clients, "
                    "order per client by serial; RETENTION: the same sequence of commits (back-to-back responses that both carry 1..5 receipts, "
                    "fewer / more / as many as the previous one, empty ones in between), snapshots / restores / transactions with payloads shorter after "
                    "longer, state changes, against the socket and the in-process attachment; every value a call returned or delivered (commit response, "
                    "snapshot, the block / restore payload / state the handler was given, the transaction received from SubmitCh; also the commit responses "
                    "of the fault part) is kept alive and compared again with what the other side sent after every later call and at the end of the run "
                    "(content-changed-after-later-call:<what>.<field>, with the call sequence); alias probes: the caller's / handler's copy is overwritten in "
                    "place after the call (socket: must be independent; in process: sharing is reported, except for SubmitTx which must be a copy); invalid-UTF-8 operator strings through peers.NewPeer (regression input of b2c4118, NewPeer compared with the model's "
                    "new_peer; a Peer literal as control); (3) every method (commit, snapshot, restore, state, submit) under every 1- and 2-fault prefix, "
                    "triple faults, listener down, killed connection, application never started, handler errors (also with an empty message) and nil "
                    "replies (regression inputs of the repaired findings ebb9c0a / faf0201), plus random plans: result class, connections accepted and handler deliveries compared with the model. non-trivial = a call "
                    "with at least one injected fault, or a content case; distinct = distinct (client, method, cached connection, outcomes) / content case",
               samples=samples, histogram=dict(cases=hist, harness=zstats), traces_validated_against_impl=ncases)
    return dict(findings=findings[:12], coverage=cov, corr_diffs=kept[:10])
