"""C20 proxy transparency: socket proxies (both directions, through a fault-injecting message-aware TCP relay) next to the inmem proxy
vs the Proxy model (retry loop, handler-result mapping, JSON field mapping), plus the content / order / failure-reporting oracles."""
import re
import vlib

HARNESS = ["proxy"]
ASSUMPTIONS = [
    "TCP, net/rpc and encoding/json are runtime; the model carries the retry loop, what net/rpc + jsonrpc treat as an error, and the field mapping",
    "per-attempt outcomes are injected by the relay (drop after request / before reply / mid-reply, stall, listener down, connection killed) and by "
    "the handler script; a dial failure followed by a successful dial inside one call cannot be injected (the client retries immediately)",
    "base64 is modelled at the level of 6-bit digits; Go strings are sequences of runes and stray bytes (utf8.DecodeRune classification by the harness)",
    "concurrent SubmitTx on ONE SocketBabbleProxy is not covered (its client field is not locked); order is per client connection",
]
TRUSTED_EXTRA = ["harness/cmd/proxy/relay.go (JSON-message-aware TCP relay) is trusted glue"]

QUIRK = re.compile(r"\b(herre|herren|hokn)\b")


def repaired(conn, outs):
    """(result, dials, deliveries) of a call once the two quirks are repaired: an empty-message error is an error,
    a nil reply is a reply.  Only used to recognise a repaired implementation on the quirk inputs."""
    dials = deliveries = 0
    for o in outs[:3]:
        if o == "df":
            conn = False
            continue
        if not conn:
            dials += 1
        if o in ("cf0", "to0"):
            conn = False
            continue
        deliveries += 1
        if o in ("ok", "hok", "hokn"):
            return ("ok", dials, deliveries)
        conn = False
    return ("err", dials, deliveries)


def run(ctx):
    thorough = ctx["tier"] == "thorough"
    args = ["-seed", ctx["seed"], "-n", 40, "-ntx", 200, "-faults", 60, "-large", 200000]
    if thorough:
        args = ["-seed", ctx["seed"], "-n", 400, "-ntx", 3000, "-faults", 1500, "-large", 3000000]
    rc, out, dt = vlib.run_harness("proxy", args, timeout=2400)
    if rc != 0:
        return dict(findings=[dict(cls="harness-crash", key="proxy rc=%d" % rc, detail=out[-1500:])], coverage={})
    ncases, diffs, raw = vlib.run_model(out, timeout=2400)
    # a repaired proxy no longer shows the two modelled quirks: a DIFF on a quirk input whose implementation side is the
    # repaired behaviour is a note (the model must then be updated), not a broken correspondence
    kept = []
    for d in diffs:
        m = re.search(r"impl=(\w+) (\d+) (\d+)", d)
        if d.startswith("DIFF PX-P") and QUIRK.search(d) and m:
            toks = d.split("=>")[0].split()
            i = toks.index("P")
            if repaired(toks[i + 3] == "1", toks[i + 4:i + 8]) == (m.group(1), int(m.group(2)), int(m.group(3))):
                ctx["notes"].append("quirk input answered as after the proposed fix (model to be updated): " + d[:160])
                continue
        kept.append(d)
    findings, seen, hist, distinct, samples = [], set(), {}, set(), []
    zstats = {}
    for l in out.splitlines():
        if l.startswith("V "):
            t = l.split(None, 3)
            cls, key = t[2], (t[3] if len(t) > 3 else "")
            sig = (cls, "quirk" if QUIRK.search(key) or "nil" in key else key[:60])
            if sig not in seen:
                seen.add(sig)
                findings.append(dict(cls=cls, key=key[:300], detail=l[:800]))
        elif l.startswith("Z "):
            for kv in l.split()[1:]:
                k, _, v = kv.partition("=")
                if v.isdigit():
                    zstats[k] = int(v)
        elif l.startswith("PX P "):
            t = l.split()
            outs = tuple(t[5:9])
            hist["call/" + t[3]] = hist.get("call/" + t[3], 0) + 1
            hist["result/" + t[10]] = hist.get("result/" + t[10], 0) + 1
            if any(o != "ok" for o in outs[:3]):
                distinct.add((t[2], t[3], t[4]) + outs)
                if len(samples) < 4 and (t[10] == "err" or int(t[12]) > 1):
                    samples.append(l[:200])
        elif l.startswith("PX C "):
            hist["commit"] = hist.get("commit", 0) + 1
            m = re.search(r"txs=(\d+) bytes=(\d+)", l)
            if m and int(m.group(2)) > 100000:
                hist["commit_large"] = hist.get("commit_large", 0) + 1
            distinct.add(("C", l.split("=>")[0]))
            if len(samples) < 6 and "flips" in l:
                samples.append(l[:200])
        elif l.startswith("PX T "):
            hist["tx-run"] = hist.get("tx-run", 0) + 1
    cov = dict(evaluations=ncases, distinct_nontrivial=len(distinct),
               rule="(1) generated blocks / commit responses / snapshots (nil vs empty slices, binary and non-UTF-8 bytes, all 256 byte values, "
                    "lengths around the base64 group size, large payloads, int64 extremes, many internal transactions with receipts, signature maps) "
                    "sent through SocketAppProxy -> relay -> SocketBabbleProxy and through InmemProxy; handler arguments and returned values compared "
                    "field by field on both ends and with the model's JSON mapping (blocks up to 300-byte strings); (2) transactions (nil, empty, "
                    "binary, large) through SocketBabbleProxy -> relay -> SocketAppProxy and InmemProxy, sequentially and from 3 concurrent clients, "
                    "order per client by serial; (3) every method (commit, snapshot, restore, state, submit) under every 1- and 2-fault prefix, "
                    "triple faults, listener down, killed connection, application never started, handler errors (also with an empty message) and nil "
                    "replies, plus random plans: result class, connections accepted and handler deliveries compared with the model. non-trivial = a call "
                    "with at least one injected fault, or a content case; distinct = distinct (client, method, cached connection, outcomes) / content case",
               samples=samples, histogram=dict(cases=hist, harness=zstats), traces_validated_against_impl=ncases)
    return dict(findings=findings[:12], coverage=cov, corr_diffs=kept[:10])
