"""Shared fast-sync runs (harness/cmd/ff) for C12 (acceptance) and C14 (trust).

One run per (repo fingerprint, tool fingerprint, seed, tier) is cached under build/cache, so that
checking C12 and C14 in sequence generates the histories and replays the model once.

The tree is REQUIRED to implement the repaired rule (`fixed`: /repo a556752 dedupe, a41e4c4 known
signers, 52c591c check before restore, and the malformed-input guard of the C08 repair): the extracted
model is run with that rule and every disagreement is a correspondence break (VIOLATION; with the
oracle's concrete input when the oracle fires, else no-failing-input-found). The model keeps one switch
per repair (Model/FastSync.v, ffrule; the theorems are about the end points, C12_rule_switches_exact);
when there are disagreements the other 15 switch combinations are tried ONLY as a diagnostic that names
which repair the tree has lost (coverage.rule_detected / lost_repairs).
A disagreement whose implementation side is a panic is reported with the oracle's class
`panic-on-malformed-response` and the mutation kind, so that it is tolerated exactly as long as the
KNOWN_FINDINGS entry for those inputs is open (the C08 repair is pending at the time of writing)."""
import glob, hashlib, json, os, re, subprocess, time
from concurrent.futures import ThreadPoolExecutor
import vlib

REQUIRED_RULE = "fixed"
RULES = ["fixed", "current"] + [format(i, "04b") for i in range(1, 15)]
SWITCHES = ["dedupe (a556752)", "known signers (a41e4c4)", "malformed-input guard (C08)", "check before restore (52c591c)"]


def _tool_fingerprint():
    h = hashlib.sha256()
    for f in sorted(glob.glob(os.path.join(vlib.HARNESS, "cmd", "ff", "*.go"))) + \
             sorted(glob.glob(os.path.join(vlib.HARNESS, "hx", "*.go"))) + \
             [os.path.join(vlib.ROOT, "runner", "ffdrv.ml"), os.path.join(vlib.COQ, "Model", "FastSync.v"),
              os.path.abspath(__file__)]:
        h.update(open(f, "rb").read())
    return h.hexdigest()[:12]


def _shard(args):
    i, seed, ff_args, out = args
    t0 = time.time()
    with open(out, "w") as fo:
        p = subprocess.run([vlib.exe("ff"), "-seed", str(seed)] + [str(a) for a in ff_args],
                           stdout=fo, stderr=subprocess.PIPE, env=vlib.GOENV, timeout=3000)
    return dict(shard=i, seed=seed, rc=p.returncode, err=p.stderr.decode("utf-8", "replace")[-2000:],
                secs=time.time() - t0, path=out)


def _model(paths, rule):
    """Run the extracted model with the given rule over all shards; returns (cases, diffs, notes).
    The runner prints at most 200 DIFF lines per process; when a shard exceeds that, it is replayed a second
    time without the cases on which the implementation panicked (their disagreements are reported by the first
    pass, one per mutation kind is enough) so that no other disagreement can hide behind the cap."""
    cases, diffs, notes = 0, [], []
    for p in paths:
        body = open(p).read()
        n, d, raw = vlib.run_model("FFMODE %s\n" % rule + body, timeout=1500)
        cases += n
        if any(x.startswith("...") for x in d):
            kept = [l for l in body.splitlines() if not ((l.startswith("FF ") or l.startswith("NF ")) and " => panic " in l)]
            _, d2, _ = vlib.run_model("FFMODE %s\n" % rule + "\n".join(kept) + "\n", timeout=1500)
            d = [x for x in d if not x.startswith("...") and " impl=panic " in x] + d2
        diffs += d
        notes += [l for l in raw.splitlines() if l.startswith("NOTE ")]
    return cases, diffs, notes


def run(ctx):
    tier, seed = ctx["tier"], ctx["seed"]
    key = "ff-%s-%s-%s-%d" % (vlib.repo_fingerprint(), _tool_fingerprint(), tier, seed)
    cdir = os.path.join(vlib.BUILD, "cache", key)
    summ = os.path.join(cdir, "summary.json")
    if os.path.exists(summ):
        return json.load(open(summ))
    os.makedirs(cdir, exist_ok=True)
    if tier == "thorough":
        shards, args = 16, ["-hist", 18, "-maxn", 7, "-thorough"]
    else:
        shards, args = 12, ["-hist", 2, "-maxn", 6]
    # shard i starts its validator-count rotation at a different size
    jobs = [(i, seed * 1000 + i, args + ["-first", i], os.path.join(cdir, "shard%02d.txt" % i)) for i in range(shards)]
    t0 = time.time()
    with ThreadPoolExecutor(max_workers=16) as ex:
        res = list(ex.map(_shard, jobs))
    crashed = ["ff shard %d seed %d rc=%d: %s" % (r["shard"], r["seed"], r["rc"], r["err"][-600:]) for r in res if r["rc"] != 0]
    paths = [r["path"] for r in res]
    harness_s = time.time() - t0
    out = analyse(paths, tier, crashed)
    out.update(harness_s=round(harness_s, 1), shards=shards, args=[str(a) for a in args])
    json.dump(out, open(summ, "w"))
    return out


def analyse(paths, tier, crashed):
    """Model replay (required rule, diagnostic detection), oracle lines and statistics of a finished harness run."""
    # the required rule; other rules only as a diagnostic when it disagrees
    cases, raw_diffs, notes = _model(paths, REQUIRED_RULE)
    tried, rule = [(REQUIRED_RULE, len(raw_diffs))], REQUIRED_RULE
    if raw_diffs:
        best = len(raw_diffs)
        for r in RULES[1:]:
            _, d, _ = _model(paths, r)
            tried.append((r, len(d)))
            if len(d) < best:
                best, rule = len(d), r
            if not d:
                break
    flags = {"current": "0000", "fixed": "1111"}.get(rule, rule)
    lost = [SWITCHES[i] for i in range(4) if flags[i] == "0"]
    diffs, seen_panic = [], set()
    for d in raw_diffs:
        m = re.match(r"DIFF (FF|NF) line=\d+ (?:FF \S+ \S+ (\S+) (\S+)|NF \S+ \S+ (\S+)) .* impl=(\S+)", d)
        if m and m.group(5) == "panic":
            victim, kind = (m.group(2), m.group(3)) if m.group(1) == "FF" else ("node", m.group(4))
            if kind not in seen_panic:
                seen_panic.add(kind)
                diffs.append(dict(cls="panic-on-malformed-response",
                                  key="kind=%s at=%s class=panic (model/implementation: %s)" % (kind, victim, d[-120:])))
        else:
            diffs.append(("tree implements rule %s, required %s; repairs missing: %s | " % (rule, REQUIRED_RULE, ", ".join(lost))
                          if rule != REQUIRED_RULE else "") + d)
    diffs.sort(key=lambda x: isinstance(x, dict))   # unexplained first
    vlines, zhist, ztotal, kinds, classes, victims, samples = [], [], {}, {}, {}, {}, []
    nontrivial, distinct, distinct_forged, seq_steps = 0, set(), set(), 0
    vinputs = {}
    for p in paths:
        frs, seqbuf, seqkey = {}, [], None
        for l in open(p):
            l = l.rstrip("\n")
            if l.startswith("FR "):
                t = l.split(None, 3)
                frs[(t[1], t[2])] = l
            elif l[:3] in ("FS ", "NS "):
                t = l.split()
                k = (t[0], t[1], t[2])
                if k != seqkey:
                    seqkey, seqbuf = k, []
                rids = [t[6]] if t[0] == "FS" else [x for x in l.split(" | ")[1].split()[1:] if x != "-"]
                seqbuf = seqbuf + [frs.get((t[1], r), "") for r in rids] + [l]
            if l.startswith("V "):
                vlines.append(l)
                m = re.search(r"seq=(\d+)/(\d+)", l)
                if m and seqkey and seqkey[2] == m.group(1) and l not in vinputs:
                    vinputs[l] = [x[:600] for x in seqbuf]   # the concrete multi-step input: responses (FR) and calls
            elif l.startswith("Z hist="):
                zhist.append(l[2:])
            elif l.startswith("Z total"):
                for kv in l.split()[2:]:
                    k, v = kv.rsplit("=", 1)
                    ztotal[k] = ztotal.get(k, 0) + int(v)
            elif l[:3] in ("FF ", "NF ", "FS ", "NS "):
                t = l.split()
                if t[0] == "FF":
                    victim, kind = t[3], t[4]
                elif t[0] == "NF":
                    victim, kind = "node", t[3]
                elif t[0] == "FS":      # step of a sequence on one core
                    victim, kind = "core-seq/step" + t[3], t[5]
                    seq_steps += 1
                else:                   # step of a sequence on one Node
                    victim, kind = "node-seq/step" + t[3], t[4]
                    seq_steps += 1
                cls = l.rsplit("=> ", 1)[1].split()[0]
                grp = kind.split(".")[0]
                kinds[grp] = kinds.get(grp, 0) + 1
                classes[cls] = classes.get(cls, 0) + 1
                victims[victim] = victims.get(victim, 0) + 1
                if not kind.startswith("valid"):
                    nontrivial += 1
                    distinct.add((kind, victim, cls))
                    if grp in ("forged", "honest+forged", "insider"):
                        distinct_forged.add((kind, victim, cls))
                if len(samples) < 6 and kind in ("sigs.reencode-1-signer", "forged.set1.events-empty.peersets-forged",
                                                 "body.Index+1", "frame.Peers.swap"):
                    samples.append(l[:240])
    coq_n, coq_err = (0, None)
    if tier == "thorough":
        coq_n, coq_err = coq_sample(paths, rule)   # the rule the tree implements (diagnosed), so that a mismatch is a Coq/OCaml evaluator mismatch
        if coq_err:
            diffs = [coq_err] + diffs
    out = dict(coq_sample=coq_n, rule=rule, lost_repairs=lost, rules_tried=tried, cases=cases, diffs=diffs[:20], ndiffs=len(diffs), notes=len(notes),
               note_kinds=_note_hist(notes), vlines=vlines, crashed=crashed, histories=len(zhist), zhist=zhist[:200],
               ztotal=ztotal, vinputs=vinputs, kinds=kinds, classes=classes, victims=victims, nontrivial=nontrivial,
               distinct=len(distinct), distinct_forged=len(distinct_forged), seq_steps=seq_steps, samples=samples)
    return out


# ---- second evaluator (thorough tier): a sample of the cases is re-evaluated INSIDE Coq by vm_compute ----

CLS = {"ok": 0, "wrong-peerset": 1, "not-enough-sigs": 2, "bad-frame-hash": 3, "reset-error": 4, "panic": 5}


def _zl(tok):
    return "[" + "; ".join("(%s)" % x for x in tok.split(",")) + "]" if tok not in ("e", "") else "[]"


def _coq_resp(fr):
    seg = dict((x.split()[0], x.split()[1:]) for x in fr.split(" | ")[1:])
    bp = "None" if seg["BP"] == ["?"] else "(Some %s)" % _zl(seg["BP"][0])
    ps = "[" + "; ".join("mkFPeer (%s) (%s)" % tuple(p.split(":")) for p in seg["P"]) + "]"
    sg = "[" + "; ".join("mkSig (%s) (%s) %s (%s)" % (a, b, "true" if c == "1" else "false", d)
                         for a, b, c, d in (x.split(":") for x in seg["S"])) + "]"
    blk = "(mkBlock (%s) (%s) %s (%s) %s)" % (seg["B"][0], seg["B"][1], bp, seg["FH"][0], sg)
    pss = "[" + "; ".join("((%s), [%s])" % (e.split("=")[0], "; ".join("mkFPeer (%s) (%s)" % tuple(p.split(":"))
                                                                      for p in e.split("=")[1].split(",") if p))
                          for e in seg.get("PS", [])) + "]"
    return blk, ps, seg["FH"][1], pss


def coq_sample(paths, rule, limit=300):
    """Returns (n_checked, error_or_None)."""
    flags = {"current": "0000", "fixed": "1111"}.get(rule, rule)
    rl = "(mkRule %s)" % " ".join("true" if c == "1" else "false" for c in flags)
    ex, n = [], 0
    for p in paths:
        frs, picked = {}, 0
        for i, l in enumerate(open(p)):
            t = l.split()
            if not t:
                continue
            if t[0] == "FR":
                frs[(t[1], t[2])] = l.rstrip("\n")
            elif t[0] == "FF" and i % 23 == 0 and picked < limit // max(1, len(paths)):
                fr = frs.get((t[1], t[5]))
                if fr is None or " nil" in fr:
                    continue
                head, impl = l.rstrip("\n").split(" => ")
                seg = dict((x.split()[0], x.split()[1:]) for x in head.split(" | ")[1:])
                blk, ps, fh, pss = _coq_resp(fr)
                known = "[" + "; ".join(_zl(k) for k in (seg["K"][0].split(";") if seg.get("K") else [])) + "]"
                frm = "(mkFrame %s (%s) (%s) %s)" % (ps, fh, seg["R"][0], pss)
                n += 1
                picked += 1
                ex.append("Example s%d : cls5 (fst (core_ff_gen %s %s core0 %s %s)) = %d.\nProof. vm_compute. reflexivity. Qed.  (* %s *)"
                          % (n, rl, known, blk, frm, CLS[impl.split()[0]], " ".join(t[:5])))
    src = ("From Coq Require Import ZArith List Bool.\nFrom V Require Import Model.Quorum Model.FastSync.\n"
           "Import ListNotations.\nOpen Scope Z_scope.\n"
           "Definition core0 : core_state := mkCore (HgOpaque 0) [] [] 0.\n"
           "Definition cls5 (r : ffres) : Z := if ffres_class r =? 6 then 5 else ffres_class r.\n" + "\n".join(ex) + "\n")
    f = os.path.join(vlib.BUILD, "ff_sample.v")
    open(f, "w").write(src)
    rc, out, _ = vlib.sh(["coqc", "-R", vlib.COQ, "V", "-w", "-notation-overridden", f], cwd=vlib.BUILD, timeout=900)
    if rc != 0:
        m = re.search(r'line (\d+)', out)
        bad = src.splitlines()[int(m.group(1)) - 1][:300] if m else ""
        return n, "Coq vm_compute re-evaluation of a sampled case disagrees with the implementation: %s | %s" % (bad, out[-300:])
    return n, None


def _note_hist(notes):
    h = {}
    for n in notes:
        t = n.split()
        k = "%s %s" % (t[1], t[5].split(".")[0] if len(t) > 5 else "")
        h[k] = h.get(k, 0) + 1
    return h


def findings_for(res, prop):
    """One finding per (oracle class, mutation kind, result class); key = the detail of the first occurrence
    (kind=, at=<victim>, class=<result class> ...), so that KNOWN_FINDINGS can match on the input class."""
    findings, seen = [], set()
    for l in res["vlines"]:
        t = l.split(None, 3)
        if t[1] != prop:
            continue
        cls = t[2]
        kind = re.search(r"kind=(\S+)", l)
        kind = kind.group(1) if kind else "?"
        rc = re.search(r"class=(\S+)", l)
        k = (cls, kind, rc.group(1) if rc else "")
        if k in seen:
            continue
        seen.add(k)
        f = dict(cls=cls, key=" ".join(t[3].split()[1:])[:200], detail=l[:600])
        if l in res.get("vinputs", {}):
            f["input_sequence"] = res["vinputs"][l]
        findings.append(f)
    for c in res["crashed"]:
        findings.append(dict(cls="harness-crash", key=c[:200], detail=c))
    return findings


def coverage_from(res, what):
    sizes = {}
    for z in res["zhist"]:
        m = re.search(r"frame-peers=(\d+)", z)
        if m:
            sizes[m.group(1)] = sizes.get(m.group(1), 0) + 1
    return dict(
        evaluations=res["cases"], distinct_nontrivial=res["distinct"],
        rule="%d histories of honest real cores (1..7 validators, static and with a join; random gossip until a node has an anchor block); "
             "the anchor (block, frame) pair JSON round-tripped as net.FastForwardResponse, then the mutation grammar "
             "(every BlockBody field, frame round/timestamp/peers/roots/events+annotations/peer sets with and without re-computed header hashes, "
             "signature map: thresholds, respelled signers, swaps, foreign signers, signatures over another block, garbage keys/values; forged "
             "stranger validator sets; an insider shrinking the set) applied through core.fastForward to victims in 5 states "
             "(fresh, partial history, foreign validator set, joiner, already fast-forwarded) and through Node.fastForward (scripted transport, "
             "recording application proxy); and STATEFUL victims: sequences of 2-3 interactions on one core / Node (a valid response that passes the "
             "checks but is not applied because proxy.Restore fails, then every mutation kind; a refused response then the valid one; the valid one "
             "applied then a second same / older / tampered response), %d sequence steps, the model folded over each sequence and the known sets "
             "predicted after every adoption compared. %s evaluations = cases compared with the model (decision class, reject-noop digest, post-state); "
             "%d of them mutated; distinct_nontrivial = distinct (mutation kind, victim state, result class) among the mutated cases. %s"
             % (res["histories"], res.get("seq_steps", 0), res["cases"], res["nontrivial"], what),
        samples=res["samples"], rule_required=REQUIRED_RULE, rule_detected=res["rule"], lost_repairs=res.get("lost_repairs", []),
        rules_tried=res["rules_tried"],
        histogram=dict(mutation_groups=res["kinds"], result_classes=res["classes"], victims=res["victims"],
                       frame_peer_set_sizes=sizes, totals=res["ztotal"], repaired_rule_would_refuse=res["note_kinds"]),
        traces_validated_against_impl=res["cases"], histories=res["histories"],
        reevaluated_inside_coq_by_vm_compute=res.get("coq_sample", 0))
