"""Shared gossip-history runs (cmd/sim) for the properties that live on the consensus core.
One run per (repo fingerprint, harness/runner build, seed, tier, flavour) is cached under build/cache so that
checking C01..C05, C09, C10 in sequence generates and replays the histories once."""
import json, os, re, subprocess, hashlib, time, glob
from concurrent.futures import ThreadPoolExecutor
import vlib

FLAVOURS = {
    # name: (extra sim flags)
    "static": [],
    "dyn": ["-dyn"],
    "faults": ["-faults", "-passfaults"],   # store writes of new events AND of ProcessDecidedRounds fail
    "dagrun": ["-dagrun"],
    "live": ["-live", "30", "-tail", "0"],
    "ff": ["-dyn", "-ff"],
    # directed adversarial schedules (harness/cmd/sim/split.go): split votes up to the coin round, late witnesses,
    # monologues, delayed delivery, refused forks; 4..7 validators
    "split": ["-split", "-minn", "4"],
    "splitdag": ["-split", "-dagrun", "-minn", "4"],
    "splitlive": ["-split", "-live", "30", "-tail", "0", "-minn", "4"],
    # the same schedules with a store-write fault inside ProcessDecidedRounds, armed on some nodes while an undecided round
    # blocks decided ones: the write fails while a LATER round of the same call is processed; and the application of a
    # minority of the nodes fails one commit callback (hx.App.FailNext)
    "splitfaults": ["-split", "-faults", "-passfaults", "-appfaults", "-minn", "4"],
    # quorum loss then recovery (stall.go); node 0 on a BadgerStore with cache 100 (undetermined backlog > cache)
    "stall": ["-stall", "104", "-badgercache", "100", "-minn", "5"],
    "stallmem": ["-stall", "104", "-live", "30", "-tail", "0", "-minn", "4"],
    # > cache blocks, then valid signatures for blocks evicted from node 0's block cache (BadgerStore, cache 100)
    "latesigs": ["-latesigs", "-advsigs", "-badgercache", "100", "-minn", "2"],
    # a minority silent for good, node 0 on an InmemStore with cache 200, > 200 more events, then the fair suffix
    "longsilent": ["-live", "30", "-tail", "0", "-inmemcache0", "200", "-longsilent", "260", "-minn", "4"],
    # one validator lags from the start, wakes up before the fair suffix, receives a truncated sync (so it holds loaded
    # events it has not committed) and fast-forwards from a peer's anchor; then the fair suffix
    "relag": ["-live", "30", "-tail", "0", "-relag", "-minn", "4"],
    # DAG re-feeding on long histories of 2..3 validators: more events per creator than the (odd) cache size of one Badger run,
    # so the per-participant index windows roll over
    "dagodd": ["-dagrun", "-minn", "2"],
}

# per flavour: (shards, histories per shard, max validators, steps) for the quick and the thorough tier
SIZES = {
    "split": ((16, 2, 7, 90), (16, 12, 7, 300)),
    "splitdag": ((16, 1, 6, 90), (16, 6, 7, 200)),
    "splitlive": ((16, 1, 7, 90), (16, 8, 7, 300)),
    "splitfaults": ((16, 1, 7, 90), (16, 8, 7, 300)),
    "stall": ((6, 1, 5, 100), (16, 3, 7, 100)),
    "stallmem": ((8, 1, 7, 100), (16, 4, 9, 100)),
    "latesigs": ((3, 1, 2, 100), (16, 2, 2, 100)),
    "dagodd": ((6, 1, 3, 700), (16, 3, 3, 900)),
    "relag": ((8, 2, 6, 400), (16, 4, 6, 400)),   # long enough for anchors well above round 0 (the reset node's store then lacks the low rounds)
    "longsilent": ((8, 1, 4, 100), (16, 4, 4, 100)),   # cache 200 on node 0 is calibrated for at most 4 validators (with more, the node falls below its supported cache window and stalls everybody when the live validators are exactly a supermajority)
}

def _tool_fingerprint():
    h = hashlib.sha256()
    for f in sorted(glob.glob(os.path.join(vlib.HARNESS, "**", "*.go"), recursive=True)) + \
             sorted(glob.glob(os.path.join(vlib.ROOT, "runner", "*.ml"))) + \
             sorted(glob.glob(os.path.join(vlib.COQ, "Model", "*.v"))):
        h.update(open(f, "rb").read())
    return h.hexdigest()[:12]

def _shard(args):
    i, seed, sim_args, out, tmo = args
    t0 = time.time()
    # Badger directories of the harness go to a per-shard temporary directory that is removed afterwards, also when the
    # harness was killed by the timeout
    tmpd = out + ".tmp"
    os.makedirs(tmpd, exist_ok=True)
    env = dict(vlib.GOENV, TMPDIR=tmpd)
    with open(out, "w") as fo:
        try:
            p = subprocess.run([vlib.exe("sim"), "-seed", str(seed)] + [str(a) for a in sim_args],
                               stdout=fo, stderr=subprocess.PIPE, env=env, timeout=tmo)
            sim_rc, sim_err = p.returncode, p.stderr.decode("utf-8", "replace")[-2000:]
        except subprocess.TimeoutExpired:
            sim_rc, sim_err = 124, "sim did not finish within %d s (args: %s)" % (tmo, " ".join(str(a) for a in sim_args))
    import shutil
    shutil.rmtree(tmpd, ignore_errors=True)
    t1 = time.time()
    with open(out) as fi:
        try:
            q = subprocess.run([os.path.join(vlib.BUILD, "runner")], stdin=fi, stdout=subprocess.PIPE,
                               stderr=subprocess.STDOUT, timeout=max(3 * tmo, 1800))
            run_rc, rout = q.returncode, q.stdout.decode("utf-8", "replace")
        except subprocess.TimeoutExpired:
            run_rc, rout = 124, "model replay did not finish within %d s" % max(3 * tmo, 1800)
    return dict(shard=i, seed=seed, sim_rc=sim_rc, sim_err=sim_err, run_rc=run_rc, runner_out=rout,
                sim_s=t1 - t0, run_s=time.time() - t1, path=out)

def run(ctx, flavour="static"):
    """Returns dict(diffs=[...], vlines=[...], stats=[...per history...], cases, samples, crashed=[...])"""
    tier, seed = ctx["tier"], ctx["seed"]
    key = "%s-%s-%s-%d-%s" % (vlib.repo_fingerprint(), _tool_fingerprint(), tier, seed, flavour)
    cdir = os.path.join(vlib.BUILD, "cache", key)
    summ = os.path.join(cdir, "summary.json")
    if os.path.exists(summ):
        return json.load(open(summ))
    os.makedirs(cdir, exist_ok=True)
    if tier == "thorough":
        shards, hist, maxn, steps = 16, 24, 9, 350
    elif tier == "escalate":
        # search for a concrete failing input after a broken correspondence: between the two tiers (minutes, not half an hour)
        shards, hist, maxn, steps = 16, 12, 8, 300
    else:
        shards, hist, maxn, steps = 16, 4, 6, 200
    if flavour in ("dyn", "ff"):
        steps, maxn = steps * 2, min(maxn, 5)
    if flavour == "dagrun":
        hist, steps = max(1, hist // 2), (steps * 3) // 4
        if tier == "thorough":
            FLAVOURS["dagrun"] = ["-dagrun", "-thorough"]
    if flavour in SIZES:
        shards, hist, maxn, steps = SIZES[flavour][1 if tier == "thorough" else 0]
        if tier == "escalate":
            q, t = SIZES[flavour]
            shards, hist, maxn, steps = t[0], max(q[1], t[1] // 3), t[2], t[3]
    sim_args = ["-hist", hist, "-maxn", maxn, "-steps", steps] + FLAVOURS[flavour]
    # a changed tree can make a schedule wait for ever (e.g. "until 100 blocks were delivered"): the quick tier gives a shard 10 minutes
    tmo = 4000 if tier == "thorough" else (1500 if tier == "escalate" else 600)
    jobs = [(i, seed * 1000 + i, sim_args, os.path.join(cdir, "shard%02d.txt" % i), tmo) for i in range(shards)]
    with ThreadPoolExecutor(max_workers=16) as ex:
        res = list(ex.map(_shard, jobs))
    diffs, vlines, stats, crashed, cases, samples = [], [], [], [], 0, []
    window = dict(max_gap=0, table_insertions=0, at_or_below=0, gap_bound_exceeded=0)   # runner W line (Model/Window.v), summed over the shards
    for r in res:
        if r["sim_rc"] != 0:
            crashed.append("sim shard %d seed %d rc=%d: %s" % (r["shard"], r["seed"], r["sim_rc"], r["sim_err"][-600:]))
        m = re.search(r"^DONE (\d+) (\d+)", r["runner_out"], re.M)
        if r["run_rc"] != 0 or not m:
            crashed.append("runner shard %d: %s" % (r["shard"], r["runner_out"][-600:]))
        else:
            cases += int(m.group(1))
        wm = re.search(r"^W max-gap=(\d+) table-insertions=(\d+) at-or-below-last-round=(\d+)(?: gap-bound-exceeded=(\d+))?", r["runner_out"], re.M)
        if wm:
            window["max_gap"] = max(window["max_gap"], int(wm.group(1)))
            window["table_insertions"] += int(wm.group(2)); window["at_or_below"] += int(wm.group(3))
            window["gap_bound_exceeded"] += int(wm.group(4) or 0)
        for l in r["runner_out"].splitlines():
            if l.startswith("DIFF"):
                diffs.append("shard=%d seed=%d %s" % (r["shard"], r["seed"], l[:600]))
        with open(r["path"]) as f:
            cur = None
            for l in f:
                if l.startswith("V "):
                    vlines.append("shard=%d seed=%d hist=%s %s" % (r["shard"], r["seed"], cur, l.strip()[:800]))
                elif l.startswith("H "):
                    cur = l.split()[1]
                elif l.startswith("Z "):
                    d = dict(kv.split("=") for kv in l.split()[2:])
                    d = {k: int(v) for k, v in d.items()}
                    d["shard"], d["hist"] = r["shard"], int(l.split()[1])
                    stats.append(d)
                elif l.startswith("I ") and len(samples) < 4 and (" T 0 " not in l):
                    samples.append(l.strip()[:300])
        if not os.environ.get("VERIF_KEEP_TRACES"):
            try: os.remove(r["path"])
            except OSError: pass
    # keep at most 12 oracle lines per (property, class) so that a frequent class cannot push the others out of the cap
    _per, _kept = {}, []
    for v in vlines:
        m = re.search(r" V (\S+) (\S+)", v)
        k = (m.group(1), m.group(2)) if m else ("?", "?")
        _per[k] = _per.get(k, 0) + 1
        if _per[k] <= 12:
            _kept.append(v)
    out = dict(diffs=diffs[:200], ndiffs=len(diffs), vlines=_kept[:400], nv=len(vlines), stats=stats, crashed=crashed,
               cases=cases, samples=samples, window=window, sim_args=[str(a) for a in sim_args], shards=shards,
               sim_s=max(r["sim_s"] for r in res), run_s=max(r["run_s"] for r in res), key=key)
    json.dump(out, open(summ, "w"))
    return out

def escalate(ctx, flavour, pid, budget_shards=32):
    """The correspondence broke but the quick run's oracle found no failing input: search harder for a concrete
    failing input (more, longer histories with other seeds). Returns oracle findings of property pid."""
    ectx = dict(ctx, tier="escalate", seed=ctx["seed"] * 7919 + 13)
    res = run(ectx, flavour)
    f, _ = findings_for(res, pid, [])
    return f


def coverage_from(res, rule_extra=""):
    st = res["stats"]
    hist = len(st)
    nontrivial = sum(1 for s in st if s.get("lagging", 0) > 0)
    agg = {}
    for s in st:
        for k, v in s.items():
            if k.startswith("a:") or k in ("blocks", "events", "lagging"):
                agg[k] = agg.get(k, 0) + v
    sizes = {}
    for s in st:
        sizes[str(s.get("n"))] = sizes.get(str(s.get("n")), 0) + 1
    def _dist(key):
        v = sorted(s.get(key, 0) for s in st)
        if not v:
            return dict(min=0, median=0, max=0)
        return dict(min=v[0], median=v[len(v) // 2], max=v[-1])
    def _tot(key):
        return sum(s.get(key, 0) for s in st)
    fame = {k[len("a:fame-"):]: agg[k] for k in sorted(agg) if k.startswith("a:fame-d") and "decided" not in k}
    distribution = dict(
        rounds_per_history=_dist("mx:rounds"),
        max_undecided_round_backlog=_dist("mx:pending-rounds"),
        max_undetermined_events=_dist("mx:undetermined"),
        max_events_behind_global_dag=_dist("mx:behind"),
        max_fame_distance=_dist("mx:fame-distance"),
        fame_decisions_by_distance=fame,
        fame_decided_after_a_coin_round=_tot("a:fame-decided-after-coin-round"),
        coin_round_votes=dict(middle_bit=_tot("a:coin-votes-middle-bit"), forced_by_supermajority=_tot("a:coin-votes-forced")),
        actions_with_later_round_decided_before_earlier=_tot("a:later-round-decided-first"),
        histories_with_later_round_decided_first=sum(1 for s in st if s.get("a:later-round-decided-first", 0) > 0),
        histories_reaching_a_coin_round=sum(1 for s in st if s.get("mx:fame-distance", 0) > 4),
        late_witnesses=_tot("a:late-witnesses"),
        stale_parent_plays=_tot("a:split-stale-parent-plays"),
        monologue_events=_tot("a:split-monologue-events"),
        forks_attempted=_tot("a:fork-attempts"), forks_refused=_tot("a:fork-refused"),
        round_received_rule_evaluations=_tot("a:rr-rule-checked"),
        split_episodes=_tot("a:split-episodes"),
        stall_events=_tot("a:stall-events"), late_signatures_for_evicted_blocks=_tot("a:latesigs-for-evicted-blocks"),
        persistent_node_oracle_evaluations=_tot("a:persist-oracle-evaluations"),
        persistent_node_frames_checked=_tot("a:persist-frames-checked"),
        persistent_node_insert_errors=_tot("a:split-insert-error"),
        pass_write_faults_armed=_tot("a:pass-fault-armed"), pass_write_faults_injected=_tot("a:pass-fault-injected"),
        application_commit_failures=_tot("a:app-commit-failed"),
        lone_decider_episodes=_tot("a:coin-template-episodes"), lone_decider_reached=_tot("a:coin-template-lone-decider"),
        forced_coin_round_votes_differing_from_the_coin=_tot("a:forced-vote-differs-from-coin"),
        famous_witness_sets_compared=_tot("a:famous-sets-compared"),
    )
    return dict(
        distribution=distribution,
        evaluations=res["cases"], distinct_nontrivial=nontrivial, histories=hist,
        rule="seeded random gossip schedules over real node.core objects (pull/push with sync-limit truncation, lost "
             "responses, skewed activity, silent minority, fair tail); every insertion is replayed on the extracted Coq model "
             "and all observables are compared after every action; a history is non-trivial when some node delivered a "
             "block while missing events another node already had (lagging decision). " + rule_extra,
        samples=res["samples"][:3] + [dict(history=s) for s in st[:2]],
        histogram=dict(validators=sizes, totals=agg), traces_validated_against_impl=hist,
        sim_args=res["sim_args"], wall_sim_s=round(res["sim_s"], 1), wall_model_s=round(res["run_s"], 1))

def findings_for(res, pid, key_prefixes=None):
    """oracle findings (V lines of this property) and correspondence diffs (filtered by observable key)"""
    findings, per = [], {}
    for v in res["vlines"]:
        m = re.search(r" V (\S+) (\S+) (.*)$", v)
        if m and m.group(1) == pid:
            per[m.group(2)] = per.get(m.group(2), 0) + 1
            if per[m.group(2)] <= 3:      # a frequent class must not crowd out the others
                findings.append(dict(cls=m.group(2), key=m.group(3)[:200], detail=v))
    diffs = []
    for d in res["diffs"]:
        if key_prefixes is None:
            diffs.append(d)
            continue
        m = re.search(r" key=([a-z]+)", d)
        if (m and m.group(1) in key_prefixes) or (not m and "I" in key_prefixes and " DIFF I " in " " + d):
            diffs.append(d)
    for c in res["crashed"]:
        findings.append(dict(cls="harness-crash", key=c[:200], detail=c))
    return findings[:10], diffs[:10]
