"""Shared gossip-history runs (cmd/sim) for the properties that live on the consensus core.
One run per (repo fingerprint, harness/runner build, seed, tier, flavour) is cached under build/cache so that
checking C01..C05, C09, C10 in sequence generates and replays the histories once."""
import json, os, re, subprocess, hashlib, time, glob
from concurrent.futures import ThreadPoolExecutor
import vlib

FLAVOURS = {
    # name: (extra sim flags)
    "static": [],
    "dyn": ["-dyn"],
    "faults": ["-faults", "-passfaults"],   # store writes of new events AND of ProcessDecidedRounds fail
    "dagrun": ["-dagrun"],
    "live": ["-live", "30", "-tail", "0"],
    "ff": ["-dyn", "-ff"],
}

def _tool_fingerprint():
    h = hashlib.sha256()
    for f in sorted(glob.glob(os.path.join(vlib.HARNESS, "**", "*.go"), recursive=True)) + \
             sorted(glob.glob(os.path.join(vlib.ROOT, "runner", "*.ml"))) + \
             sorted(glob.glob(os.path.join(vlib.COQ, "Model", "*.v"))):
        h.update(open(f, "rb").read())
    return h.hexdigest()[:12]

def _shard(args):
    i, seed, sim_args, out = args
    t0 = time.time()
    with open(out, "w") as fo:
        p = subprocess.run([vlib.exe("sim"), "-seed", str(seed)] + [str(a) for a in sim_args],
                           stdout=fo, stderr=subprocess.PIPE, env=vlib.GOENV, timeout=3000)
    sim_rc, sim_err = p.returncode, p.stderr.decode("utf-8", "replace")[-2000:]
    t1 = time.time()
    with open(out) as fi:
        q = subprocess.run([os.path.join(vlib.BUILD, "runner")], stdin=fi, stdout=subprocess.PIPE,
                           stderr=subprocess.STDOUT, timeout=3000)
    rout = q.stdout.decode("utf-8", "replace")
    return dict(shard=i, seed=seed, sim_rc=sim_rc, sim_err=sim_err, run_rc=q.returncode, runner_out=rout,
                sim_s=t1 - t0, run_s=time.time() - t1, path=out)

def run(ctx, flavour="static"):
    """Returns dict(diffs=[...], vlines=[...], stats=[...per history...], cases, samples, crashed=[...])"""
    tier, seed = ctx["tier"], ctx["seed"]
    key = "%s-%s-%s-%d-%s" % (vlib.repo_fingerprint(), _tool_fingerprint(), tier, seed, flavour)
    cdir = os.path.join(vlib.BUILD, "cache", key)
    summ = os.path.join(cdir, "summary.json")
    if os.path.exists(summ):
        return json.load(open(summ))
    os.makedirs(cdir, exist_ok=True)
    if tier == "thorough":
        shards, hist, maxn, steps = 16, 40, 10, 400
    else:
        shards, hist, maxn, steps = 16, 4, 6, 200
    if flavour in ("dyn", "ff"):
        steps, maxn = steps * 2, min(maxn, 5)
    if flavour == "dagrun":
        hist, steps = max(1, hist // 2), (steps * 3) // 4
        if tier == "thorough":
            FLAVOURS["dagrun"] = ["-dagrun", "-thorough"]
    sim_args = ["-hist", hist, "-maxn", maxn, "-steps", steps] + FLAVOURS[flavour]
    jobs = [(i, seed * 1000 + i, sim_args, os.path.join(cdir, "shard%02d.txt" % i)) for i in range(shards)]
    with ThreadPoolExecutor(max_workers=16) as ex:
        res = list(ex.map(_shard, jobs))
    diffs, vlines, stats, crashed, cases, samples = [], [], [], [], 0, []
    for r in res:
        if r["sim_rc"] != 0:
            crashed.append("sim shard %d seed %d rc=%d: %s" % (r["shard"], r["seed"], r["sim_rc"], r["sim_err"][-600:]))
        m = re.search(r"^DONE (\d+) (\d+)", r["runner_out"], re.M)
        if r["run_rc"] != 0 or not m:
            crashed.append("runner shard %d: %s" % (r["shard"], r["runner_out"][-600:]))
        else:
            cases += int(m.group(1))
        for l in r["runner_out"].splitlines():
            if l.startswith("DIFF"):
                diffs.append("shard=%d seed=%d %s" % (r["shard"], r["seed"], l[:600]))
        with open(r["path"]) as f:
            cur = None
            for l in f:
                if l.startswith("V "):
                    vlines.append("shard=%d seed=%d hist=%s %s" % (r["shard"], r["seed"], cur, l.strip()[:800]))
                elif l.startswith("H "):
                    cur = l.split()[1]
                elif l.startswith("Z "):
                    d = dict(kv.split("=") for kv in l.split()[2:])
                    d = {k: int(v) for k, v in d.items()}
                    d["shard"], d["hist"] = r["shard"], int(l.split()[1])
                    stats.append(d)
                elif l.startswith("I ") and len(samples) < 4 and (" T 0 " not in l):
                    samples.append(l.strip()[:300])
        if not os.environ.get("VERIF_KEEP_TRACES"):
            try: os.remove(r["path"])
            except OSError: pass
    out = dict(diffs=diffs[:200], ndiffs=len(diffs), vlines=vlines[:200], nv=len(vlines), stats=stats, crashed=crashed,
               cases=cases, samples=samples, sim_args=[str(a) for a in sim_args], shards=shards,
               sim_s=max(r["sim_s"] for r in res), run_s=max(r["run_s"] for r in res), key=key)
    json.dump(out, open(summ, "w"))
    return out

def escalate(ctx, flavour, pid, budget_shards=32):
    """The correspondence broke but the quick run's oracle found no failing input: search harder for a concrete
    failing input (more, longer histories with other seeds). Returns oracle findings of property pid."""
    ectx = dict(ctx, tier="thorough", seed=ctx["seed"] * 7919 + 13)
    res = run(ectx, flavour)
    f, _ = findings_for(res, pid, [])
    return f


def coverage_from(res, rule_extra=""):
    st = res["stats"]
    hist = len(st)
    nontrivial = sum(1 for s in st if s.get("lagging", 0) > 0)
    agg = {}
    for s in st:
        for k, v in s.items():
            if k.startswith("a:") or k in ("blocks", "events", "lagging"):
                agg[k] = agg.get(k, 0) + v
    sizes = {}
    for s in st:
        sizes[str(s.get("n"))] = sizes.get(str(s.get("n")), 0) + 1
    return dict(
        evaluations=res["cases"], distinct_nontrivial=nontrivial, histories=hist,
        rule="seeded random gossip schedules over real node.core objects (pull/push with sync-limit truncation, lost "
             "responses, skewed activity, silent minority, fair tail); every insertion is replayed on the extracted Coq model "
             "and all observables are compared after every action; a history is non-trivial when some node delivered a "
             "block while missing events another node already had (lagging decision). " + rule_extra,
        samples=res["samples"][:3] + [dict(history=s) for s in st[:2]],
        histogram=dict(validators=sizes, totals=agg), traces_validated_against_impl=hist,
        sim_args=res["sim_args"], wall_sim_s=round(res["sim_s"], 1), wall_model_s=round(res["run_s"], 1))

def findings_for(res, pid, key_prefixes=None):
    """oracle findings (V lines of this property) and correspondence diffs (filtered by observable key)"""
    findings = []
    for v in res["vlines"]:
        m = re.search(r" V (\S+) (\S+) (.*)$", v)
        if m and m.group(1) == pid:
            findings.append(dict(cls=m.group(2), key=m.group(3)[:200], detail=v))
    diffs = []
    for d in res["diffs"]:
        if key_prefixes is None:
            diffs.append(d)
            continue
        m = re.search(r" key=([a-z]+)", d)
        if (m and m.group(1) in key_prefixes) or (not m and "I" in key_prefixes and " DIFF I " in " " + d):
            diffs.append(d)
    for c in res["crashed"]:
        findings.append(dict(cls="harness-crash", key=c[:200], detail=c))
    return findings[:10], diffs[:10]
