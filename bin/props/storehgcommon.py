"""Real-gossip store traffic (harness/cmd/storehg): node 0 = a real core on a real BadgerStore behind the recording
decorator, gossiping with in-memory peers and a late block signer.  One run per (repo fingerprint, tool fingerprint,
tier, seed) is cached under build/cache so that C16 (part hg-traffic) and C02 (stored-block oracle) share it."""
import json, os, re, subprocess, time
from concurrent.futures import ThreadPoolExecutor
import vlib
from props import simcommon

QUICK = dict(shards=["window,stress", "stress,default", "default,stress", "stress,window", "stress,default", "default,stress"], hist=2)
THOROUGH = dict(shards=["window,stress,default,stress", "stress,default,window,stress", "default,stress,stress,window",
                        "stress,window,stress,default"] * 4, hist=16)


def _shard(args):
    i, seed, regimes, hist, out = args
    cmd = [vlib.exe("storehg"), "-seed", str(seed), "-hist", str(hist), "-regimes", regimes]
    if hist > 2 and i % 2 == 1:
        cmd += ["-windowcache", "128"]   # thorough tier: a second window size
    t0 = time.time()
    import shutil
    tmpd = out + ".tmp"
    os.makedirs(tmpd, exist_ok=True)
    try:
        with open(out, "w") as fo:
            p = subprocess.run(cmd, stdout=fo, stderr=subprocess.PIPE, env=dict(vlib.GOENV, TMPDIR=tmpd), timeout=3000)
    finally:
        shutil.rmtree(tmpd, ignore_errors=True)
    t1 = time.time()
    # only the store traffic goes to the model (S lines of cmd/store's grammar)
    sl = subprocess.Popen(["grep", "^S ", out], stdout=subprocess.PIPE)
    q = subprocess.run([os.path.join(vlib.BUILD, "runner")], stdin=sl.stdout, stdout=subprocess.PIPE, stderr=subprocess.STDOUT, timeout=3000)
    sl.wait()
    return dict(shard=i, seed=seed, regimes=regimes, hist=hist, rc=p.returncode, err=p.stderr.decode("utf-8", "replace")[-1500:],
                run_rc=q.returncode, runner_out=q.stdout.decode("utf-8", "replace"), harness_s=t1 - t0, model_s=time.time() - t1, path=out,
                cmd=" ".join(["build/storehg"] + cmd[1:]))


def run(ctx):
    tier, seed = ctx["tier"], ctx["seed"]
    key = "storehg-%s-%s-%s-%d" % (vlib.repo_fingerprint(), simcommon._tool_fingerprint(), tier, seed)
    cdir = os.path.join(vlib.BUILD, "cache", key)
    summ = os.path.join(cdir, "summary.json")
    if os.path.exists(summ):
        return json.load(open(summ))
    os.makedirs(cdir, exist_ok=True)
    plan = THOROUGH if tier == "thorough" else QUICK
    jobs = [(i, seed * 1000 + 500 + i, rg, plan["hist"], os.path.join(cdir, "shard%02d.txt" % i)) for i, rg in enumerate(plan["shards"])]
    t0 = time.time()
    with ThreadPoolExecutor(max_workers=min(16, len(jobs))) as ex:
        res = list(ex.map(_shard, jobs))
    vlines, diffs, stats, crashed, wl, samples, cases = [], [], [], [], {}, [], 0
    for r in res:
        if r["rc"] != 0:
            crashed.append("storehg shard %d (%s) rc=%d: %s" % (r["shard"], r["cmd"], r["rc"], r["err"][-600:]))
        m = re.search(r"^DONE (\d+) (\d+)", r["runner_out"], re.M)
        if r["run_rc"] != 0 or not m:
            crashed.append("runner on storehg shard %d: %s" % (r["shard"], r["runner_out"][-600:]))
        else:
            cases += int(m.group(1))
        for l in r["runner_out"].splitlines():
            if l.startswith("DIFF"):
                diffs.append("storehg shard=%d cmd=[%s] %s" % (r["shard"], r["cmd"], l[:500]))
        with open(r["path"]) as f:
            for l in f:
                c = l[0]
                if c == "S":
                    if len(samples) < 3 and (" SetEvent " in l or " SetBlock " in l) and l.split()[1] != "0":
                        samples.append(l.strip()[:200])
                    continue
                if l.startswith("V "):
                    hid = re.search(r"hist=(\d+)", l)
                    vlines.append("%s replay=[%s -only %s]" % (l.strip()[:900], r["cmd"], hid.group(1) if hid else "?"))
                elif l.startswith("W "):
                    k = l.split()[1]
                    wl[k] = wl.get(k, 0) + 1
                elif l.startswith("Z "):
                    d = {}
                    for kv in l.split()[2:]:
                        k, v = kv.rsplit("=", 1)
                        d[k] = int(v)
                    d["shard"], d["hist"] = r["shard"], int(l.split()[1])
                    stats.append(d)
        if not os.environ.get("VERIF_KEEP_TRACES"):
            try: os.remove(r["path"])
            except OSError: pass
    out = dict(vlines=vlines[:300], nv=len(vlines), diffs=diffs[:50], ndiffs=len(diffs), stats=stats, crashed=crashed, cases=cases,
               wlines=wl, samples=samples, wall_s=round(time.time() - t0, 1),
               harness_s=round(max(r["harness_s"] for r in res), 1), model_s=round(max(r["model_s"] for r in res), 1),
               cmds=[r["cmd"] for r in res])
    json.dump(out, open(summ, "w"))
    return out


def findings_for(res, pid):
    """oracle findings of property pid, one per (class, kind/where) so that different violations are all reported"""
    findings, seen = [], set()
    for v in res["vlines"]:
        m = re.match(r"V (\S+) (\S+) (.*)$", v)
        if not m or m.group(1) != pid:
            continue
        kind = re.search(r"kind=(\S+)", m.group(3))
        where = re.search(r"where=(\S+)", m.group(3))
        k = (m.group(2), kind.group(1) if kind else "", where.group(1) if where else "")
        if k in seen:
            continue
        seen.add(k)
        findings.append(dict(cls=m.group(2), key=m.group(3)[:300], detail=v))
    for c in res["crashed"]:
        findings.append(dict(cls="harness-crash", key=c[:200], detail=c))
    return findings[:12]


def coverage_from(res):
    st = res["stats"]
    tot = {}
    for s in st:
        for k, v in s.items():
            if k in ("shard", "hist", "n", "cs", "ring"):
                continue
            tot[k] = tot.get(k, 0) + v
    caches = {}
    for s in st:
        caches[str(s.get("cs"))] = caches.get(str(s.get("cs")), 0) + 1
    nontrivial = sum(1 for s in st if s.get("node_ev_reads_db", 0) + s.get("node_blk_reads_db", 0) + s.get("blk_updates_after_eviction", 0)
                     + s.get("ev_updates_after_eviction", 0) > 0)
    keep = ("events", "blocks", "rounds", "frames", "deliveries", "storeops", "slines", "ev_updates", "ev_updates_inplace", "ev_updates_after_eviction",
            "blk_updates", "blk_updates_after_eviction", "node_ev_reads_hit", "node_ev_reads_db", "node_blk_reads_hit", "node_blk_reads_db",
            "harness_ev_reads_hit", "harness_ev_reads_db", "harness_blk_reads_hit", "harness_blk_reads_db", "db_checks", "reopen_checks",
            "c02_checks", "listings", "snapshots", "evicted_events", "evicted_blocks", "wedged", "w4_node", "a:x-sigs", "a:x-sig-older-than-cache",
            "regime_stress", "regime_window", "regime_default", "V")
    dev = {k[4:]: v for k, v in tot.items() if k.startswith("dev:")}
    return dict(histories=len(st), nontrivial=nontrivial, model_ops=res["cases"], caches=caches,
                totals={k: tot.get(k, 0) for k in keep}, documented_deviations=dev, samples=res["samples"],
                wall_s=res["wall_s"], harness_s=res["harness_s"], model_s=res["model_s"], cmds=res["cmds"][:3])
