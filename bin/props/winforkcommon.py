"""Replay of the recorded window-fork history (known findings C01-window-fork / C10-window) on two real cores
(harness/cmd/winfork) and, through the trace it prints, on the extracted Coq model (build/runner)."""
import os, re, subprocess
import vlib

CORPUS = os.path.join(vlib.ROOT, "corpus", "C01-window-fork.json")
# the same fork with every coin bit true: reachable by the order of delivery alone (no special hash)
CORPUS_SCHED = os.path.join(vlib.ROOT, "corpus", "C01-window-fork-sched.json")

# second, independent fork: fame was decided with the super-majority of the NEXT round's (smaller) validator set
# (known finding C01-fame-threshold-after-shrink, fixed: 05eda0b): REGRESSION INPUT, must not fork any more;
# the window is respected there, so C10 has nothing to report
CORPUS_SHRINK = os.path.join(vlib.ROOT, "corpus", "C01-shrink-fork.json")
SCENARIOS = (("window-fork", CORPUS, ("C01", "C10")), ("window-fork-sched", CORPUS_SCHED, ("C01", "C10")),
             ("shrink-fork", CORPUS_SHRINK, ("C01",)))
REGRESSION = ("shrink-fork",)   # scenarios of FIXED findings: no violation line is the expected outcome

def replay(corpus=None):
    corpus = corpus or CORPUS
    if not os.path.exists(corpus):
        return None
    try:
        p = subprocess.run([vlib.exe("winfork"), corpus], stdout=subprocess.PIPE, stderr=subprocess.PIPE,
                           env=vlib.GOENV, timeout=300)
        rc, raw, err = p.returncode, p.stdout, p.stderr.decode("utf-8", "replace")[-400:]
    except (subprocess.TimeoutExpired, OSError) as e:
        return dict(rc=124, staged=False, reason=str(e)[:200], vlines=[], cases=0, diffs=[], runner_ok=False, stats="", window="", err=str(e)[:400])
    trace = raw.decode("utf-8", "replace")
    ns = re.search(r"^# NOT-STAGED (.*)$", trace, re.M)
    q = subprocess.run([os.path.join(vlib.BUILD, "runner")], input=raw, stdout=subprocess.PIPE, stderr=subprocess.STDOUT, timeout=300)
    rout = q.stdout.decode("utf-8", "replace")
    m = re.search(r"^DONE (\d+) (\d+)", rout, re.M)
    z = re.search(r"^Z 0 (.*)$", trace, re.M)
    wl = re.search(r"^W (.*)$", rout, re.M)
    return dict(rc=rc, staged=(ns is None and rc == 0), reason=ns.group(1)[:300] if ns else "",
                vlines=[l for l in trace.splitlines() if l.startswith("V ")], cases=int(m.group(1)) if m else 0,
                diffs=[l[:600] for l in rout.splitlines() if l.startswith("DIFF")], runner_ok=bool(m) and q.returncode == 0,
                stats=z.group(1) if z else "", window=wl.group(1) if wl else "", err=err)

def apply(pid, ctx, findings, diffs, cov):
    """Adds the replays' oracle lines of property pid to the findings; a scenario that can no longer be staged, a
    crash, or a model/implementation difference is a broken correspondence, not silence."""
    for name, corpus, pids in SCENARIOS:
        if pid in pids:
            _apply_one(pid, ctx, findings, diffs, cov, name, corpus)

def _apply_one(pid, ctx, findings, diffs, cov, name, corpus):
    w = replay(corpus)
    key = name.replace("-", "_") + "_replay"
    if w is None:
        diffs.append("%s replay: %s is missing" % (name, os.path.relpath(corpus, vlib.ROOT)))
        return
    cov[key] = dict(staged=w["staged"], model_cases=w["cases"], model_diffs=len(w["diffs"]),
                    oracle=[v[:300] for v in w["vlines"]][:4], statistics=w["stats"], model_window=w["window"])
    cov["evaluations"] = cov.get("evaluations", 0) + w["cases"]
    if not w["staged"]:
        if w["rc"] not in (0, 3):
            findings.append(dict(cls="harness-crash", key="winfork rc=%s %s" % (w["rc"], w["err"][:200]), detail=w["err"]))
        diffs.append("%s replay: the recorded history can no longer be staged on this tree (%s): "
                     "regenerate %s with build/winfork -gen" % (name, w["reason"] or "rc=%s" % w["rc"], os.path.relpath(corpus, vlib.ROOT)))
        return
    if not w["runner_ok"]:
        findings.append(dict(cls="harness-crash", key="runner on the winfork trace (%s)" % name, detail=w["err"]))
    for d in w["diffs"][:5]:
        diffs.append("%s replay %s" % (name, d))
    mine = 0
    for v in w["vlines"]:
        m = re.search(r"^V (\S+) (\S+) (.*)$", v)
        if m and m.group(1) == pid:
            mine += 1
            findings.append(dict(cls=m.group(2), key=m.group(3)[:200], detail="%s replay %s" % (name, v)))
    if mine == 0 and name not in REGRESSION:
        ctx["notes"].append("the recorded %s history no longer violates %s on this tree (the Coq refutations "
                            "C10_window_refuted / C01_agreement_dynamic_refuted are about the model of the pinned code)" % (name, pid))
