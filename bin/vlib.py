"""Shared machinery for /verif/bin/check (see DESIGN.md section 2.1)."""
import json, os, re, subprocess, sys, time, hashlib, glob

ROOT = os.path.dirname(os.path.dirname(os.path.abspath(__file__)))
COQ = os.path.join(ROOT, "coq")
BUILD = os.path.join(ROOT, "build")
HARNESS = os.path.join(ROOT, "harness")
REPO = os.environ.get("VERIF_REPO", "/repo")

# harness binaries built against a scratch copy ($VERIF_REPO, seeded-change runs) go to build/alt so that
# they never replace the binaries built from /repo
BIN = BUILD if os.path.realpath(REPO) == "/repo" else os.path.join(BUILD, "alt")


# evidence and replay files of runs against a scratch tree never overwrite those of /repo
OUTROOT = ROOT if BIN == BUILD else BIN


def exe(cmd):
    return os.path.join(BIN, cmd)


# scratch space of the harnesses (Badger directories ...): under build/, never under /tmp; pruned by prune_cache()
SCRATCH = os.path.join(BUILD, "tmp")
os.makedirs(SCRATCH, exist_ok=True)
GOENV = dict(os.environ, GOFLAGS="-mod=mod", GOPROXY="off", GOSUMDB="off",
             GOTOOLCHAIN="local", CGO_ENABLED=os.environ.get("CGO_ENABLED", "0"), TMPDIR=SCRATCH)

FORBIDDEN = re.compile(
    r"\b(Admitted|admit|Axiom|Axioms|Parameter|Parameters|Conjecture|Conjectures|Abort All)\b"
    r"|Unset\s+Guard|bypass_check|type-in-type|impredicative-set|Admit Obligations"
    r"|Unset\s+Universe\s+Checking|Unset\s+Positivity")

ALLOWED_AXIOMS = {
    # standard-library axioms that may appear (named in DESIGN.md section 4); none expected
    "functional_extensionality_dep", "proof_irrelevance", "eq_rect_eq", "JMeq_eq", "classic",
    "FunctionalExtensionality.functional_extensionality_dep", "Eqdep.Eq_rect_eq.eq_rect_eq",
    "Classical_Prop.classic", "ProofIrrelevance.proof_irrelevance", "JMeq.JMeq_eq",
}


def sh(cmd, cwd=None, timeout=1200, env=None, stdin=None):
    t0 = time.time()
    try:
        p = subprocess.run(cmd, cwd=cwd, shell=isinstance(cmd, str), env=env, input=stdin,
                           stdout=subprocess.PIPE, stderr=subprocess.STDOUT, timeout=timeout)
        return p.returncode, p.stdout.decode("utf-8", "replace"), time.time() - t0
    except subprocess.TimeoutExpired as e:
        out = (e.stdout or b"").decode("utf-8", "replace")
        return 124, out + "\n[timeout after %ss]" % timeout, time.time() - t0


def strip_comments(src):
    """Remove (possibly nested) Coq comments."""
    out, depth, i = [], 0, 0
    while i < len(src):
        if src.startswith("(*", i):
            depth += 1; i += 2
        elif src.startswith("*)", i) and depth > 0:
            depth -= 1; i += 2
        else:
            if depth == 0:
                out.append(src[i])
            i += 1
    return "".join(out)


def prune_cache(keep=48):
    """build/cache holds one directory per (tree, tool, tier, seed, flavour) run: keep the most recent ones only (disk)."""
    import shutil
    d = os.path.join(BUILD, "cache")
    try:
        ents = sorted((os.path.join(d, e) for e in os.listdir(d)), key=os.path.getmtime, reverse=True)
    except OSError:
        return
    for e in ents[keep:]:
        shutil.rmtree(e, ignore_errors=True)
    # scratch directories left behind by harness processes that were killed (older than three hours)
    now = time.time()
    try:
        for e in os.listdir(SCRATCH):
            pth = os.path.join(SCRATCH, e)
            if now - os.path.getmtime(pth) > 3 * 3600:
                shutil.rmtree(pth, ignore_errors=True) if os.path.isdir(pth) else os.remove(pth)
    except OSError:
        pass


def coq_gate():
    """Reject forbidden vernacular anywhere in the development."""
    bad = []
    for f in sorted(glob.glob(os.path.join(COQ, "**", "*.v"), recursive=True)):
        src = strip_comments(open(f).read())
        for m in FORBIDDEN.finditer(src):
            bad.append("%s: %s" % (os.path.relpath(f, ROOT), m.group(0)))
    # also top-level Variable/Hypothesis outside sections (coarse: forbid unless inside Section)
    for f in sorted(glob.glob(os.path.join(COQ, "**", "*.v"), recursive=True)):
        src = strip_comments(open(f).read())
        depth = 0
        for line in src.splitlines():
            s = line.strip()
            if re.match(r"Section\s+\w+", s): depth += 1
            elif re.match(r"End\s+\w+", s) and depth > 0: depth -= 1
            elif depth == 0 and re.match(r"(Variable|Variables|Hypothesis|Hypotheses|Context)\b", s):
                bad.append("%s: top-level %s" % (os.path.relpath(f, ROOT), s[:40]))
    return bad


def coq_build():
    """Full .vo build (incremental). Returns (ok, log)."""
    mk, cp = os.path.join(COQ, "Makefile"), os.path.join(COQ, "_CoqProject")
    if not os.path.exists(mk) or os.path.getmtime(cp) > os.path.getmtime(mk):
        rc, out, _ = sh("coq_makefile -f _CoqProject -o Makefile", cwd=COQ, timeout=120)
        if rc != 0:
            return False, out
    rc, out, dt = sh("make -k -j16", cwd=COQ, timeout=3000)
    return rc == 0, out


def property_obligations(pid):
    """Compile Properties/<pid>.v on its own, parse theorem names and their assumptions.
    Returns dict(theorems=[{name, closed, axioms}], ok, log)."""
    path = os.path.join(COQ, "Properties", pid + ".v")
    if not os.path.exists(path):
        return dict(theorems=[], ok=False, log="missing " + path)
    src = strip_comments(open(path).read())
    names = re.findall(r"^\s*Theorem\s+(\w+)", src, re.M)
    # every theorem must be closed by `exact` and followed by Print Assumptions
    shape_ok = True
    for n in names:
        m = re.search(r"Theorem\s+%s\b.*?Proof\.\s*(.*?)\s*Qed\." % re.escape(n), src, re.S)
        if not m or not re.match(r"exact\b", m.group(1)) or m.group(1).count(".") > 1 and not m.group(1).rstrip().endswith("."):
            shape_ok = False
        if not re.search(r"Print\s+Assumptions\s+%s\s*\." % re.escape(n), src):
            shape_ok = False
    rc, out, _ = sh(["coqc", "-R", ".", "V", "-w", "-notation-overridden", os.path.join("Properties", pid + ".v")],
                    cwd=COQ, timeout=900)
    thms = []
    if rc == 0:
        # split output into one block per Print Assumptions, in order
        blocks = re.split(r"(?=Closed under the global context|Axioms:)", out)
        blocks = [b for b in blocks if b.startswith("Closed") or b.startswith("Axioms:")]
        for i, n in enumerate(names):
            if i < len(blocks):
                b = blocks[i]
                if b.startswith("Closed"):
                    thms.append(dict(name=n, closed=True, axioms=[]))
                else:
                    ax = re.findall(r"^([\w.']+)\s*:", b, re.M)
                    ax = [a for a in ax if a != "Axioms"]
                    ok = all(a in ALLOWED_AXIOMS or a.split(".")[-1] in ALLOWED_AXIOMS for a in ax)
                    thms.append(dict(name=n, closed=ok, axioms=ax))
            else:
                thms.append(dict(name=n, closed=False, axioms=["<no Print Assumptions output>"]))
    else:
        thms = [dict(name=n, closed=False, axioms=["<does not compile>"]) for n in names]
    return dict(theorems=thms, ok=(rc == 0 and shape_ok and all(t["closed"] for t in thms) and len(names) > 0),
                log=out if rc != 0 else "", shape_ok=shape_ok)


def newest_mtime(paths):
    m = 0
    for p in paths:
        for f in glob.glob(p, recursive=True):
            try: m = max(m, os.path.getmtime(f))
            except OSError: pass
    return m


def build_runner():
    """(Re)extract the model and build the OCaml runner when sources are newer."""
    tgt = os.path.join(BUILD, "runner")
    src_m = newest_mtime([os.path.join(COQ, "Model", "*.v"), os.path.join(COQ, "Extract", "*.v"),
                          os.path.join(ROOT, "runner", "*.ml"), os.path.join(ROOT, "runner", "build.sh")])
    if os.path.exists(tgt) and os.path.getmtime(tgt) >= src_m:
        return True, ""
    rc, out, _ = sh([os.path.join(ROOT, "runner", "build.sh")], timeout=900)
    return rc == 0, out


def build_harness(cmd):
    """go build -tags verif of one harness command against /repo's current working tree
    (or against $VERIF_REPO, a scratch copy used when testing seeded changes: an alternate go.mod
    with the replace directive pointing there is passed with -modfile)."""
    os.makedirs(BUILD, exist_ok=True)
    gosum = os.path.join(HARNESS, "go.sum")
    def _gosum():
        for d in (REPO, "/repo"):
            try:
                return open(os.path.join(d, "go.sum")).read()
            except OSError:
                continue
        return None
    src = _gosum()
    if src is not None and (not os.path.exists(gosum) or open(gosum).read() != src):
        open(gosum, "w").write(src)
    args = ["go", "build", "-tags", "verif"]
    if os.path.realpath(REPO) != "/repo":
        alt = os.path.join(BUILD, "go.alt.mod")
        mod = open(os.path.join(HARNESS, "go.mod")).read().replace("=> /repo", "=> " + REPO)
        open(alt, "w").write(mod)
        open(os.path.join(BUILD, "go.alt.sum"), "w").write(src or "")
        args += ["-modfile", alt]
    os.makedirs(BIN, exist_ok=True)
    rc, out, _ = sh(args + ["-o", exe(cmd), "./cmd/" + cmd], cwd=HARNESS, env=GOENV, timeout=900)
    return rc == 0, out


def run_harness(cmd, args, timeout=1500, out_path=None):
    """Run a harness binary; returns (rc, stdout_text, seconds). stderr is kept apart (appended on failure)."""
    t0 = time.time()
    import tempfile, shutil
    os.makedirs(BUILD, exist_ok=True)
    tmpd = tempfile.mkdtemp(prefix="tmp-%s-" % cmd, dir=BUILD)   # scratch (Badger directories ...) of the harness: removed afterwards
    try:
        p = subprocess.run([exe(cmd)] + [str(a) for a in args], stdout=subprocess.PIPE,
                           stderr=subprocess.PIPE, timeout=timeout, env=dict(GOENV, TMPDIR=tmpd))
        rc, out, err = p.returncode, p.stdout.decode("utf-8", "replace"), p.stderr.decode("utf-8", "replace")
    except subprocess.TimeoutExpired as e:
        rc, out, err = 124, (e.stdout or b"").decode("utf-8", "replace"), "[timeout after %ss]" % timeout
    shutil.rmtree(tmpd, ignore_errors=True)
    if rc != 0:
        out += "\n[stderr] " + err[-3000:]
    if out_path:
        open(out_path, "w").write(out)
    return rc, out, time.time() - t0


def run_model(cases_text, timeout=1500):
    """Feed case lines to the extracted model; returns (ncases, diffs[list of lines], raw)."""
    p = subprocess.run([os.path.join(BUILD, "runner")], input=cases_text.encode(), stdout=subprocess.PIPE,
                       stderr=subprocess.STDOUT, timeout=timeout)
    out = p.stdout.decode("utf-8", "replace")
    diffs = [l for l in out.splitlines() if l.startswith("DIFF")]
    m = re.search(r"^DONE (\d+) (\d+)", out, re.M)
    if not m or p.returncode != 0:
        return 0, ["RUNNER-FAILED rc=%s %s" % (p.returncode, out[-2000:])], out
    n, nd = int(m.group(1)), int(m.group(2))
    if nd != len(diffs) and nd > len(diffs):
        diffs.append("... %d more" % (nd - len(diffs)))
    return n, diffs, out


def load_known():
    p = os.path.join(ROOT, "KNOWN_FINDINGS.json")
    if not os.path.exists(p):
        return []
    return json.load(open(p)).get("findings", [])


def match_known(pid, finding, known):
    """finding: dict(cls=..., key=...). A known entry matches on property, class and key regex."""
    for k in known:
        if k.get("property") != pid or k.get("status") != "open":
            continue
        if "class_regex" in k:
            if not re.search(k["class_regex"], finding.get("cls", "")):
                continue
        elif k.get("class") != finding.get("cls"):
            continue
        rx = k.get("key_regex")
        if rx is None or re.search(rx, finding.get("key", "")):
            return k
    return None


def repo_fingerprint():
    h = hashlib.sha256()
    for f in sorted(glob.glob(os.path.join(REPO, "src", "**", "*.go"), recursive=True)):
        h.update(f.encode()); h.update(open(f, "rb").read())
    return h.hexdigest()[:16]


TRUSTED_BASE = [
    "Coq 8.16.1 kernel (coqc; coqchk in the thorough tier); vm_compute used in Examples/refutation witnesses; no native_compute",
    "no axioms declared by the development; Print Assumptions of every property theorem is parsed on every run",
    "extraction: ExtrOcamlBasic only, no Extract Constant/Inductive beyond it; N/Z/positive/nat stay inductive",
    "OCaml driver runner/{zutil,handlers,main}.ml (line parsing, printing) and bin/check (python) are trusted glue",
    "Go harness /verif/harness and the read-only //go:build verif hooks in /repo/src/{hashgraph,node} are trusted glue",
    "the correspondence check samples inputs: it does not prove model = code (DESIGN.md section 4)",
]


def write_evidence(pid, tier, seed, wall, coverage, assumptions, violations, level="proof"):
    os.makedirs(os.path.join(OUTROOT, "evidence"), exist_ok=True)
    ev = dict(property_id=pid, tier=tier, seed=seed, level=level, coverage=coverage,
              assumptions=assumptions, wall_s=round(wall, 2), violations=violations)
    json.dump(ev, open(os.path.join(OUTROOT, "evidence", pid + ".json"), "w"), indent=1, sort_keys=True)
    return ev
