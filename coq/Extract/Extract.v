(* Extraction of the executable model to OCaml.  ExtrOcamlBasic only: bool, option,
   list, prod, unit, sumbool map to OCaml natives; N/Z/positive/nat stay inductive.
   No Extract Constant directive is used. *)
From Coq Require Import ExtrOcamlBasic.
From Coq Require Import ZArith NArith List.
From V Require Import Model.Quorum Model.Median Model.ZMap Model.HgImpl Model.Store Model.NodeModel Model.CoreModel Model.HgSpec Model.Gate Model.Proxy Model.FastSync Model.Wire Model.Hostile Model.Recovery Model.HgReset Model.Window.
Extraction Language OCaml.
Set Extraction KeepSingleton.
Separate Extraction Z.add Z.mul Z.div Z.modulo Z.opp Z.sub Z.of_nat Z.to_nat Z.of_N Z.to_N Z.eqb Z.ltb Z.leb
  Quorum.sm Quorum.tc Quorum.trusted Quorum.ps_run Quorum.ps_len
  Quorum.super_majority Quorum.trust_count Quorum.keys
  Median.median ZMap.zelements ZMap.zget
  HgImpl.init_hg HgImpl.insert_event HgImpl.run_consensus HgImpl.insert_and_run HgImpl.process_sigpool HgImpl.known_events HgImpl.run
  Store.binit Store.bstep Store.brun
  NodeModel.pools0 NodeModel.pstep NodeModel.busy
  CoreModel.core_init CoreModel.cstep CoreModel.cinsert CoreModel.self_event CoreModel.add_self_event
  HgSpec.spec_mismatches
  Window.window_stepb Window.gap_stepb Window.round_gap Window.new_entries
  Gate.process_rpc Gate.add_transaction Gate.check_suspend Gate.init_state Gate.step Gate.run
  Proxy.call Proxy.call_attempts Proxy.through_block Proxy.through_cresp Proxy.through_bytes
  Proxy.new_peer Proxy.bytes_null Proxy.bytes_denull
  FastSync.ff_decide FastSync.ff_decide_fixed FastSync.core_ff FastSync.core_ff_fixed FastSync.node_ff
  FastSync.node_ff_fixed FastSync.core_ff_gen FastSync.node_ff_gen FastSync.rule_current FastSync.rule_fixed
  FastSync.distinct_valid_signers FastSync.ffres_class FastSync.node_step_gen FastSync.known_after FastSync.nres_adopted
  Wire.set_wire_info Wire.to_wire Wire.read_wire Wire.wire_rt Wire.json_rt_wevent Wire.json_rt_itx Wire.json_rt_block Wire.json_rt_frame Wire.db_rt Wire.ug_rt_frame Wire.frame_digest Wire.view_frame Wire.view_block Wire.same_event_hash Wire.verify_preserved Wire.same_itx_hash Wire.same_body_hash Wire.same_block_hash Wire.same_frame_hash
  Wire.insert_frame_events Wire.insert_frame_event_prefix Wire.itx_text_ok Wire.event_text_ok Wire.frame_text_ok
  Hostile.mkFixes Hostile.decode_from_string Hostile.decode_signature Hostile.to_public_key Hostile.keys_verify
  Hostile.itx_verify Hostile.event_verify Hostile.block_verify Hostile.parent_at Hostile.pub_key_bytes
  Hostile.peer_id Hostile.new_peer_set Hostile.get_signatures Hostile.set_signature Hostile.fe_less
  Hostile.collect_roots Hostile.process_sigpool Hostile.ff_check Hostile.sync_request Hostile.join_request
  Hostile.eager_sync Hostile.quote_str
  Recovery.db_of_log Recovery.bootstrap Recovery.bootstrap_cur Recovery.head_seq Recovery.node_log
  HgReset.node_fast_forward HgReset.anchor_block_with_frame HgReset.reset_from HgReset.frame_cores HgReset.frame_shapeb HgReset.after_reset_premisesb.
