(* The node core (src/node/core.go) over the hashgraph model: the pools, head and seq of core.go
   combined with Model/HgImpl.v.  Transliterates
     addTransactions, addInternalTransaction,
     addSelfEvent (gate on acceptedRound; capture the pool lengths; NewEvent(pools, ..., [head,
       otherHead], self, seq+1); signAndInsertSelfEvent; on error return without trimming unless
       the event has become the head -- /repo d513dd9: inserted, a consensus method failed
       afterwards --; trim the pools by the captured counts),
     insertEventAndRunConsensus (Hashgraph.InsertEventAndRunConsensus; on error: return it unless
       the event is in the store and its index is above seq; then, for an event of ours: head, seq),
     the insertion loop of sync (stop at the first error that is not a NormalSelfParentError),
     processSigPool.

   What the environment supplies for a self-event: its identifier (hash ordinal), other-parent,
   timestamp (time.Now), coin bit and signature rank (hash-derived, see HgImpl), and its
   block-signature payload [sigs] (selfBlockSignatures.Slice() returns the pool in Go map order;
   the pool of own block signatures and its RemoveSlice are not modelled here: C09 covers them,
   and the hashgraph state stays an [hrun] state).  A consensus-method error is the [failed] flag
   of HgImpl.  Nothing appends to the pools while an insertion runs: core.commit appends
   nothing, and every other writer of the pools holds the node's coreLock.  The part of sync after
   the loop (heads, recordHeads) only chooses when to call addSelfEvent and with which
   other-parent: these are the environment's choices of CAddSelfEvent operations.

   [c_created], [c_submitted], [c_isubmitted] are ghost components (the payloads of the
   self-events created so far, everything ever accepted): no operation reads them.

   Executable definitions only; no proofs in this file. *)
From Coq Require Import ZArith List Bool.
From RecordUpdate Require Import RecordSet.
From V Require Import Model.ZMap Model.Quorum Model.HgImpl Model.NodeModel.
Import ListNotations RecordSetNotations.
Open Scope Z_scope.

Record core := mkCore {
  c_hg : hg;
  c_self : Z;                 (* key ordinal of the validator (= self c_hg) *)
  c_txs : list Z;             (* transactionPool *)
  c_itxs : list itx;          (* internalTransactionPool *)
  c_head : Z;                 (* -1 for "" *)
  c_seq : Z;                  (* -1 *)
  c_accepted : Z;             (* acceptedRound, -1 for a genesis node *)
  c_created : list (Z * (list Z * list itx));   (* ghost: id and payload of every self-event made by addSelfEvent *)
  c_submitted : list Z;       (* ghost: every transaction accepted by addTransactions, in order *)
  c_isubmitted : list itx     (* ghost *)
}.
#[export] Instance eta_core : Settable _ :=
  settable! mkCore <c_hg; c_self; c_txs; c_itxs; c_head; c_seq; c_accepted; c_created; c_submitted; c_isubmitted>.

(* newCore + hashgraph Init(genesis) + setHeadAndSeq on an empty store *)
Definition core_init (self_ : Z) (genesis : peerset) (oracle_ : list Z) : core :=
  mkCore (init_hg self_ genesis oracle_) self_ [] [] (-1) (-1) (-1) [] [] [].

Inductive cop :=
| CAddTxs (txs : list Z)
| CAddItx (t : itx)
| CAddSelfEvent (id op ts : Z) (coin : bool) (sigkey : Z) (sigs : list bsig)
| CSync (evs : list event)
| CSigPool.

Definition is_ok (r : ins_result) : bool := match r with InsOk => true | _ => false end.
(* hg.IsNormalSelfParentError *)
Definition is_normal (r : ins_result) : bool := match r with InsSelfParentNormal => true | _ => false end.

(* core.insertEventAndRunConsensus: the result class, whether an error is returned, the new core *)
Definition cinsert (c : core) (e : event) : ins_result * bool * core :=
  let rs := insert_and_run c.(c_hg) e in
  let st' := snd rs in
  let err := negb (is_ok (fst rs)) || st'.(failed) in
  let in_store := match get_event st' (e_id e) with Some _ => true | None => false end in
  let c1 := c <| c_hg := st' |> in
  if (negb err || (in_store && (c.(c_seq) <? e_index e))) && (e_creator e =? c.(c_self))
  then (fst rs, err, c1 <| c_head := e_id e |> <| c_seq := e_index e |>)
  else (fst rs, err, c1).

(* the event addSelfEvent builds *)
Definition self_event (c : core) (id op ts : Z) (coin : bool) (sigkey : Z) (sigs : list bsig) : event :=
  mkEvent id c.(c_self) (c.(c_seq) + 1) c.(c_head) op ts coin sigkey c.(c_txs) c.(c_itxs) sigs true.

(* core.addSelfEvent; also returns the event handed to the hashgraph, if any *)
Definition add_self_event (c : core) (id op ts : Z) (coin : bool) (sigkey : Z) (sigs : list bsig)
  : core * list event :=
  if c.(c_hg).(last_round) <? c.(c_accepted) then (c, [])          (* "Too early to insert self-event" *)
  else
    let ntx := length c.(c_txs) in
    let nitx := length c.(c_itxs) in
    let e := self_event c id op ts coin sigkey sigs in
    let '(_, err, c1) := cinsert c e in
    if err && negb (c1.(c_head) =? id) then (c1, [e])               (* not inserted: the payload stays pending *)
    else (c1 <| c_txs := skipn ntx c1.(c_txs) |> <| c_itxs := skipn nitx c1.(c_itxs) |>
             <| c_created := c1.(c_created) ++ [(id, (c.(c_txs), c.(c_itxs)))] |>, [e]).

(* the loop of core.sync; also returns the events handed to the hashgraph *)
Fixpoint sync_loop (c : core) (evs : list event) : core * list event :=
  match evs with
  | [] => (c, [])
  | e :: rest =>
    let '(r, err, c1) := cinsert c e in
    if err && negb (is_normal r) then (c1, [e])
    else let '(c2, l) := sync_loop c1 rest in (c2, e :: l)
  end.

(* what an operation makes the hashgraph do *)
Inductive hcall := HCInsert (e : event) | HCSigPool.

(* one operation; the second component is the sequence of hashgraph calls it made *)
Definition cstep_h (c : core) (o : cop) : core * list hcall :=
  match o with
  | CAddTxs txs => (c <| c_txs := c.(c_txs) ++ txs |> <| c_submitted := c.(c_submitted) ++ txs |>, [])
  | CAddItx t => (c <| c_itxs := c.(c_itxs) ++ [t] |> <| c_isubmitted := c.(c_isubmitted) ++ [t] |>, [])
  | CAddSelfEvent id op ts coin sigkey sigs =>
    let '(c', l) := add_self_event c id op ts coin sigkey sigs in (c', map HCInsert l)
  | CSync evs => let '(c', l) := sync_loop c evs in (c', map HCInsert l)
  | CSigPool => (c <| c_hg := process_sigpool c.(c_hg) |>, [HCSigPool])
  end.

Definition cstep (c : core) (o : cop) : core := fst (cstep_h c o).

Fixpoint crun_h (c : core) (ops : list cop) : core * list hcall :=
  match ops with
  | [] => (c, [])
  | o :: rest =>
    let '(c1, l1) := cstep_h c o in
    let '(c2, l2) := crun_h c1 rest in (c2, l1 ++ l2)
  end.
Definition crun (c : core) (ops : list cop) : core := fst (crun_h c ops).
(* the events the node tried to insert, in order *)
Definition attempted (l : list hcall) : list event :=
  flat_map (fun h => match h with HCInsert e => [e] | HCSigPool => [] end) l.

(* the pools of Model/NodeModel.v seen in a core (internal transactions by identifier) *)
Definition pools_of (c : core) : pools :=
  mkPools c.(c_txs) (map itx_id c.(c_itxs))
          (map (fun p => (fst (snd p), map itx_id (snd (snd p)))) c.(c_created))
          c.(c_submitted) (map itx_id c.(c_isubmitted)).

(* every event a run mentions: the self-events as built in the state they are built in, and the
   synced events (used to state the premise "identifiers determine events" on concrete runs) *)
Fixpoint run_evs (c : core) (ops : list cop) : list event :=
  match ops with
  | [] => []
  | o :: rest =>
    (match o with
     | CAddSelfEvent id op ts coin sigkey sigs => [self_event c id op ts coin sigkey sigs]
     | CSync evs => evs
     | _ => []
     end) ++ run_evs (cstep c o) rest
  end.
(* no synced event claims the node itself as creator *)
Definition sync_foreignb (self_ : Z) (ops : list cop) : bool :=
  forallb (fun o => match o with CSync evs => forallb (fun e => negb (e_creator e =? self_)) evs | _ => true end) ops.
