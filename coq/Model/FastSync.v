(* Model of fast-sync acceptance (C12, C14).  Executable definitions only.

   Transliterates, in the order of the Go code,
     src/node/core.go        core.fastForward
     src/hashgraph/hashgraph.go  Hashgraph.CheckBlock
     src/hashgraph/block.go  Block.GetSignatures / Block.Verify (as data)
     src/peers/peer_set.go   NewPeerSet (ByPubKey keyed by ToUpper(PubKeyHex)), Len, TrustCount, Hash
     src/common/hex.go       DecodeFromString (hexString[2:], case-insensitive)
     src/node/node.go        Node.fastForward (proxy.Restore BEFORE core.fastForward),
                             getBestFastForwardResponse (highest block index > 0, first wins)

   Data abstraction (supplied by the harness, never axioms):
   - validator key BYTES are ordinals (Z);
   - a STRING that encodes a key is the pair (bytes, variant): variant 0 is the canonical
     spelling "0X" ++ UPPERHEX(bytes) (what BlockSignature.ValidatorHex() and
     Peer.PubKeyString() of a well-formed peer produce), any other variant is another string
     that hex-decodes (after dropping its first two characters) to the same bytes:
     "0x<lowercase>", "zz<lowercase>", mixed case, ...;
   - SHA256 values are ordinals; the peer-set hash of a block is given as the ordered list of
     key bytes it is the hash of (None = not the hash of any list the harness knows);
   - ECDSA: [se_verif] is the observed outcome of Block.Verify on that entry
     (0 = false or error, 1 = true, 2 = panics);
   - Hashgraph.Reset(block, frame) is the subject of C13: its outcome on this frame is data
     ([ff_reset]: 0 = error after the state was cleared, 1 = nil, 2 = panics). *)
From Coq Require Import ZArith List Bool.
From V Require Import Model.Quorum.
Import ListNotations.
Open Scope Z_scope.

(* ---------- frame.Peers ---------- *)

Record fpeer := mkFPeer {
  fp_bytes : Z;   (* Peer.PubKeyBytes() *)
  fp_var : Z      (* spelling of ToUpper(PubKeyHex): 0 = "0X" ++ UPPERHEX(bytes) *)
}.

Definition fp_canon (p : fpeer) : bool := fp_var p =? 0.
Definition fp_eqb (p q : fpeer) : bool := (fp_bytes p =? fp_bytes q) && (fp_var p =? fp_var q).

Fixpoint fp_mem (p : fpeer) (l : list fpeer) : bool :=
  match l with [] => false | q :: r => if fp_eqb q p then true else fp_mem p r end.

(* distinct ByPubKey keys *)
Fixpoint fp_dedup (l : list fpeer) : list fpeer :=
  match l with
  | [] => []
  | p :: r => if fp_mem p r then fp_dedup r else p :: fp_dedup r
  end.

(* PeerSet.Len() = len(ByPubKey) ; len(peerSet.Peers) ; TrustCount() *)
Definition fs_len (ps : list fpeer) : Z := Z.of_nat (length (fp_dedup ps)).
Definition fs_slice_len (ps : list fpeer) : Z := Z.of_nat (length ps).
Definition fs_tc (ps : list fpeer) : Z := tc (fs_slice_len ps) (fs_len ps).

(* PeerSet.Hash(): chained hash of PubKeyBytes() in slice order, modelled by the list itself *)
Definition peers_digest (ps : list fpeer) : list Z := map fp_bytes ps.

(* "_, ok := peerSet.ByPubKey[s.ValidatorHex()]": ValidatorHex() is the canonical spelling of
   the DECODED bytes, so an entry finds a peer iff that peer's own key string is canonical
   and has the same bytes. *)
Definition member (ps : list fpeer) (b : Z) : bool :=
  existsb (fun p => fp_canon p && (fp_bytes p =? b)) ps.

(* ---------- block.Signatures (a Go map: string -> string) ---------- *)

Record sigent := mkSig {
  se_bytes : Z;     (* DecodeFromString(key): bytes the key string decodes to *)
  se_var : Z;       (* which spelling the key string is (0 canonical); (bytes,var) = the map key *)
  se_short : bool;  (* len(key) < 2: hexString[2:] panics *)
  se_verif : Z      (* Block.Verify: 0 false/error, 1 true, 2 panic *)
}.

Definition se_key (s : sigent) : Z * Z := (se_bytes s, se_var s).

Record ffblock := mkBlock {
  fb_index : Z;
  fb_rr : Z;
  fb_peers_hash : option (list Z);  (* Body.PeersHash, as the key list it hashes *)
  fb_frame_hash : Z;                (* Body.FrameHash ordinal *)
  fb_sigs : list sigent
}.

Record ffframe := mkFrame {
  ff_peers : list fpeer;
  ff_hash : Z;      (* ordinal of frame.Hash() *)
  ff_reset : Z;     (* outcome of hg.Reset + setHeadAndSeq: 0 error, 1 nil, 2 panic *)
  ff_peersets : list (Z * list fpeer)   (* frame.PeerSets: round -> validator set (distinct rounds) *)
}.

(* core.fastForward, after a successful Reset: "latestRound := -1; for r := range frame.PeerSets
   { if r > latestRound {...} }": the set recorded for the greatest round >= 0, else frame.Peers *)
Fixpoint latest_from (l : list (Z * list fpeer)) (best : option (list fpeer)) (maxr : Z) : option (list fpeer) :=
  match l with
  | [] => best
  | (r, ps) :: t => if maxr <? r then latest_from t (Some ps) r else latest_from t best maxr
  end.
Definition new_validators (f : ffframe) : list fpeer :=
  match latest_from (ff_peersets f) None (-1) with Some ps => ps | None => ff_peers f end.

Inductive ffres :=
| FFOk | FFWrongPeerSet | FFNotEnoughSigs | FFBadFrameHash
| FFResetError | FFPanicCheck | FFPanicReset.

Fixpoint zlist_eqb (a b : list Z) : bool :=
  match a, b with
  | [], [] => true
  | x :: a', y :: b' => (x =? y) && zlist_eqb a' b'
  | _, _ => false
  end.

Definition peers_hash_ok (b : ffblock) (f : ffframe) : bool :=
  match fb_peers_hash b with
  | Some l => zlist_eqb l (peers_digest (ff_peers f))
  | None => false
  end.

Definition counted (ps : list fpeer) (s : sigent) : bool :=
  member ps (se_bytes s) && (se_verif s =? 1).
Definition verify_panics (ps : list fpeer) (s : sigent) : bool :=
  member ps (se_bytes s) && (se_verif s =? 2).

(* validSignatures: one increment per MAP ENTRY *)
Definition valid_sigs (ps : list fpeer) (sigs : list sigent) : Z :=
  Z.of_nat (length (filter (counted ps) sigs)).

(* Hashgraph.CheckBlock(block, NewPeerSet(frame.Peers)); FFOk stands for a nil error *)
Definition check_block (b : ffblock) (f : ffframe) : ffres :=
  let ps := ff_peers f in
  if negb (peers_hash_ok b f) then FFWrongPeerSet
  else if existsb se_short (fb_sigs b) then FFPanicCheck
  else if existsb (verify_panics ps) (fb_sigs b) then FFPanicCheck
  else if valid_sigs ps (fb_sigs b) <=? fs_tc ps then FFNotEnoughSigs
  else FFOk.

Definition reset_result (f : ffframe) : ffres :=
  if ff_reset f =? 1 then FFOk else if ff_reset f =? 2 then FFPanicReset else FFResetError.

(* the decision of core.fastForward *)
Definition ff_decide (b : ffblock) (f : ffframe) : ffres :=
  match check_block b f with
  | FFOk => if fb_frame_hash b =? ff_hash f then reset_result f else FFBadFrameHash
  | r => r
  end.

(* ---------- core state ---------- *)

Inductive hgstate :=
| HgOpaque (d : Z)                         (* whatever the node had: digest ordinal *)
| HgReset (b : ffblock) (f : ffframe)      (* the state Reset builds from (block, frame) *)
| HgBroken (b : ffblock) (f : ffframe).    (* Reset failed after clearing the state *)

Record core_state := mkCore {
  cs_hg : hgstate;              (* hashgraph + store + head/seq (derived from the store) *)
  cs_validators : list fpeer;   (* c.validators: after a fast-forward, the latest set of frame.PeerSets *)
  cs_peers : list fpeer;        (* c.peers / peer selector *)
  cs_rest : Z                   (* pools, promises, rounds ...: never written by fastForward *)
}.

Definition core_ff (st : core_state) (b : ffblock) (f : ffframe) : ffres * core_state :=
  match check_block b f with
  | FFOk =>
    if fb_frame_hash b =? ff_hash f then
      match reset_result f with
      | FFOk => (FFOk, mkCore (HgReset b f) (new_validators f) (ff_peers f) (cs_rest st))
      | r => (r, mkCore (HgBroken b f) (cs_validators st) (cs_peers st) (cs_rest st))
      end
    else (FFBadFrameHash, st)
  | r => (r, st)
  end.

(* ---------- node level ---------- *)

Record ffresp := mkResp { r_block : ffblock; r_frame : ffframe; r_snapshot : Z }.

Record node_state := mkNode {
  ns_core : core_state;
  ns_app : list Z;     (* snapshots handed to proxy.Restore, latest first *)
  ns_babbling : bool   (* node state: Babbling (true) / CatchingUp (false) *)
}.

(* getBestFastForwardResponse: maxBlock := 0; strictly greater index wins; errors skipped *)
Fixpoint best_from (l : list (option ffresp)) (best : option ffresp) (maxb : Z) : option ffresp :=
  match l with
  | [] => best
  | None :: r => best_from r best maxb
  | Some x :: r =>
    if maxb <? fb_index (r_block x) then best_from r (Some x) (fb_index (r_block x))
    else best_from r best maxb
  end.
Definition best_response (l : list (option ffresp)) : option ffresp := best_from l None 0.

(* Node.fastForward: Restore, then core.fastForward *)
Definition node_ff (ns : node_state) (l : list (option ffresp)) : option ffres * node_state :=
  match best_response l with
  | None => (None, mkNode (ns_core ns) (ns_app ns) true)
  | Some r =>
    let app := r_snapshot r :: ns_app ns in
    let '(res, c) := core_ff (ns_core ns) (r_block r) (r_frame r) in
    match res with
    | FFOk => (Some FFOk, mkNode c app true)
    | _ => (Some res, mkNode c app (ns_babbling ns))
    end
  end.

(* ---------- the repaired rule ---------- *)

(* sets the node has reason to trust, as key bytes: c.peers, c.genesisPeers, c.validators,
   the peer sets of its store *)
Definition in_known (known : list (list Z)) (b : Z) : bool := existsb (mem_key b) known.

Definition signer_ok (known : list (list Z)) (ps : list fpeer) (s : sigent) : bool :=
  negb (se_short s) && member ps (se_bytes s) && in_known known (se_bytes s) && (se_verif s =? 1).

(* distinct canonical signers: members of the frame's set, of a known set, with a verifying entry *)
Definition valid_signers_fixed (known : list (list Z)) (ps : list fpeer) (sigs : list sigent) : list Z :=
  dedup (map se_bytes (filter (signer_ok known ps) sigs)).

(* Block.Verify is only reached for an entry that passed the membership and known-set tests *)
Definition verify_panics_fixed (known : list (list Z)) (ps : list fpeer) (s : sigent) : bool :=
  negb (se_short s) && member ps (se_bytes s) && in_known known (se_bytes s) && (se_verif s =? 2).

Definition check_block_fixed (known : list (list Z)) (b : ffblock) (f : ffframe) : ffres :=
  let ps := ff_peers f in
  if negb (peers_hash_ok b f) then FFWrongPeerSet
  else if existsb (verify_panics_fixed known ps) (fb_sigs b) then FFPanicCheck
  else if Z.of_nat (length (valid_signers_fixed known ps (fb_sigs b))) <=? fs_tc ps then FFNotEnoughSigs
  else FFOk.

(* everything core.fastForward checks, without touching any state *)
Definition check_ff_fixed (known : list (list Z)) (b : ffblock) (f : ffframe) : ffres :=
  match check_block_fixed known b f with
  | FFOk => if fb_frame_hash b =? ff_hash f then FFOk else FFBadFrameHash
  | r => r
  end.

Definition ff_decide_fixed (known : list (list Z)) (b : ffblock) (f : ffframe) : ffres :=
  match check_ff_fixed known b f with
  | FFOk => reset_result f
  | r => r
  end.

Definition core_ff_fixed (known : list (list Z)) (st : core_state) (b : ffblock) (f : ffframe)
  : ffres * core_state :=
  match check_ff_fixed known b f with
  | FFOk =>
    match reset_result f with
    | FFOk => (FFOk, mkCore (HgReset b f) (new_validators f) (ff_peers f) (cs_rest st))
    | r => (r, mkCore (HgBroken b f) (cs_validators st) (cs_peers st) (cs_rest st))
    end
  | r => (r, st)
  end.

(* repaired Node.fastForward: check, then Restore, then reset *)
Definition node_ff_fixed (known : list (list Z)) (ns : node_state) (l : list (option ffresp))
  : option ffres * node_state :=
  match best_response l with
  | None => (None, mkNode (ns_core ns) (ns_app ns) true)
  | Some r =>
    match check_ff_fixed known (r_block r) (r_frame r) with
    | FFOk =>
      let app := r_snapshot r :: ns_app ns in
      let '(res, c) := core_ff_fixed known (ns_core ns) (r_block r) (r_frame r) in
      match res with
      | FFOk => (Some FFOk, mkNode c app true)
      | _ => (Some res, mkNode c app (ns_babbling ns))
      end
    | res => (Some res, ns)
    end
  end.

(* the two decision rules as booleans *)
Definition is_ok (r : ffres) : bool := match r with FFOk => true | _ => false end.
Definition accept (b : ffblock) (f : ffframe) : bool := is_ok (ff_decide b f).
Definition accept_fixed (known : list (list Z)) (b : ffblock) (f : ffframe) : bool :=
  is_ok (ff_decide_fixed known b f).

(* ---------- partially repaired trees ----------
   The three repairs are independent commits; so that the correspondence stays exact on a tree
   where only some of them are applied, the decision is also given with one switch per repair.
   rule_current is the unchanged code, rule_fixed the fully repaired one (equalities with the
   definitions above: Proofs/FastSyncProofs.v, gen_current_* / gen_fixed_* ). *)

Record ffrule := mkRule {
  rl_dedupe : bool;       (* CheckBlock counts a validator once, whatever the spelling of its key *)
  rl_known : bool;        (* only signers of a set the node already knows are counted *)
  rl_guard : bool;        (* DecodeFromString returns an error on strings shorter than 2 *)
  rl_check_first : bool   (* Node.fastForward checks the response before proxy.Restore *)
}.
Definition rule_current : ffrule := mkRule false false false false.
Definition rule_fixed : ffrule := mkRule true true true true.

Definition eligible_gen (rl : ffrule) (known : list (list Z)) (ps : list fpeer) (s : sigent) : bool :=
  negb (se_short s) && member ps (se_bytes s) && (negb (rl_known rl) || in_known known (se_bytes s)).
Definition signer_ok_gen rl known ps (s : sigent) : bool := eligible_gen rl known ps s && (se_verif s =? 1).
Definition panics_gen rl known ps (s : sigent) : bool := eligible_gen rl known ps s && (se_verif s =? 2).

Definition count_gen (rl : ffrule) known ps (sigs : list sigent) : Z :=
  let l := map se_bytes (filter (signer_ok_gen rl known ps) sigs) in
  Z.of_nat (length (if rl_dedupe rl then dedup l else l)).

Definition check_block_gen (rl : ffrule) known (b : ffblock) (f : ffframe) : ffres :=
  let ps := ff_peers f in
  if negb (peers_hash_ok b f) then FFWrongPeerSet
  else if negb (rl_guard rl) && existsb se_short (fb_sigs b) then FFPanicCheck
  else if existsb (panics_gen rl known ps) (fb_sigs b) then FFPanicCheck
  else if count_gen rl known ps (fb_sigs b) <=? fs_tc ps then FFNotEnoughSigs
  else FFOk.

Definition check_ff_gen rl known (b : ffblock) (f : ffframe) : ffres :=
  match check_block_gen rl known b f with
  | FFOk => if fb_frame_hash b =? ff_hash f then FFOk else FFBadFrameHash
  | r => r
  end.

Definition core_ff_gen rl known (st : core_state) (b : ffblock) (f : ffframe) : ffres * core_state :=
  match check_ff_gen rl known b f with
  | FFOk =>
    match reset_result f with
    | FFOk => (FFOk, mkCore (HgReset b f) (new_validators f) (ff_peers f) (cs_rest st))
    | r => (r, mkCore (HgBroken b f) (cs_validators st) (cs_peers st) (cs_rest st))
    end
  | r => (r, st)
  end.

Definition restore_then_core rl known (ns : node_state) (r : ffresp) : option ffres * node_state :=
  let app := r_snapshot r :: ns_app ns in
  let '(res, c) := core_ff_gen rl known (ns_core ns) (r_block r) (r_frame r) in
  match res with
  | FFOk => (Some FFOk, mkNode c app true)
  | _ => (Some res, mkNode c app (ns_babbling ns))
  end.

Definition node_ff_gen rl known (ns : node_state) (l : list (option ffresp)) : option ffres * node_state :=
  match best_response l with
  | None => (None, mkNode (ns_core ns) (ns_app ns) true)
  | Some r =>
    if rl_check_first rl then
      match check_ff_gen rl known (r_block r) (r_frame r) with
      | FFOk => restore_then_core rl known ns r
      | res => (Some res, ns)
      end
    else restore_then_core rl known ns r
  end.

(* ---------- what the property talks about (specification-side definitions) ---------- *)

(* canonical signers with a verifying entry that are members of the frame's set, each once *)
Definition distinct_valid_signers (ps : list fpeer) (sigs : list sigent) : list Z :=
  dedup (map se_bytes (filter (counted ps) sigs)).

(* printable class, shared with the harness *)
Definition ffres_class (r : ffres) : Z :=
  match r with
  | FFOk => 0 | FFWrongPeerSet => 1 | FFNotEnoughSigs => 2 | FFBadFrameHash => 3
  | FFResetError => 4 | FFPanicCheck => 5 | FFPanicReset => 6
  end.

(* ---------- sequences of fast-forward interactions on one node ----------
   Node.fastForward is called again and again while the node is CatchingUp; between two calls the
   node keeps its core.  Nothing of the decision is carried from one call to the next: the only
   thing an earlier response can change is what the node KNOWS, and only by being adopted.

   After an adopted response (Hashgraph.Reset, c.setPeers, c.validators := latest peer set) the sets
   the node knows are: frame.Peers (c.peers), the genesis peers (c.genesisPeers, never written),
   the latest set of frame.PeerSets (c.validators), and every set of frame.PeerSets (Store.Reset
   replaces the store's peer-set table by the frame's). *)
Definition known_after (genesis : list Z) (f : ffframe) : list (list Z) :=
  peers_digest (ff_peers f) :: genesis :: peers_digest (new_validators f)
    :: map (fun rp => peers_digest (snd rp)) (ff_peersets f).

(* outcome of one Node.fastForward: no usable answer / proxy.Restore failed / core decision *)
Inductive nres := NNone | NRestoreFailed | NRes (r : ffres).

(* one call, with the outcome of proxy.Restore as data ([restore_ok]); a failing Restore is modelled
   as not changing the application (the harness's proxy refuses without applying) *)
Definition node_step_gen (rl : ffrule) (known : list (list Z)) (ns : node_state)
  (l : list (option ffresp)) (restore_ok : bool) : nres * node_state :=
  match best_response l with
  | None => (NNone, mkNode (ns_core ns) (ns_app ns) true)
  | Some r =>
    let apply :=
      if restore_ok then
        match restore_then_core rl known ns r with
        | (Some res, ns') => (NRes res, ns')
        | (None, ns') => (NNone, ns')
        end
      else (NRestoreFailed, ns) in
    if rl_check_first rl then
      match check_ff_gen rl known (r_block r) (r_frame r) with
      | FFOk => apply
      | res => (NRes res, ns)
      end
    else apply
  end.
Definition node_step := node_step_gen rule_fixed.

Definition nres_adopted (r : nres) : bool := match r with NRes FFOk => true | _ => false end.

(* the chosen response of a call (for the evolution of the known sets) *)
Record nstep := mkStep { st_answers : list (option ffresp); st_restore_ok : bool }.

(* a sequence of calls on one node: results, final node state, final known sets *)
Fixpoint node_seq (genesis : list Z) (known : list (list Z)) (ns : node_state) (steps : list nstep)
  : list nres * node_state * list (list Z) :=
  match steps with
  | [] => ([], ns, known)
  | s :: t =>
    let '(r, ns') := node_step known ns (st_answers s) (st_restore_ok s) in
    let known' :=
      if nres_adopted r then
        match best_response (st_answers s) with
        | Some x => known_after genesis (r_frame x)
        | None => known
        end
      else known in
    let '(rs, nsf, kf) := node_seq genesis known' ns' t in
    (r :: rs, nsf, kf)
  end.

(* core level: a sequence of core.fastForward calls *)
Fixpoint core_seq (genesis : list Z) (known : list (list Z)) (st : core_state)
  (l : list (ffblock * ffframe)) : list ffres * core_state * list (list Z) :=
  match l with
  | [] => ([], st, known)
  | (b, f) :: t =>
    let '(r, st') := core_ff_fixed known st b f in
    let known' := if is_ok r then known_after genesis f else known in
    let '(rs, stf, kf) := core_seq genesis known' st' t in
    (r :: rs, stf, kf)
  end.
