(* C12 / C14: concrete responses used as refutation witnesses and non-vacuity examples.
   Each is the model's view (FR line) of a case that harness/cmd/ff replays on the real
   core.fastForward / Node.fastForward on every run (kinds named below). *)
From Coq Require Import ZArith List Bool.
From V Require Import Model.Quorum Model.FastSync.
Import ListNotations.
Open Scope Z_scope.

(* an honest 4-member validator set, canonical key strings *)
Definition w_set4 : list fpeer := [mkFPeer 0 0; mkFPeer 1 0; mkFPeer 2 0; mkFPeer 3 0].
Definition w_frame4 : ffframe := mkFrame w_set4 0 1 [(0, w_set4)].

(* honest response: 3 of the 4 validators signed *)
Definition w_good_block : ffblock :=
  mkBlock 2 5 (Some [0; 1; 2; 3]) 0 [mkSig 3 0 false 1; mkSig 1 0 false 1; mkSig 2 0 false 1].

(* kind sigs.reencode-1-signer: validator 1 listed under three spellings of its key
   ("0X<UPPER>", "0x<lower>", "zz<lower>"): 3 verifying entries > TrustCount = 2 *)
Definition w_dup_block : ffblock :=
  mkBlock 0 1 (Some [0; 1; 2; 3]) 0 [mkSig 1 0 false 1; mkSig 1 1 false 1; mkSig 1 2 false 1].

(* kind body.Index+1 (any body tampering): the honest signatures no longer verify *)
Definition w_tampered_block : ffblock :=
  mkBlock 3 5 (Some [0; 1; 2; 3]) 0 [mkSig 3 0 false 0; mkSig 1 0 false 0; mkSig 2 0 false 0].
Definition w_tampered : ffresp := mkResp w_tampered_block w_frame4 7.

(* a catching-up node configured with the honest set *)
Definition w_core0 : core_state := mkCore (HgOpaque 0) w_set4 w_set4 0.
Definition w_ns0 : node_state := mkNode w_core0 [] false.
Definition w_known : list (list Z) := [[0; 1; 2; 3]].

(* kind forged.set1.*: the responder (key 4, unknown to the node) ships the validator set {4},
   a frame and a block of its own making, signed by itself *)
Definition w_forged_block : ffblock := mkBlock 1000000 4 (Some [4]) 41 [mkSig 4 0 false 1].
Definition w_forged_frame : ffframe := mkFrame [mkFPeer 4 0] 41 1 [(0, [mkFPeer 4 0])].
Definition w_forged : ffresp := mkResp w_forged_block w_forged_frame 2.

(* kind forged.set1.events-keep.peersets-forged: same, but Reset fails midway on the frame *)
Definition w_forged_frame_bad : ffframe := mkFrame [mkFPeer 4 0] 41 0 [(0, [mkFPeer 4 0])].

(* kind insider.shrinks-set-to-itself: validator 0, KNOWN to the node, ships the set {0} signed by itself *)
Definition w_insider_block : ffblock := mkBlock 9 4 (Some [0]) 42 [mkSig 0 0 false 1].
Definition w_insider_frame : ffframe := mkFrame [mkFPeer 0 0] 42 1 [(0, w_set4)].

(* kind byzantine.quorum-signs.*: validators 1, 2, 3 - KNOWN to the node, more than a third of the set -
   sign a frame that Hashgraph.Reset cannot insert (ff_reset = 0) *)
Definition w_byz_frame : ffframe := mkFrame w_set4 43 0 [(0, w_set4)].
Definition w_byz_block : ffblock :=
  mkBlock 5 6 (Some [0; 1; 2; 3]) 43 [mkSig 1 0 false 1; mkSig 2 0 false 1; mkSig 3 0 false 1].
Definition w_byz : ffresp := mkResp w_byz_block w_byz_frame 8.

(* liveness: after a join the set is {0,1,2,3,4}; the anchor block carries TrustCount+1 = 3 signatures
   {2,3,4}; a node that only knows the genesis set {0,1,2,3} counts 2 known signers and refuses, a
   node with the current peers.json accepts *)
Definition w_set5 : list fpeer := [mkFPeer 0 0; mkFPeer 1 0; mkFPeer 2 0; mkFPeer 3 0; mkFPeer 4 0].
Definition w_frame5 : ffframe := mkFrame w_set5 50 1 [(0, w_set4); (7, w_set5)].
Definition w_block5 : ffblock :=
  mkBlock 8 9 (Some [0; 1; 2; 3; 4]) 50 [mkSig 2 0 false 1; mkSig 3 0 false 1; mkSig 4 0 false 1].
