(* Model of the node-level state gate (C17).
     src/node/node_rpc.go : processRPC, processSyncRequest, processEagerSyncRequest,
                            processFastForwardRequest, processJoinRequest
     src/node/node.go     : Init (initial state), checkSuspend, Suspend, addTransaction, babble
     src/node/core.go     : eventDiff, knownEvents, addInternalTransaction
     src/node/state       : State
   Executable definitions only.

   What is modelled exactly: the gate in front of the four handlers, which handler runs,
   the answer class of every handler, the read-only handlers (sync: eventDiff + limit +
   knownEvents; fast-forward), the pool arithmetic of join / addTransaction, checkSuspend
   and Suspend.  What is DATA: the effect of core.sync + processSigPool on a Babbling node
   (record [effect]: events appended, self-events created, blocks delivered, ...).  The
   theorems quantify over all effects, the correspondence harness supplies the observed
   one. *)
From Coq Require Import ZArith List Bool.
From RecordUpdate Require Import RecordSet.
Import ListNotations RecordSetNotations.
Open Scope Z_scope.

(* src/node/state/state.go *)
Inductive nstate := Babbling | CatchingUp | Joining | Leaving | Shutdown | Suspended.

Definition nstate_eqb (a b : nstate) : bool :=
  match a, b with
  | Babbling, Babbling | CatchingUp, CatchingUp | Joining, Joining
  | Leaving, Leaving | Shutdown, Shutdown | Suspended, Suspended => true
  | _, _ => false
  end.

(* an event of the DAG as the sync protocol sees it: creator id, index, identity *)
Record event := mkEv { ev_creator : Z; ev_index : Z; ev_id : Z }.

(* The node as far as C17 observes it. *)
Record node := mkNode {
  n_state : nstate;
  n_evs : list event;      (* the DAG, in the node's topological (insertion) order *)
  n_parts : list Z;        (* ids listed by Store.KnownEvents (the repertoire) *)
  n_self : Z;              (* core.seq + 1 : self-events created so far *)
  n_delivered : Z;         (* Store.LastBlockIndex() + 1 : blocks delivered *)
  n_pool : Z;              (* len(core.transactionPool) *)
  n_ipool : Z;             (* len(core.internalTransactionPool) *)
  n_undet : Z;             (* len(hg.UndeterminedEvents) *)
  n_init_undet : Z;        (* Node.initialUndeterminedEvents *)
  n_validators : Z;        (* core.validators.Len() *)
  n_suspend_limit : Z;     (* conf.SuspendLimit *)
  n_sync_limit : Z;        (* conf.SyncLimit *)
  n_removed : Z;           (* core.removedRound *)
  n_accepted : Z;          (* core.acceptedRound *)
  n_lcr : option Z;        (* hg.LastConsensusRound *)
  n_anchor : bool          (* hg.AnchorBlock != nil (and its frame / snapshot are available) *)
}.
#[export] Instance eta_node : Settable _ :=
  settable! mkNode <n_state; n_evs; n_parts; n_self; n_delivered; n_pool; n_ipool; n_undet; n_init_undet;
                    n_validators; n_suspend_limit; n_sync_limit; n_removed; n_accepted; n_lcr; n_anchor>.

(* ---------- Init: the initial state (node.go Init / setBabblingOrCatchingUpState) ---------- *)
Definition init_state (maintenance in_peerset fastsync : bool) : nstate :=
  if maintenance then Suspended
  else if in_peerset then (if fastsync then CatchingUp else Babbling)
  else Joining.

(* ---------- knownEvents / eventDiff ---------- *)
Fixpoint kget (k : Z) (l : list (Z * Z)) : option Z :=
  match l with
  | [] => None
  | (k', v) :: r => if Z.eqb k' k then Some v else kget k r
  end.

(* "ct, ok := otherKnown[id]; if !ok { ct = -1 }" *)
Definition known_of (known : list (Z * Z)) (id : Z) : Z :=
  match kget id known with Some v => v | None => -1 end.

(* last index of a creator among the events, -1 when it has none *)
Fixpoint last_index (c : Z) (evs : list event) : Z :=
  match evs with
  | [] => -1
  | e :: r => let m := last_index c r in
              if Z.eqb (ev_creator e) c then Z.max (ev_index e) m else m
  end.

Definition known_events (n : node) : list (Z * Z) :=
  map (fun p => (p, last_index p (n_evs n))) (n_parts n).

(* events with index > what the other knows of their creator, topological order kept *)
Definition unknown_to (known : list (Z * Z)) (e : event) : bool :=
  known_of known (ev_creator e) <? ev_index e.
Definition event_diff (evs : list event) (known : list (Z * Z)) : list event :=
  filter (unknown_to known) evs.

(* RollingIndex.Get(skip): TooLate when skip + 1 < oldest cached index (= 0 while nothing has been
   evicted): a Known value below -1 for a participant of the repertoire makes eventDiff fail. *)
Definition diff_fails (parts : list Z) (known : list (Z * Z)) : bool :=
  existsb (fun p => known_of known p <? -1) parts.

(* ---------- requests and responses ---------- *)

(* what core.sync + processSigPool does to a Babbling node: data *)
Record effect := mkEff {
  ef_new : list event;     (* events appended to the DAG (others' and own), in order *)
  ef_self : Z;             (* self-events created *)
  ef_deliv : Z;            (* blocks delivered *)
  ef_undet : Z;            (* len(UndeterminedEvents) afterwards *)
  ef_pool : Z;             (* pool lengths afterwards *)
  ef_ipool : Z;
  ef_validators : Z;       (* validators.Len() afterwards *)
  ef_removed : Z;          (* removedRound afterwards *)
  ef_lcr : option Z;       (* LastConsensusRound afterwards *)
  ef_anchor : bool;
  ef_err : bool            (* sync returned an error *)
}.

Inductive request :=
| RSync (known : list (Z * Z)) (limit : Z)       (* *net.SyncRequest *)
| REager (eff : effect)                          (* *net.EagerSyncRequest: eff = what its events would do *)
| RFastForward                                   (* *net.FastForwardRequest *)
| RJoin (sigok present : bool) (promise : option bool) (* *net.JoinRequest: signature verifies, peer already
                                                    present, outcome of the promise (None = timeout) *)
| RUnknown.                                      (* any other command *)

Inductive response :=
| RespGate                                        (* nil, "Not in Babbling state" *)
| RespSync (err : bool) (events : list event) (known : list (Z * Z))
| RespEager (err : bool)                          (* Success = negb err *)
| RespFF (err : bool)
| RespJoin (err : bool) (accepted : bool)
| RespUnknown.                                    (* nil, "unexpected command" *)

Definition resp_is_err (r : response) : bool :=
  match r with
  | RespGate | RespUnknown => true
  | RespSync e _ _ => e
  | RespEager e => e
  | RespFF e => e
  | RespJoin e _ => e
  end.

Definition is_sync (r : request) : bool :=
  match r with RSync _ _ => true | _ => false end.

(* state == Babbling || (state == Suspended && isSyncRequest) *)
Definition gate_passes (s : nstate) (r : request) : bool :=
  match s with
  | Babbling => true
  | Suspended => is_sync r
  | _ => false
  end.

(* processSyncRequest: read-only *)
Definition zmin (a b : Z) : Z := if a <? b then a else b.
Definition sync_response (n : node) (known : list (Z * Z)) (limit : Z) : response :=
  if diff_fails (n_parts n) known then RespSync true [] (known_events n)
  else
    let d := event_diff (n_evs n) known in
    let lim := zmin limit (n_sync_limit n) in
    let d' := if lim <? Z.of_nat (length d) then firstn (Z.to_nat lim) d else d in
    RespSync false d' (known_events n).

Definition apply_effect (n : node) (e : effect) : node :=
  n <| n_evs := n_evs n ++ ef_new e |>
    <| n_self := n_self n + ef_self e |>
    <| n_delivered := n_delivered n + ef_deliv e |>
    <| n_undet := ef_undet e |>
    <| n_pool := ef_pool e |>
    <| n_ipool := ef_ipool e |>
    <| n_validators := ef_validators e |>
    <| n_removed := ef_removed e |>
    <| n_lcr := ef_lcr e |>
    <| n_anchor := ef_anchor e |>.

(* processEagerSyncRequest *)
Definition process_eager (n : node) (e : effect) : node * response :=
  (apply_effect n e, RespEager (ef_err e)).

(* processFastForwardRequest: read-only *)
Definition process_ff (n : node) : response := RespFF (negb (n_anchor n)).

(* processJoinRequest *)
Definition process_join (n : node) (sigok present : bool) (promise : option bool) : node * response :=
  if negb sigok then (n, RespJoin true false)
  else if present then (n, RespJoin false true)
  else (n <| n_ipool := n_ipool n + 1 |>,
        match promise with Some a => RespJoin false a | None => RespJoin true false end).

Definition dispatch (n : node) (r : request) : node * response :=
  match r with
  | RSync k l => (n, sync_response n k l)
  | REager e => process_eager n e
  | RFastForward => (n, process_ff n)
  | RJoin s p pr => process_join n s p pr
  | RUnknown => (n, RespUnknown)
  end.

(* processRPC *)
Definition process_rpc (n : node) (r : request) : node * response :=
  if gate_passes (n_state n) r then dispatch n r else (n, RespGate).

(* addTransaction: appended to the pool in every state *)
Definition add_transaction (n : node) : node := n <| n_pool := n_pool n + 1 |>.

(* ---------- checkSuspend / Suspend ---------- *)
Definition too_many (n : node) : bool :=
  n_suspend_limit n * n_validators n <? n_undet n - n_init_undet n.

Definition evicted (n : node) : bool :=
  match n_lcr n with
  | None => false
  | Some l => (0 <? n_removed n) && (n_accepted n <? n_removed n) && (n_removed n <=? l)
  end.

(* Suspend(): no-op when already Suspended or Shutdown *)
Definition suspend (n : node) : node :=
  match n_state n with
  | Suspended | Shutdown => n
  | _ => n <| n_state := Suspended |>
  end.

Definition check_suspend (n : node) : node :=
  if too_many n || evicted n then suspend n else n.

(* ---------- sequences ---------- *)
Inductive input :=
| IRpc (r : request)
| ITx                       (* a transaction arrives on submitCh *)
| IHeartbeat (e : effect).  (* one turn of the babble loop: gossip/monologue with effect e, then
                               checkSuspend; the loop only runs in the Babbling state *)

Definition step (n : node) (i : input) : node * option response :=
  match i with
  | IRpc r => let (n', resp) := process_rpc n r in (n', Some resp)
  | ITx => (add_transaction n, None)
  | IHeartbeat e =>
    match n_state n with
    | Babbling => (check_suspend (apply_effect n e), None)
    | _ => (n, None)
    end
  end.

Fixpoint run (n : node) (is : list input) : node * list (option response) :=
  match is with
  | [] => (n, [])
  | i :: r => let (n1, o) := step n i in
              let (n2, os) := run n1 r in (n2, o :: os)
  end.

Definition count_tx (is : list input) : Z :=
  Z.of_nat (length (filter (fun i => match i with ITx => true | _ => false end) is)).

(* what a frozen node must answer to input i *)
Definition frozen_answer (n : node) (i : input) : option response :=
  match i with
  | IRpc (RSync k l) =>
    Some (match n_state n with Suspended => sync_response n k l | _ => RespGate end)
  | IRpc _ => Some RespGate
  | _ => None
  end.
