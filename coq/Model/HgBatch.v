(* Batched driving of the hashgraph (not used by core.go, which always runs the consensus passes
   after every insertion): InsertEvent k times, then DivideRounds; DecideFame; DecideRoundReceived;
   ProcessDecidedRounds, and one more pass at the end.  Executable definitions only. *)
From Coq Require Import ZArith List Bool.
From V Require Import Model.ZMap Model.Quorum Model.HgImpl.
Import ListNotations.
Open Scope Z_scope.

Fixpoint run_batched_aux (k : nat) (count : nat) (st : hg) (evs : list event) : hg :=
  match evs with
  | [] => run_consensus st
  | e :: rest =>
    let st1 := snd (insert_event st e) in
    match k with
    | O => run_batched_aux k count st1 rest                       (* k = 0: a single pass at the end *)
    | S _ => if Nat.eqb (S count) k then run_batched_aux k 0 (run_consensus st1) rest
             else run_batched_aux k (S count) st1 rest
    end
  end.

Definition run_batched (k : nat) (st : hg) (evs : list event) : hg := run_batched_aux k 0 st evs.

Definition round_of_event (st : hg) (x : Z) : option Z :=
  match get_event st x with Some e => ev_round e | None => None end.
