(* Executable transliteration of src/hashgraph/hashgraph.go (per-event pipeline as driven by
   node.core), roundInfo.go, caches.go (PendingRoundsCache, PeerSetCache, ParticipantEventsCache
   without eviction, SigPool), frame.go, block.go and of core.commit / signBlock /
   processAcceptedInternalTransactions in src/node/core.go.

   Data abstraction (DESIGN.md 3.1): events are numbered (eid : Z >= 0; -1 stands for the empty
   parent ""); creators are numbered by public key; the two hash-derived quantities that
   influence consensus are event attributes supplied by the harness: [e_coin] (middleBit of the
   event hash) and [e_sigkey] (rank of the R component of the signature, the tie-break of
   SortedFrameEvents.Less).  A block signature carries the identifier [bs_over] of the body it
   signs; a delivered block receives its body identifier from the environment ([oracle]).

   Executable definitions only; no proofs in this file. *)
From Coq Require Import ZArith List Bool.
From RecordUpdate Require Import RecordSet.
From V Require Import Model.ZMap Model.Quorum Model.Median Model.Voting.
Import ListNotations RecordSetNotations.
Open Scope Z_scope.

Inductive trilean := Undefined | TTrue | TFalse.

Record itx := mkItx {
  itx_id : Z;          (* identity of the internal transaction (hash ordinal) *)
  itx_add : bool;      (* PEER_ADD / PEER_REMOVE *)
  itx_peer : peer;     (* targeted peer *)
  itx_sigok : bool;    (* signature verifies for itx_peer's key *)
  itx_accept : bool    (* what the application answers in its receipt *)
}.

Record bsig := mkBsig {
  bs_validator : Z;    (* key ordinal of the signer *)
  bs_index : Z;        (* block index *)
  bs_over : Z          (* identifier of the block body that was signed *)
}.

Record event := mkEvent {
  e_id : Z;
  e_creator : Z;
  e_index : Z;
  e_sp : Z;            (* self-parent eid, -1 for "" *)
  e_op : Z;            (* other-parent eid, -1 for "" *)
  e_ts : Z;            (* Body.Timestamp *)
  e_coin : bool;       (* middleBit(hash) *)
  e_sigkey : Z;        (* rank of signature R *)
  e_txs : list Z;
  e_itxs : list itx;
  e_sigs : list bsig;
  e_sigok : bool       (* Event.Verify(): event signature and all itx signatures *)
}.

Definition coords := list (Z * (Z * Z)).   (* creator -> (index, eid) *)

Record evst := mkEvst {
  ev_e : event;
  ev_round : option Z;
  ev_lt : option Z;
  ev_rr : option Z;
  ev_la : coords;
  ev_fd : coords;
  ev_topo : Z
}.
#[export] Instance eta_evst : Settable _ :=
  settable! mkEvst <ev_e; ev_round; ev_lt; ev_rr; ev_la; ev_fd; ev_topo>.

Record rinfo := mkRinfo {
  ri_created : list (Z * (bool * trilean));   (* eid -> (Witness, Famous), insertion order *)
  ri_received : list Z;
  ri_decided : bool
}.
#[export] Instance eta_rinfo : Settable _ := settable! mkRinfo <ri_created; ri_received; ri_decided>.
Definition new_rinfo : rinfo := mkRinfo [] [] false.

(* RollingIndex without eviction: items and lastIndex *)
Record pidx := mkPidx { pi_items : list Z; pi_last : Z }.
Definition new_pidx : pidx := mkPidx [] (-1).

Record frameev := mkFE { fe_id : Z; fe_round : Z; fe_lt : Z; fe_wit : bool }.

Record frame := mkFrame {
  f_round : Z;
  f_peers : peerset;
  f_roots : list (Z * list frameev);     (* creator -> root events, sorted by creator *)
  f_events : list frameev;
  f_peersets : list (Z * peerset);
  f_ts : Z
}.

Record block := mkBlock {
  b_index : Z;
  b_rr : Z;
  b_ts : Z;
  b_txs : list Z;
  b_itxs : list itx;
  b_frame : frame;                 (* stands for FrameHash *)
  b_peers : peerset;               (* stands for PeersHash *)
  b_committed : bool;              (* StateHash / receipts filled in by the application *)
  b_receipts : list (Z * bool);    (* itx id, accepted *)
  b_bodyid : Z;                    (* identifier of the body after commit (environment) *)
  b_sigs : list (Z * Z)            (* validator -> body id signed *)
}.
#[export] Instance eta_block : Settable _ :=
  settable! mkBlock <b_index; b_rr; b_ts; b_txs; b_itxs; b_frame; b_peers; b_committed; b_receipts; b_bodyid; b_sigs>.

Record hg := mkHg {
  events : zmap evst;
  pevents : zmap pidx;                 (* creator -> RollingIndex of eids *)
  rounds : zmap rinfo;
  last_round : Z;
  peersets : list (Z * peerset);       (* PeerSetCache: sorted by round *)
  repertoire : list peer;              (* every peer of every set ever recorded *)
  first_rounds : list (Z * Z);         (* peer id -> first round *)
  undetermined : list Z;
  pending : list (Z * bool);           (* PendingRounds, sorted by index *)
  last_consensus : option Z;
  lower_bound : option Z;
  round_memo : zmap Z;
  witness_memo : zmap bool;
  lt_memo : zmap Z;
  blocks : zmap block;
  last_block : Z;
  frames : zmap frame;
  last_cons_ev : list (Z * Z);         (* creator -> last consensus event *)
  cons_count : Z;
  topo : Z;
  pending_loaded : Z;
  sigpool : list bsig;                 (* PendingSignatures, keyed by (index, validator) *)
  anchor : option Z;
  (* core *)
  self : Z;                            (* own key ordinal; -1: DummyInternalCommitCallback *)
  validators : peerset;                (* core.validators *)
  self_sigs : list bsig;               (* core.selfBlockSignatures *)
  delivered : list block;              (* commit callbacks, oldest first *)
  oracle : list Z;                     (* body identifiers for the blocks still to be delivered *)
  failed : bool                        (* a consensus pass returned an error *)
}.
#[export] Instance eta_hg : Settable _ :=
  settable! mkHg <events; pevents; rounds; last_round; peersets; repertoire; first_rounds; undetermined;
                  pending; last_consensus; lower_bound; round_memo; witness_memo; lt_memo; blocks;
                  last_block; frames; last_cons_ev; cons_count; topo; pending_loaded; sigpool; anchor;
                  self; validators; self_sigs; delivered; oracle; failed>.

(** * Peer-set table (PeerSetCache) *)

Fixpoint ps_table_insert (r : Z) (ps : peerset) (t : list (Z * peerset)) : list (Z * peerset) :=
  match t with
  | [] => [(r, ps)]
  | (r', ps') :: rest => if r <? r' then (r, ps) :: t else (r', ps') :: ps_table_insert r ps rest
  end.

(* Get: exact entry, else first entry when below all, else greatest round <= r *)
Fixpoint ps_table_get_le (r : Z) (t : list (Z * peerset)) (cur : option peerset) : option peerset :=
  match t with
  | [] => cur
  | (r', ps') :: rest => if r' <=? r then ps_table_get_le r rest (Some ps') else cur
  end.
Definition ps_table_get (r : Z) (t : list (Z * peerset)) : option peerset :=
  match t with
  | [] => None
  | (r0, ps0) :: _ => if r <? r0 then Some ps0 else ps_table_get_le r t None
  end.

Definition get_peerset (st : hg) (r : Z) : option peerset := ps_table_get r st.(peersets).

Fixpoint add_first_round (id r : Z) (l : list (Z * Z)) : list (Z * Z) :=
  match l with
  | [] => [(id, r)]
  | (id', r') :: rest => if Z.eqb id' id then (id, if r <? r' then r else r') :: rest
                         else (id', r') :: add_first_round id r rest
  end.

Definition rep_mem (k : Z) (rep : list peer) : bool := existsb (fun p => Z.eqb (pkey p) k) rep.

(* InmemStore.SetPeerSet: refuse an existing round; record repertoire, first rounds, participants *)
Definition set_peerset (st : hg) (r : Z) (ps : peerset) : option hg :=
  if existsb (fun e => Z.eqb (fst e) r) st.(peersets) then None
  else
    let st1 := st <| peersets := ps_table_insert r ps st.(peersets) |> in
    Some (fold_left (fun s p =>
            let s := s <| repertoire := if rep_mem (pkey p) s.(repertoire) then s.(repertoire) else s.(repertoire) ++ [p] |> in
            let s := s <| first_rounds := add_first_round (pid p) r s.(first_rounds) |> in
            if zmem (pkey p) s.(pevents) then s else s <| pevents := zset (pkey p) new_pidx s.(pevents) |>)
          ps st1).

Definition empty_hg (self_ : Z) : hg :=
  mkHg zempty zempty zempty (-1) [] [] [] [] [] None None zempty zempty zempty zempty (-1) zempty [] 0 0 0 []
       None self_ [] [] [] [] false.

(* NewHashgraph + Init(genesis); core.validators = genesis *)
Definition init_hg (self_ : Z) (genesis : peerset) (oracle_ : list Z) : hg :=
  match set_peerset (empty_hg self_) 0 genesis with
  | Some st => st <| validators := genesis |> <| oracle := oracle_ |>
  | None => empty_hg self_
  end.

(** * Store accessors *)

Definition get_event (st : hg) (x : Z) : option evst := zget x st.(events).
Definition set_evst (st : hg) (x : Z) (e : evst) : hg := st <| events := zset x e st.(events) |>.

Definition get_round (st : hg) (r : Z) : option rinfo := zget r st.(rounds).
Definition set_round (st : hg) (r : Z) (ri : rinfo) : hg :=
  st <| rounds := zset r ri st.(rounds) |> <| last_round := Z.max r st.(last_round) |>.

Definition witnesses (ri : rinfo) : list Z :=
  map fst (filter (fun e => fst (snd e)) ri.(ri_created)).
Definition famous_witnesses (ri : rinfo) : list Z :=
  map fst (filter (fun e => match snd e with (true, TTrue) => true | _ => false end) ri.(ri_created)).
Definition is_decided (ri : rinfo) (x : Z) : bool :=
  match aget x ri.(ri_created) with
  | Some (true, Undefined) => false
  | Some (true, _) => true
  | _ => false
  end.
Definition add_created (ri : rinfo) (x : Z) (w : bool) : rinfo :=
  match aget x ri.(ri_created) with
  | Some _ => ri
  | None => ri <| ri_created := ri.(ri_created) ++ [(x, (w, Undefined))] |>
  end.
Definition set_fame (ri : rinfo) (x : Z) (f : bool) : rinfo :=
  let t := if f then TTrue else TFalse in
  match aget x ri.(ri_created) with
  | Some (w, _) => ri <| ri_created := aset x (w, t) ri.(ri_created) |>
  | None => ri <| ri_created := ri.(ri_created) ++ [(x, (true, t))] |>
  end.

(* WitnessesDecided: sticky flag; otherwise all witnesses decided and their number >= supermajority.
   Returns the answer and the (possibly flagged) RoundInfo. *)
Definition witnesses_decided (ri : rinfo) (ps : peerset) : bool * rinfo :=
  if ri.(ri_decided) then (true, ri)
  else if existsb (fun e => match snd e with (true, Undefined) => true | _ => false end) ri.(ri_created)
       then (false, ri)
       else
         let c := Z.of_nat (length (witnesses ri)) in
         let d := super_majority ps <=? c in
         (d, ri <| ri_decided := d |>).

(* RollingIndex (no eviction) *)
Definition pidx_last (p : pidx) : option Z := last (map Some p.(pi_items)) None.
Definition pidx_get_item (p : pidx) (index : Z) : option Z :=
  let n := Z.of_nat (length p.(pi_items)) in
  let oldest := p.(pi_last) - n + 1 in
  if index <? oldest then None
  else let f := index - oldest in
       if n <=? f then None else nth_error p.(pi_items) (Z.to_nat f).
Fixpoint replace_nth {A} (n : nat) (v : A) (l : list A) : list A :=
  match l, n with
  | [], _ => []
  | _ :: r, O => v :: r
  | x :: r, S m => x :: replace_nth m v r
  end.
Definition pidx_set (p : pidx) (item index : Z) : option pidx :=
  if (0 <=? p.(pi_last)) && (p.(pi_last) + 1 <? index) then None            (* SkippedIndex *)
  else if (p.(pi_last) <? 0) || (index =? p.(pi_last) + 1)
       then Some (mkPidx (p.(pi_items) ++ [item]) index)
       else
         let n := Z.of_nat (length p.(pi_items)) in
         let oldest := p.(pi_last) - n + 1 in
         if index <? oldest then None                                        (* TooLate *)
         else Some (mkPidx (replace_nth (Z.to_nat (index - oldest)) item p.(pi_items)) p.(pi_last)).

Definition participant_event (st : hg) (c index : Z) : option Z :=
  match zget c st.(pevents) with Some p => pidx_get_item p index | None => None end.

(* KnownEvents: creator -> lastIndex *)
Definition known_events (st : hg) : list (Z * Z) :=
  map (fun kv => (fst kv, pi_last (snd kv))) (zelements st.(pevents)).

(** * Ancestry predicates *)

(* _ancestor: x == y, or la(x)[creator y].index >= index y *)
Definition ancestor (st : hg) (x y : Z) : option bool :=
  if x =? y then Some true
  else match get_event st x, get_event st y with
       | Some ex, Some ey =>
         Some (match aget (e_creator ey.(ev_e)) ex.(ev_la) with
               | Some (i, _) => e_index ey.(ev_e) <=? i
               | None => false
               end)
       | _, _ => None
       end.
Definition see := ancestor.

Definition ss_count (la fd : coords) (ks : list Z) : Z :=
  Z.of_nat (length (filter (fun p =>
     match aget p la, aget p fd with
     | Some (i, _), Some (j, _) => j <=? i
     | _, _ => false
     end) ks)).

(* _stronglySee *)
Definition strongly_see (st : hg) (x y : Z) (ps : peerset) : option bool :=
  match get_event st x, get_event st y with
  | Some ex, Some ey =>
    Some (super_majority ps <=? ss_count ex.(ev_la) ey.(ev_fd) (dedup (keys ps)))
  | _, _ => None
  end.

(** * Memoised round / witness / lamport (recursion on fuel; the memo tables are threaded) *)

Fixpoint round_f (fuel : nat) (st : hg) (x : Z) : option Z * hg :=
  match zget x st.(round_memo) with
  | Some r => (Some r, st)
  | None =>
    match fuel with
    | O => (None, st)
    | S f =>
      match get_event st x with
      | None => (None, st)
      | Some ex =>
        let sp := e_sp ex.(ev_e) in
        let op := e_op ex.(ev_e) in
        match (if sp =? -1 then (Some (-1), st) else round_f f st sp) with
        | (None, st1) => (None, st1)
        | (Some spr, st1) =>
          match (if op =? -1 then (Some (-1), st1) else round_f f st1 op) with
          | (None, st2) => (None, st2)
          | (Some opr, st2) =>
            let pr := if spr <? opr then opr else spr in
            let memo r s := (Some r, s <| round_memo := zset x r s.(round_memo) |>) in
            if pr =? -1 then memo 0 st2
            else
              match get_round st2 pr, get_peerset st2 pr with
              | Some pri, Some pps =>
                let c := fold_left (fun (acc : option Z) w =>
                           match acc, strongly_see st2 x w pps with
                           | Some n, Some b => Some (if b then n + 1 else n)
                           | _, _ => None
                           end) (witnesses pri) (Some 0) in
                match c with
                | Some c => memo (if super_majority pps <=? c then pr + 1 else pr) st2
                | None => (None, st2)
                end
              | _, _ => (None, st2)
              end
          end
        end
      end
    end
  end.

Definition witness_f (fuel : nat) (st : hg) (x : Z) : option bool * hg :=
  match zget x st.(witness_memo) with
  | Some w => (Some w, st)
  | None =>
    match get_event st x with
    | None => (None, st)
    | Some ex =>
      match round_f fuel st x with
      | (None, st1) => (None, st1)
      | (Some xr, st1) =>
        match get_peerset st1 xr with
        | None => (None, st1)
        | Some ps =>
          let memo w s := (Some w, s <| witness_memo := zset x w s.(witness_memo) |>) in
          if negb (mem_key (e_creator ex.(ev_e)) (keys ps)) then memo false st1
          else
            let sp := e_sp ex.(ev_e) in
            match (if sp =? -1 then (Some (-1), st1) else round_f fuel st1 sp) with
            | (None, st2) => (None, st2)
            | (Some spr, st2) => memo (spr <? xr) st2
            end
        end
      end
    end
  end.

Definition min_int32 : Z := -2147483648.

Fixpoint lamport_f (fuel : nat) (st : hg) (x : Z) : option Z * hg :=
  match zget x st.(lt_memo) with
  | Some t => (Some t, st)
  | None =>
    match fuel with
    | O => (None, st)
    | S f =>
      match get_event st x with
      | None => (None, st)
      | Some ex =>
        let sp := e_sp ex.(ev_e) in
        let op := e_op ex.(ev_e) in
        match (if sp =? -1 then (Some (-1), st) else lamport_f f st sp) with
        | (None, st1) => (None, st1)
        | (Some plt, st1) =>
          match (if op =? -1 then (Some plt, st1)
                 else match get_event st1 op with
                      | None => (Some (if plt <? min_int32 then min_int32 else plt), st1)
                      | Some _ =>
                        match lamport_f f st1 op with
                        | (None, s) => (None, s)
                        | (Some t, s) => (Some (if plt <? t then t else plt), s)
                        end
                      end) with
          | (None, st2) => (None, st2)
          | (Some m, st2) => (Some (m + 1), st2 <| lt_memo := zset x (m + 1) st2.(lt_memo) |>)
          end
        end
      end
    end
  end.

Definition fuel_of (st : hg) : nat := S (Z.to_nat st.(topo)).

(** * InsertEvent *)

Inductive ins_result :=
| InsOk | InsBadSig | InsSelfParentNormal | InsSelfParentOther | InsOtherParent | InsWire | InsStore.

Definition check_self_parent (st : hg) (e : event) : ins_result :=
  match zget (e_creator e) st.(pevents) with
  | None => InsSelfParentOther                               (* UnknownParticipant *)
  | Some p =>
    match pidx_last p with
    | None =>                                                         (* Empty *)
      if e_sp e =? -1 then (if e_index e =? 0 then InsOk else InsSelfParentOther)
      else InsSelfParentOther
    | Some l =>
      if e_sp e =? l then
        (* the index must extend the creator's chain by exactly one *)
        match get_event st l with
        | None => InsSelfParentOther
        | Some spe => if e_index e =? e_index spe.(ev_e) + 1 then InsOk else InsSelfParentOther
        end
      else InsSelfParentNormal
    end
  end.

Definition check_other_parent (st : hg) (e : event) : ins_result :=
  if e_op e =? -1 then InsOk
  else match get_event st (e_op e) with Some _ => InsOk | None => InsOtherParent end.

(* initEventCoordinates *)
Definition merge_la (sla ola : coords) : coords :=
  fold_left (fun acc po =>
    match aget (fst po) acc with
    | Some (i, _) => if i <? fst (snd po) then aset (fst po) (snd po) acc else acc
    | None => aset (fst po) (snd po) acc
    end) ola sla.

Definition init_coords (st : hg) (e : event) : coords * coords :=
  let spe := get_event st (e_sp e) in
  let ope := get_event st (e_op e) in
  let la0 := match spe, ope with
             | None, Some o => o.(ev_la)
             | Some s, None => s.(ev_la)
             | Some s, Some o => merge_la s.(ev_la) o.(ev_la)
             | None, None => []
             end in
  (aset (e_creator e) (e_index e, e_id e) la0, [(e_creator e, (e_index e, e_id e))]).

(* Store.SetEvent: a new event is appended to its creator's RollingIndex first *)
Definition store_set_event (st : hg) (es : evst) : option hg :=
  let x := e_id es.(ev_e) in
  match get_event st x with
  | Some _ => Some (set_evst st x es)
  | None =>
    match zget (e_creator es.(ev_e)) st.(pevents) with
    | None => None
    | Some p =>
      match pidx_set p x (e_index es.(ev_e)) with
      | None => None
      | Some p' => Some (set_evst (st <| pevents := zset (e_creator es.(ev_e)) p' st.(pevents) |>) x es)
      end
    end
  end.

(* one downward walk of updateAncestorFirstDescendant along a creator's chain *)
Fixpoint fd_walk (fuel : nat) (st : hg) (c index x : Z) (ah : Z) : hg :=
  match fuel with
  | O => st
  | S f =>
    match get_event st ah with
    | None => st
    | Some a =>
      match aget c a.(ev_fd) with
      | Some _ => st
      | None =>
        let st1 := set_evst st ah (a <| ev_fd := a.(ev_fd) ++ [(c, (index, x))] |>) in
        match witness_f (fuel_of st1) st1 ah with
        | (Some true, st2) => st2
        | (_, st2) => fd_walk f st2 c index x (e_sp a.(ev_e))
        end
      end
    end
  end.

Definition update_ancestor_fd (st : hg) (e : event) (la : coords) : hg :=
  fold_left (fun s ce => fd_walk (fuel_of s) s (e_creator e) (e_index e) (e_id e) (snd (snd ce))) la st.

Definition is_loaded (e : event) : bool :=
  (e_index e =? 0) || negb (match e_txs e with [] => true | _ => false end)
                   || negb (match e_itxs e with [] => true | _ => false end).

Definition sig_key_eq (a b : bsig) : bool :=
  (bs_index a =? bs_index b) && (bs_validator a =? bs_validator b).
(* SigPool.Add: map keyed by "index-validator"; a later entry replaces *)
Definition sigpool_add (l : list bsig) (s : bsig) : list bsig :=
  filter (fun t => negb (sig_key_eq t s)) l ++ [s].

(* the part of InsertEvent after the checks: counter, coordinates, store, first descendants, queues *)
Definition insert_admitted (st : hg) (e : event) : ins_result * hg :=
  let st1 := st <| topo := st.(topo) + 1 |> in
  let c := init_coords st1 e in
  let es := mkEvst e None None None (fst c) (snd c) st.(topo) in
  match store_set_event st1 es with
  | None => (InsStore, st1)
  | Some st2 =>
    let st3 := update_ancestor_fd st2 e (fst c) in
    let st4 := st3 <| undetermined := st3.(undetermined) ++ [e_id e] |> in
    let st5 := if is_loaded e then st4 <| pending_loaded := st4.(pending_loaded) + 1 |> else st4 in
    (InsOk, st5 <| sigpool := fold_left sigpool_add (e_sigs e) st5.(sigpool) |>)
  end.

Definition insert_event (st : hg) (e : event) : ins_result * hg :=
  if negb (e_sigok e) then (InsBadSig, st)
  else match check_self_parent st e with
  | InsOk =>
    match check_other_parent st e with
    | InsOk => insert_admitted st e
    | r => (r, st)
    end
  | r => (r, st)
  end.

(** * DivideRounds *)

Definition queued (st : hg) (r : Z) : bool := existsb (fun p => Z.eqb (fst p) r) st.(pending).
Fixpoint pending_insert (r : Z) (l : list (Z * bool)) : list (Z * bool) :=
  match l with
  | [] => [(r, false)]
  | (r', d) :: rest => if r <? r' then (r, false) :: l else (r', d) :: pending_insert r rest
  end.

Definition fail (st : hg) : hg := st <| failed := true |>.

Definition set_event_round (st : hg) (x r : Z) : hg :=
  match get_event st x with
  | Some ev => set_evst st x (ev <| ev_round := Some r |>)
  | None => st
  end.
Definition set_event_lt (st : hg) (x t : Z) : hg :=
  match get_event st x with
  | Some ev => set_evst st x (ev <| ev_lt := Some t |>)
  | None => st
  end.
Definition round_or_new (st : hg) (r : Z) : rinfo :=
  match get_round st r with Some ri => ri | None => new_rinfo end.
Definition maybe_queue (st : hg) (r : Z) (ri : rinfo) : hg :=
  if negb (queued st r) && negb ri.(ri_decided) &&
     (match st.(lower_bound) with None => true | Some lb => lb <? r end)
  then st <| pending := pending_insert r st.(pending) |> else st.

(* the "ev.round == nil" block of DivideRounds *)
Definition divide_round (st : hg) (x : Z) : hg :=
  match round_f (fuel_of st) st x with
  | (None, s) => fail s
  | (Some r, s) =>
    let s1 := set_event_round s x r in
    let ri := round_or_new s1 r in
    let s2 := maybe_queue s1 r ri in
    match witness_f (fuel_of s2) s2 x with
    | (None, s') => fail s'
    | (Some w, s') => set_round s' r (add_created ri x w)
    end
  end.

(* the "ev.lamportTimestamp == nil" block *)
Definition divide_lt (st : hg) (x : Z) : hg :=
  match lamport_f (fuel_of st) st x with
  | (None, s) => fail s
  | (Some t, s) => set_event_lt s x t
  end.

Definition divide_one (st : hg) (x : Z) : hg :=
  if st.(failed) then st else
  match get_event st x with
  | None => fail st
  | Some ev =>
    let st1 := match ev.(ev_round) with Some _ => st | None => divide_round st x end in
    if st1.(failed) then st1 else
    match get_event st1 x with
    | None => fail st1
    | Some ev1 => match ev1.(ev_lt) with Some _ => st1 | None => divide_lt st1 x end
    end
  end.

Definition divide_rounds (st : hg) : hg := fold_left divide_one st.(undetermined) st.

(** * DecideFame *)

Definition coin_of (st : hg) (y : Z) : bool :=
  match get_event st y with Some e => e_coin e.(ev_e) | None => true end.

(* instantiation of the abstract voting loop (Model/Voting.v) with store lookups *)
Definition vparams_of (st : hg) (x : Z) : vparams :=
  mkVP (fun y => see st y x)
       (fun j => match get_round st (j - 1) with Some ri => Some (witnesses ri) | None => None end)
       (fun j y w => match get_peerset st (j - 1) with
                     | Some pps => strongly_see st y w pps
                     | None => None end)
       (* the decision quorum of voting round j: the super-majority of the VOTERS' set, round j-1
          (jPrevPeerSet.SuperMajority(); before fix 05eda0b it was the set of round j) *)
       (fun j => match get_peerset st (j - 1) with Some ps => Some (super_majority ps) | None => None end)
       (coin_of st).

Definition round_witnesses (st : hg) (j : Z) : option (list Z) :=
  match get_round st j, get_peerset st j with
  | Some jri, Some _ => Some (witnesses jri)
  | _, _ => None
  end.

Definition fame_of (st : hg) (x r : Z) : option (option bool) :=
  fame_loop (vparams_of st x) (round_witnesses st) r (zrange (r + 1) st.(last_round)) [].

Definition decide_fame_round (acc : hg * list Z) (pr : Z * bool) : hg * list Z :=
  let '(s, decided) := acc in
  if s.(failed) then acc else
  let r := fst pr in
  match get_round s r, get_peerset s r with
  | Some ri, Some rps =>
    let res := fold_left (fun (a : option rinfo) x =>
                 match a with
                 | None => None
                 | Some ri' =>
                   if is_decided ri' x then Some ri'
                   else match fame_of s x r with
                        | None => None
                        | Some None => Some ri'
                        | Some (Some v) => Some (set_fame ri' x v)
                        end
                 end) (witnesses ri) (Some ri) in
    match res with
    | None => (fail s, decided)
    | Some ri' =>
      let '(d, ri'') := witnesses_decided ri' rps in
      (set_round s r ri'', if d then decided ++ [r] else decided)
    end
  | _, _ => (fail s, decided)
  end.

Definition decide_fame (st : hg) : hg :=
  let '(s, decided) := fold_left decide_fame_round st.(pending) (st, []) in
  if s.(failed) then s else
  s <| pending := map (fun p => if existsb (Z.eqb (fst p)) decided then (fst p, true) else p) s.(pending) |>.

(** * DecideRoundReceived *)

Fixpoint rr_loop (st : hg) (x : Z) (is_ : list Z) : hg * bool :=
  match is_ with
  | [] => (st, false)
  | i :: rest =>
    match get_round st i with
    | None =>
      (* missing RoundInfo: break, except (after a Reset) at or below the lower bound: continue *)
      match st.(lower_bound) with
      | Some lb => if i <=? lb then rr_loop st x rest else (st, false)
      | None => (st, false)
      end
    | Some tr =>
      match get_peerset st i with
      | None => (fail st, false)
      | Some tps =>
        let '(d, tr') := witnesses_decided tr tps in
        let st1 := st <| rounds := zset i tr' st.(rounds) |> in   (* flag set through the shared pointer *)
        if negb d then
          match st1.(lower_bound) with
          | Some lb => if lb <? i then (st1, false) else rr_loop st1 x rest
          | None => (st1, false)
          end
        else
          let fws := famous_witnesses tr' in
          let sees := fold_left (fun (acc : option Z) w =>
                        match acc, see st1 w x with
                        | Some n, Some b => Some (if b then n + 1 else n)
                        | _, _ => None
                        end) fws (Some 0) in
          match sees with
          | None => (fail st1, false)
          | Some s =>
            if (s =? Z.of_nat (length fws)) && (super_majority tps <=? s) then
              match get_event st1 x with
              | None => (fail st1, false)
              | Some ex =>
                let st2 := set_evst st1 x (ex <| ev_rr := Some i |>) in
                (set_round st2 i (tr' <| ri_received := tr'.(ri_received) ++ [x] |>), true)
              end
            else rr_loop st1 x rest
          end
      end
    end
  end.

Definition decide_rr_one (acc : hg * list Z) (x : Z) : hg * list Z :=
  let '(st, und) := acc in
  if st.(failed) then acc else
  match round_f (fuel_of st) st x with
  | (None, s) => (fail s, und)
  | (Some r, s) =>
    let '(s', received) := rr_loop s x (zrange (r + 1) s.(last_round)) in
    (s', if received then und else und ++ [x])
  end.

Definition decide_round_received (st : hg) : hg :=
  let '(s, und) := fold_left decide_rr_one st.(undetermined) (st, []) in
  if s.(failed) then s else s <| undetermined := und |>.

(** * Frames and blocks *)

Definition create_frame_event (st : hg) (x : Z) : option frameev :=
  match get_event st x, zget x st.(round_memo) with
  | Some ev, Some r =>
    match get_round st r with
    | None => None
    | Some ri =>
      match aget x ri.(ri_created), zget x st.(lt_memo) with
      | Some (w, _), Some t => Some (mkFE x r t w)
      | _, _ => None
      end
    end
  | _, _ => None
  end.

Definition ROOT_DEPTH : nat := 10.

(* events below the head, newest first *)
Fixpoint root_below (st : hg) (c index : Z) (n : nat) : option (list frameev) :=
  match n with
  | O => Some []
  | S m =>
    let index' := index - 1 in
    if index' <? 0 then Some []
    else match participant_event st c index' with
         | None => Some []
         | Some peh =>
           match create_frame_event st peh, root_below st c index' m with
           | Some fe, Some rest => Some (fe :: rest)
           | _, _ => None
           end
         end
  end.

Definition create_root (st : hg) (c head : Z) : option (list frameev) :=
  if head =? -1 then Some []
  else match create_frame_event st head, get_event st head with
       | Some hfe, Some he =>
         match root_below st c (e_index he.(ev_e)) ROOT_DEPTH with
         | Some below => Some (rev (hfe :: below))
         | None => None
         end
       | _, _ => None
       end.

(* SortedFrameEvents.Less: Lamport timestamp, then signature R *)
Definition fe_less (st : hg) (a b : frameev) : bool :=
  if negb (fe_lt a =? fe_lt b) then fe_lt a <? fe_lt b
  else
    let k x := match get_event st x with Some e => e_sigkey e.(ev_e) | None => 0 end in
    k (fe_id a) <? k (fe_id b).
Fixpoint fe_insert (st : hg) (x : frameev) (l : list frameev) : list frameev :=
  match l with
  | [] => [x]
  | y :: r => if fe_less st y x then y :: fe_insert st x r else x :: l
  end.
Definition fe_sort (st : hg) (l : list frameev) : list frameev := fold_right (fe_insert st) [] l.

Fixpoint roots_insert (c : Z) (r : list frameev) (l : list (Z * list frameev)) : list (Z * list frameev) :=
  match l with
  | [] => [(c, r)]
  | (c', r') :: rest => if c <? c' then (c, r) :: l
                        else if c =? c' then l else (c', r') :: roots_insert c r rest
  end.

Definition creator_of (st : hg) (x : Z) : Z :=
  match get_event st x with Some e => e_creator e.(ev_e) | None => -1 end.
Definition sp_of (st : hg) (x : Z) : Z :=
  match get_event st x with Some e => e_sp e.(ev_e) | None => -1 end.

Definition get_frame (st : hg) (rr : Z) : option frame * hg :=
  match zget rr st.(frames) with
  | Some f => (Some f, st)
  | None =>
    match get_round st rr, get_peerset st rr with
    | Some ri, Some ps =>
      let evs := fold_left (fun (acc : option (list frameev)) x =>
                   match acc, create_frame_event st x with
                   | Some l, Some fe => Some (l ++ [fe])
                   | _, _ => None
                   end) ri.(ri_received) (Some []) in
      match evs with
      | None => (None, st)
      | Some evs =>
        let sorted := fe_sort st evs in
        let roots1 := fold_left (fun (acc : option (list (Z * list frameev))) fe =>
                        match acc with
                        | None => None
                        | Some roots =>
                          let p := creator_of st (fe_id fe) in
                          match aget p roots with
                          | Some _ => Some roots
                          | None => match create_root st p (sp_of st (fe_id fe)) with
                                    | Some r => Some (roots_insert p r roots)
                                    | None => None
                                    end
                          end
                        end) sorted (Some []) in
        let roots2 := fold_left (fun (acc : option (list (Z * list frameev))) (p : peer) =>
                        match acc with
                        | None => None
                        | Some roots =>
                          match aget (pid p) st.(first_rounds) with
                          | None => Some roots
                          | Some fr =>
                            if rr <? fr then Some roots
                            else match aget (pkey p) roots with
                                 | Some _ => Some roots
                                 | None =>
                                   let h := match aget (pkey p) st.(last_cons_ev) with Some h => h | None => -1 end in
                                   match create_root st (pkey p) h with
                                   | Some r => Some (roots_insert (pkey p) r roots)
                                   | None => None
                                   end
                                 end
                          end
                        end) st.(repertoire) roots1 in
        match roots2 with
        | None => (None, st)
        | Some roots =>
          let tss := map (fun w => match get_event st w with Some e => e_ts e.(ev_e) | None => 0 end)
                         (famous_witnesses ri) in
          let f := mkFrame rr ps roots sorted st.(peersets) (median tss) in
          (Some f, st <| frames := zset rr f st.(frames) |>)
        end
      end
    | _, _ => (None, st)
    end
  end.

Definition block_of_frame (index : Z) (f : frame) (st : hg) : block :=
  let txs := flat_map (fun fe => match get_event st (fe_id fe) with Some e => e_txs e.(ev_e) | None => [] end) f.(f_events) in
  let itxs := flat_map (fun fe => match get_event st (fe_id fe) with Some e => e_itxs e.(ev_e) | None => [] end) f.(f_events) in
  mkBlock index f.(f_round) f.(f_ts) txs itxs f f.(f_peers) false [] (-1) [].

(** * SetAnchorBlock / ProcessSigPool *)

Definition set_anchor_block (st : hg) (b : block) : hg :=
  match get_peerset st b.(b_rr) with
  | None => st
  | Some ps =>
    if (trust_count ps <? Z.of_nat (length b.(b_sigs))) &&
       (match st.(anchor) with None => true | Some a => a <? b.(b_index) end)
    then st <| anchor := Some b.(b_index) |> else st
  end.

Definition store_set_block (st : hg) (b : block) : hg :=
  st <| blocks := zset b.(b_index) b st.(blocks) |> <| last_block := Z.max b.(b_index) st.(last_block) |>.

Definition process_sig (st : hg) (s : bsig) : hg :=
  match zget (bs_index s) st.(blocks) with
  | None => st                                            (* unknown block: stays pending *)
  | Some b =>
    match get_peerset st b.(b_rr) with
    | None => st
    | Some ps =>
      if negb (mem_key (bs_validator s) (keys ps)) then st     (* not a validator of the block's round *)
      else if negb (bs_over s =? b.(b_bodyid)) then st         (* does not verify against own body *)
      else
        let b' := b <| b_sigs := aset (bs_validator s) (bs_over s) b.(b_sigs) |> in
        let st1 := store_set_block st b' in
        let st2 := set_anchor_block st1 b' in
        st2 <| sigpool := filter (fun t => negb (sig_key_eq t s)) st2.(sigpool) |>
    end
  end.

Definition process_sigpool (st : hg) : hg := fold_left process_sig st.(sigpool) st.

(** * core.commit, signBlock, processAcceptedInternalTransactions *)

Definition process_receipts (st : hg) (rr : Z) (itxs : list itx) : hg :=
  let eff := rr + 6 in
  let '(vals, changed) :=
    fold_left (fun (acc : peerset * bool) t =>
      if t.(itx_accept) then
        (if t.(itx_add) then with_new (fst acc) t.(itx_peer) else with_removed (fst acc) t.(itx_peer), true)
      else acc) itxs (st.(validators), false) in
  if changed then
    match set_peerset st eff vals with
    | None => st                                           (* "Updating Store PeerSet" error *)
    | Some st1 => st1 <| validators := vals |>
    end
  else st.

(* signBlock + selfBlockSignatures.Add, when the node belongs to the block's validator set *)
Definition sign_block (st : hg) (b : block) (bps : peerset) : block * hg :=
  if mem_key st.(self) (keys bps) then
    let s := mkBsig st.(self) b.(b_index) b.(b_bodyid) in
    let b2 := b <| b_sigs := aset st.(self) b.(b_bodyid) b.(b_sigs) |> in
    (b2, (store_set_block st b2) <| self_sigs := sigpool_add st.(self_sigs) s |>)
  else (b, st).

Definition deliver (st : hg) (b : block) : hg := st <| delivered := st.(delivered) ++ [b] |>.

Definition commit (st : hg) (b : block) : hg :=
  if st.(self) =? -1 then deliver st b                       (* DummyInternalCommitCallback *)
  else
    let bid := hd (-1) st.(oracle) in
    let st0 := st <| oracle := tl st.(oracle) |> in
    let b1 := b <| b_committed := true |> <| b_receipts := map (fun t => (t.(itx_id), t.(itx_accept))) b.(b_itxs) |>
                <| b_bodyid := bid |> in
    let st1 := store_set_block st0 b1 in                     (* the stored block is the same object *)
    match get_peerset st1 b1.(b_rr) with
    | None => deliver st1 b1
    | Some bps =>
      let bs := sign_block st1 b1 bps in
      let st3 := set_anchor_block (snd bs) (fst bs) in
      let st4 := process_receipts st3 (fst bs).(b_rr) (fst bs).(b_itxs) in
      deliver st4 (fst bs)
    end.

(** * ProcessDecidedRounds *)

(* Store.AddConsensusEvent + counters, for one frame event *)
Definition add_consensus_event (s : hg) (fe : frameev) : hg :=
  let c := creator_of s (fe_id fe) in
  let loaded := match get_event s (fe_id fe) with Some e => is_loaded e.(ev_e) | None => false end in
  s <| cons_count := s.(cons_count) + 1 |>
    <| last_cons_ev := aset c (fe_id fe) s.(last_cons_ev) |>
    <| pending_loaded := if loaded then s.(pending_loaded) - 1 else s.(pending_loaded) |>.

(* the "len(frame.Events) > 0" block *)
Definition process_frame (s : hg) (f : frame) : hg :=
  match f.(f_events) with
  | [] => s
  | _ =>
    let s1 := fold_left add_consensus_event f.(f_events) s in
    let b := block_of_frame (s1.(last_block) + 1) f s1 in
    match b.(b_txs), b.(b_itxs) with
    | [], [] => s1
    | _, _ => commit (store_set_block s1 b) b
    end
  end.

Definition bump_last_consensus (s : hg) (r : Z) : hg :=
  match s.(last_consensus) with
  | None => s <| last_consensus := Some r |>
  | Some l => if l <? r then s <| last_consensus := Some r |> else s
  end.

Definition process_round (acc : hg * list Z * bool) (pr : Z * bool) : hg * list Z * bool :=
  let '(st, processed, stop) := acc in
  if stop || st.(failed) then acc else
  if negb (snd pr) then (st, processed, true) else
  let r := fst pr in
  match get_round st r with
  | None => (fail st, processed, true)
  | Some _ =>
    match get_frame st r with
    | (None, s) => (fail s, processed, true)
    | (Some f, s) => (bump_last_consensus (process_frame s f) r, processed ++ [r], false)
    end
  end.

Definition process_decided_rounds (st : hg) : hg :=
  let '(s, processed, _) := fold_left process_round st.(pending) (st, [], false) in
  s <| pending := filter (fun p => negb (existsb (Z.eqb (fst p)) processed)) s.(pending) |>.

(** * InsertEventAndRunConsensus (the only mode core.go uses) *)

Definition run_consensus (st : hg) : hg :=
  let s := divide_rounds st in if s.(failed) then s else
  let s := decide_fame s in if s.(failed) then s else
  let s := decide_round_received s in if s.(failed) then s else
  process_decided_rounds s.

Definition insert_and_run (st : hg) (e : event) : ins_result * hg :=
  match insert_event st e with
  | (InsOk, s) => (InsOk, run_consensus s)
  | r => r
  end.

Definition step (st : hg) (e : event) : hg := snd (insert_and_run st e).
Definition run (st : hg) (es : list event) : hg := fold_left step es st.
