(* Executable transliteration of the fast-sync RESET path:
     src/hashgraph/hashgraph.go   Reset, InsertFrameEvent (after 5bf08c3: topological index from the
                                  counter; setFrameEventWireInfo has no counterpart in HgImpl's state)
     src/hashgraph/frame.go       Frame.SortedFrameEvents
     src/hashgraph/inmem_store.go InmemStore.Reset
     src/node/core.go             fastForward (after checkFastForward succeeded), validators := latest
                                  recorded set of frame.PeerSets (3b6a6ac)
     src/node/node.go             fastForward: processAcceptedInternalTransactions of the anchor
                                  block's receipts after core.fastForward.

   Data abstraction.  A model [frameev] is (event id, round, Lamport timestamp, witness flag); the Go
   FrameEvent also carries the Core event (body + signature).  Event identifiers stand for the hash of
   body + signature, so the core of a frame event is a function of its id: a transported frame is a
   model [frame] plus the list [cores] of the bodies of the events it mentions.  [frame_cores] collects
   them from the serving node's store.

   What Reset does NOT clear is kept on purpose (quirks of the code): timestampCache ([lt_memo]),
   PendingSignatures ([sigpool]), totConsensusEvents ([cons_count]); core.selfBlockSignatures, the
   delivered list, the environment oracle and the failure flag are untouched as well.

   Executable definitions only; no proofs in this file. *)
From Coq Require Import ZArith List Bool.
From RecordUpdate Require Import RecordSet.
From V Require Import Model.ZMap Model.Quorum Model.Median Model.Voting Model.HgImpl.
Import ListNotations RecordSetNotations.
Open Scope Z_scope.

(** * Cores of frame events *)

Definition core_of (cores : list event) (x : Z) : option event :=
  find (fun e => e_id e =? x) cores.

Definition sigkey_of (cores : list event) (x : Z) : Z :=
  match core_of cores x with Some e => e_sigkey e | None => 0 end.

(* SortedFrameEvents.Less on transported frame events: Lamport timestamp, then signature R *)
Definition rfe_less (cores : list event) (a b : frameev) : bool :=
  if negb (fe_lt a =? fe_lt b) then fe_lt a <? fe_lt b
  else sigkey_of cores (fe_id a) <? sigkey_of cores (fe_id b).

Fixpoint rfe_insert (cores : list event) (x : frameev) (l : list frameev) : list frameev :=
  match l with
  | [] => [x]
  | y :: r => if rfe_less cores y x then y :: rfe_insert cores x r else x :: l
  end.
Definition rfe_sort (cores : list event) (l : list frameev) : list frameev :=
  fold_right (rfe_insert cores) [] l.

Definition root_events (f : frame) : list frameev := flat_map snd f.(f_roots).
Definition all_frame_events (f : frame) : list frameev := root_events f ++ f.(f_events).

(* Frame.SortedFrameEvents: the events of all roots, then the frame's events, sorted *)
Definition sorted_frame_events (cores : list event) (f : frame) : list frameev :=
  rfe_sort cores (all_frame_events f).

(* the bodies a serving node attaches to a frame (FrameEvent.Core) *)
Definition frame_cores (st : hg) (f : frame) : list event :=
  flat_map (fun fe => match get_event st (fe_id fe) with Some ev => [ev.(ev_e)] | None => [] end)
           (all_frame_events f).

(** * InmemStore.Reset *)

Fixpoint set_peersets (st : hg) (l : list (Z * peerset)) : bool * hg :=
  match l with
  | [] => (true, st)
  | (r, ps) :: rest =>
    match set_peerset st r ps with
    | None => (false, st)
    | Some s => set_peersets s rest
    end
  end.

(* every cache of the store is replaced; totConsensusEvents is not *)
Definition store_clear (st : hg) : hg :=
  st <| events := zempty |> <| pevents := zempty |> <| rounds := zempty |> <| last_round := -1 |>
     <| peersets := [] |> <| repertoire := [] |> <| first_rounds := [] |>
     <| blocks := zempty |> <| last_block := -1 |> <| frames := zempty |> <| last_cons_ev := [] |>.

Definition store_set_frame (st : hg) (f : frame) : hg :=
  st <| frames := zset f.(f_round) f st.(frames) |>.

Definition store_reset (st : hg) (f : frame) : bool * hg :=
  match set_peersets (store_clear st) f.(f_peersets) with
  | (false, s) => (false, s)
  | (true, s) => (true, store_set_frame s f)
  end.

(** * InsertFrameEvent *)

(* Store.AddConsensusEvent alone (ProcessDecidedRounds also adjusts PendingLoadedEvents) *)
Definition store_add_consensus_event (s : hg) (e : event) : hg :=
  s <| cons_count := s.(cons_count) + 1 |>
    <| last_cons_ev := aset (e_creator e) (e_id e) s.(last_cons_ev) |>.

Definition memo_frame_event (st : hg) (fe : frameev) : hg :=
  st <| round_memo := zset (fe_id fe) (fe_round fe) st.(round_memo) |>
     <| witness_memo := zset (fe_id fe) (fe_wit fe) st.(witness_memo) |>
     <| lt_memo := zset (fe_id fe) (fe_lt fe) st.(lt_memo) |>.

Definition insert_frame_event (st : hg) (fe : frameev) (e : event) : bool * hg :=
  let st1 := memo_frame_event st fe in
  let ri := add_created (round_or_new st1 (fe_round fe)) (fe_id fe) (fe_wit fe) in
  let st2 := set_round st1 (fe_round fe) ri in
  let st3 := st2 <| topo := st2.(topo) + 1 |> in
  let c := init_coords st3 e in
  let es := mkEvst e (Some (fe_round fe)) (Some (fe_lt fe)) None (fst c) (snd c) st2.(topo) in
  match store_set_event st3 es with
  | None => (false, st3)
  | Some st4 =>
    let st5 := update_ancestor_fd st4 e (fst c) in
    (true, store_add_consensus_event st5 e)
  end.

Fixpoint insert_frame_events (st : hg) (l : list frameev) (cores : list event) : bool * hg :=
  match l with
  | [] => (true, st)
  | fe :: rest =>
    match core_of cores (fe_id fe) with
    | None => (false, st)                       (* a FrameEvent always carries its Core *)
    | Some e =>
      match insert_frame_event st fe e with
      | (false, s) => (false, s)
      | (true, s) => insert_frame_events s rest cores
      end
    end
  end.

(** * Hashgraph.Reset *)

Definition hg_clear (st : hg) : hg :=
  st <| last_consensus := None |> <| anchor := None |> <| undetermined := [] |> <| pending := [] |>
     <| pending_loaded := 0 |> <| topo := 0 |> <| round_memo := zempty |> <| witness_memo := zempty |>.

Definition reset_finish (st : hg) (b : block) : hg :=
  (store_set_block st b) <| last_consensus := Some b.(b_rr) |> <| lower_bound := Some b.(b_rr) |>.

Definition reset_hg (st : hg) (b : block) (f : frame) (cores : list event) : bool * hg :=
  match store_reset (hg_clear st) f with
  | (false, s) => (false, s)
  | (true, s1) =>
    match insert_frame_events s1 (sorted_frame_events cores f) cores with
    | (false, s) => (false, s)
    | (true, s2) => (true, reset_finish s2 b)
    end
  end.

(** * core.fastForward (after checkFastForward) and node.fastForward *)

(* the entry of frame.PeerSets with the greatest round ("r > latestRound", starting from -1) *)
Definition latest_peerset (l : list (Z * peerset)) : Z * option peerset :=
  fold_left (fun (acc : Z * option peerset) rp =>
               if fst acc <? fst rp then (fst rp, Some (snd rp)) else acc) l (-1, None).

Definition ff_validators (f : frame) : peerset :=
  match latest_peerset f.(f_peersets) with
  | (lr, Some ps) => if 0 <=? lr then ps else f.(f_peers)
  | (_, None) => f.(f_peers)
  end.

Definition core_fast_forward (st : hg) (b : block) (f : frame) (cores : list event) : bool * hg :=
  match reset_hg st b f cores with
  | (false, s) => (false, s)
  | (true, s) => (true, s <| validators := ff_validators f |>)
  end.

(* node.fastForward: core.fastForward, then the anchor block's receipts (a committed block's receipts
   are the application's per-transaction answers, [itx_accept], as in [commit]) *)
Definition node_fast_forward (st : hg) (b : block) (f : frame) (cores : list event) : bool * hg :=
  match core_fast_forward st b f cores with
  | (false, s) => (false, s)
  | (true, s) => (true, process_receipts s b.(b_rr) b.(b_itxs))
  end.

(** * What a serving node answers: GetAnchorBlockWithFrame *)

Definition anchor_block_with_frame (st : hg) : option (block * frame * list event) * hg :=
  match st.(anchor) with
  | None => (None, st)
  | Some a =>
    match zget a st.(blocks) with
    | None => (None, st)
    | Some b =>
      match get_frame st b.(b_rr) with
      | (None, s) => (None, s)
      | (Some f, s) => (Some (b, f, frame_cores s f), s)
      end
    end
  end.

(* a joiner's whole life in the model: fast-forward from a server's answer, then gossip *)
Definition reset_from (victim server : hg) : option hg :=
  match anchor_block_with_frame server with
  | (Some (b, f, cores), _) =>
    match node_fast_forward victim b f cores with
    | (true, s) => Some s
    | (false, _) => None
    end
  | (None, _) => None
  end.

(** * Decidable well-formedness of a received frame (evaluated by the runner on every fast-forward):
      distinct, non-negative event identifiers, non-negative rounds, peer-set table sorted by round *)
Fixpoint sorted_ltb (l : list Z) : bool :=
  match l with
  | [] => true
  | x :: r => forallb (fun y => x <? y) r && sorted_ltb r
  end.
Fixpoint nodupb (l : list Z) : bool :=
  match l with [] => true | x :: r => negb (existsb (Z.eqb x) r) && nodupb r end.
Definition frame_shapeb (f : frame) : bool :=
  nodupb (map fe_id (all_frame_events f)) &&
  forallb (fun fe => (0 <=? fe_id fe) && (0 <=? fe_round fe)) (all_frame_events f) &&
  sorted_ltb (map fst (f_peersets f)).

(* the further premises of the after-reset theorems (C13_after_reset_rr_increasing, C13_after_reset_admission)
   that can be read off the received data, evaluated by the runner on every fast-forward as well:
   the anchor's round-received is non-negative, no event of the frame records a round above it,
   and the shipped bodies have non-negative indexes *)
Definition after_reset_premisesb (b : block) (f : frame) (cores : list event) : bool :=
  (0 <=? b_rr b) &&
  forallb (fun fe => fe_round fe <=? b_rr b) (all_frame_events f) &&
  forallb (fun fe => match core_of cores (fe_id fe) with Some e => 0 <=? e_index e | None => true end)
          (all_frame_events f).
