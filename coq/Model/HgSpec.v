(* Declarative layer: ancestry-only definitions of the quantities that HgImpl maintains
   incrementally (static validator set).  Everything here is a function of the admitted DAG
   (the static parts of the stored events) and of the validator set: no insertion order, no
   memo tables, no queues.  Executable (fuel = number of stored events suffices), so it is
   compared with HgImpl on every generated history before anything is proved about it.

   coordinates:
     s_la G x c        = the highest-index event of creator c among the ancestors-or-self of x
     s_fd G ps a c     = first-descendant entry of a for creator c with this code's walk-stop rule:
                         let e = the lowest-index event of c having a among its ancestors-or-self,
                         t = s_la G e (creator a); the entry is e provided no witness lies on
                         a's creator chain strictly above a up to t (the walk from t downwards
                         stops after the first witness it marks)
     s_ss              = strongly-see: #{c in validators | s_fd w c defined, its index <= s_la x c} >= sm
     s_round, s_witness, s_lt = by recursion on ancestry. *)
From Coq Require Import ZArith List Bool.
From V Require Import Model.ZMap Model.Quorum Model.HgImpl.
Import ListNotations.
Open Scope Z_scope.

Definition dag := zmap event.

Definition dag_of (st : hg) : dag :=
  fold_left (fun g kv => zset (fst kv) (ev_e (snd kv)) g) (zelements st.(events)) zempty.

(* last ancestors, tabulated in a topological order of the DAG:
   la(x) = la(self-parent) merged with la(other-parent) (greater index wins), plus x itself *)
Definition latab := zmap coords.
Definition la_step (G : dag) (T : latab) (x : Z) : latab :=
  match zget x G with
  | None => T
  | Some e =>
    let sla := match zget (e_sp e) T with Some l => l | None => [] end in
    let ola := match zget (e_op e) T with Some l => l | None => [] end in
    zset x (aset (e_creator e) (e_index e, e_id e) (merge_la sla ola)) T
  end.
Definition la_table (G : dag) (order : list Z) : latab := fold_left (la_step G) order zempty.
Definition s_la (T : latab) (x : Z) : coords := match zget x T with Some l => l | None => [] end.

Definition la_index (la : coords) (c : Z) : option Z :=
  match aget c la with Some (i, _) => Some i | None => None end.

(* x has a among its ancestors-or-self (index = height on a fork-free chain) *)
Definition s_anc (T : latab) (G : dag) (x a : Z) : bool :=
  match zget a G with
  | None => false
  | Some ea => match la_index (s_la T x) (e_creator ea) with
               | Some i => e_index ea <=? i
               | None => false
               end
  end.

(* the chain of creator c as (index -> eid), from the DAG *)
Definition chain_event (G : dag) (c i : Z) : option Z :=
  let l := filter (fun kv => (e_creator (snd kv) =? c) && (e_index (snd kv) =? i)) (zelements G) in
  match l with kv :: _ => Some (fst kv) | [] => None end.

Section WithRounds.
  (* rounds / witness flags are computed first for all events (table), then used for fd *)
  Variable G : dag.
  Variable ps : peerset.
  Variable T : latab.

  (* witness table and round table as association lists, built in increasing eid order by the
     caller; here: lookups *)
  Variable rtab : list (Z * (Z * bool)).   (* eid -> (round, witness) *)

  Definition r_of (x : Z) : option Z := match aget x rtab with Some (r, _) => Some r | None => None end.
  Definition w_of (x : Z) : bool := match aget x rtab with Some (_, w) => w | None => false end.

  (* is there a witness on creator q's chain with index in (lo, hi] ? *)
  Definition witness_between (q lo hi : Z) : bool :=
    existsb (fun i => match chain_event G q i with Some y => w_of y | None => false end)
            (zrange (lo + 1) hi).

  (* first-descendant entry of a for creator c *)
  Definition s_fd (a c : Z) : option (Z * Z) :=
    match zget a G with
    | None => None
    | Some ea =>
      (* c's events having a as ancestor-or-self, lowest index first *)
      let cands := filter (fun kv => (e_creator (snd kv) =? c) && s_anc T G (fst kv) a) (zelements G) in
      let best := fold_left (fun (acc : option event) kv =>
                    match acc with
                    | None => Some (snd kv)
                    | Some b => if e_index (snd kv) <? e_index b then Some (snd kv) else acc
                    end) cands None in
      match best with
      | None => None
      | Some e =>
        match la_index (s_la T (e_id e)) (e_creator ea) with
        | None => None
        | Some t => if witness_between (e_creator ea) (e_index ea) t then None
                    else Some (e_index e, e_id e)
        end
      end
    end.

  Definition s_ss (x w : Z) : bool :=
    let la := s_la T x in
    let cnt := Z.of_nat (length (filter (fun c =>
                 match la_index la c, s_fd w c with
                 | Some i, Some (j, _) => j <=? i
                 | _, _ => false
                 end) (dedup (keys ps)))) in
    super_majority ps <=? cnt.
End WithRounds.

(* one event's round and witness flag from the table of the events before it (eid order is a
   topological order in every harness trace; the proofs use ancestry, not eids) *)
Definition s_round_step (G : dag) (ps : peerset) (T : latab) (rtab : list (Z * (Z * bool))) (x : Z)
  : option (Z * bool) :=
  match zget x G with
  | None => None
  | Some e =>
    let pr (p : Z) := if p =? -1 then Some (-1) else r_of rtab p in
    match pr (e_sp e), pr (e_op e) with
    | Some spr, Some opr =>
      let parent := Z.max spr opr in
      let r :=
        if parent =? -1 then 0
        else
          let ws := filter (fun kv => (fst (snd kv) =? parent) && snd (snd kv) && s_anc T G x (fst kv)) rtab in
          let c := Z.of_nat (length (filter (fun kv => s_ss G ps T rtab x (fst kv)) ws)) in
          if super_majority ps <=? c then parent + 1 else parent in
      let w := mem_key (e_creator e) (keys ps) && (spr <? r) in
      Some (r, w)
    | _, _ => None
    end
  end.

(* the whole table, processing events in the given (topological) order *)
Definition s_table (G : dag) (ps : peerset) (T : latab) (order : list Z) : list (Z * (Z * bool)) :=
  fold_left (fun rtab x =>
    match s_round_step G ps T rtab x with
    | Some rw => rtab ++ [(x, rw)]
    | None => rtab
    end) order [].

(* Lamport timestamp, tabulated in topological order *)
Definition lt_step (G : dag) (L : zmap Z) (x : Z) : zmap Z :=
  match zget x G with
  | None => L
  | Some e =>
    let a := match zget (e_sp e) L with Some t => t | None => -1 end in
    let b := match zget (e_op e) L with Some t => t | None => -1 end in
    zset x (Z.max a b + 1) L
  end.
Definition lt_table (G : dag) (order : list Z) : zmap Z := fold_left (lt_step G) order zempty.

(* comparison of a HgImpl state with the declarative layer (used by the runner) *)
(* insertion order of the stored events (by the insertion counter): a topological order *)
Fixpoint insert_by_topo (kv : Z * Z) (l : list (Z * Z)) : list (Z * Z) :=
  match l with
  | [] => [kv]
  | h :: r => if snd kv <? snd h then kv :: l else h :: insert_by_topo kv r
  end.
Definition order_of (st : hg) : list Z :=
  map fst (fold_right insert_by_topo [] (map (fun kv => (fst kv, ev_topo (snd kv))) (zelements st.(events)))).

Definition spec_mismatches (st : hg) (ps : peerset) : list (Z * Z) :=
  let G := dag_of st in
  let order := order_of st in
  let T := la_table G order in
  let L := lt_table G order in
  let rtab := s_table G ps T order in
  flat_map (fun kv =>
    let x := fst kv in let es := snd kv in
    let m1 := match ev_round es, r_of rtab x with
              | Some r, Some r' => if r =? r' then [] else [(x, 1)]
              | Some _, None => [(x, 1)]
              | None, _ => [] end in
    let m2 := match ev_lt es, zget x L with Some t, Some t' => if t =? t' then [] else [(x, 2)] | Some _, None => [(x, 2)] | None, _ => [] end in
    let m3 := if forallb (fun ce => match aget (fst ce) (s_la T x) with
                                    | Some (i, y) => (i =? fst (snd ce)) && (y =? snd (snd ce))
                                    | None => false end) (ev_la es)
                 && (length (ev_la es) =? length (s_la T x))%nat then [] else [(x, 3)] in
    let m4 := if forallb (fun c =>
                   match aget c (ev_fd es), s_fd G T rtab x c with
                   | Some (i, y), Some (i', y') => (i =? i') && (y =? y')
                   | None, None => true
                   | _, _ => false end) (dedup (keys ps)) then [] else [(x, 4)] in
    let m5 := match zget x st.(witness_memo) with
              | Some w => if Bool.eqb w (w_of rtab x) then [] else [(x, 5)]
              | None => [] end in
    m1 ++ m2 ++ m3 ++ m4 ++ m5) (zelements st.(events)).
