(* C08: the validation layer that remote values go through, as total functions into
     outcome := Ok v | Err | Panic | Hang
   Panic is produced only by the modelled Go primitives (slice expression out of range, index out
   of range, nil dereference, nil-map write); Hang only by the modelled defect of the canonical
   JSON encoder (github.com/ugorji/go/codec v1.1.7 jsonEncDriver.quoteStr never terminates on a
   string containing U+FFFD).  Every function takes a record [fixes] saying which of the per-site
   repairs are present: [asis] is the code as it is in the pinned tree, [repaired] the code with
   all the fixes of FINDINGS.md.  Executable definitions only.

   Go strings and byte slices are lists of byte codes (Z); *big.Int is option Z (None = nil);
   whether an ECDSA signature verifies ("sigok") is DATA supplied by the harness. *)
From Coq Require Import ZArith List Bool.
Import ListNotations.
Open Scope Z_scope.

Inductive outcome (A : Type) : Type :=
| Ok (a : A)
| Err
| Panic
| Hang.
Arguments Ok {A} a.
Arguments Err {A}.
Arguments Panic {A}.
Arguments Hang {A}.

Definition bind {A B} (o : outcome A) (f : A -> outcome B) : outcome B :=
  match o with Ok a => f a | Err => Err | Panic => Panic | Hang => Hang end.

Record fixes := mkFixes {
  fx_hex : bool;      (* common.DecodeFromString checks the length before hexString[2:] *)
  fx_sig : bool;      (* keys.DecodeSignature reports a failed SetString *)
  fx_key : bool;      (* keys.ToPublicKey returns nil for a non-point; keys.Verify refuses nil key / r / s *)
  fx_parents : bool;  (* Event.SelfParent / OtherParent check len(Parents) *)
  fx_limit : bool;    (* processSyncRequest clamps a negative limit *)
  fx_less : bool;     (* SortedFrameEvents.Less does not Cmp nil *)
  fx_frame : bool;    (* core.fastForward calls Frame.Validate first *)
  fx_sigpool : bool;  (* ProcessSigPool drops a malformed signature and continues *)
  fx_utf8 : bool;     (* strings the canonical encoder cannot encode are refused at admission *)
  fx_restore : bool;  (* Node.fastForward restores the snapshot after core.fastForward *)
  fx_rehearse : bool  (* core.fastForward rehearses Hashgraph.Reset on a scratch hashgraph *)
}.

Definition asis : fixes := mkFixes false false false false false false false false false false false.
Definition repaired : fixes := mkFixes true true true true true true true true true true true.

Definition gstring := list Z.
Definition len {A} (l : list A) : Z := Z.of_nat (length l).

(* ------------------------------------------------------------------ Go primitives *)

(* s[k:] *)
Definition slice_from {A} (s : list A) (k : Z) : outcome (list A) :=
  if (k <? 0) || (len s <? k) then Panic else Ok (skipn (Z.to_nat k) s).

(* s[:k] on a slice of length n (k <= n is the only case the code reaches): the new length *)
Definition slice_to (n k : Z) : outcome Z :=
  if (k <? 0) || (n <? k) then Panic else Ok k.

(* s[i] *)
Definition index_check (n i : Z) : outcome unit :=
  if (i <? 0) || (n <=? i) then Panic else Ok tt.

(* ------------------------------------------------------------------ hex *)

Definition hexval (c : Z) : option Z :=
  if (48 <=? c) && (c <=? 57) then Some (c - 48)
  else if (97 <=? c) && (c <=? 102) then Some (c - 87)
  else if (65 <=? c) && (c <=? 70) then Some (c - 55)
  else None.

(* encoding/hex.DecodeString: (bytes decoded before the error, no error) *)
Fixpoint hex_pairs (s : gstring) : gstring * bool :=
  match s with
  | [] => ([], true)
  | _ :: [] => ([], false)
  | a :: b :: r =>
    match hexval a, hexval b with
    | Some x, Some y => let (bs, ok) := hex_pairs r in (16 * x + y :: bs, ok)
    | _, _ => ([], false)
    end
  end.

(* common.DecodeFromString: Ok (bytes, err == nil) *)
Definition decode_from_string (fx : fixes) (s : gstring) : outcome (gstring * bool) :=
  if fx_hex fx && (len s <? 2) then Ok ([], false)
  else bind (slice_from s 2) (fun r => Ok (hex_pairs r)).

(* Peer.PubKeyBytes: res, _ := DecodeFromString(PubKeyHex) *)
Definition pub_key_bytes (fx : fixes) (s : gstring) : outcome gstring :=
  bind (decode_from_string fx s) (fun p => Ok (fst p)).

(* ------------------------------------------------------------------ signatures *)

(* strings.Split(s, "|") *)
Fixpoint split_bar (s : gstring) : list gstring :=
  match s with
  | [] => [[]]
  | c :: r =>
    if c =? 124 then [] :: split_bar r
    else match split_bar r with h :: t => (c :: h) :: t | [] => [[c]] end
  end.

Definition digit36 (c : Z) : option Z :=
  if (48 <=? c) && (c <=? 57) then Some (c - 48)
  else if (97 <=? c) && (c <=? 122) then Some (c - 87)
  else if (65 <=? c) && (c <=? 90) then Some (c - 55)
  else None.

Fixpoint parse_digits (acc : Z) (s : gstring) : option Z :=
  match s with
  | [] => Some acc
  | c :: r => match digit36 c with Some d => parse_digits (36 * acc + d) r | None => None end
  end.

(* new(big.Int).SetString(s, 36): None = (nil, false) *)
Definition set_string36 (s : gstring) : option Z :=
  let '(neg, body) := match s with
                      | 43 :: r => (false, r)
                      | 45 :: r => (true, r)
                      | _ => (false, s)
                      end in
  match body with
  | [] => None
  | _ => match parse_digits 0 body with
         | Some v => Some (if neg then - v else v)
         | None => None
         end
  end.

Definition is_none {A} (o : option A) : bool := match o with None => true | Some _ => false end.

(* keys.DecodeSignature *)
Definition decode_signature (fx : fixes) (sig : gstring) : outcome (option Z * option Z) :=
  match split_bar sig with
  | [a; b] =>
    let r := set_string36 a in
    let s := set_string36 b in
    if fx_sig fx && (is_none r || is_none s) then Err else Ok (r, s)
  | _ => Err
  end.

(* ------------------------------------------------------------------ keys *)

Inductive pubkey := KNil | KXYNil | KPoint (x y : Z).

Definition secp_p : Z := 2 ^ 256 - 2 ^ 32 - 977.
Definition secp_n : Z := 115792089237316195423570985008687907852837564279074904382605163141518161494337.

Definition be_bytes (l : gstring) : Z := fold_left (fun a b => 256 * a + b) l 0.

Definition on_curve (x y : Z) : bool := ((y * y - (x * x * x + 7)) mod secp_p) =? 0.

(* keys.ToPublicKey (elliptic.Unmarshal on secp256k1) *)
Definition to_public_key (fx : fixes) (b : gstring) : pubkey :=
  let bad := if fx_key fx then KNil else KXYNil in
  match b with
  | [] => KNil
  | t :: rest =>
    if (len b =? 65) && (t =? 4) then
      let x := be_bytes (firstn 32 rest) in
      let y := be_bytes (skipn 32 rest) in
      if (x <? secp_p) && (y <? secp_p) && on_curve x y then KPoint x y else bad
    else bad
  end.

Definition key_unusable (pk : pubkey) : bool :=
  match pk with KPoint _ _ => false | _ => true end.

(* keys.Verify = ecdsa.Verify of go1.23 on a non-standard curve, in its order of evaluation *)
Definition keys_verify (fx : fixes) (pk : pubkey) (r s : option Z) (sigok : bool) : outcome bool :=
  if fx_key fx && (key_unusable pk || is_none r || is_none s) then Ok false
  else
    match r with
    | None => Panic                                  (* r.Sign() *)
    | Some rv =>
      if rv <=? 0 then Ok false else
      match s with
      | None => Panic                                (* s.Sign() *)
      | Some sv =>
        if sv <=? 0 then Ok false else
        match pk with
        | KNil => Panic                              (* pub.Curve *)
        | _ =>
          if (secp_n <=? rv) || (secp_n <=? sv) then Ok false else
          match pk with
          | KPoint _ _ => Ok sigok
          | _ => Panic                               (* ScalarMult(pub.X, pub.Y, ..) on nil coordinates *)
          end
        end
      end
    end.

(* ------------------------------------------------------------------ text *)

Definition cont (c : Z) : bool := (128 <=? c) && (c <=? 191).
Definition between (lo hi c : Z) : bool := (lo <=? c) && (c <=? hi).

(* unicode/utf8.ValidString *)
Fixpoint utf8_valid (s : gstring) : bool :=
  match s with
  | [] => true
  | a :: r1 =>
    if (0 <=? a) && (a <? 128) then utf8_valid r1
    else match r1 with
    | [] => false
    | b :: r2 =>
      if between 194 223 a then cont b && utf8_valid r2
      else match r2 with
      | [] => false
      | c :: r3 =>
        if ((a =? 224) && between 160 191 b || between 225 236 a && cont b
            || (a =? 237) && between 128 159 b || between 238 239 a && cont b) then cont c && utf8_valid r3
        else match r3 with
        | [] => false
        | d :: r4 =>
          if ((a =? 240) && between 144 191 b || between 241 243 a && cont b
              || (a =? 244) && between 128 143 b) then cont c && cont d && utf8_valid r4
          else false
        end
      end
    end
  end.

(* the bytes EF BF BD (U+FFFD) occur in s *)
Fixpoint has_fffd (s : gstring) : bool :=
  match s with
  | [] => false
  | a :: r =>
    match r with
    | b :: c :: _ => ((a =? 239) && (b =? 191) && (c =? 189)) || has_fffd r
    | _ => false
    end
  end.

(* common.EncodableString (the repair) *)
Definition encodable (s : gstring) : bool := utf8_valid s && negb (has_fffd s).

(* codec.jsonEncDriver.quoteStr, as far as termination is concerned *)
Definition quote_str (s : gstring) : outcome unit := if has_fffd s then Hang else Ok tt.

(* byte-wise string comparison a < b *)
Fixpoint str_lt (a b : gstring) : bool :=
  match a, b with
  | _, [] => false
  | [], _ :: _ => true
  | x :: a', y :: b' => if x <? y then true else if y <? x then false else str_lt a' b'
  end.

(* ------------------------------------------------------------------ verification of objects *)

Record itx := mkItx {
  it_key : gstring;     (* Body.Peer.PubKeyHex *)
  it_addr : gstring;    (* Body.Peer.NetAddr *)
  it_moniker : gstring; (* Body.Peer.Moniker *)
  it_sig : gstring;     (* Signature *)
  it_sigok : bool       (* data: the signature verifies for the decoded key over the body *)
}.

(* InternalTransaction.Verify *)
Definition itx_verify (fx : fixes) (t : itx) : outcome bool :=
  if fx_utf8 fx && negb (encodable (it_key t) && encodable (it_addr t) && encodable (it_moniker t)) then Err
  else
    bind (pub_key_bytes fx (it_key t)) (fun kb =>
    let pk := to_public_key fx kb in
    bind (decode_signature fx (it_sig t)) (fun rs =>
    keys_verify fx pk (fst rs) (snd rs) (it_sigok t))).

(* the loop over Body.InternalTransactions in Event.Verify *)
Fixpoint itxs_verify (fx : fixes) (l : list itx) : outcome unit :=
  match l with
  | [] => Ok tt
  | t :: r => bind (itx_verify fx t) (fun ok => if ok then itxs_verify fx r else Err)
  end.

(* the repair's loop over Body.BlockSignatures in Event.Verify *)
Fixpoint bsigs_wellformed (fx : fixes) (l : list gstring) : outcome unit :=
  match l with
  | [] => Ok tt
  | s :: r => match decode_signature fx s with
              | Ok _ => if encodable s then bsigs_wellformed fx r else Err
              | _ => Err
              end
  end.

(* Event.Verify *)
Definition event_verify (fx : fixes) (itxs : list itx) (bsigs : list gstring)
           (creator sig : gstring) (sigok : bool) : outcome bool :=
  bind (itxs_verify fx itxs) (fun _ =>
  bind (if fx_utf8 fx then bsigs_wellformed fx bsigs else Ok tt) (fun _ =>
  let pk := to_public_key fx creator in
  bind (decode_signature fx sig) (fun rs =>
  keys_verify fx pk (fst rs) (snd rs) sigok))).

(* Block.Verify *)
Definition block_verify (fx : fixes) (validator sig : gstring) (sigok : bool) : outcome bool :=
  let pk := to_public_key fx validator in
  bind (decode_signature fx sig) (fun rs => keys_verify fx pk (fst rs) (snd rs) sigok).

(* Event.SelfParent (which = 0) / OtherParent (which = 1) on an event with n parents *)
Definition parent_at (fx : fixes) (which n : Z) : outcome unit :=
  if fx_parents fx then Ok tt else index_check n which.

(* ------------------------------------------------------------------ peers, blocks, frames *)

(* a *peers.Peer: None = null, Some k = PubKeyHex *)
Definition peer := option gstring.

(* Peer.ID() *)
Definition peer_id (fx : fixes) (p : peer) : outcome unit :=
  match p with
  | None => Panic
  | Some k => bind (pub_key_bytes fx k) (fun _ => Ok tt)
  end.

(* peers.NewPeerSet(l) followed by Hash(): PubKeyString (null dereference) and ID / PubKeyBytes per peer *)
Fixpoint new_peer_set (fx : fixes) (l : list peer) : outcome unit :=
  match l with
  | [] => Ok tt
  | p :: r => bind (peer_id fx p) (fun _ => new_peer_set fx r)
  end.

(* Block.GetSignatures: validatorBytes, _ := DecodeFromString(key) for every key *)
Fixpoint get_signatures (fx : fixes) (ks : list gstring) : outcome unit :=
  match ks with
  | [] => Ok tt
  | k :: r => bind (pub_key_bytes fx k) (fun _ => get_signatures fx r)
  end.

(* Block.SetSignature on a block whose Signatures map is nil (internal: not reachable remotely) *)
Definition set_signature (nilmap : bool) : outcome Z := if nilmap then Panic else Ok 1.

(* a *FrameEvent *)
Inductive fev :=
| FNil                                   (* null *)
| FCoreNil (lt : Z)                      (* Core == null *)
| FEv (lt : Z) (nparents : Z) (sig : gstring).

(* SortedFrameEvents.Less(i, j) *)
Definition fe_less (fx : fixes) (a b : fev) : outcome bool :=
  match a, b with
  | FNil, _ | _, FNil => Panic                                      (* a[i].LamportTimestamp *)
  | FCoreNil la, FCoreNil lb => if negb (la =? lb) then Ok (la <? lb) else Panic
  | FCoreNil la, FEv lb _ _ => if negb (la =? lb) then Ok (la <? lb) else Panic
  | FEv la _ _, FCoreNil lb => if negb (la =? lb) then Ok (la <? lb) else Panic
  | FEv la _ sa, FEv lb _ sb =>
    if negb (la =? lb) then Ok (la <? lb)
    else
      let ra := match decode_signature fx sa with Ok (r, _) => r | _ => None end in
      let rb := match decode_signature fx sb with Ok (r, _) => r | _ => None end in
      match ra, rb with
      | Some x, Some y => Ok (x <? y)
      | None, None => if fx_less fx then Ok (str_lt sa sb) else Ok false   (* big.Int.Cmp: x == y, no dereference *)
      | _, _ => if fx_less fx then Ok (str_lt sa sb) else Panic            (* wsi.Cmp(wsj) with one nil *)
      end
  end.

(* the first loop of Frame.SortedFrameEvents: r.Events of every root (None = null root) *)
Fixpoint collect_roots (roots : list (option (list fev))) : outcome (list fev) :=
  match roots with
  | [] => Ok []
  | None :: _ => Panic
  | Some evs :: r => bind (collect_roots r) (fun l => Ok (evs ++ l))
  end.

(* the repair: Frame.Validate *)
Definition fev_valid (e : fev) : bool :=
  match e with FEv _ n _ => n =? 2 | _ => false end.
Definition peer_present (p : peer) : bool := match p with None => false | Some _ => true end.
Definition root_valid (r : option (list fev)) : bool :=
  match r with None => false | Some evs => forallb fev_valid evs end.

Record ffresp := mkFF {
  ff_peers : list peer;                        (* Frame.Peers *)
  ff_sigs : list (gstring * bool * gstring * bool);
      (* Block.Signatures: key, data: decoded key is in the peer-set, signature string, data: verifies *)
  ff_trust : Z;                                (* data: TrustCount of the peer-set *)
  ff_peers_hash_ok : bool;                     (* data: hash of the peer-set = Block.PeersHash *)
  ff_frame_hash_ok : bool;                     (* data: Frame.Hash() = Block.FrameHash *)
  ff_has_fffd : bool;                          (* data: some string of the frame contains U+FFFD *)
  ff_roots : list (option (list fev));
  ff_events : list fev;
  ff_peersets : list (list peer);              (* Frame.PeerSets values *)
  ff_insert_ok : bool                          (* data: Hashgraph.Reset can insert the frame events *)
}.

Definition frame_validate (f : ffresp) : bool :=
  forallb peer_present (ff_peers f) && forallb (forallb peer_present) (ff_peersets f)
  && forallb root_valid (ff_roots f) && forallb fev_valid (ff_events f).

(* the loop of CheckBlock over GetSignatures(): number of valid signatures; `ok, _ := block.Verify(s)` *)
Fixpoint check_sigs (fx : fixes) (l : list (gstring * bool * gstring * bool)) : outcome Z :=
  match l with
  | [] => Ok 0
  | (k, member, sig, sigok) :: r =>
    if member then
      bind (pub_key_bytes fx k) (fun kb =>
      match block_verify fx kb sig sigok with
      | Panic => Panic
      | Hang => Hang
      | Ok true => bind (check_sigs fx r) (fun n => Ok (n + 1))
      | _ => check_sigs fx r
      end)
    else check_sigs fx r
  end.

(* what Hashgraph.Reset dereferences: peer-sets (Store.Reset), roots, frame events (sort + InsertFrameEvent) *)
Fixpoint peersets_ok (fx : fixes) (l : list (list peer)) : outcome unit :=
  match l with [] => Ok tt | ps :: r => bind (new_peer_set fx ps) (fun _ => peersets_ok fx r) end.

Definition fev_insertable (fx : fixes) (e : fev) : outcome unit :=
  match e with
  | FNil | FCoreNil _ => Panic
  | FEv _ n _ => bind (parent_at fx 0 n) (fun _ => parent_at fx 1 n)
  end.

Fixpoint fevs_insertable (fx : fixes) (l : list fev) : outcome unit :=
  match l with [] => Ok tt | e :: r => bind (fev_insertable fx e) (fun _ => fevs_insertable fx r) end.

Definition reset_derefs (fx : fixes) (f : ffresp) : outcome unit :=
  bind (peersets_ok fx (ff_peersets f)) (fun _ =>
  bind (collect_roots (ff_roots f)) (fun l =>
  fevs_insertable fx (l ++ ff_events f))).

(* core.fastForward up to (and including the dereferences of) Hashgraph.Reset.
   Ok tt = "passed the checks" (the insertion itself is outside this function). *)
Definition ff_check (fx : fixes) (f : ffresp) : outcome unit :=
  if fx_frame fx && negb (frame_validate f) then Err else
  bind (new_peer_set fx (ff_peers f)) (fun _ =>
  if negb (ff_peers_hash_ok f) then Err else
  bind (get_signatures fx (map (fun e => fst (fst (fst e))) (ff_sigs f))) (fun _ =>
  bind (check_sigs fx (ff_sigs f)) (fun n =>
  if n <=? ff_trust f then Err else
  if fx_utf8 fx && ff_has_fffd f then Err else
  if ff_has_fffd f then Hang else
  if negb (ff_frame_hash_ok f) then Err else
  reset_derefs fx f))).

(* ------------------------------------------------------------------ signature pool *)

Record pentry := mkPE {
  pe_known : bool;      (* data: Store.GetBlock(bs.Index) succeeds *)
  pe_member : bool;     (* data: the validator belongs to the block's peer-set *)
  pe_validator : gstring;
  pe_sig : gstring;
  pe_sigok : bool
}.

(* Hashgraph.ProcessSigPool over the items in the given order: (outcome, items left in the pool) *)
Fixpoint process_sigpool (fx : fixes) (l : list pentry) : outcome unit * list pentry :=
  match l with
  | [] => (Ok tt, [])
  | e :: r =>
    if negb (pe_known e) || negb (pe_member e) then
      let (o, rest) := process_sigpool fx r in (o, e :: rest)
    else
      match block_verify fx (pe_validator e) (pe_sig e) (pe_sigok e) with
      | Panic => (Panic, l)
      | Hang => (Hang, l)
      | Err => if fx_sigpool fx then process_sigpool fx r else (Err, l)
      | Ok false => let (o, rest) := process_sigpool fx r in (o, e :: rest)
      | Ok true => process_sigpool fx r
      end
  end.

(* ------------------------------------------------------------------ RPC handlers *)

(* node states (src/node/state): 0 Babbling 1 CatchingUp 2 Joining 3 Leaving 4 Shutdown 5 Suspended *)
Definition gate (state : Z) (is_sync : bool) : bool :=
  (state =? 0) || ((state =? 5) && is_sync).

(* processSyncRequest: number of events in the response; difflen < 0 stands for "eventDiff failed" *)
Definition sync_request (fx : fixes) (state limit conf difflen : Z) : outcome Z :=
  if negb (gate state true) then Err
  else if difflen <? 0 then Err
  else if 0 <? difflen then
    let l0 := Z.min limit conf in
    let l := if fx_limit fx && (l0 <? 0) then 0 else l0 in
    if l <? difflen then slice_to difflen l else Ok difflen
  else Ok 0.

(* processJoinRequest: Ok accepted.  (The promise of a new peer is never fulfilled within
   JoinTimeout in the harness's world: an environment assumption of the correspondence.) *)
Definition join_request (fx : fixes) (state : Z) (t : itx) (present : bool) : outcome bool :=
  if negb (gate state false) then Err
  else bind (itx_verify fx t) (fun ok =>
       if negb ok then Err else if present then Ok true else Err).

(* one event of an EagerSyncRequest / SyncResponse followed by ProcessSigPool *)
Record wevent := mkWE {
  we_read_ok : bool;           (* data: ReadWireInfo resolves creator and parents *)
  we_itxs : list itx;
  we_bsigs : list gstring;     (* signature strings of Body.BlockSignatures *)
  we_creator : gstring;
  we_sig : gstring;
  we_sigok : bool;
  we_rest_ok : bool            (* data: parent checks, store and consensus passes succeed *)
}.

Definition eager_sync (fx : fixes) (state : Z) (e : wevent) (pool : list pentry) : outcome unit * list pentry :=
  if negb (gate state false) then (Err, pool)
  else if negb (we_read_ok e) then (Err, pool)
  else match event_verify fx (we_itxs e) (we_bsigs e) (we_creator e) (we_sig e) (we_sigok e) with
       | Panic => (Panic, pool)
       | Hang => (Hang, pool)
       | Err | Ok false => (Err, pool)
       | Ok true => if we_rest_ok e then process_sigpool fx pool else (Err, pool)
       end.

(* ------------------------------------------------------------------ node-level state machine *)

Record nstate := mkNS {
  ns_state : Z;
  ns_conf_limit : Z;
  ns_events : Z;            (* number of events the node would send to an empty requester *)
  ns_blocks : list Z;       (* delivered blocks (ordinals of their bodies) *)
  ns_app : Z;               (* application state: ordinal of the last snapshot restored / block applied *)
  ns_pool : list pentry;    (* Hashgraph.PendingSignatures *)
  ns_locked : bool;         (* Node.coreLock is held by nobody who will release it: every handler that needs it blocks *)
  ns_known : list Z;        (* ordinals of the events in the hashgraph (what Store.GetEvent finds) *)
  ns_heads : list (Z * option Z);
      (* core.heads: sender id -> the event to use as other-parent of the next self-event (None = nil) *)
  ns_busy : bool            (* core.busy(): pending transactions / loaded events, so core.sync records the heads *)
}.

(* what core.sync needs to know about the event beyond its validation: its ordinal, the sender of the
   message, its creator, and - when the insertion is refused - whether the refusal is a "normal"
   self-parent error (self-parent is not the creator's last event: duplicates, forks), which core.sync
   skips without an error *)
Record emeta := mkEM { em_id : Z; em_from : Z; em_creator : Z; em_normal : bool }.

Definition head_of (hs : list (Z * option Z)) (k : Z) : option (option Z) :=
  match find (fun p => fst p =? k) hs with Some p => Some (snd p) | None => None end.
Definition del_head (hs : list (Z * option Z)) (k : Z) : list (Z * option Z) :=
  filter (fun p => negb (fst p =? k)) hs.
Definition set_head (hs : list (Z * option Z)) (k : Z) (v : option Z) : list (Z * option Z) :=
  (k, v) :: del_head hs k.
Definition known_head (known : list Z) (h : option Z) : bool :=
  match h with None => true | Some x => existsb (Z.eqb x) known end.
(* every recorded head is an event of the hashgraph: what addSelfEvent's checkOtherParent needs *)
Definition heads_ok (known : list Z) (hs : list (Z * option Z)) : bool :=
  forallb (fun p => known_head known (snd p)) hs.

(* the part of core.sync after validation, for a one-event message. inserted = the event went into the
   hashgraph. Index comparisons ("only a NEWER event replaces / deletes a head") are abstracted: the
   new event is taken to be newer. Returns (recordHeads succeeded, known, heads). *)
Definition sync_heads (known : list Z) (heads : list (Z * option Z)) (busy inserted : bool) (m : emeta)
  : bool * list Z * list (Z * option Z) :=
  let known1 := if inserted then em_id m :: known else known in
  let other := if inserted && (em_creator m =? em_from m) then Some (em_id m) else None in
  let heads1 := if inserted then
                  match head_of heads (em_creator m) with
                  | Some (Some _) => del_head heads (em_creator m)
                  | _ => heads
                  end
                else heads in
  let heads2 := match head_of heads1 (em_from m), other with
                | Some (Some _), None => heads1          (* do not overwrite a non-empty head with an empty one *)
                | _, _ => set_head heads1 (em_from m) other
                end in
  if busy then
    if heads_ok known1 heads2 then (true, known1, [])    (* recordHeads: one self-event per head *)
    else (false, known1, heads2)                         (* addSelfEvent: "Other-parent not known" *)
  else (true, known1, heads2).

Inductive cmd :=
| CSync (limit : Z) (diff_err : bool)
    (* SyncRequest; diff_err = data: core.eventDiff(Known) fails (an index below -1 for a known participant,
       or events already rolled out of the cache); otherwise the Known map is empty *)
| CEager (e : wevent) (new_sigs : list pentry) (m : emeta)  (* the event's block signatures enter the pool *)
| CJoin (t : itx) (present : bool)
| CFastForwardReq
| RFastForward (f : ffresp) (snapshot : Z) (new_blocks : list Z).   (* response to the node's own request *)

Definition set_pool (st : nstate) (p : list pentry) : nstate :=
  mkNS (ns_state st) (ns_conf_limit st) (ns_events st) (ns_blocks st) (ns_app st) p (ns_locked st)
       (ns_known st) (ns_heads st) (ns_busy st).
Definition set_app (st : nstate) (a : Z) : nstate :=
  mkNS (ns_state st) (ns_conf_limit st) (ns_events st) (ns_blocks st) a (ns_pool st) (ns_locked st)
       (ns_known st) (ns_heads st) (ns_busy st).
Definition set_blocks (st : nstate) (b : list Z) : nstate :=
  mkNS (ns_state st) (ns_conf_limit st) (ns_events st) b (ns_app st) (ns_pool st) (ns_locked st)
       (ns_known st) (ns_heads st) (ns_busy st).
(* what a handler that returned without n.coreLock.Unlock() would leave behind (no modelled path does) *)
Definition leak_lock (st : nstate) : nstate :=
  mkNS (ns_state st) (ns_conf_limit st) (ns_events st) (ns_blocks st) (ns_app st) (ns_pool st) true
       (ns_known st) (ns_heads st) (ns_busy st).
(* what a core.sync that recorded a NOT inserted event as the sender's head would leave behind
   (no modelled path does; seeded change seeded/C08-r2) *)
Definition poison_head (st : nstate) (from eid : Z) : nstate :=
  mkNS (ns_state st) (ns_conf_limit st) (ns_events st) (ns_blocks st) (ns_app st) (ns_pool st) (ns_locked st)
       (ns_known st) (set_head (ns_heads st) from (Some eid)) (ns_busy st).
(* a hashgraph reset from a frame: the node fast-forwards before it has synced with anybody *)
Definition reset_graph (st : nstate) : nstate :=
  mkNS (ns_state st) (ns_conf_limit st) (ns_events st) (ns_blocks st) (ns_app st) (ns_pool st) (ns_locked st)
       [] [] (ns_busy st).

(* Every handler below takes n.coreLock after the state gate and releases it on every path,
   error paths included (processSyncRequest: Lock; eventDiff; Unlock - then the error is answered). *)
Definition handle (fx : fixes) (st : nstate) (c : cmd) : outcome unit * nstate :=
  match c with
  | CSync limit diff_err =>
    if negb (gate (ns_state st) true) then (Err, st)
    else if ns_locked st then (Hang, st)
    else
      (bind (sync_request fx (ns_state st) limit (ns_conf_limit st) (if diff_err then -1 else ns_events st))
            (fun _ => Ok tt), st)
  | CJoin t present =>
    if negb (gate (ns_state st) false) then (Err, st)
    else if ns_locked st then (Hang, st)
    else (bind (join_request fx (ns_state st) t present) (fun _ => Ok tt), st)
  | CFastForwardReq =>
    if negb (gate (ns_state st) false) then (Err, st)
    else if ns_locked st then (Hang, st)
    else (Ok tt, st)
  | CEager e sigs m =>
    if negb (gate (ns_state st) false) then (Err, st)
    else if ns_locked st then (Hang, st)
    else if negb (we_read_ok e) then (Err, st)
    else match event_verify fx (we_itxs e) (we_bsigs e) (we_creator e) (we_sig e) (we_sigok e) with
         | Panic => (Panic, st)
         | Hang => (Hang, st)
         | Err | Ok false => (Err, st)
         | Ok true =>
           if negb (we_rest_ok e) && negb (em_normal m) then (Err, st)   (* refused with a reported error *)
           else
             (* inserted (its block signatures are pending), or skipped silently: a "normal"
                self-parent error leaves the hashgraph AND the heads as they were *)
             let inserted := we_rest_ok e in
             let '(recorded, known', heads') := sync_heads (ns_known st) (ns_heads st) (ns_busy st) inserted m in
             let pending := if inserted then ns_pool st ++ sigs else ns_pool st in
             let nev := if inserted then ns_events st + 1 else ns_events st in
             if negb recorded then
               (Err, mkNS (ns_state st) (ns_conf_limit st) nev (ns_blocks st) (ns_app st) pending (ns_locked st)
                          known' heads' (ns_busy st))
             else
               let (o, rest) := process_sigpool fx pending in
               (o, mkNS (ns_state st) (ns_conf_limit st) nev (ns_blocks st) (ns_app st) rest (ns_locked st)
                        known' heads' (ns_busy st))
         end
  | RFastForward f snap blocks =>
    if negb (ns_state st =? 1) then (Err, st)       (* only a node in CatchingUp asks *)
    else if ns_locked st then (Hang, st)
    else
      let st1 := if fx_restore fx then st else set_app st snap in   (* proxy.Restore before the checks *)
      match ff_check fx f with
      | Panic => (Panic, st1)
      | Hang => (Hang, st1)
      | Err => (Err, st1)
      | Ok _ =>
        if fx_rehearse fx && negb (ff_insert_ok f) then (Err, st1)
        else if negb (ff_insert_ok f) then
          (* snapshot restored (at the latest now), store cleared, then the insertion failed *)
          (Err, reset_graph (set_app (set_blocks st1 []) snap))
        else (Ok tt, reset_graph (set_app (set_blocks st1 blocks) snap))
      end
  end.
