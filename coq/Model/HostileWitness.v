(* C08: concrete values used by the refutation witnesses and the examples.  Definitions only. *)
From Coq Require Import ZArith List Bool.
From V Require Import Model.Hostile.
Import ListNotations.
Open Scope Z_scope.

(* "!|!"  "1|1"  "abc"  "a|b|c" *)
Definition s_bang : gstring := [33; 124; 33].
Definition s_one : gstring := [49; 124; 49].
Definition s_abc : gstring := [97; 98; 99].
Definition s_3fields : gstring := [97; 124; 98; 124; 99].
(* "evil" ++ U+FFFD *)
Definition s_fffd : gstring := [101; 118; 105; 108; 239; 191; 189].
Definition s_plain : gstring := [112; 108; 97; 105; 110].

(* the generator of secp256k1: a point of the curve *)
Definition g_x : Z := 55066263022277343669578718895168534326250603453777594175500187360389116729240.
Definition g_y : Z := 32670510020758816978083085130507043184471273380659243275938904335757337482424.

(* n bytes, big endian *)
Fixpoint be_of (n : nat) (z : Z) : gstring :=
  match n with O => [] | S m => be_of m (z / 256) ++ [z mod 256] end.

Definition g_bytes : gstring := 4 :: be_of 32 g_x ++ be_of 32 g_y.

Definition hexdigit (d : Z) : Z := if d <? 10 then 48 + d else 55 + d.
Definition hex_of (bs : gstring) : gstring := flat_map (fun b => [hexdigit (b / 16); hexdigit (b mod 16)]) bs.
(* "0X04..." : the PubKeyHex of the generator *)
Definition g_hex : gstring := 48 :: 88 :: hex_of g_bytes.

(* an honest internal transaction / event / fast-forward response / pool entry *)
Definition good_itx : itx := mkItx g_hex s_plain s_plain s_one true.
Definition good_event : wevent := mkWE true [] [] g_bytes s_one true true.
Definition good_fev : fev := FEv 1 2 s_one.
Definition good_ff : ffresp :=
  mkFF [Some g_hex] [(g_hex, true, s_one, true)] 0 true true false
       [Some [good_fev]] [FEv 2 2 s_one] [[Some g_hex]] true.
Definition good_entry : pentry := mkPE true true g_bytes s_one true.

Definition with_peers (f : ffresp) (p : list peer) : ffresp :=
  mkFF p (ff_sigs f) (ff_trust f) (ff_peers_hash_ok f) (ff_frame_hash_ok f) (ff_has_fffd f)
       (ff_roots f) (ff_events f) (ff_peersets f) (ff_insert_ok f).
Definition with_sigs (f : ffresp) (s : list (gstring * bool * gstring * bool)) : ffresp :=
  mkFF (ff_peers f) s (ff_trust f) (ff_peers_hash_ok f) (ff_frame_hash_ok f) (ff_has_fffd f)
       (ff_roots f) (ff_events f) (ff_peersets f) (ff_insert_ok f).
Definition with_roots (f : ffresp) (r : list (option (list fev))) : ffresp :=
  mkFF (ff_peers f) (ff_sigs f) (ff_trust f) (ff_peers_hash_ok f) (ff_frame_hash_ok f) (ff_has_fffd f)
       r (ff_events f) (ff_peersets f) (ff_insert_ok f).
Definition with_events (f : ffresp) (e : list fev) : ffresp :=
  mkFF (ff_peers f) (ff_sigs f) (ff_trust f) (ff_peers_hash_ok f) (ff_frame_hash_ok f) (ff_has_fffd f)
       (ff_roots f) e (ff_peersets f) (ff_insert_ok f).
Definition with_fffd (f : ffresp) : ffresp :=
  mkFF (ff_peers f) (ff_sigs f) (ff_trust f) (ff_peers_hash_ok f) (ff_frame_hash_ok f) true
       (ff_roots f) (ff_events f) (ff_peersets f) (ff_insert_ok f).
Definition with_frame_hash (f : ffresp) (ok : bool) : ffresp :=
  mkFF (ff_peers f) (ff_sigs f) (ff_trust f) (ff_peers_hash_ok f) ok (ff_has_fffd f)
       (ff_roots f) (ff_events f) (ff_peersets f) (ff_insert_ok f).
Definition with_insert (f : ffresp) (ok : bool) : ffresp :=
  mkFF (ff_peers f) (ff_sigs f) (ff_trust f) (ff_peers_hash_ok f) (ff_frame_hash_ok f) (ff_has_fffd f)
       (ff_roots f) (ff_events f) (ff_peersets f) ok.

(* a babbling node with 3 events and two delivered blocks; the same node catching up *)
Definition st_babbling : nstate := mkNS 0 1000 3 [10; 11] 11 [] false [1; 2] [] true.
Definition st_suspended : nstate := mkNS 5 1000 3 [10; 11] 11 [] false [1; 2] [] true.
Definition st_catching_up : nstate := mkNS 1 1000 3 [10; 11] 11 [] false [1; 2] [] true.

(* the one-event message good_event: event 100, created and sent by validator 7 *)
Definition good_meta : emeta := mkEM 100 7 7 false.
(* a correctly signed fork of validator 7's chain (event 999): refused with a "normal" self-parent error *)
Definition fork_event : wevent := mkWE true [] [] g_bytes s_one true false.
Definition fork_meta : emeta := mkEM 999 7 7 true.
