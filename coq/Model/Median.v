(* Model of src/common/median.go *)
From Coq Require Import ZArith List Bool.
Import ListNotations.
Open Scope Z_scope.

(* int64 two's-complement wrap-around *)
Definition wrap64 (x : Z) : Z := (x + 2 ^ 63) mod 2 ^ 64 - 2 ^ 63.

Fixpoint insert_sorted (x : Z) (l : list Z) : list Z :=
  match l with
  | [] => [x]
  | y :: r => if x <=? y then x :: l else y :: insert_sorted x r
  end.

Fixpoint sortZ (l : list Z) : list Z :=
  match l with [] => [] | x :: r => insert_sorted x (sortZ r) end.

(* l == 0 -> 0 ; even -> (s[l/2-1] + s[l/2]) / 2 (int64 add wraps, / truncates) ; odd -> s[l/2] *)
Definition median (input : list Z) : Z :=
  let s := sortZ input in
  let l := length s in
  match l with
  | O => 0
  | _ => if Nat.even l
         then Z.quot (wrap64 (nth (l / 2 - 1) s 0 + nth (l / 2) s 0)) 2
         else nth (l / 2) s 0
  end.
