(* Helper definitions for the C18 statements (no proofs here). *)
From Coq Require Import ZArith List.
From V Require Import Model.Median.
Import ListNotations.
Open Scope Z_scope.

(* smallest / largest element of a list (0 for the empty list) *)
Definition list_min (l : list Z) : Z :=
  match l with [] => 0 | h :: t => fold_right Z.min h t end.
Definition list_max (l : list Z) : Z :=
  match l with [] => 0 | h :: t => fold_right Z.max h t end.

(* bounds of the int64 range and of the "sum of two cannot wrap" range *)
Definition int64_min : Z := - 2 ^ 63.
Definition int64_max : Z := 2 ^ 63 - 1.
Definition in_int64 (x : Z) : Prop := int64_min <= x <= int64_max.
