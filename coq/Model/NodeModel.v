(* Pools of src/node/core.go: addTransactions, addInternalTransaction, addSelfEvent (capture the
   pool lengths, build the self-event from the pool slices, insert + run consensus - during which
   the commit callback may append to the pools -, trim by the captured counts ONLY when the
   insertion succeeded), and busy().  The hashgraph is abstracted to the outcome of the insertion.
   Executable definitions only. *)
From Coq Require Import ZArith List Bool.
Import ListNotations.
Open Scope Z_scope.

Record pools := mkPools {
  p_txs : list Z;              (* transactionPool (serial numbers stand for the byte strings) *)
  p_itxs : list Z;             (* internalTransactionPool (ids) *)
  p_created : list (list Z * list Z);  (* payloads (txs, itxs) of the self-events created so far, oldest first *)
  p_submitted : list Z;        (* every transaction ever accepted by addTransactions, in order *)
  p_isubmitted : list Z
}.

Definition pools0 : pools := mkPools [] [] [] [] [].

Inductive pop :=
| PSubmit (txs : list Z)                  (* addTransactions *)
| PSubmitItx (i : Z)                      (* addInternalTransaction *)
| PSelfEvent (gate : bool)                (* addSelfEvent: gate = LastRound >= acceptedRound *)
             (ok : bool)                  (* the self-event was inserted (since /repo fix: also when a consensus method failed after the insertion) *)
             (during_txs during_itxs : list Z).  (* appended to the pools while the insertion ran *)

Definition pstep (p : pools) (o : pop) : pools :=
  match o with
  | PSubmit txs => mkPools (p_txs p ++ txs) (p_itxs p) (p_created p) (p_submitted p ++ txs) (p_isubmitted p)
  | PSubmitItx i => mkPools (p_txs p) (p_itxs p ++ [i]) (p_created p) (p_submitted p) (p_isubmitted p ++ [i])
  | PSelfEvent gate ok dtx ditx =>
    if negb gate then p                                     (* "Too early to insert self-event" *)
    else
      let ntx := length (p_txs p) in                        (* txs := len(c.transactionPool) *)
      let nitx := length (p_itxs p) in
      let payload := (p_txs p, p_itxs p) in                 (* NewEvent(c.transactionPool, c.internalTransactionPool, ...) *)
      let txs' := p_txs p ++ dtx in                         (* side effects of the insertion *)
      let itxs' := p_itxs p ++ ditx in
      if ok then mkPools (skipn ntx txs') (skipn nitx itxs') (p_created p ++ [payload])
                         (p_submitted p ++ dtx) (p_isubmitted p ++ ditx)
      else mkPools txs' itxs' (p_created p) (p_submitted p ++ dtx) (p_isubmitted p ++ ditx)
  end.

Definition prun (ops : list pop) : pools := fold_left pstep ops pools0.

(* busy(): PendingLoadedEvents > 0 || pools non-empty || self signatures pending || target round not reached *)
Definition busy (pending_loaded : Z) (p : pools) (self_sigs : nat) (last_consensus : option Z) (target_round : Z) : bool :=
  (0 <? pending_loaded) || negb (match p_txs p with [] => true | _ => false end)
  || negb (match p_itxs p with [] => true | _ => false end)
  || negb (Nat.eqb self_sigs 0)
  || match last_consensus with Some l => l <? target_round | None => false end.
