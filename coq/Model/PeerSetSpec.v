(* Executable specification of the validator-set history (C10): what the PeerSetCache table and
   core.validators must be, as a function of the blocks a node has delivered.

   Mirrors core.processAcceptedInternalTransactions (src/node/core.go) + Store.SetPeerSet
   (src/hashgraph/inmem_store.go, caches.go PeerSetCache.Set), i.e. process_receipts / set_peerset
   of Model/HgImpl.v, but reads nothing except the delivered blocks:

     for each delivered block, in order: apply its accepted receipts, in order, to the current
     validators (PEER_ADD = WithNewPeer, dedup by id; PEER_REMOVE = WithRemovedPeer, by key);
     if at least one receipt was accepted, record the new set at round-received + 6 -- unless that
     round is already in the table: then SetPeerSet returns an error and core.validators keeps
     its OLD value (the quirk is part of the specification).

   Executable definitions only; no proofs in this file. *)
From Coq Require Import ZArith List Bool.
From V Require Import Model.ZMap Model.Quorum Model.HgImpl.
Import ListNotations.
Open Scope Z_scope.

(* one receipt *)
Definition apply_receipt (acc : peerset * bool) (t : itx) : peerset * bool :=
  if t.(itx_accept) then
    (if t.(itx_add) then with_new (fst acc) t.(itx_peer) else with_removed (fst acc) t.(itx_peer), true)
  else acc.

(* all receipts of a block: the resulting set and whether anything was accepted *)
Definition apply_receipts (vals : peerset) (itxs : list itx) : peerset * bool :=
  fold_left apply_receipt itxs (vals, false).

Definition table_has (r : Z) (t : list (Z * peerset)) : bool := existsb (fun e => Z.eqb (fst e) r) t.

(* the effect of one committed block (round-received rr, internal transactions itxs) on
   (table, core.validators) *)
Definition replay_step (acc : list (Z * peerset) * peerset) (rr : Z) (itxs : list itx)
  : list (Z * peerset) * peerset :=
  let vc := apply_receipts (snd acc) itxs in
  if snd vc then
    if table_has (rr + 6) (fst acc) then acc
    else (ps_table_insert (rr + 6) (fst vc) (fst acc), fst vc)
  else acc.

Definition replay_block (acc : list (Z * peerset) * peerset) (d : block) : list (Z * peerset) * peerset :=
  replay_step acc (b_rr d) (b_itxs d).

Definition replay (tbl : list (Z * peerset)) (vals : peerset) (ds : list block) : list (Z * peerset) * peerset :=
  fold_left replay_block ds (tbl, vals).

(* the table and the validators of a node that started from [genesis] and delivered [ds] *)
Definition replay_genesis (genesis : peerset) (ds : list block) : list (Z * peerset) * peerset :=
  replay [(0, genesis)] genesis ds.

(* lookup specification: the entry with the greatest round <= r *)
Definition ps_lookup (r : Z) (t : list (Z * peerset)) : option peerset :=
  match rev (filter (fun e => fst e <=? r) t) with
  | e :: _ => Some (snd e)
  | [] => None
  end.

(* the blocks whose membership changes are effective at round r *)
Definition effective_blocks (r : Z) (ds : list block) : list block :=
  filter (fun d => b_rr d + 6 <=? r) ds.

(* "genesis modified, in block order, by exactly the accepted receipts of the committed blocks
   whose round-received + 6 <= r" *)
Definition validators_at (genesis : peerset) (ds : list block) (r : Z) : peerset :=
  snd (replay_genesis genesis (effective_blocks r ds)).
