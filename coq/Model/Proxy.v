(* Model of the socket application proxy (C20).
     src/proxy/socket/app/socket_app_proxy_client.go    : call (3 attempts: getConnection / rpc / timeout)
     src/proxy/socket/babble/socket_babble_proxy_client.go : call (same loop, no timeout)
     src/proxy/socket/babble/socket_babble_proxy_server.go : handler result -> JSON-RPC reply
     net/rpc + net/rpc/jsonrpc                          : what counts as an error on the wire
     src/hashgraph/block.go, src/proxy/types.go, src/peers/peer.go : which fields cross the wire, and how
   Executable definitions only. *)
From Coq Require Import ZArith List Bool.
Import ListNotations.
Open Scope Z_scope.

(* ================= 1. the retry loop ================= *)

(* what happens to one attempt *)
Inductive outcome (R : Type) :=
| DialFail                      (* the other side cannot be reached: getConnection fails -- or, when a
                                   connection is cached, the call on that dead connection fails *)
| CallFail (delivered : bool)   (* the rpc call returns an error; the handler ran (delivered) or not *)
| Timeout (delivered : bool)    (* no reply within the timeout (Babble-side client only) *)
| Ok (r : R).                   (* the handler ran and its reply came back *)
Arguments DialFail {R}.
Arguments CallFail {R} _.
Arguments Timeout {R} _.
Arguments Ok {R} _.

Record cres (R : Type) := mkRes {
  c_result : option R;     (* Some r: nil error, reply r;  None: the error of the last attempt *)
  c_conn : bool;           (* p.rpc != nil afterwards *)
  c_attempts : nat;        (* attempts made *)
  c_dials : nat;           (* connections established *)
  c_deliveries : nat       (* times the handler on the other side ran *)
}.
Arguments mkRes {R} _ _ _ _ _.
Arguments c_result {R} _.
Arguments c_conn {R} _.
Arguments c_attempts {R} _.
Arguments c_dials {R} _.
Arguments c_deliveries {R} _.

Definition b2n (b : bool) : nat := if b then 1%nat else 0%nat.

Definition bump {R} (dials deliveries : nat) (r : cres R) : cres R :=
  mkRes (c_result r) (c_conn r) (S (c_attempts r)) (dials + c_dials r) (deliveries + c_deliveries r).

(* for try := 0; try < retries; try++ { getConnection; call; on error reset the connection; continue }
   An exhausted outcome list stands for "nothing more is known": the loop stops with an error. *)
Fixpoint call_loop {R} (tries : nat) (conn : bool) (outs : list (outcome R)) : cres R :=
  match tries, outs with
  | O, _ => mkRes None conn 0 0 0
  | _, [] => mkRes None conn 0 0 0
  | S t, o :: rest =>
    let dial := b2n (negb conn) in
    match o with
    | DialFail => bump 0 0 (call_loop t false rest)
    | CallFail d => bump dial (b2n d) (call_loop t false rest)
    | Timeout d => bump dial (b2n d) (call_loop t false rest)
    | Ok r => mkRes (Some r) true 1 dial 1
    end
  end.

Definition retries : nat := 3.
Definition call {R} (conn : bool) (outs : list (outcome R)) : cres R := call_loop retries conn outs.

Definition is_ok {R} (o : outcome R) : bool := match o with Ok _ => true | _ => false end.

(* successive calls on one client: only the cached connection is carried from one call to the next
   (the reply variable is local to each call) *)
Fixpoint call_seq {R} (conn : bool) (calls : list (list (outcome R))) : list (cres R) :=
  match calls with
  | [] => []
  | outs :: rest => let r := call conn outs in r :: call_seq (c_conn r) rest
  end.

(* ================= 2. from the handler's return to the attempt's outcome ================= *)

(* the handler on the other side returns (r, nil) or (r, err); err.Error() may be "" *)
Inductive hres (R : Type) := HOk (r : R) | HErr (empty_msg : bool) (r : R).
Arguments HOk {R} _.
Arguments HErr {R} _ _.

(* what the network does to one attempt *)
Inductive attempt (R : Type) :=
| ADown                 (* not listening / cached connection dead *)
| ADropReq              (* connection dropped after the request, before the handler *)
| ADropReply            (* handler ran, connection dropped before / in the middle of the reply *)
| AStallReq             (* request never answered, handler not run *)
| AStallReply           (* handler ran, reply never arrives *)
| APass (h : hres R).   (* request and reply pass; the handler returned h *)
Arguments ADown {R}.
Arguments ADropReq {R}.
Arguments ADropReply {R}.
Arguments AStallReq {R}.
Arguments AStallReply {R}.
Arguments APass {R} _.

(* What net/rpc and the Go jsonrpc client make of the (reply, error) pair that a registered method
   returns -- still true of the libraries, whatever the server does:
     net/rpc server: "if errmsg != "" { resp.Error = errmsg; reply = invalidRequest }" -- an error whose
       message is empty is sent as a RESULT;
     jsonrpc client: "if c.resp.Error != nil || c.resp.Result == nil" -- a null result is an (invalid) error.
   [isnull r]: r is encoded as JSON null. *)
Definition rpc_outcome {R} (isnull : R -> bool) (h : hres R) : outcome R :=
  match h with
  | HErr false _ => CallFail true
  | HOk r | HErr true r => if isnull r then CallFail true else Ok r
  end.

(* SocketBabbleProxyServer.CommitBlock / GetSnapshot / Restore / OnStateChanged after ebb9c0a + faf0201:
     *reply, err = handler(...); err = rpcError(name, err)      -- the message is never empty
     if *reply == nil { *reply = []byte{} }                      -- never JSON null ([denull]; the identity
                                                                    for the struct-valued replies)
   This is what the method hands to net/rpc. *)
Definition server_method {R} (denull : R -> R) (h : hres R) : hres R :=
  match h with
  | HOk r => HOk (denull r)
  | HErr _ r => HErr false (denull r)
  end.

Definition outcome_of {R} (isnull : R -> bool) (denull : R -> R) (a : attempt R) : outcome R :=
  match a with
  | ADown => DialFail
  | ADropReq => CallFail false
  | ADropReply => CallFail true
  | AStallReq => Timeout false
  | AStallReply => Timeout true
  | APass h => rpc_outcome isnull (server_method denull h)
  end.

Definition call_attempts {R} (isnull : R -> bool) (denull : R -> R) (conn : bool) (l : list (attempt R)) : cres R :=
  call conn (map (outcome_of isnull denull) l).

(* a server that hands the handler's return to net/rpc unchanged (the code before ebb9c0a / faf0201, or an
   application-side server written against another library): only the library conventions apply *)
Definition outcome_of_raw {R} (isnull : R -> bool) (a : attempt R) : outcome R :=
  match a with
  | APass h => rpc_outcome isnull h
  | _ => outcome_of isnull (fun r => r) a
  end.
Definition call_attempts_raw {R} (isnull : R -> bool) (conn : bool) (l : list (attempt R)) : cres R :=
  call conn (map (outcome_of_raw isnull) l).

(* an attempt in which the application handled the call successfully *)
Definition handled {R} (a : attempt R) : bool :=
  match a with APass (HOk _) => true | _ => false end.

(* ================= 3. what crosses the wire, and how ================= *)

(* Go string: a sequence of well-formed runes and of bytes that belong to none *)
Inductive schar := Good (cp : Z) | Bad (b : Z).
Definition gstr := list schar.
(* []byte: nil or bytes *)
Definition bytes := option (list Z).

Record peer := mkPeer { p_net : gstr; p_key : gstr; p_mon : gstr; p_id : Z (* unexported cache *) }.
Record itx := mkItx { it_type : Z; it_peer : peer; it_sig : gstr }.
Record receipt := mkReceipt { rc_itx : itx; rc_acc : bool }.
Record body := mkBody {
  bo_index : Z; bo_rr : Z; bo_ts : Z;
  bo_state : bytes; bo_frame : bytes; bo_peers : bytes;
  bo_txs : option (list bytes);
  bo_itxs : option (list itx);
  bo_receipts : option (list receipt)
}.
Record block := mkBlock {
  bl_body : body;
  bl_sigs : option (list (gstr * gstr));
  bl_hash : bytes;          (* unexported: hash cache *)
  bl_hex : gstr;            (* unexported: hex cache *)
  bl_peerset : bool         (* unexported: peerSet pointer set *)
}.
Record cresp := mkCresp { cr_state : bytes; cr_receipts : option (list receipt) }.

Inductive json :=
| JNull
| JNum (z : Z)
| JBool (b : bool)
| JStr (l : list Z)                 (* code points; for []byte: base64 alphabet indices, 64 = '=' *)
| JArr (l : list json)
| JObj (l : list json)              (* fields by position *)
| JMap (l : list (list Z * json)).

(* ---- base64 (std encoding, padded), at the level of 6-bit digits ---- *)
Definition pad : Z := 64.
Fixpoint b64enc (l : list Z) : list Z :=
  match l with
  | a :: b :: c :: r =>
    a / 4 :: (a mod 4) * 16 + b / 16 :: (b mod 16) * 4 + c / 64 :: c mod 64 :: b64enc r
  | [a; b] => [a / 4; (a mod 4) * 16 + b / 16; (b mod 16) * 4; pad]
  | [a] => [a / 4; (a mod 4) * 16; pad; pad]
  | [] => []
  end.

Definition is_nil {A} (l : list A) : bool := match l with [] => true | _ => false end.

Fixpoint b64dec (l : list Z) : option (list Z) :=
  match l with
  | [] => Some []
  | s0 :: s1 :: s2 :: s3 :: r =>
    if s2 =? pad then
      (if (s3 =? pad) && is_nil r then Some [s0 * 4 + s1 / 16] else None)
    else if s3 =? pad then
      (if is_nil r then Some [s0 * 4 + s1 / 16; (s1 mod 16) * 16 + s2 / 4] else None)
    else
      match b64dec r with
      | Some t => Some (s0 * 4 + s1 / 16 :: (s1 mod 16) * 16 + s2 / 4 :: (s2 mod 4) * 64 + s3 :: t)
      | None => None
      end
  | _ => None
  end.

Fixpoint map_opt {A B} (f : A -> option B) (l : list A) : option (list B) :=
  match l with
  | [] => Some []
  | x :: r => match f x, map_opt f r with
              | Some y, Some t => Some (y :: t)
              | _, _ => None
              end
  end.

(* ---- encoders (encoding/json as used by net/rpc/jsonrpc) ---- *)
(* invalid bytes are replaced by U+FFFD *)
Definition sanitize (c : schar) : Z := match c with Good z => z | Bad _ => 65533 end.
Definition enc_str (s : gstr) : json := JStr (map sanitize s).
Definition enc_bytes (b : bytes) : json :=
  match b with None => JNull | Some l => JStr (b64enc l) end.
Definition enc_slice {A} (f : A -> json) (s : option (list A)) : json :=
  match s with None => JNull | Some l => JArr (map f l) end.
Definition enc_peer (p : peer) : json := JObj [enc_str (p_net p); enc_str (p_key p); enc_str (p_mon p)].
Definition enc_itx (t : itx) : json := JObj [JObj [JNum (it_type t); enc_peer (it_peer t)]; enc_str (it_sig t)].
Definition enc_receipt (r : receipt) : json := JObj [enc_itx (rc_itx r); JBool (rc_acc r)].
Definition enc_body (b : body) : json :=
  JObj [JNum (bo_index b); JNum (bo_rr b); JNum (bo_ts b);
        enc_bytes (bo_state b); enc_bytes (bo_frame b); enc_bytes (bo_peers b);
        enc_slice enc_bytes (bo_txs b); enc_slice enc_itx (bo_itxs b); enc_slice enc_receipt (bo_receipts b)].
Definition enc_sigs (s : option (list (gstr * gstr))) : json :=
  match s with
  | None => JNull
  | Some l => JMap (map (fun kv => (map sanitize (fst kv), enc_str (snd kv))) l)
  end.
Definition enc_block (b : block) : json := JObj [enc_body (bl_body b); enc_sigs (bl_sigs b)].
Definition enc_cresp (c : cresp) : json := JObj [enc_bytes (cr_state c); enc_slice enc_receipt (cr_receipts c)].

(* ---- decoders (into zero-valued variables) ---- *)
Definition dec_str (j : json) : option gstr :=
  match j with JStr l => Some (map Good l) | _ => None end.
Definition dec_bytes (j : json) : option bytes :=
  match j with
  | JNull => Some None
  | JStr l => match b64dec l with Some b => Some (Some b) | None => None end
  | _ => None
  end.
Definition dec_slice {A} (f : json -> option A) (j : json) : option (option (list A)) :=
  match j with
  | JNull => Some None
  | JArr l => match map_opt f l with Some r => Some (Some r) | None => None end
  | _ => None
  end.
Definition dec_num (j : json) : option Z := match j with JNum z => Some z | _ => None end.
Definition dec_bool (j : json) : option bool := match j with JBool b => Some b | _ => None end.
Definition dec_peer (j : json) : option peer :=
  match j with
  | JObj [a; b; c] =>
    match dec_str a, dec_str b, dec_str c with
    | Some a', Some b', Some c' => Some (mkPeer a' b' c' 0)
    | _, _, _ => None
    end
  | _ => None
  end.
Definition dec_itx (j : json) : option itx :=
  match j with
  | JObj [JObj [t; p]; s] =>
    match dec_num t, dec_peer p, dec_str s with
    | Some t', Some p', Some s' => Some (mkItx t' p' s')
    | _, _, _ => None
    end
  | _ => None
  end.
Definition dec_receipt (j : json) : option receipt :=
  match j with
  | JObj [t; a] =>
    match dec_itx t, dec_bool a with
    | Some t', Some a' => Some (mkReceipt t' a')
    | _, _ => None
    end
  | _ => None
  end.
Definition dec_body (j : json) : option body :=
  match j with
  | JObj [i; r; t; s; f; p; txs; itxs; rcs] =>
    match dec_num i, dec_num r, dec_num t, dec_bytes s, dec_bytes f, dec_bytes p,
          dec_slice dec_bytes txs, dec_slice dec_itx itxs, dec_slice dec_receipt rcs with
    | Some i', Some r', Some t', Some s', Some f', Some p', Some txs', Some itxs', Some rcs' =>
      Some (mkBody i' r' t' s' f' p' txs' itxs' rcs')
    | _, _, _, _, _, _, _, _, _ => None
    end
  | _ => None
  end.
Definition dec_sig (kv : list Z * json) : option (gstr * gstr) :=
  match dec_str (snd kv) with Some v => Some (map Good (fst kv), v) | None => None end.
Definition dec_sigs (j : json) : option (option (list (gstr * gstr))) :=
  match j with
  | JNull => Some None
  | JMap l => match map_opt dec_sig l with Some r => Some (Some r) | None => None end
  | _ => None
  end.
Definition dec_block (j : json) : option block :=
  match j with
  | JObj [b; s] =>
    match dec_body b, dec_sigs s with
    | Some b', Some s' => Some (mkBlock b' s' None [] false)
    | _, _ => None
    end
  | _ => None
  end.
Definition dec_cresp (j : json) : option cresp :=
  match j with
  | JObj [s; r] =>
    match dec_bytes s, dec_slice dec_receipt r with
    | Some s', Some r' => Some (mkCresp s' r')
    | _, _ => None
    end
  | _ => None
  end.

(* what the other side receives *)
Definition through_block (b : block) : option block := dec_block (enc_block b).
Definition through_cresp (c : cresp) : option cresp := dec_cresp (enc_cresp c).
Definition through_bytes (b : bytes) : option bytes := dec_bytes (enc_bytes b).

(* ---- the content of a value: unexported caches dropped, strings as JSON carries them ---- *)
Definition wire_str (s : gstr) : gstr := map (fun c => Good (sanitize c)) s.
Definition wire_peer (p : peer) : peer := mkPeer (wire_str (p_net p)) (wire_str (p_key p)) (wire_str (p_mon p)) 0.
Definition wire_itx (t : itx) : itx := mkItx (it_type t) (wire_peer (it_peer t)) (wire_str (it_sig t)).
Definition wire_receipt (r : receipt) : receipt := mkReceipt (wire_itx (rc_itx r)) (rc_acc r).
Definition omap {A B} (f : A -> B) (o : option (list A)) : option (list B) :=
  match o with None => None | Some l => Some (map f l) end.
Definition wire_body (b : body) : body :=
  mkBody (bo_index b) (bo_rr b) (bo_ts b) (bo_state b) (bo_frame b) (bo_peers b) (bo_txs b)
         (omap wire_itx (bo_itxs b)) (omap wire_receipt (bo_receipts b)).
Definition wire_block (b : block) : block :=
  mkBlock (wire_body (bl_body b))
          (omap (fun kv => (wire_str (fst kv), wire_str (snd kv))) (bl_sigs b)) None [] false.
Definition wire_cresp (c : cresp) : cresp := mkCresp (cr_state c) (omap wire_receipt (cr_receipts c)).

(* content only: the exported fields (what reflect.DeepEqual on Body / Signatures compares) *)
Definition strip_peer (p : peer) : peer := mkPeer (p_net p) (p_key p) (p_mon p) 0.
Definition strip_itx (t : itx) : itx := mkItx (it_type t) (strip_peer (it_peer t)) (it_sig t).
Definition strip_receipt (r : receipt) : receipt := mkReceipt (strip_itx (rc_itx r)) (rc_acc r).
Definition strip_body (b : body) : body :=
  mkBody (bo_index b) (bo_rr b) (bo_ts b) (bo_state b) (bo_frame b) (bo_peers b) (bo_txs b)
         (omap strip_itx (bo_itxs b)) (omap strip_receipt (bo_receipts b)).
Definition strip_block (b : block) : block := mkBlock (strip_body (bl_body b)) (bl_sigs b) None [] false.
Definition strip_cresp (c : cresp) : cresp := mkCresp (cr_state c) (omap strip_receipt (cr_receipts c)).

(* the byte-slice replies (snapshot, state hash): nil is JSON null; the server sends []byte{} instead *)
Definition bytes_null (b : bytes) : bool := match b with None => true | Some _ => false end.
Definition bytes_denull (b : bytes) : bytes := match b with None => Some [] | Some l => Some l end.

(* ---- peers.NewPeer after b2c4118 ---- *)
(* strings.ToValidUTF8(s, "\uFFFD"): every maximal run of stray bytes becomes ONE U+FFFD *)
Fixpoint to_valid (s : gstr) : gstr :=
  match s with
  | [] => []
  | Good c :: r => Good c :: to_valid r
  | Bad _ :: r =>
    match r with
    | Bad _ :: _ => to_valid r
    | _ => Good 65533 :: to_valid r
    end
  end.
(* NewPeer(pubKeyHex, netAddr, moniker): address and moniker normalised, the key kept as given *)
Definition new_peer (key net mon : gstr) : peer := mkPeer (to_valid net) key (to_valid mon) 0.

(* ---- well-formedness ---- *)
Definition byte_ok (z : Z) : bool := (0 <=? z) && (z <? 256).
Definition bytes_ok (b : bytes) : bool := match b with None => true | Some l => forallb byte_ok l end.
Definition schar_ok (c : schar) : bool := match c with Good _ => true | Bad _ => false end.
Definition str_ok (s : gstr) : bool := forallb schar_ok s.
Definition oall {A} (f : A -> bool) (o : option (list A)) : bool :=
  match o with None => true | Some l => forallb f l end.
Definition peer_str_ok (p : peer) : bool := str_ok (p_net p) && str_ok (p_key p) && str_ok (p_mon p).
Definition itx_str_ok (t : itx) : bool := peer_str_ok (it_peer t) && str_ok (it_sig t).
Definition receipt_str_ok (r : receipt) : bool := itx_str_ok (rc_itx r).
Definition body_bytes_ok (b : body) : bool :=
  bytes_ok (bo_state b) && bytes_ok (bo_frame b) && bytes_ok (bo_peers b) && oall bytes_ok (bo_txs b).
Definition body_str_ok (b : body) : bool := oall itx_str_ok (bo_itxs b) && oall receipt_str_ok (bo_receipts b).
Definition block_bytes_ok (b : block) : bool := body_bytes_ok (bl_body b).
Definition block_str_ok (b : block) : bool :=
  body_str_ok (bl_body b) && oall (fun kv => str_ok (fst kv) && str_ok (snd kv)) (bl_sigs b).
Definition cresp_bytes_ok (c : cresp) : bool := bytes_ok (cr_state c).
Definition cresp_str_ok (c : cresp) : bool := oall receipt_str_ok (cr_receipts c).

(* nil == empty *)
Definition norm_bytes (b : bytes) : list Z := match b with None => [] | Some l => l end.
Definition norm_slice {A} (o : option (list A)) : list A := match o with None => [] | Some l => l end.
