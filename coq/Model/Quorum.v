(* Model of src/peers/peer_set.go: SuperMajority, TrustCount, WithNewPeer,
   WithRemovedPeer.  Executable definitions only. *)
From Coq Require Import ZArith List Bool.
Import ListNotations.
Open Scope Z_scope.

(* A peer is (id, key).  In the code id = FNV32(key bytes): a function of the key. *)
Record peer := mkPeer { pid : Z; pkey : Z }.

Definition peerset := list peer.

Fixpoint mem_key (k : Z) (l : list Z) : bool :=
  match l with [] => false | x :: r => if Z.eqb x k then true else mem_key k r end.

(* distinct keys, first occurrence kept (Go: len(ByPubKey)) *)
Fixpoint dedup (l : list Z) : list Z :=
  match l with
  | [] => []
  | x :: r => if mem_key x r then dedup r else x :: dedup r
  end.

Definition keys (ps : peerset) : list Z := map pkey ps.
Definition ids (ps : peerset) : list Z := map pid ps.

(* PeerSet.Len() = len(ByPubKey) *)
Definition ps_len (ps : peerset) : Z := Z.of_nat (length (dedup (keys ps))).
(* len(peerSet.Peers) *)
Definition ps_slice_len (ps : peerset) : Z := Z.of_nat (length ps).

(* 2*n/3 + 1 *)
Definition sm (n : Z) : Z := 2 * n / 3 + 1.

(* if len(Peers) > 1 then ceil(Len()/3) else 0 *)
Definition tc (slice_len n : Z) : Z :=
  if slice_len <=? 1 then 0 else (n + 2) / 3.

Definition super_majority (ps : peerset) : Z := sm (ps_len ps).
Definition trust_count (ps : peerset) : Z := tc (ps_slice_len ps) (ps_len ps).

(* "len(block.Signatures) > peerSet.TrustCount()" / "validSignatures <= TrustCount => error" *)
Definition trusted (k slice_len n : Z) : bool := tc slice_len n <? k.

(* WithNewPeer: append unless the id is already present *)
Definition with_new (ps : peerset) (p : peer) : peerset :=
  if mem_key (pid p) (ids ps) then ps else ps ++ [p].

(* WithRemovedPeer: drop every peer with that key *)
Definition with_removed (ps : peerset) (p : peer) : peerset :=
  filter (fun q => negb (Z.eqb (pkey q) (pkey p))) ps.

Inductive psop := OpAdd (p : peer) | OpRemove (p : peer).
Definition ps_step (ps : peerset) (o : psop) : peerset :=
  match o with OpAdd p => with_new ps p | OpRemove p => with_removed ps p end.
Definition ps_run (ops : list psop) : peerset := fold_left ps_step ops [].
