(* Crash recovery (C11): the Badger database as a LOG of committed write transactions, a crash as
   a prefix of that log, and Hashgraph.Bootstrap + core.setHeadAndSeq as functions of the
   database a prefix leaves behind.

   src/hashgraph/badger_store.go : every dbSet* call is one Badger transaction = one log entry.
     dbSetEvents   -> [WEvent e t] : event record under its hash; when the hash key is absent
                      also topo_t -> hash and participant key (creator, index) -> hash, in the
                      same transaction
     dbSetBlock    -> [WBlock b]     dbSetPeerSet -> [WPeerSet r ps]
     dbSetRound    -> [WRound r]     dbSetFrame   -> [WFrame r]     (never read back by Bootstrap)
   ASSUMED of Badger (not modelled further): a committed transaction is atomic and durable, and
   transactions become durable in commit order, so the database after a crash is [db_of_log] of a
   PREFIX of the log.

   What the DB form of an event keeps (Event.MarshalDB): body, signature, wire indexes,
   topological index, lastAncestors / firstDescendants.  What it loses: round, lamport timestamp,
   round-received (private fields outside the wrapper).  Bootstrap recomputes ALL derived data:
   InsertEvent overwrites the topological index and both coordinate maps, the consensus passes
   recompute round / lamport / round-received.  Hence a DB event record is modelled by the
   immutable [event] alone.

   src/hashgraph/hashgraph.go Bootstrap: maintenance mode on (no DB writes); read peer set 0 (absent:
   return without doing anything); inmemStore.SetPeerSet(0) (error ignored); then batches of 100
   topological events (dbTopologicalEvents scans topo_000000000, topo_000000001, ... until the first
   missing key): InsertEventAndRunConsensus each (first error aborts Bootstrap), then ProcessSigPool.
   During Bootstrap Store.GetBlock still falls back to the DATABASE when the block is not in the
   cache.  Since fix d90db55 ProcessSigPool leaves a signature pending while its block index is above
   Store.LastBlockIndex(), so that lookup can no longer reach a block of the previous life that the
   replay has not re-created yet (before the fix Store.SetBlock then raised LastBlockIndex and the
   re-delivered blocks were renumbered: the unguarded function is kept as [guard] = false for the
   regression witness).  Since bc8842f Event.Verify refuses an event that carries a block signature
   which keys.DecodeSignature cannot decode, so no malformed signature enters the pool through
   InsertEvent (the harness reports such an event with [e_sigok] = false and the replay aborts on it,
   as Bootstrap does); the branch of ProcessSigPool that now drops a malformed entry (1fe7ebb) instead
   of returning is therefore not reachable from event-borne signatures, and a signature that decodes
   but verifies against no body ([bs_over] = -2) stays pending in the code and in the model alike.
   [sig_on_block] follows HgImpl.process_sig unchanged.

   Executable definitions only; no proofs in this file. *)
From Coq Require Import ZArith List Bool.
From RecordUpdate Require Import RecordSet.
From V Require Import Model.ZMap Model.Quorum Model.HgImpl.
Import ListNotations RecordSetNotations.
Open Scope Z_scope.

(** * The write log and the database it denotes *)

Inductive wr :=
| WPeerSet (r : Z) (ps : peerset)
| WEvent (e : event) (t : Z)
| WBlock (b : block)
| WRound (r : Z)
| WFrame (r : Z).

Record db := mkDb {
  db_ps : list (Z * peerset);     (* peerset_%09d *)
  db_ev : zmap event;             (* hash -> event record *)
  db_topo : zmap Z;               (* topo_%09d -> hash *)
  db_pe : list (Z * Z * Z);       (* (creator, index, hash): participant keys *)
  db_blk : zmap block             (* block_%09d *)
}.
#[export] Instance eta_db : Settable _ := settable! mkDb <db_ps; db_ev; db_topo; db_pe; db_blk>.

Definition db_empty : db := mkDb [] zempty zempty [] zempty.

Definition db_apply (d : db) (w : wr) : db :=
  match w with
  | WPeerSet r ps => d <| db_ps := aset r ps d.(db_ps) |>
  | WEvent e t =>
    match zget (e_id e) d.(db_ev) with
    | Some _ => d <| db_ev := zset (e_id e) e d.(db_ev) |>                  (* record rewritten *)
    | None => d <| db_ev := zset (e_id e) e d.(db_ev) |>
                <| db_topo := zset t (e_id e) d.(db_topo) |>
                <| db_pe := d.(db_pe) ++ [(e_creator e, e_index e, e_id e)] |>
    end
  | WBlock b => d <| db_blk := zset b.(b_index) b d.(db_blk) |>
  | WRound _ => d
  | WFrame _ => d
  end.

Definition db_of_log (l : list wr) : db := fold_left db_apply l db_empty.

(* dbTopologicalEvents from 0: follow topo_t until the first missing key; a topological key whose
   event record is missing is an error (the scan returns what it has and an error flag) *)
Fixpoint db_scan (fuel : nat) (d : db) (t : Z) : list event * bool :=
  match fuel with
  | O => ([], true)
  | S f =>
    match zget t d.(db_topo) with
    | None => ([], true)
    | Some x =>
      match zget x d.(db_ev) with
      | None => ([], false)
      | Some e => let '(l, ok) := db_scan f d (t + 1) in (e :: l, ok)
      end
    end
  end.

(* one participant key is written with every topological key: their number bounds the scan *)
Definition db_topo_events (d : db) : list event * bool :=
  db_scan (S (length d.(db_pe))) d 0.

(** * ProcessSigPool with the cache-then-database block lookup of BadgerStore.GetBlock *)

(* the body of ProcessSigPool's loop once the block has been fetched *)
Definition sig_on_block (st : hg) (s : bsig) (b : block) : hg :=
  match get_peerset st b.(b_rr) with
  | None => st
  | Some ps =>
    if negb (mem_key (bs_validator s) (keys ps)) then st
    else if negb (bs_over s =? b.(b_bodyid)) then st
    else
      let b' := b <| b_sigs := aset (bs_validator s) (bs_over s) b.(b_sigs) |> in
      let st1 := store_set_block st b' in
      let st2 := set_anchor_block st1 b' in
      st2 <| sigpool := filter (fun t => negb (sig_key_eq t s)) st2.(sigpool) |>
  end.

(* state, and whether some block was taken from the database.
   [guard] = true is the code as it stands (d90db55: "if bs.Index > h.Store.LastBlockIndex() { continue }"
   is the first statement of ProcessSigPool's loop); [guard] = false is ProcessSigPool before that fix. *)
Definition boot_process_sig (guard : bool) (blk : zmap block) (acc : hg * bool) (s : bsig) : hg * bool :=
  let '(st, used) := acc in
  if guard && (st.(last_block) <? bs_index s) then acc else
  match zget (bs_index s) st.(blocks) with
  | Some b => (sig_on_block st s b, used)
  | None =>
    match zget (bs_index s) blk with
    | Some b => (sig_on_block st s b, true)
    | None => (st, used)
    end
  end.

Definition boot_sigpool (guard : bool) (blk : zmap block) (acc : hg * bool) : hg * bool :=
  fold_left (boot_process_sig guard blk) (fst acc).(sigpool) acc.

(** * Bootstrap *)

Definition BATCH : nat := 100.

(* the inner "for _, e := range topologicalEvents": the first failing insertion aborts *)
Fixpoint boot_insert (st : hg) (evs : list event) : hg * bool :=
  match evs with
  | [] => (st, true)
  | e :: r =>
    match insert_and_run st e with
    | (InsOk, s) => boot_insert s r
    | (_, s) => (s, false)
    end
  end.

Record boot_result := mkBoot {
  br_st : hg;
  br_ok : bool;        (* Bootstrap returned nil *)
  br_db_block : bool   (* ProcessSigPool took a block from the database *)
}.

Fixpoint boot_loop (fuel : nat) (guard : bool) (blk : zmap block) (st : hg) (used : bool) (evs : list event) : boot_result :=
  match fuel with
  | O => mkBoot st true used
  | S f =>
    let batch := firstn BATCH evs in
    match boot_insert st batch with
    | (s, false) => mkBoot s false used
    | (s, true) =>
      let '(s1, used1) := boot_sigpool guard blk (s, used) in
      if (length batch <? BATCH)%nat then mkBoot s1 true used1
      else boot_loop f guard blk s1 used1 (skipn BATCH evs)
    end
  end.

(* restart: NewBadgerStore on the directory, newCore (NewHashgraph + Init with the configured
   genesis set: written through to the DB, the store is not in maintenance mode yet), Bootstrap *)
Definition restart_db (d : db) (genesis : peerset) : db := db_apply d (WPeerSet 0 genesis).

Definition bootstrap (guard : bool) (self_ : Z) (genesis : peerset) (oracle_ : list Z) (d0 : db) : boot_result :=
  let d := restart_db d0 genesis in
  let st0 := init_hg self_ genesis oracle_ in
  match aget 0 d.(db_ps) with
  | None => mkBoot st0 true false                       (* "No Genesis PeerSet, skip bootstrap" *)
  | Some ps =>
    (* inmemStore.SetPeerSet(0, ps): refused (round 0 exists), error ignored *)
    let st1 := match set_peerset st0 0 ps with Some s => s | None => st0 end in
    let '(evs, scan_ok) := db_topo_events d in
    if scan_ok then boot_loop (S (length evs)) guard d.(db_blk) st1 false evs
    else mkBoot st1 false false
  end.

(* Hashgraph.Bootstrap as it stands *)
Definition bootstrap_cur := bootstrap true.

(** * core.setHeadAndSeq *)

Definition head_seq (st : hg) : Z * Z :=
  if rep_mem st.(self) st.(repertoire) then
    match zget st.(self) st.(pevents) with
    | None => (-1, -1)
    | Some p =>
      match pidx_last p with
      | None => (-1, -1)
      | Some h => match get_event st h with
                  | Some es => (h, e_index es.(ev_e))
                  | None => (-1, -1)
                  end
      end
    end
  else (-1, -1).

(** * The node before the crash and the log it writes *)

(* operations of a node: insertion attempts and ProcessSigPool calls (as in Proofs/BlockInv.v) *)
Inductive nop := NInsert (e : event) | NSigPool.

Definition nstep (st : hg) (o : nop) : hg :=
  match o with NInsert e => step st e | NSigPool => process_sigpool st end.
Definition nrun (st : hg) (ops : list nop) : hg := fold_left nstep ops st.

Fixpoint sigs_eqb (l l' : list (Z * Z)) : bool :=
  match l, l' with
  | [], [] => true
  | (v, o) :: r, (v', o') :: r' => (v =? v') && (o =? o') && sigs_eqb r r'
  | _, _ => false
  end.
Definition block_eqb_sigs (a b : block) : bool :=
  sigs_eqb a.(b_sigs) b.(b_sigs) && Bool.eqb a.(b_committed) b.(b_committed).

(* the block as ProcessDecidedRounds stores it before the commit callback *)
Definition uncommitted (b : block) : block :=
  b <| b_committed := false |> <| b_receipts := [] |> <| b_bodyid := -1 |> <| b_sigs := [] |>.

(* block writes of an operation, reconstructed from the block store before and after: a new block
   is written as created and again after commit / signBlock; a block that gained signatures is
   rewritten *)
Definition block_writes (st st' : hg) : list wr :=
  flat_map (fun i =>
    match zget i st.(blocks), zget i st'.(blocks) with
    | None, Some b => [WBlock (uncommitted b); WBlock b]
    | Some b0, Some b => if block_eqb_sigs b0 b then [] else [WBlock b]
    | _, _ => []
    end) (zrange 0 st'.(last_block)).

(* the writes of one operation that Bootstrap can ever read back.  The real operation also writes
   event updates (first descendants, round, lamport, round-received), rounds, frames and later
   peer sets: those are WEvent of an already written event, WRound, WFrame, WPeerSet r>0, none of
   which changes what Bootstrap reads (Proofs/RecoveryProofs.v, invisible writes).  The new event is
   written by Store.SetEvent inside InsertEvent, BEFORE any consensus pass and any commit. *)
Definition op_log (st : hg) (o : nop) : list wr :=
  match o with
  | NInsert e =>
    match insert_and_run st e with
    | (InsOk, st') => WEvent e st.(topo) :: block_writes st st'
    | _ => []
    end
  | NSigPool => block_writes st (process_sigpool st)
  end.

Fixpoint op_logs (st : hg) (ops : list nop) : list (list wr) :=
  match ops with
  | [] => []
  | o :: r => op_log st o :: op_logs (nstep st o) r
  end.

(* Init writes the genesis peer set first *)
Definition node_log (self_ : Z) (genesis : peerset) (oracle_ : list Z) (ops : list nop) : list wr :=
  WPeerSet 0 genesis :: concat (op_logs (init_hg self_ genesis oracle_) ops).

(* number of operations that had started (written at least their first entry, or nothing at all)
   when k entries of the concatenated per-operation logs had been written *)
Fixpoint started (ls : list (list wr)) (k : nat) : nat :=
  match ls with
  | [] => O
  | l :: r => match k with O => O | S _ => S (started r (k - length l)) end
  end.

(* events of the accepted insertions, in order *)
Fixpoint accepted (st : hg) (ops : list nop) : list event :=
  match ops with
  | [] => []
  | NInsert e :: r =>
    match insert_and_run st e with
    | (InsOk, st') => e :: accepted st' r
    | (_, st') => accepted st' r
    end
  | NSigPool :: r => accepted (process_sigpool st) r
  end.

(* events of the insertion attempts *)
Definition op_events (ops : list nop) : list event :=
  flat_map (fun o => match o with NInsert e => [e] | NSigPool => [] end) ops.

(** * A crash: the database after the first k entries of the node's log; what bootstrap makes of it *)
Definition crash_db (self_ : Z) (genesis : peerset) (oracle_ : list Z) (ops : list nop) (k : nat) : db :=
  db_of_log (firstn k (node_log self_ genesis oracle_ ops)).

(* operations that had started when the k-th entry was written (entry 1 is Init's peer set) *)
Definition ops_started (self_ : Z) (genesis : peerset) (oracle_ : list Z) (ops : list nop) (k : nat) : nat :=
  started (op_logs (init_hg self_ genesis oracle_) ops) (k - 1).

Definition recovered_g (guard : bool) (self_ : Z) (genesis : peerset) (oracle_ : list Z) (ops : list nop) (k : nat) : boot_result :=
  bootstrap guard self_ genesis oracle_ (crash_db self_ genesis oracle_ ops k).
(* the code as it stands; the unguarded function is ProcessSigPool before fix d90db55 *)
Definition recovered := recovered_g true.
Definition recovered_unguarded := recovered_g false.

(* the node as it was when the operations that had started at the crash had completed, and the
   events those operations had accepted (in insertion order) *)
Definition pre_state (self_ : Z) (genesis : peerset) (oracle_ : list Z) (ops : list nop) (k : nat) : hg :=
  nrun (init_hg self_ genesis oracle_) (firstn (ops_started self_ genesis oracle_ ops k) ops).
Definition pre_events (self_ : Z) (genesis : peerset) (oracle_ : list Z) (ops : list nop) (k : nat) : list event :=
  accepted (init_hg self_ genesis oracle_) (firstn (ops_started self_ genesis oracle_ ops k) ops).

(* head and height of a creator's last event in an insertion sequence *)
Definition own_head_seq (self_ : Z) (evs : list event) : Z * Z :=
  fold_left (fun acc e => if e_creator e =? self_ then (e_id e, e_index e) else acc) evs (-1, -1).
