(* C16 Store layer: executable transliteration of
     src/common/lru.go, src/common/rolling_index.go, src/common/rolling_index_map.go,
     src/hashgraph/caches.go (ParticipantEventsCache),
     src/hashgraph/inmem_store.go and src/hashgraph/badger_store.go.
   Executable definitions only, no proofs.

   Abstractions (stated, not proved):
   - keys of the Badger DB are an inductive type; the "%s_%09d" formatting is abstracted.  The
     model is restricted to indexes in [0, 10^9) (fmt pads, it never truncates, and negative
     numbers print with a sign, so distinct (prefix,index) pairs give distinct keys anyway);
   - encode/decode (MarshalDB/UnmarshalDB, Marshal/Unmarshal) is the identity on the modelled
     content: ev_payload stands for exactly the content MarshalDB serialises (Body, Signature,
     creatorID, parent coordinates, topologicalIndex, lastAncestors, firstDescendants).  The
     private fields round / lamportTimestamp / roundReceived are NOT serialised by MarshalDB and
     are outside the model;
   - maintenanceMode = false; Badger transactions never fail (no I/O errors);
   - Reset (fast-sync) and Bootstrap are out of scope. *)
From Coq Require Import ZArith List Bool.
Import ListNotations.
Open Scope Z_scope.

Inductive serr := KeyNotFound | TooLate | SkippedIndex | UnknownParticipant | Empty
                | PassedIndex | KeyAlreadyExists.

Inductive result (A : Type) := Ok (a : A) | Err (e : serr).
Arguments Ok {A} a.
Arguments Err {A} e.

(* ------------------------------------------------------------------------- *)
(* common/lru.go                                                              *)
(* ------------------------------------------------------------------------- *)

(* evictList front = head of the list (most recently used first) *)
Record lru (A : Type) := mkLru { lru_cap : Z; lru_items : list (Z * A) }.
Arguments mkLru {A} _ _.
Arguments lru_cap {A} _.
Arguments lru_items {A} _.

Definition lru_new {A} (cap : Z) : lru A := mkLru cap [].

Fixpoint lru_find {A} (k : Z) (l : list (Z * A)) : option A :=
  match l with
  | [] => None
  | (k', v) :: r => if Z.eqb k' k then Some v else lru_find k r
  end.

Definition lru_remove {A} (k : Z) (l : list (Z * A)) : list (Z * A) :=
  filter (fun kv => negb (Z.eqb (fst kv) k)) l.

(* func (c *LRU) Add: existing key -> MoveToFront + overwrite value;
   new key -> PushFront, and removeOldest (the back) when Len() > size *)
Definition lru_add {A} (k : Z) (v : A) (c : lru A) : lru A :=
  match lru_find k (lru_items c) with
  | Some _ => mkLru (lru_cap c) ((k, v) :: lru_remove k (lru_items c))
  | None =>
      let l' := (k, v) :: lru_items c in
      mkLru (lru_cap c)
            (if Z.of_nat (length l') >? lru_cap c then removelast l' else l')
  end.

(* func (c *LRU) Get: a hit moves the entry to the front *)
Definition lru_get {A} (k : Z) (c : lru A) : option A * lru A :=
  match lru_find k (lru_items c) with
  | Some v => (Some v, mkLru (lru_cap c) ((k, v) :: lru_remove k (lru_items c)))
  | None => (None, c)
  end.

(* ------------------------------------------------------------------------- *)
(* common/rolling_index.go                                                    *)
(* ------------------------------------------------------------------------- *)

Record rindex := mkRi { ri_size : Z; ri_last : Z; ri_items : list Z }.

Definition ri_new (size : Z) : rindex := mkRi size (-1) [].
Definition ri_len (r : rindex) : Z := Z.of_nat (length (ri_items r)).
(* oldestCachedIndex := r.lastIndex - len(r.items) + 1 *)
Definition ri_oldest (r : rindex) : Z := ri_last r - ri_len r + 1.

(* roll: r.items = r.items[r.size/2:]   (size 1: size/2 = 0, nothing is evicted) *)
Definition ri_roll (r : rindex) : rindex :=
  mkRi (ri_size r) (ri_last r) (skipn (Z.to_nat (ri_size r / 2)) (ri_items r)).

Fixpoint list_set {A} (l : list A) (n : nat) (x : A) : list A :=
  match l, n with
  | [], _ => []
  | _ :: t, O => x :: t
  | h :: t, S m => h :: list_set t m x
  end.

Definition ri_set (r : rindex) (item index : Z) : result rindex :=
  if (0 <=? ri_last r) && (index >? ri_last r + 1) then Err SkippedIndex
  else if (ri_last r <? 0) || (index =? ri_last r + 1) then
    let r1 := if ri_len r >=? ri_size r then ri_roll r else r in
    Ok (mkRi (ri_size r1) index (ri_items r1 ++ [item]))
  else
    if index <? ri_oldest r then Err TooLate
    else Ok (mkRi (ri_size r) (ri_last r)
                  (list_set (ri_items r) (Z.to_nat (index - ri_oldest r)) item)).

(* Get(skipIndex): all items with index > skipIndex, TooLate when some were evicted *)
Definition ri_get (r : rindex) (skip : Z) : result (list Z) :=
  if skip >? ri_last r then Ok []
  else if skip + 1 <? ri_oldest r then Err TooLate
  else Ok (skipn (Z.to_nat (skip - ri_oldest r + 1)) (ri_items r)).

Definition ri_get_item (r : rindex) (index : Z) : result Z :=
  if index <? ri_oldest r then Err TooLate
  else
    let findex := index - ri_oldest r in
    if findex >=? ri_len r then Err KeyNotFound
    else match nth_error (ri_items r) (Z.to_nat findex) with
         | Some x => Ok x
         | None => Err KeyNotFound     (* unreachable: 0 <= findex < len *)
         end.

(* ------------------------------------------------------------------------- *)
(* common/rolling_index_map.go + hashgraph/caches.go ParticipantEventsCache   *)
(*   The peer-set `participants` and the keys of rim.mapping always coincide  *)
(*   (AddPeer is the only writer of both), so one association list, in        *)
(*   insertion order, stands for both.                                        *)
(* ------------------------------------------------------------------------- *)

Definition rim := list (Z * rindex).

Fixpoint aget {A} (k : Z) (l : list (Z * A)) : option A :=
  match l with
  | [] => None
  | (k', v) :: r => if Z.eqb k' k then Some v else aget k r
  end.
Fixpoint aset {A} (k : Z) (v : A) (l : list (Z * A)) : list (Z * A) :=
  match l with
  | [] => [(k, v)]
  | (k', v') :: r => if Z.eqb k' k then (k, v) :: r else (k', v') :: aset k v r
  end.

(* pec.Set: participantID (UnknownParticipant) then rim.Set -> RollingIndex.Set *)
Definition pec_set (m : rim) (c item index : Z) : result rim :=
  match aget c m with
  | None => Err UnknownParticipant
  | Some r => match ri_set r item index with
              | Err e => Err e
              | Ok r' => Ok (aset c r' m)
              end
  end.

Definition pec_get (m : rim) (c skip : Z) : result (list Z) :=
  match aget c m with
  | None => Err UnknownParticipant
  | Some r => ri_get r skip
  end.

Definition pec_get_item (m : rim) (c index : Z) : result Z :=
  match aget c m with
  | None => Err UnknownParticipant
  | Some r => ri_get_item r index
  end.

(* rim.GetLast: Empty when the window is empty, else cached[len-1] *)
Definition pec_get_last (m : rim) (c : Z) : result Z :=
  match aget c m with
  | None => Err UnknownParticipant
  | Some r =>
      match ri_items r with
      | [] => Err Empty
      | _ :: _ => match nth_error (ri_items r) (length (ri_items r) - 1) with
                  | Some x => Ok x
                  | None => Err Empty     (* unreachable *)
                  end
      end
  end.

(* Known(): participant -> lastIndex (Go map; listed here in insertion order) *)
Definition pec_known (m : rim) : list (Z * Z) :=
  map (fun cr => (fst cr, ri_last (snd cr))) m.

(* ------------------------------------------------------------------------- *)
(* the Badger DB, abstractly                                                  *)
(* ------------------------------------------------------------------------- *)

Record event := mkEvent { ev_id : Z; ev_creator : Z; ev_index : Z; ev_topo : Z; ev_payload : Z }.
Record block := mkBlock { bl_index : Z; bl_payload : Z }.

Inductive dbkey :=
| KEvent (eid : Z) | KTopo (i : Z) | KPart (creator index : Z) | KBlock (i : Z)
| KRound (r : Z) | KFrame (r : Z) | KPeerSet (r : Z) | KRoot (creator : Z).

Inductive dbval := VEvent (e : event) | VId (x : Z) | VBlock (b : block) | VZ (z : Z).

Definition dbkey_eqb (a b : dbkey) : bool :=
  match a, b with
  | KEvent x, KEvent y => Z.eqb x y
  | KTopo x, KTopo y => Z.eqb x y
  | KPart c i, KPart d j => Z.eqb c d && Z.eqb i j
  | KBlock x, KBlock y => Z.eqb x y
  | KRound x, KRound y => Z.eqb x y
  | KFrame x, KFrame y => Z.eqb x y
  | KPeerSet x, KPeerSet y => Z.eqb x y
  | KRoot x, KRoot y => Z.eqb x y
  | _, _ => false
  end.

(* function-based map plus the number of writes performed so far; the counter only serves as
   fuel for the two "scan until the first missing key" loops (a scan can meet at most db_n
   present keys, so db_n + 1 iterations always reach the missing key) *)
Record db := mkDb { db_map : dbkey -> option dbval; db_n : nat }.

Definition db_empty : db := mkDb (fun _ => None) O.
Definition db_get (d : db) (k : dbkey) : option dbval := db_map d k.
Definition db_set (k : dbkey) (v : dbval) (d : db) : db :=
  mkDb (fun k' => if dbkey_eqb k k' then Some v else db_map d k') (S (db_n d)).
Definition db_fuel (d : db) : nat := S (db_n d).

Definition db_get_event (d : db) (id : Z) : option event :=
  match db_get d (KEvent id) with Some (VEvent e) => Some e | _ => None end.
Definition db_get_id (d : db) (k : dbkey) : option Z :=
  match db_get d k with Some (VId x) => Some x | _ => None end.
Definition db_get_block (d : db) (i : Z) : option block :=
  match db_get d (KBlock i) with Some (VBlock b) => Some b | _ => None end.
Definition db_get_z (d : db) (k : dbkey) : option Z :=
  match db_get d k with Some (VZ z) => Some z | _ => None end.

(* dbSetEvents([]*Event{event}): one transaction *)
Definition db_set_event (d : db) (e : event) : db :=
  let isnew := match db_get d (KEvent (ev_id e)) with None => true | Some _ => false end in
  let d1 := db_set (KEvent (ev_id e)) (VEvent e) d in
  if isnew then
    db_set (KPart (ev_creator e) (ev_index e)) (VId (ev_id e))
      (db_set (KTopo (ev_topo e)) (VId (ev_id e)) d1)
  else d1.

(* dbParticipantEvents: i := skip+1; read keys i, i+1, ... until the first missing one *)
Fixpoint db_part_scan (fuel : nat) (d : db) (c i : Z) : list Z :=
  match fuel with
  | O => []
  | S f => match db_get_id d (KPart c i) with
           | Some id => id :: db_part_scan f d c (i + 1)
           | None => []
           end
  end.
Definition db_participant_events (d : db) (c skip : Z) : list Z :=
  db_part_scan (db_fuel d) d c (skip + 1).

(* dbTopologicalEvents(start,count): for errr == nil && t < start+count { ... } *)
Fixpoint db_topo_scan (fuel : nat) (d : db) (t bound : Z) : result (list event) :=
  match fuel with
  | O => Ok []
  | S f =>
      match db_get_id d (KTopo t) with
      | Some id =>
          if t <? bound then
            match db_get_event d id with
            | Some e => match db_topo_scan f d (t + 1) bound with
                        | Ok l => Ok (e :: l)
                        | Err x => Err x
                        end
            | None => Err KeyNotFound         (* txn.Get(evKey) failed: the error is returned *)
            end
          else Ok []
      | None => Ok []
      end
  end.
Definition db_topological_events (d : db) (start count : Z) : result (list event) :=
  db_topo_scan (db_fuel d) d start (start + count).

(* ------------------------------------------------------------------------- *)
(* hashgraph/inmem_store.go + hashgraph/badger_store.go                       *)
(* ------------------------------------------------------------------------- *)

Record bstore := mkB {
  b_cs : Z;                 (* cacheSize *)
  b_events : lru event;     (* eventCache *)
  b_blocks : lru block;     (* blockCache *)
  b_rounds : lru Z;         (* roundCache *)
  b_frames : lru Z;         (* frameCache *)
  b_rim : rim;              (* participantEventsCache *)
  b_last_round : Z;
  b_last_block : Z;
  b_db : db }.

Definition binit (cs : Z) : bstore :=
  mkB cs (lru_new cs) (lru_new cs) (lru_new cs) (lru_new cs) [] (-1) (-1) db_empty.

Definition set_events (b : bstore) (x : lru event) : bstore :=
  mkB (b_cs b) x (b_blocks b) (b_rounds b) (b_frames b) (b_rim b) (b_last_round b) (b_last_block b) (b_db b).
Definition set_blocks (b : bstore) (x : lru block) : bstore :=
  mkB (b_cs b) (b_events b) x (b_rounds b) (b_frames b) (b_rim b) (b_last_round b) (b_last_block b) (b_db b).
Definition set_rounds (b : bstore) (x : lru Z) : bstore :=
  mkB (b_cs b) (b_events b) (b_blocks b) x (b_frames b) (b_rim b) (b_last_round b) (b_last_block b) (b_db b).
Definition set_frames (b : bstore) (x : lru Z) : bstore :=
  mkB (b_cs b) (b_events b) (b_blocks b) (b_rounds b) x (b_rim b) (b_last_round b) (b_last_block b) (b_db b).
Definition set_rim (b : bstore) (x : rim) : bstore :=
  mkB (b_cs b) (b_events b) (b_blocks b) (b_rounds b) (b_frames b) x (b_last_round b) (b_last_block b) (b_db b).
Definition set_last_round (b : bstore) (x : Z) : bstore :=
  mkB (b_cs b) (b_events b) (b_blocks b) (b_rounds b) (b_frames b) (b_rim b) x (b_last_block b) (b_db b).
Definition set_last_block (b : bstore) (x : Z) : bstore :=
  mkB (b_cs b) (b_events b) (b_blocks b) (b_rounds b) (b_frames b) (b_rim b) (b_last_round b) x (b_db b).
Definition set_db (b : bstore) (x : db) : bstore :=
  mkB (b_cs b) (b_events b) (b_blocks b) (b_rounds b) (b_frames b) (b_rim b) (b_last_round b) (b_last_block b) x.

(* InmemStore.SetEvent: GetEvent(key) on the LRU (a hit reorders); on KeyNotFound the
   participant cache is written (and may refuse); then eventCache.Add *)
Definition im_set_event (b : bstore) (e : event) : result bstore :=
  let (hit, c1) := lru_get (ev_id e) (b_events b) in
  match hit with
  | Some _ => Ok (set_events b (lru_add (ev_id e) e c1))
  | None =>
      match pec_set (b_rim b) (ev_creator e) (ev_id e) (ev_index e) with
      | Err x => Err x
      | Ok m' => Ok (set_events (set_rim b m') (lru_add (ev_id e) e c1))
      end
  end.

(* BadgerStore.SetEvent: inmem first; on error nothing reaches the DB *)
Definition b_set_event (b : bstore) (e : event) : bstore * result unit :=
  match im_set_event b e with
  | Err x => (b, Err x)
  | Ok b' => (set_db b' (db_set_event (b_db b') e), Ok tt)
  end.

(* BadgerStore.GetEvent: cache, else DB (the DB value is NOT put back into the cache) *)
Definition b_get_event (b : bstore) (id : Z) : bstore * result event :=
  let (hit, c1) := lru_get id (b_events b) in
  match hit with
  | Some e => (set_events b c1, Ok e)
  | None => match db_get_event (b_db b) id with
            | Some e => (b, Ok e)
            | None => (b, Err KeyNotFound)
            end
  end.

(* BadgerStore.ParticipantEvents: cache; on ANY cache error the DB scan (which never errors) *)
Definition b_participant_events (b : bstore) (c skip : Z) : list Z :=
  match pec_get (b_rim b) c skip with
  | Ok l => l
  | Err _ => db_participant_events (b_db b) c skip
  end.

(* BadgerStore.ParticipantEvent: cache; on ANY cache error dbParticipantEvent.  (The DB error
   is the raw badger ErrKeyNotFound, not a StoreErr; both are KeyNotFound here.) *)
Definition b_participant_event (b : bstore) (c index : Z) : result Z :=
  match pec_get_item (b_rim b) c index with
  | Ok x => Ok x
  | Err _ => match db_get_id (b_db b) (KPart c index) with
             | Some x => Ok x
             | None => Err KeyNotFound
             end
  end.

(* SetBlock: inmem GetBlock (reorders), Add, lastBlock; then dbSetBlock *)
Definition b_set_block (b : bstore) (bl : block) : bstore :=
  let (_, c1) := lru_get (bl_index bl) (b_blocks b) in
  let b1 := set_blocks b (lru_add (bl_index bl) bl c1) in
  let b2 := if bl_index bl >? b_last_block b1 then set_last_block b1 (bl_index bl) else b1 in
  set_db b2 (db_set (KBlock (bl_index bl)) (VBlock bl) (b_db b2)).

Definition b_get_block (b : bstore) (i : Z) : bstore * result block :=
  let (hit, c1) := lru_get i (b_blocks b) in
  match hit with
  | Some bl => (set_blocks b c1, Ok bl)
  | None => match db_get_block (b_db b) i with
            | Some bl => (b, Ok bl)
            | None => (b, Err KeyNotFound)
            end
  end.

(* SetRound: roundCache.Add (no Get first), lastRound; then dbSetRound *)
Definition b_set_round (b : bstore) (r p : Z) : bstore :=
  let b1 := set_rounds b (lru_add r p (b_rounds b)) in
  let b2 := if r >? b_last_round b1 then set_last_round b1 r else b1 in
  set_db b2 (db_set (KRound r) (VZ p) (b_db b2)).

(* GetRound: the cache only, never the DB *)
Definition b_get_round (b : bstore) (r : Z) : bstore * result Z :=
  let (hit, c1) := lru_get r (b_rounds b) in
  match hit with
  | Some p => (set_rounds b c1, Ok p)
  | None => (b, Err KeyNotFound)
  end.

(* SetFrame: inmem GetFrame (reorders), Add; then dbSetFrame *)
Definition b_set_frame (b : bstore) (r p : Z) : bstore :=
  let (_, c1) := lru_get r (b_frames b) in
  let b1 := set_frames b (lru_add r p c1) in
  set_db b1 (db_set (KFrame r) (VZ p) (b_db b1)).

Definition b_get_frame (b : bstore) (r : Z) : bstore * result Z :=
  let (hit, c1) := lru_get r (b_frames b) in
  match hit with
  | Some p => (set_frames b c1, Ok p)
  | None => (b, Err KeyNotFound)
  end.

(* SetPeerSet restricted to one new peer: inmem addParticipant is guarded by "not already a
   participant"; BadgerStore.addParticipant writes a fresh Root unless one is stored.
   (repertoire and peer-set records are not modelled; KPeerSet is unused) *)
Definition b_add_participant (b : bstore) (c : Z) : bstore :=
  let b1 := match aget c (b_rim b) with
            | Some _ => b
            | None => set_rim b (b_rim b ++ [(c, ri_new (b_cs b))])
            end in
  match db_get (b_db b1) (KRoot c) with
  | Some _ => b1
  | None => set_db b1 (db_set (KRoot c) (VZ 0) (b_db b1))
  end.

(* Close + NewBadgerStore on the same path, WITHOUT Bootstrap: the DB is kept, the InmemStore
   is new; the participant map keeps its keys with empty rolling indexes *)
Definition b_reopen (b : bstore) : bstore :=
  let cs := b_cs b in
  mkB cs (lru_new cs) (lru_new cs) (lru_new cs) (lru_new cs)
      (map (fun cr => (fst cr, ri_new cs)) (b_rim b)) (-1) (-1) (b_db b).

Inductive sop :=
| OAddParticipant (c : Z) | OSetEvent (e : event) | OGetEvent (id : Z)
| OParticipantEvents (c skip : Z) | OParticipantEvent (c index : Z) | OLastEventFrom (c : Z)
| OKnownEvents | OSetBlock (b : block) | OGetBlock (i : Z) | OLastBlockIndex
| OSetRound (r p : Z) | OGetRound (r : Z) | OSetFrame (r p : Z) | OGetFrame (r : Z)
| ODbGetRound (r : Z) | ODbGetFrame (r : Z) | ODbTopological (start count : Z) | OReopen.

Inductive sres :=
| RUnit | RErr (e : serr) | REvent (e : event) | RIds (l : list Z) | RId (x : Z)
| RKnown (l : list (Z * Z)) | RBlock (b : block) | RZ (z : Z) | REvents (l : list event).

Definition res_of {A} (f : A -> sres) (r : result A) : sres :=
  match r with Ok a => f a | Err e => RErr e end.

Definition bstep (b : bstore) (o : sop) : bstore * sres :=
  match o with
  | OAddParticipant c => (b_add_participant b c, RUnit)
  | OSetEvent e => let (b', r) := b_set_event b e in (b', res_of (fun _ => RUnit) r)
  | OGetEvent id => let (b', r) := b_get_event b id in (b', res_of REvent r)
  | OParticipantEvents c skip => (b, RIds (b_participant_events b c skip))
  | OParticipantEvent c i => (b, res_of RId (b_participant_event b c i))
  | OLastEventFrom c => (b, res_of RId (pec_get_last (b_rim b) c))
  | OKnownEvents => (b, RKnown (pec_known (b_rim b)))
  | OSetBlock bl => (b_set_block b bl, RUnit)
  | OGetBlock i => let (b', r) := b_get_block b i in (b', res_of RBlock r)
  | OLastBlockIndex => (b, RZ (b_last_block b))
  | OSetRound r p => (b_set_round b r p, RUnit)
  | OGetRound r => let (b', x) := b_get_round b r in (b', res_of RZ x)
  | OSetFrame r p => (b_set_frame b r p, RUnit)
  | OGetFrame r => let (b', x) := b_get_frame b r in (b', res_of RZ x)
  | ODbGetRound r =>
      (b, match db_get_z (b_db b) (KRound r) with Some p => RZ p | None => RErr KeyNotFound end)
  | ODbGetFrame r =>
      (b, match db_get_z (b_db b) (KFrame r) with Some p => RZ p | None => RErr KeyNotFound end)
  | ODbTopological start count => (b, res_of REvents (db_topological_events (b_db b) start count))
  | OReopen => (b_reopen b, RUnit)
  end.

Fixpoint brun (b : bstore) (ops : list sop) : bstore * list sres :=
  match ops with
  | [] => (b, [])
  | o :: r => let (b1, x) := bstep b o in
              let (b2, xs) := brun b1 r in (b2, x :: xs)
  end.
