(* C16 reference model: the store as a plain map.  No cache, no window, no fuel: reads are
   total functions of what was written.  Executable definitions only, no proofs. *)
From Coq Require Import ZArith List Bool.
From V Require Import Model.Store.
Import ListNotations.
Open Scope Z_scope.

Definition znth {A} (l : list A) (i : Z) : option A :=
  if i <? 0 then None else nth_error l (Z.to_nat i).
Definition zlen {A} (l : list A) : Z := Z.of_nat (length l).

Fixpoint omap {A B} (f : A -> option B) (l : list A) : list B :=
  match l with
  | [] => []
  | a :: r => match f a with Some b => b :: omap f r | None => omap f r end
  end.

Fixpoint zmem (x : Z) (l : list Z) : bool :=
  match l with [] => false | y :: r => Z.eqb y x || zmem x r end.

Record spec := mkS {
  sp_parts : list Z;                 (* participants, in order of addition *)
  sp_events : Z -> option event;     (* events by id *)
  sp_part : Z -> list Z;             (* creator -> ids, position = index *)
  sp_topo : list Z;                  (* ids, position = topological index *)
  sp_blocks : Z -> option block;
  sp_rounds : Z -> option Z;
  sp_frames : Z -> option Z;
  sp_last_block : Z }.

Definition sinit : spec :=
  mkS [] (fun _ => None) (fun _ => []) [] (fun _ => None) (fun _ => None) (fun _ => None) (-1).

Definition fupd {A} (f : Z -> A) (k : Z) (v : A) : Z -> A :=
  fun k' => if Z.eqb k k' then v else f k'.

Definition s_set_event (s : spec) (e : event) : spec :=
  match sp_events s (ev_id e) with
  | Some _ =>
      mkS (sp_parts s) (fupd (sp_events s) (ev_id e) (Some e)) (sp_part s) (sp_topo s)
          (sp_blocks s) (sp_rounds s) (sp_frames s) (sp_last_block s)
  | None =>
      mkS (sp_parts s) (fupd (sp_events s) (ev_id e) (Some e))
          (fupd (sp_part s) (ev_creator e) (sp_part s (ev_creator e) ++ [ev_id e]))
          (sp_topo s ++ [ev_id e])
          (sp_blocks s) (sp_rounds s) (sp_frames s) (sp_last_block s)
  end.

Definition s_add_participant (s : spec) (c : Z) : spec :=
  if zmem c (sp_parts s) then s
  else mkS (sp_parts s ++ [c]) (sp_events s) (sp_part s) (sp_topo s)
           (sp_blocks s) (sp_rounds s) (sp_frames s) (sp_last_block s).

Definition s_set_block (s : spec) (bl : block) : spec :=
  mkS (sp_parts s) (sp_events s) (sp_part s) (sp_topo s)
      (fupd (sp_blocks s) (bl_index bl) (Some bl)) (sp_rounds s) (sp_frames s)
      (Z.max (sp_last_block s) (bl_index bl)).

Definition s_set_round (s : spec) (r p : Z) : spec :=
  mkS (sp_parts s) (sp_events s) (sp_part s) (sp_topo s)
      (sp_blocks s) (fupd (sp_rounds s) r (Some p)) (sp_frames s) (sp_last_block s).

Definition s_set_frame (s : spec) (r p : Z) : spec :=
  mkS (sp_parts s) (sp_events s) (sp_part s) (sp_topo s)
      (sp_blocks s) (sp_rounds s) (fupd (sp_frames s) r (Some p)) (sp_last_block s).

Definition opt_res {A} (f : A -> sres) (o : option A) : sres :=
  match o with Some a => f a | None => RErr KeyNotFound end.

Definition sstep (s : spec) (o : sop) : spec * sres :=
  match o with
  | OAddParticipant c => (s_add_participant s c, RUnit)
  | OSetEvent e => (s_set_event s e, RUnit)
  | OGetEvent id => (s, opt_res REvent (sp_events s id))
  (* all ids of c with index > skip *)
  | OParticipantEvents c skip => (s, RIds (skipn (Z.to_nat (skip + 1)) (sp_part s c)))
  | OParticipantEvent c i => (s, opt_res RId (znth (sp_part s c) i))
  | OLastEventFrom c =>
      (s, if zmem c (sp_parts s) then
            match znth (sp_part s c) (zlen (sp_part s c) - 1) with
            | Some x => RId x
            | None => RErr Empty
            end
          else RErr UnknownParticipant)
  | OKnownEvents => (s, RKnown (map (fun c => (c, zlen (sp_part s c) - 1)) (sp_parts s)))
  | OSetBlock bl => (s_set_block s bl, RUnit)
  | OGetBlock i => (s, opt_res RBlock (sp_blocks s i))
  | OLastBlockIndex => (s, RZ (sp_last_block s))
  | OSetRound r p => (s_set_round s r p, RUnit)
  | OGetRound r => (s, opt_res RZ (sp_rounds s r))
  | OSetFrame r p => (s_set_frame s r p, RUnit)
  | OGetFrame r => (s, opt_res RZ (sp_frames s r))
  | ODbGetRound r => (s, opt_res RZ (sp_rounds s r))
  | ODbGetFrame r => (s, opt_res RZ (sp_frames s r))
  (* the events with topological index in [start, start+count) *)
  | ODbTopological start count =>
      (s, REvents (omap (sp_events s)
                        (firstn (Z.to_nat count) (skipn (Z.to_nat start) (sp_topo s)))))
  | OReopen => (s, RUnit)
  end.

Fixpoint srun (s : spec) (ops : list sop) : spec * list sres :=
  match ops with
  | [] => (s, [])
  | o :: r => let (s1, x) := sstep s o in
              let (s2, xs) := srun s1 r in (s2, x :: xs)
  end.

(* ------------------------------------------------------------------------- *)
(* the admission discipline of the hashgraph, as a check on the op sequence   *)
(* ------------------------------------------------------------------------- *)

(* a NEW id: creator added before, index = number of that creator's events so far, topological
   index = number of events so far.  A known id: creator / index / topological index unchanged.
   Listing arguments are in the range the callers use (skip >= -1, start >= 0). *)
Definition wf_op (s : spec) (o : sop) : bool :=
  match o with
  | OSetEvent e =>
      match sp_events s (ev_id e) with
      | None => zmem (ev_creator e) (sp_parts s)
                && (ev_index e =? zlen (sp_part s (ev_creator e)))
                && (ev_topo e =? zlen (sp_topo s))
      | Some e0 => (ev_creator e =? ev_creator e0) && (ev_index e =? ev_index e0)
                   && (ev_topo e =? ev_topo e0)
      end
  | OParticipantEvents _ skip => -1 <=? skip
  | ODbTopological start _ => 0 <=? start
  | _ => true
  end.

Fixpoint wf_from (s : spec) (ops : list sop) : bool :=
  match ops with
  | [] => true
  | o :: r => wf_op s o && wf_from (fst (sstep s o)) r
  end.
Definition wf_ops (ops : list sop) : bool := wf_from sinit ops.

(* every SetEvent of the run was acknowledged (returned no error) *)
Fixpoint writes_ok (ops : list sop) (rs : list sres) : bool :=
  match ops, rs with
  | OSetEvent _ :: ops', r :: rs' =>
      match r with RUnit => writes_ok ops' rs' | _ => false end
  | _ :: ops', _ :: rs' => writes_ok ops' rs'
  | _, _ => true
  end.

(* which results are compared with the reference.  `re` = a close/reopen happened before.
   - cache-only reads (GetRound, GetFrame) are never compared: by design they do not fall back
     to the DB;
   - the reads answered by the participant window / the lastBlock counter are compared only
     before the first reopen (Bootstrap, which rebuilds them, is out of scope). *)
Definition observed (re : bool) (o : sop) : bool :=
  match o with
  | OGetRound _ | OGetFrame _ => false
  | OParticipantEvents _ _ | OLastEventFrom _ | OKnownEvents | OLastBlockIndex => negb re
  | _ => true
  end.

Definition is_reopen (o : sop) : bool := match o with OReopen => true | _ => false end.

Fixpoint observe (re : bool) (ops : list sop) (rs : list sres) : list (option sres) :=
  match ops, rs with
  | o :: ops', r :: rs' =>
      (if observed re o then Some r else None) :: observe (re || is_reopen o) ops' rs'
  | _, _ => []
  end.

Fixpoint no_reopen (ops : list sop) : bool :=
  match ops with [] => true | o :: r => negb (is_reopen o) && no_reopen r end.

(* ------------------------------------------------------------------------- *)
(* joint run: the reference follows only the ACKNOWLEDGED writes              *)
(* ------------------------------------------------------------------------- *)

Definition rejected (o : sop) (x : sres) : bool :=
  match o, x with OSetEvent _, RErr _ => true | _, _ => false end.

(* returns (admission discipline respected w.r.t. the acknowledged history,
            results of the store, results of the reference).
   A rejected SetEvent is skipped by the reference (which then reports the same error). *)
Fixpoint jrun (b : bstore) (s : spec) (ops : list sop) : bool * list sres * list sres :=
  match ops with
  | [] => (true, [], [])
  | o :: r =>
      let (b1, x) := bstep b o in
      let (s1, y) := if rejected o x then (s, x) else sstep s o in
      let '(w, xs, ys) := jrun b1 s1 r in
      ((rejected o x || wf_op s o) && w, x :: xs, y :: ys)
  end.

(* final states of the joint run *)
Fixpoint jfinal (b : bstore) (s : spec) (ops : list sop) : bstore * spec :=
  match ops with
  | [] => (b, s)
  | o :: r =>
      let (b1, x) := bstep b o in
      let s1 := if rejected o x then s else fst (sstep s o) in
      jfinal b1 s1 r
  end.

(* ------------------------------------------------------------------------- *)
(* statement-level predicates used in Properties/C16.v                       *)
(* ------------------------------------------------------------------------- *)

(* positions and indexes coincide, every stored event is listed, nothing else is listed *)
Definition listings_exact (d : db) : Prop :=
  (forall c, let l := db_participant_events d c (-1) in
     NoDup l /\
     (forall id e, db_get_event d id = Some e -> ev_creator e = c -> znth l (ev_index e) = Some id) /\
     (forall i id, znth l i = Some id ->
        exists e, db_get_event d id = Some e /\ ev_creator e = c /\ ev_index e = i)) /\
  (exists n, 0 <= n /\ forall N, n <= N ->
     exists es, db_topological_events d 0 N = Ok es /\ zlen es = n /\ NoDup (map ev_id es) /\
       (forall id e, db_get_event d id = Some e -> ev_id e = id /\ znth es (ev_topo e) = Some e) /\
       (forall i e, znth es i = Some e -> ev_topo e = i /\ db_get_event d (ev_id e) = Some e)) /\
  (* every stored event is reached by any scan that goes past its topological index *)
  (forall id e N, db_get_event d id = Some e -> ev_topo e < N ->
     exists es, db_topological_events d 0 N = Ok es /\ znth es (ev_topo e) = Some e).


(* compare every result except the cache-only reads, also after a reopen (used only in a
   refutation: the window-answered reads ARE wrong after a reopen) *)
Definition observed_all (o : sop) : bool :=
  match o with OGetRound _ | OGetFrame _ => false | _ => true end.
Fixpoint observe_all (ops : list sop) (rs : list sres) : list (option sres) :=
  match ops, rs with
  | o :: ops', r :: rs' => (if observed_all o then Some r else None) :: observe_all ops' rs'
  | _, _ => []
  end.

