(* C16: concrete operation sequences used as witnesses / non-vacuity examples.
   All of them were replayed against the real BadgerStore (see REPORT.md). *)
From Coq Require Import ZArith List Bool.
From V Require Import Model.Store Model.StoreSpec.
Import ListNotations.
Open Scope Z_scope.

Definition ev (id c i t p : Z) : sop := OSetEvent (mkEvent id c i t p).
Definition mkev (id c i t p : Z) : event := mkEvent id c i t p.

(* W1 (cache size 2): updating an event that left both the LRU and the rolling window is
   rejected with TooLate; the DB keeps the old content *)
Definition w_reset_rejected : list sop :=
  [OAddParticipant 7; ev 100 7 0 0 1; ev 101 7 1 1 1; ev 102 7 2 2 1;
   ev 100 7 0 0 2; OGetEvent 100].

(* W2: after close/reopen (no Bootstrap) the cache answers listings from an empty window,
   without error, so there is no fall-back to the DB *)
Definition w_listing_after_reopen : list sop :=
  [OAddParticipant 7; ev 100 7 0 0 1; ev 101 7 1 1 1; ev 102 7 2 2 1; OReopen;
   OParticipantEvents 7 (-1); OParticipantEvent 7 1; OLastEventFrom 7; OKnownEvents;
   OLastBlockIndex].

(* W3: after reopen, re-setting an old event seeds the window at its index; the creator's next
   event is then rejected with SkippedIndex, its topological index stays unused, and the
   topological scan stops at that gap although a later event IS stored *)
Definition w_topo_gap : list sop :=
  [OAddParticipant 7; OAddParticipant 8; ev 100 7 0 0 1; ev 101 7 1 1 1; OReopen;
   ev 100 7 0 0 2; ev 102 7 2 2 1; ev 103 8 0 3 1; ODbTopological 0 10; OGetEvent 103].

(* W4 (cache size 2): rounds / frames are read from the cache only *)
Definition w_round_cache_only : list sop :=
  [OSetRound 1 11; OSetRound 2 22; OSetRound 3 33; OGetRound 1; ODbGetRound 1;
   OSetFrame 1 11; OSetFrame 2 22; OSetFrame 3 33; OGetFrame 1; ODbGetFrame 1].

(* W5: skip < -1 makes the cache answer TooLate and the DB scan start at a negative index *)
Definition w_negative_skip : list sop :=
  [OAddParticipant 7; ev 100 7 0 0 1; ev 101 7 1 1 1; OParticipantEvents 7 (-2)].

(* a well-behaved run with eviction (for cache sizes 1, 2, 3) and a reopen in the middle *)
Definition w_good : list sop :=
  [OAddParticipant 7; OAddParticipant 8;
   ev 100 7 0 0 1; ev 200 8 0 1 1; ev 101 7 1 2 1; ev 102 7 2 3 1; ev 201 8 1 4 1; ev 103 7 3 5 1;
   OSetBlock (mkBlock 0 50); OSetBlock (mkBlock 1 51); OSetBlock (mkBlock 2 52);
   OSetRound 0 60; OSetRound 1 61; OSetRound 2 62; OSetFrame 0 70; OSetFrame 1 71; OSetFrame 2 72;
   OGetEvent 100; OGetBlock 0; OParticipantEvents 7 (-1); OParticipantEvents 7 1;
   OParticipantEvent 7 0; OLastEventFrom 7; OKnownEvents; OLastBlockIndex;
   ev 103 7 3 5 9; OGetEvent 103;
   OReopen;
   OGetEvent 100; OGetEvent 103; OGetBlock 1; OParticipantEvent 7 2; OParticipantEvent 8 5;
   ODbGetRound 0; ODbGetFrame 2; ODbTopological 0 100; ODbTopological 2 2;
   ev 104 7 4 6 1; ev 202 8 2 7 1; OGetEvent 104; ODbTopological 5 10].
