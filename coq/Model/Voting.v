(* The virtual-voting loop of Hashgraph.DecideFame for one candidate witness x of round r,
   abstracted from the store: everything it reads is a parameter.  HgImpl instantiates the
   parameters with store lookups; Proofs/VotingProofs.v proves agreement of decisions for all
   parameter values satisfying the quorum hypotheses.  Executable definitions only. *)
From Coq Require Import ZArith List Bool.
From V Require Import Model.ZMap.
Import ListNotations.
Open Scope Z_scope.

Record vparams := mkVP {
  vp_sees : Z -> option bool;          (* y sees x  (used when j - r = 1) *)
  vp_prev : Z -> option (list Z);      (* j |-> witnesses of round j-1 (None: store error) *)
  vp_ss : Z -> Z -> Z -> option bool;  (* j y w |-> y strongly sees w under the peer set of round j-1 *)
  vp_sm : Z -> option Z;               (* j |-> decision quorum of voting round j: SuperMajority of the peer set of round j-1 (the voters) *)
  vp_coin : Z -> bool                  (* middle bit of y's hash *)
}.

Definition vote_of (votes : list (Z * bool)) (w : Z) : bool :=
  match aget w votes with Some b => b | None => false end.

(* witnesses of round j-1 strongly seen by y *)
Definition ss_witnesses (P : vparams) (j y : Z) (prev : list Z) : option (list Z) :=
  fold_left (fun (acc : option (list Z)) w =>
     match acc, P.(vp_ss) j y w with
     | Some l, Some b => Some (if b then l ++ [w] else l)
     | _, _ => None
     end) prev (Some []).

(* (vote, tally) of y from the votes of the witnesses it strongly sees *)
Definition tally (votes : list (Z * bool)) (ssw : list Z) : bool * Z :=
  let yays := Z.of_nat (length (filter (fun w => vote_of votes w) ssw)) in
  let nays := Z.of_nat (length ssw) - yays in
  let v := nays <=? yays in
  (v, if v then yays else nays).

(* the y loop of round j; returns (votes, Some fame when decided); None on a store error *)
Fixpoint fame_round_j (P : vparams) (r j : Z) (ys : list Z) (votes : list (Z * bool))
  : option (list (Z * bool) * option bool) :=
  match ys with
  | [] => Some (votes, None)
  | y :: rest =>
    let diff := j - r in
    if diff =? 1 then
      match P.(vp_sees) y with
      | None => None
      | Some b => fame_round_j P r j rest (aset y b votes)
      end
    else
      match P.(vp_prev) j, P.(vp_sm) j with
      | Some prev, Some smj =>
        match ss_witnesses P j y prev with
        | None => None
        | Some ssw =>
          let '(v, t) := tally votes ssw in
          if 0 <? diff mod 4 then
            if smj <=? t then Some (aset y v votes, Some v)
            else fame_round_j P r j rest (aset y v votes)
          else
            if smj <=? t then fame_round_j P r j rest (aset y v votes)
            else fame_round_j P r j rest (aset y (P.(vp_coin) y) votes)
        end
      | _, _ => None
      end
  end.

(* VOTE_LOOP over the rounds j = r+1 .. LastRound; rounds_w j = witnesses of round j *)
Fixpoint fame_loop (P : vparams) (rounds_w : Z -> option (list Z)) (r : Z) (js : list Z)
         (votes : list (Z * bool)) : option (option bool) :=
  match js with
  | [] => Some None
  | j :: rest =>
    match rounds_w j with
    | Some ws =>
      match fame_round_j P r j ws votes with
      | None => None
      | Some (_, Some v) => Some (Some v)
      | Some (votes', None) => fame_loop P rounds_w r rest votes'
      end
    | None => None
    end
  end.
