(* Concrete instances of the voting loop used as non-vacuity examples in Properties/Voting.v.
   n = 4 validators (supermajority 3), candidate of round r = 0.  Executable definitions only. *)
From Coq Require Import ZArith List Bool.
From V Require Import Model.ZMap Model.Voting Model.VotingRef.
Import ListNotations.
Open Scope Z_scope.

(** Example 1: three rounds; a tie in round 2 (counts as true); decision "famous" in round 3. *)
Definition ex1_W (j : Z) : list Z :=
  if j =? 1 then [11; 12; 13; 14]
  else if j =? 2 then [21; 22; 23; 24]
  else if j =? 3 then [31; 32; 33]
  else [].
(* y |-> the witnesses of the previous round that y strongly sees *)
Definition ex1_sstab : list (Z * list Z) :=
  [(21, [11; 12; 13]); (22, [11; 12; 14]); (23, [11; 12; 13; 14]); (24, [12; 13; 14]);
   (31, [21; 22; 23]); (32, [21; 22; 24]); (33, [22; 23; 24])].
Definition ex1_P : vparams :=
  mkVP (fun y => if zinb y [11; 12; 13; 14] then Some (zinb y [11; 12]) else None)
       (fun j => Some (ex1_W (j - 1)))
       (fun j y w => match aget y ex1_sstab with Some l => Some (zinb w l) | None => None end)
       (fun j => Some 3)
       (fun y => false).
(* a smaller view of the same history, listed in another order: 24, 32, 33 not yet known *)
Definition ex1_W' (j : Z) : list Z :=
  if j =? 1 then [14; 13; 12; 11]
  else if j =? 2 then [23; 21; 22]
  else if j =? 3 then [31]
  else [].
Definition ex1_P' : vparams :=
  mkVP (vp_sees ex1_P) (fun j => Some (ex1_W' (j - 1))) (vp_ss ex1_P) (vp_sm ex1_P) (vp_coin ex1_P).

(** Example 2: five rounds of four witnesses 10*j+i; witness i of a round strongly sees all
    witnesses of the previous round except number 5-i.  Rounds 2 and 3 are split 2/2 with
    tallies of 2, round 4 is a coin round in which everybody flips a coin, and round 5 decides
    "not famous" on the coin outcome. *)
Definition ex2_W (j : Z) : list Z :=
  if (1 <=? j) && (j <=? 5) then [10 * j + 1; 10 * j + 2; 10 * j + 3; 10 * j + 4] else [].
Definition ex2_P : vparams :=
  mkVP (fun y => Some (zinb y [11; 12]))
       (fun j => Some (ex2_W (j - 1)))
       (fun j y w => Some (negb (w mod 10 =? 5 - y mod 10)))
       (fun j => Some 3)
       (fun y => y =? 44).
