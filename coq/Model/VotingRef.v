(* Reference semantics of the virtual-voting loop of Model/Voting.v: the vote of a witness as a
   function of the witness alone (by recursion on the round offset), the "decider" test, and a
   store-free reference loop.  Executable definitions only; Proofs/VotingProofs.v relates them
   to fame_loop and proves agreement. *)
From Coq Require Import ZArith List Bool.
From V Require Import Model.ZMap Model.Voting.
Import ListNotations.
Open Scope Z_scope.

(* total versions of the lookups (None is excluded by the view hypotheses) *)
Definition seesb (P : vparams) (y : Z) : bool :=
  match vp_sees P y with Some b => b | None => false end.
Definition ssb (P : vparams) (j y w : Z) : bool :=
  match vp_ss P j y w with Some b => b | None => false end.

(* the round-(j-1) witnesses strongly seen by y (a witness of round j) *)
Definition ssset (P : vparams) (W : Z -> list Z) (j y : Z) : list Z :=
  filter (ssb P j y) (W (j - 1)).

(* tally with the votes given by a function instead of the association list *)
Definition tallyf (f : Z -> bool) (ssw : list Z) : bool * Z :=
  let yays := Z.of_nat (length (filter f ssw)) in
  let nays := Z.of_nat (length ssw) - yays in
  let v := nays <=? yays in
  (v, if v then yays else nays).

(* reference vote of witness y of round r+1+d about the candidate; s = supermajority *)
Fixpoint refvote (P : vparams) (W : Z -> list Z) (r s : Z) (d : nat) (y : Z) : bool :=
  match d with
  | O => seesb P y
  | S d' =>
    let j := r + 2 + Z.of_nat d' in
    let vt := tallyf (refvote P W r s d') (ssset P W j y) in
    if 0 <? (j - r) mod 4 then fst vt
    else if s <=? snd vt then fst vt else vp_coin P y
  end.

(* the same, indexed by the absolute round j >= r+1 *)
Definition Vz (P : vparams) (W : Z -> list Z) (r s j y : Z) : bool :=
  refvote P W r s (Z.to_nat (j - r - 1)) y.

(* y (witness of round j) decides the fame of the candidate: normal round, j - r >= 2,
   supermajority tally.  The decision is then Vz j y. *)
Definition decider (P : vparams) (W : Z -> list Z) (r s j y : Z) : bool :=
  (2 <=? j - r) && (0 <? (j - r) mod 4) &&
  (s <=? snd (tallyf (Vz P W r s (j - 1)) (ssset P W j y))).

Definition round_ref (P : vparams) (W : Z -> list Z) (r s j : Z) (ys : list Z) : option bool :=
  match find (decider P W r s j) ys with
  | Some y => Some (Vz P W r s j y)
  | None => None
  end.

Fixpoint loop_ref (P : vparams) (W : Z -> list Z) (r s : Z) (js : list Z) : option bool :=
  match js with
  | [] => None
  | j :: rest =>
    match round_ref P W r s j (W j) with
    | Some v => Some v
    | None => loop_ref P W r s rest
    end
  end.

(* fame_loop instrumented to return the final votes list as well *)
Fixpoint fame_loop_votes (P : vparams) (rounds_w : Z -> option (list Z)) (r : Z) (js : list Z)
         (votes : list (Z * bool)) : option (list (Z * bool) * option bool) :=
  match js with
  | [] => Some (votes, None)
  | j :: rest =>
    match rounds_w j with
    | Some ws =>
      match fame_round_j P r j ws votes with
      | None => None
      | Some (votes', Some v) => Some (votes', Some v)
      | Some (votes', None) => fame_loop_votes P rounds_w r rest votes'
      end
    | None => None
    end
  end.

(* executable check of the view hypotheses (sound for Proofs/VotingProofs.view_ok) *)
Fixpoint zinb (k : Z) (l : list Z) : bool :=
  match l with [] => false | x :: t => (x =? k) || zinb k t end.
Fixpoint nodupb (l : list Z) : bool :=
  match l with [] => true | x :: t => negb (zinb x t) && nodupb t end.
Definition disjointb (a b : list Z) : bool := forallb (fun x => negb (zinb x b)) a.
Definition is_some {A} (o : option A) : bool := match o with Some _ => true | None => false end.

Definition view_okb (n r : Z) (P : vparams) (W : Z -> list Z) (J : Z) : bool :=
  (1 <=? n) && (r <=? J) &&
  forallb (fun j => nodupb (W j) && (Z.of_nat (length (W j)) <=? n)) (zrange (r + 1) J) &&
  forallb (fun j => forallb (fun j' => (j =? j') || disjointb (W j) (W j')) (zrange (r + 1) J))
          (zrange (r + 1) J) &&
  forallb (fun j =>
     match vp_sm P j with Some x => x =? 2 * n / 3 + 1 | None => false end &&
     match vp_prev P j with
     | Some prev => if list_eq_dec Z.eq_dec prev (W (j - 1)) then true else false
     | None => false
     end &&
     forallb (fun y => forallb (fun w => is_some (vp_ss P j y w)) (W (j - 1)) &&
                       (2 * n / 3 + 1 <=? Z.of_nat (length (ssset P W j y)))) (W j))
     (zrange (r + 2) J) &&
  forallb (fun y => is_some (vp_sees P y)) (W (r + 1)).

(* executable check that two views are views of the same history with global witness lists G
   (sound for Proofs/VotingProofs.same_history) *)
Definition inclb (a b : list Z) : bool := forallb (fun x => zinb x b) a.
Definition obool_eqb (a b : option bool) : bool :=
  match a, b with
  | Some x, Some y => Bool.eqb x y
  | None, None => true
  | _, _ => false
  end.

Definition same_historyb (n r : Z) (P1 : vparams) (W1 : Z -> list Z) (J1 : Z)
           (P2 : vparams) (W2 : Z -> list Z) (J2 : Z) (G : Z -> list Z) : bool :=
  let M := Z.min J1 J2 in
  forallb (fun y => negb (zinb y (W2 (r + 1))) || obool_eqb (vp_sees P1 y) (vp_sees P2 y))
          (W1 (r + 1)) &&
  forallb (fun j => forallb (fun y => negb (zinb y (W2 j)) ||
                                      (Bool.eqb (vp_coin P1 y) (vp_coin P2 y) &&
                                       inclb (ssset P1 W1 j y) (ssset P2 W2 j y) &&
                                       inclb (ssset P2 W2 j y) (ssset P1 W1 j y))) (W1 j))
          (zrange (r + 2) M) &&
  forallb (fun j => nodupb (G j) && (Z.of_nat (length (G j)) <=? n) &&
                    inclb (W1 j) (G j) && inclb (W2 j) (G j)) (zrange (r + 1) M).
