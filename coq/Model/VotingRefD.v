(* Reference semantics of the virtual-voting loop with a quorum that depends on the voting round:
   Model/VotingRef.v with the single super-majority s replaced by a function j |-> s j (the decision quorum of
   voting round j).  Executable definitions only; Proofs/VotingProofsD.v relates them to fame_loop and proves
   agreement for validator sets that change from round to round. *)
From Coq Require Import ZArith List Bool.
From V Require Import Model.ZMap Model.Voting Model.VotingRef.
Import ListNotations.
Open Scope Z_scope.

(* reference vote of witness y of round r+1+d about the candidate; s j = quorum of voting round j *)
Fixpoint refvoteD (P : vparams) (W : Z -> list Z) (r : Z) (s : Z -> Z) (d : nat) (y : Z) : bool :=
  match d with
  | O => seesb P y
  | S d' =>
    let j := r + 2 + Z.of_nat d' in
    let vt := tallyf (refvoteD P W r s d') (ssset P W j y) in
    if 0 <? (j - r) mod 4 then fst vt
    else if s j <=? snd vt then fst vt else vp_coin P y
  end.

Definition VzD (P : vparams) (W : Z -> list Z) (r : Z) (s : Z -> Z) (j y : Z) : bool :=
  refvoteD P W r s (Z.to_nat (j - r - 1)) y.

Definition deciderD (P : vparams) (W : Z -> list Z) (r : Z) (s : Z -> Z) (j y : Z) : bool :=
  (2 <=? j - r) && (0 <? (j - r) mod 4) &&
  (s j <=? snd (tallyf (VzD P W r s (j - 1)) (ssset P W j y))).

Definition round_refD (P : vparams) (W : Z -> list Z) (r : Z) (s : Z -> Z) (j : Z) (ys : list Z) : option bool :=
  match find (deciderD P W r s j) ys with
  | Some y => Some (VzD P W r s j y)
  | None => None
  end.

Fixpoint loop_refD (P : vparams) (W : Z -> list Z) (r : Z) (s : Z -> Z) (js : list Z) : option bool :=
  match js with
  | [] => None
  | j :: rest =>
    match round_refD P W r s j (W j) with
    | Some v => Some v
    | None => loop_refD P W r s rest
    end
  end.

(* the quorum of voting round j when round q has n q validators: the super-majority of the VOTERS' round j-1 *)
Definition smd (n : Z -> Z) (j : Z) : Z := 2 * n (j - 1) / 3 + 1.
