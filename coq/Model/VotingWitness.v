(* A concrete view of the voting loop (Model/Voting.v) used as a counterexample in
   Properties/C06.v: 4 validators (supermajority 3), candidate of round r = 0.  Witnesses 1, 2, 3
   of round 1 see the candidate, 4 does not; every witness of round 2 strongly sees 4 and two of
   the others (tally 2 yes / 1 no: no supermajority, nobody decides in round 2 although a
   supermajority of round 1 votes yes); round 3 decides.  Executable definitions only. *)
From Coq Require Import ZArith List Bool.
From V Require Import Model.ZMap Model.Voting Model.VotingRef.
Import ListNotations.
Open Scope Z_scope.

Definition c06_W (j : Z) : list Z :=
  if j =? 1 then [1; 2; 3; 4] else if j =? 2 then [5; 6; 7; 8] else if j =? 3 then [9; 10; 11; 12] else [].
Definition c06_sstab : list (Z * list Z) :=
  [(5, [2; 3; 4]); (6, [1; 3; 4]); (7, [1; 2; 4]); (8, [1; 2; 4]);
   (9, [5; 6; 7]); (10, [5; 6; 8]); (11, [6; 7; 8]); (12, [5; 7; 8])].
Definition c06_P : vparams :=
  mkVP (fun y => Some (zinb y [1; 2; 3]))
       (fun j => Some (c06_W (j - 1)))
       (fun j y w => match aget y c06_sstab with Some l => Some (zinb w l) | None => None end)
       (fun j => Some 3)
       (fun y => false).
