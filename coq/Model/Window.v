(* The "window" of a validator-set change, as executable checks on a step st -> st' of a node.
   core.processAcceptedInternalTransactions writes the set decided in the block of round-received
   rr at round rr + 6.  Rounds, witness flags, fame and round-received are memoised with the set
   that Store.GetPeerSet(round) returns WHEN they are computed, so the entry must be written
   before any event is divided into a round >= rr + 6: [window_stepb].  Nothing in the code
   enforces it (Properties/C10.v: C10_window_refuted); [round_gap] measures how far the division
   of rounds is ahead of the next round to be processed. *)
From Coq Require Import ZArith List Bool.
From V Require Import Model.ZMap Model.Quorum Model.HgImpl.
Import ListNotations.
Open Scope Z_scope.

Definition lc_next (st : hg) : Z := match last_consensus st with Some l => l + 1 | None => 0 end.
Definition round_gap (st : hg) : Z := last_round st - lc_next st.

(* the rounds that received a table entry during the step *)
Definition new_entries (st st' : hg) : list Z :=
  filter (fun r => negb (existsb (Z.eqb r) (map fst (peersets st)))) (map fst (peersets st')).

(* every entry written by the step is for a round above every round divided so far *)
Definition window_stepb (st st' : hg) : bool :=
  forallb (fun r => last_round st' <? r) (new_entries st st').

(* the distance bound that makes the window property hold whatever happens later: after the step no
   round is more than 5 above the next round that was to be processed BEFORE the step, i.e. every block
   the node can still deliver (round-received >= lc_next st) writes its entry (round-received + 6)
   above every existing round.  This is what a gate "do not divide more than 6 rounds ahead of
   consensus" enforces. *)
Definition gap_stepb (st st' : hg) : bool := last_round st' <=? lc_next st + 5.

