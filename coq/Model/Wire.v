(* C15 encoding identity: executable model of the conversions of events, blocks and frames.

   Sources modelled (babble /repo/src):
     hashgraph/event.go      EventBody / Event / ToWire / WireBlockSignatures / WireEvent.BlockSignatures /
                             MarshalDB / UnmarshalDB (eventWrapper)
     hashgraph/hashgraph.go  SetWireInfo, ReadWireInfo
     hashgraph/block.go, frame.go, root.go, internal_transaction.go, peers/peer.go  (JSON shapes)
     net/net_transport.go    every RPC value goes through encoding/json (json.Encoder / json.Decoder)
     net/inmem_transport.go  pointer hand-over (identity)
     frame.go                Frame.Marshal: ugorji codec v1.1.7, JsonHandle{Canonical: true}

   Go values:
     []byte            option bytes        (None = nil slice, Some [] = empty non-nil slice)
     []T               option (list T)     (same distinction; encoding/json writes null vs [])
     *T                option T
     map[K]V           option (list (K * V)): the entries in INSERTION order; every function of the
                       model sorts by key before looking at them (encoding/json and the canonical
                       ugorji handle both write map entries sorted by key)
     string            gostr = list Z: the code points of the string as utf8.DecodeRuneInString
                       yields them; an INVALID UTF-8 byte b is the negative number -(b+1)
   JSON text is modelled by its abstract syntax tree [json]; base64 is kept abstract (JBytes).
   The SHA256 digests are modelled by their INPUT (the JSON value that is hashed): two objects
   have the same hash iff they have the same digest input (collision resistance is the stated
   assumption; Proofs/WireProofs.v quantifies over an arbitrary hash function). *)
From Coq Require Import ZArith List Bool String Ascii.
Import ListNotations.
Open Scope Z_scope.

Definition bytes := list Z.
Definition gostr := list Z.

(* ------------------------------------------------------------------------------------------ *)
(* strings *)

Definition UFFFD : Z := 65533.
(* The JSON writers (encoding/json and ugorji) write an invalid byte as the six characters \ufffd,
   whereas a valid U+FFFD is written as itself (three bytes): different TEXTS, hence different
   hashes, that decode to the same string.  In a JSON document the escape is the unit -1. *)
Definition ESC : Z := -1.
Definition escape_cp (c : Z) : Z := if c <? 0 then ESC else c.
Definition unescape_cp (c : Z) : Z := if c <? 0 then UFFFD else c.
Definition escape (s : gostr) : gostr := map escape_cp s.        (* string -> JSON text *)
Definition unescape (s : gostr) : gostr := map unescape_cp s.    (* JSON text -> string *)
(* a string after one trip through JSON *)
Definition sanitize (s : gostr) : gostr := unescape (escape s).
Definition valid_str (s : gostr) : bool := forallb (fun c => 0 <=? c) s.
Definition str_has_fffd (s : gostr) : bool := existsb (fun c => c =? UFFFD) s.

Fixpoint zlist_eqb (a b : list Z) : bool :=
  match a, b with
  | [], [] => true
  | x :: a', y :: b' => (x =? y) && zlist_eqb a' b'
  | _, _ => false
  end.

(* bytewise (= code point wise) lexicographic order: sort.Strings / ugorji canonical / encoding/json *)
Fixpoint lex_ltb (a b : list Z) : bool :=
  match a, b with
  | [], [] => false
  | [], _ :: _ => true
  | _ :: _, [] => false
  | x :: a', y :: b' => if x <? y then true else if y <? x then false else lex_ltb a' b'
  end.

Definition name (s : string) : gostr := map (fun a => Z.of_N (N_of_ascii a)) (list_ascii_of_string s).

(* ------------------------------------------------------------------------------------------ *)
(* sorting of map entries by key (insertion sort; keys of a Go map are distinct) *)

Section Sort.
  Context {K V : Type}.
  Variable ltb : K -> K -> bool.
  Fixpoint ins (kv : K * V) (l : list (K * V)) : list (K * V) :=
    match l with
    | [] => [kv]
    | x :: r => if ltb (fst x) (fst kv) then x :: ins kv r else kv :: l
    end.
  Definition isort (l : list (K * V)) : list (K * V) := fold_right ins [] l.
End Sort.

(* ------------------------------------------------------------------------------------------ *)
(* JSON abstract syntax *)

Inductive json : Type :=
| JNull
| JBool (b : bool)
| JNum (z : Z)
| JStr (s : gostr)
| JBytes (b : bytes)                      (* a base64 string *)
| JArr (l : list json)
| JObj (l : list (string * json))         (* a Go struct: static field names *)
| JMap (l : list (gostr * json))          (* a Go map with string keys *)
| JIMap (l : list (Z * json)).            (* a Go map with int keys *)

Fixpoint json_eqb (a b : json) {struct a} : bool :=
  match a, b with
  | JNull, JNull => true
  | JBool x, JBool y => Bool.eqb x y
  | JNum x, JNum y => x =? y
  | JStr x, JStr y => zlist_eqb x y
  | JBytes x, JBytes y => zlist_eqb x y
  | JArr x, JArr y =>
    (fix go (x y : list json) {struct x} : bool :=
       match x, y with
       | [], [] => true
       | p :: x', q :: y' => json_eqb p q && go x' y'
       | _, _ => false
       end) x y
  | JObj x, JObj y =>
    (fix go (x y : list (string * json)) {struct x} : bool :=
       match x, y with
       | [], [] => true
       | (k, p) :: x', (k', q) :: y' => String.eqb k k' && json_eqb p q && go x' y'
       | _, _ => false
       end) x y
  | JMap x, JMap y =>
    (fix go (x y : list (gostr * json)) {struct x} : bool :=
       match x, y with
       | [], [] => true
       | (k, p) :: x', (k', q) :: y' => zlist_eqb k k' && json_eqb p q && go x' y'
       | _, _ => false
       end) x y
  | JIMap x, JIMap y =>
    (fix go (x y : list (Z * json)) {struct x} : bool :=
       match x, y with
       | [], [] => true
       | (k, p) :: x', (k', q) :: y' => (k =? k') && json_eqb p q && go x' y'
       | _, _ => false
       end) x y
  | _, _ => false
  end.

(* does some string of the document contain the code point U+FFFD ? *)
Fixpoint jhas_fffd (j : json) : bool :=
  match j with
  | JStr s => str_has_fffd s
  | JArr l => existsb jhas_fffd l
  | JObj l => existsb (fun kv => jhas_fffd (snd kv)) l
  | JMap l => existsb (fun kv => str_has_fffd (fst kv) || jhas_fffd (snd kv)) l
  | JIMap l => existsb (fun kv => jhas_fffd (snd kv)) l
  | _ => false
  end.

(* ugorji canonical: struct fields are written sorted by name (map entries are already sorted
   by the typed encoders below) *)
Definition name_ltb (a b : string) : bool := lex_ltb (name a) (name b).
Fixpoint sort_structs (j : json) : json :=
  match j with
  | JArr l => JArr (map sort_structs l)
  | JObj l => JObj (isort name_ltb (map (fun kv => (fst kv, sort_structs (snd kv))) l))
  | JMap l => JMap (map (fun kv => (fst kv, sort_structs (snd kv))) l)
  | JIMap l => JIMap (map (fun kv => (fst kv, sort_structs (snd kv))) l)
  | _ => j
  end.

(* ------------------------------------------------------------------------------------------ *)
(* Go objects *)

(* Peer.id (a private cache of a function of PubKeyHex) is not modelled: no encoder reads it *)
Record peer := { p_addr : gostr; p_pub : gostr; p_moniker : gostr }.
Record itx := { it_type : Z; it_peer : peer; it_sig : gostr }.
Record receipt := { rc_itx : itx; rc_accepted : bool }.
Record bsig := { bs_validator : option bytes; bs_index : Z; bs_sig : gostr }.
Record wbsig := { wbs_index : Z; wbs_sig : gostr }.
Definition coordmap := option (list (gostr * (gostr * Z))).

Record ebody := {
  b_txs : option (list (option bytes));
  b_itxs : option (list itx);
  b_parents : option (list gostr);
  b_creator : option bytes;
  b_index : Z;
  b_bsigs : option (list bsig);
  b_ts : Z;
  (* "These fields are not serialized" *)
  b_cid : Z; b_opcid : Z; b_spi : Z; b_opi : Z }.

Record event := {
  e_body : ebody;
  e_sig : gostr;
  e_topo : Z;
  e_round : option Z; e_lamport : option Z; e_rr : option Z;
  e_last : coordmap; e_first : coordmap;
  e_hexc : option Z (* cached hash (Event.hash / Event.hex); None = not computed *) }.

Record wevent := {
  w_txs : option (list (option bytes));
  w_itxs : option (list itx);
  w_bsigs : option (list wbsig);
  w_cid : Z; w_opcid : Z; w_index : Z; w_spi : Z; w_opi : Z; w_ts : Z;
  w_sig : gostr }.

Record fevent := { fe_core : option event; fe_round : Z; fe_lamport : Z; fe_witness : bool }.
Record root := { r_events : option (list (option fevent)) }.
Record frame := {
  f_round : Z;
  f_peers : option (list (option peer));
  f_roots : option (list (gostr * option root));
  f_events : option (list (option fevent));
  f_psets : option (list (Z * option (list (option peer))));
  f_ts : Z }.

Record blockbody := {
  bb_index : Z; bb_rr : Z; bb_ts : Z;
  bb_state : option bytes; bb_frame : option bytes; bb_peers : option bytes;
  bb_txs : option (list (option bytes));
  bb_itxs : option (list itx);
  bb_receipts : option (list receipt) }.
Record block := { bl_body : blockbody; bl_sigs : option (list (gostr * gostr)) }.

(* ------------------------------------------------------------------------------------------ *)
(* typed encoders.  [sf] is what the writer does to a string: [escape] for the real writers,
   [raw] to look at the original strings.  Struct fields in declaration order. *)

Section Enc.
  Variable sf : gostr -> gostr.

  Definition j_str (s : gostr) : json := JStr (sf s).
  Definition j_bytes (b : option bytes) : json := match b with None => JNull | Some x => JBytes x end.
  Definition j_list {A} (f : A -> json) (l : option (list A)) : json :=
    match l with None => JNull | Some x => JArr (map f x) end.
  Definition j_ptr {A} (f : A -> json) (o : option A) : json :=
    match o with None => JNull | Some a => f a end.
  Definition j_smap {A} (f : A -> json) (m : option (list (gostr * A))) : json :=
    match m with
    | None => JNull
    | Some l => JMap (isort lex_ltb (map (fun kv => (sf (fst kv), f (snd kv))) l))
    end.
  Definition j_imap {A} (f : A -> json) (m : option (list (Z * A))) : json :=
    match m with
    | None => JNull
    | Some l => JIMap (isort Z.ltb (map (fun kv => (fst kv, f (snd kv))) l))
    end.

  Definition j_peer (p : peer) : json :=
    JObj [("NetAddr", j_str (p_addr p)); ("PubKeyHex", j_str (p_pub p)); ("Moniker", j_str (p_moniker p))]%string.
  Definition j_itxbody (t : itx) : json :=
    JObj [("Type", JNum (it_type t)); ("Peer", j_peer (it_peer t))]%string.
  Definition j_itx (t : itx) : json :=
    JObj [("Body", j_itxbody t); ("Signature", j_str (it_sig t))]%string.
  Definition j_receipt (r : receipt) : json :=
    JObj [("InternalTransaction", j_itx (rc_itx r)); ("Accepted", JBool (rc_accepted r))]%string.
  Definition j_bsig (b : bsig) : json :=
    JObj [("Validator", j_bytes (bs_validator b)); ("Index", JNum (bs_index b)); ("Signature", j_str (bs_sig b))]%string.
  Definition j_wbsig (b : wbsig) : json :=
    JObj [("Index", JNum (wbs_index b)); ("Signature", j_str (wbs_sig b))]%string.

  (* EventBody: the input of the event hash *)
  Definition j_body (b : ebody) : json :=
    JObj [("Transactions", j_list j_bytes (b_txs b));
          ("InternalTransactions", j_list j_itx (b_itxs b));
          ("Parents", j_list j_str (b_parents b));
          ("Creator", j_bytes (b_creator b));
          ("Index", JNum (b_index b));
          ("BlockSignatures", j_list j_bsig (b_bsigs b));
          ("Timestamp", JNum (b_ts b))]%string.
  Definition j_event (e : event) : json :=
    JObj [("Body", j_body (e_body e)); ("Signature", j_str (e_sig e))]%string.
  Definition j_coord (c : gostr * Z) : json :=
    JObj [("Hash", j_str (fst c)); ("Index", JNum (snd c))]%string.
  (* eventWrapper (MarshalDB) *)
  Definition j_wrapper (e : event) : json :=
    JObj [("Body", j_body (e_body e)); ("Signature", j_str (e_sig e));
          ("CreatorID", JNum (b_cid (e_body e))); ("OtherParentCreatorID", JNum (b_opcid (e_body e)));
          ("SelfParentIndex", JNum (b_spi (e_body e))); ("OtherParentIndex", JNum (b_opi (e_body e)));
          ("TopologicalIndex", JNum (e_topo e));
          ("LastAncestors", j_smap j_coord (e_last e));
          ("FirstDescendants", j_smap j_coord (e_first e))]%string.
  Definition j_wbody (w : wevent) : json :=
    JObj [("Transactions", j_list j_bytes (w_txs w));
          ("InternalTransactions", j_list j_itx (w_itxs w));
          ("BlockSignatures", j_list j_wbsig (w_bsigs w));
          ("CreatorID", JNum (w_cid w)); ("OtherParentCreatorID", JNum (w_opcid w));
          ("Index", JNum (w_index w)); ("SelfParentIndex", JNum (w_spi w));
          ("OtherParentIndex", JNum (w_opi w)); ("Timestamp", JNum (w_ts w))]%string.
  Definition j_wevent (w : wevent) : json :=
    JObj [("Body", j_wbody w); ("Signature", j_str (w_sig w))]%string.

  Definition j_fevent (fe : fevent) : json :=
    JObj [("Core", j_ptr j_event (fe_core fe)); ("Round", JNum (fe_round fe));
          ("LamportTimestamp", JNum (fe_lamport fe)); ("Witness", JBool (fe_witness fe))]%string.
  Definition j_root (r : root) : json :=
    JObj [("Events", j_list (j_ptr j_fevent) (r_events r))]%string.
  Definition j_peers (l : option (list (option peer))) : json := j_list (j_ptr j_peer) l.
  Definition j_frame (f : frame) : json :=
    JObj [("Round", JNum (f_round f));
          ("Peers", j_peers (f_peers f));
          ("Roots", j_smap (j_ptr j_root) (f_roots f));
          ("Events", j_list (j_ptr j_fevent) (f_events f));
          ("PeerSets", j_imap j_peers (f_psets f));
          ("Timestamp", JNum (f_ts f))]%string.

  (* BlockBody: the input of the hash that block signatures sign *)
  Definition j_blockbody (b : blockbody) : json :=
    JObj [("Index", JNum (bb_index b)); ("RoundReceived", JNum (bb_rr b)); ("Timestamp", JNum (bb_ts b));
          ("StateHash", j_bytes (bb_state b)); ("FrameHash", j_bytes (bb_frame b)); ("PeersHash", j_bytes (bb_peers b));
          ("Transactions", j_list j_bytes (bb_txs b));
          ("InternalTransactions", j_list j_itx (bb_itxs b));
          ("InternalTransactionReceipts", j_list j_receipt (bb_receipts b))]%string.
  Definition j_block (b : block) : json :=
    JObj [("Body", j_blockbody (bl_body b)); ("Signatures", j_smap j_str (bl_sigs b))]%string.
End Enc.

Definition raw (s : gostr) : gostr := s.

(* ------------------------------------------------------------------------------------------ *)
(* digest inputs *)

(* Event.Hash / Hex: SHA256 of encoding/json of the EventBody *)
Definition event_digest (e : event) : json := j_body escape (e_body e).
Definition itx_digest (t : itx) : json := j_itxbody escape t.
Definition blockbody_digest (b : block) : json := j_blockbody escape (bl_body b).
Definition block_digest (b : block) : json := j_block escape b.

(* ugorji v1.1.7 jsonEncDriver.quoteStr: on a VALID U+FFFD the loop `continue`s without advancing
   (json.go lines 427-436): the writer does not terminate.  None = no result. *)
Definition ug_write (doc_raw doc_escaped : json) : option json :=
  if jhas_fffd doc_raw then None else Some (sort_structs doc_escaped).
Definition frame_digest (f : frame) : option json := ug_write (j_frame raw f) (j_frame escape f).

(* ------------------------------------------------------------------------------------------ *)
(* typed decoders (encoding/json into a fresh value: null leaves the zero value; a missing field
   leaves the zero value; a value of the wrong kind is an error) *)

Definition fld (n : string) (o : list (string * json)) : json :=
  match find (fun kv => String.eqb (fst kv) n) o with Some kv => snd kv | None => JNull end.

Definition d_str (j : json) : option gostr :=
  match j with JStr s => Some (unescape s) | JNull => Some [] | _ => None end.
Definition d_num (j : json) : option Z :=
  match j with JNum z => Some z | JNull => Some 0 | _ => None end.
Definition d_bool (j : json) : option bool :=
  match j with JBool b => Some b | JNull => Some false | _ => None end.
Definition d_bytes (j : json) : option (option bytes) :=
  match j with JNull => Some None | JBytes b => Some (Some b) | _ => None end.

Fixpoint traverse {A} (d : json -> option A) (l : list json) : option (list A) :=
  match l with
  | [] => Some []
  | j :: r => match d j, traverse d r with Some a, Some t => Some (a :: t) | _, _ => None end
  end.
Definition d_list {A} (d : json -> option A) (j : json) : option (option (list A)) :=
  match j with
  | JNull => Some None
  | JArr l => match traverse d l with Some x => Some (Some x) | None => None end
  | _ => None
  end.
Definition d_ptr {A} (d : json -> option A) (j : json) : option (option A) :=
  match j with
  | JNull => Some None
  | _ => match d j with Some a => Some (Some a) | None => None end
  end.
Fixpoint traverse_kv {K A} (d : json -> option A) (l : list (K * json)) : option (list (K * A)) :=
  match l with
  | [] => Some []
  | (k, j) :: r => match d j, traverse_kv d r with Some a, Some t => Some ((k, a) :: t) | _, _ => None end
  end.
Definition d_smap {A} (d : json -> option A) (j : json) : option (option (list (gostr * A))) :=
  match j with
  | JNull => Some None
  | JMap l => match traverse_kv d l with
              | Some x => Some (Some (map (fun kv => (unescape (fst kv), snd kv)) x))
              | None => None
              end
  | _ => None
  end.
Definition d_imap {A} (d : json -> option A) (j : json) : option (option (list (Z * A))) :=
  match j with
  | JNull => Some None
  | JIMap l => match traverse_kv d l with Some x => Some (Some x) | None => None end
  | _ => None
  end.

Definition zero_peer : peer := {| p_addr := []; p_pub := []; p_moniker := [] |}.
Definition d_peer (j : json) : option peer :=
  match j with
  | JNull => Some zero_peer
  | JObj o =>
    match d_str (fld "NetAddr" o), d_str (fld "PubKeyHex" o), d_str (fld "Moniker" o) with
    | Some a, Some k, Some m => Some {| p_addr := a; p_pub := k; p_moniker := m |}
    | _, _, _ => None
    end
  | _ => None
  end.

Definition zero_itx : itx := {| it_type := 0; it_peer := zero_peer; it_sig := [] |}.
Definition d_itx (j : json) : option itx :=
  match j with
  | JNull => Some zero_itx
  | JObj o =>
    match fld "Body" o, d_str (fld "Signature" o) with
    | JNull, Some s => Some {| it_type := 0; it_peer := zero_peer; it_sig := s |}
    | JObj b, Some s =>
      match d_num (fld "Type" b), d_peer (fld "Peer" b) with
      | Some t, Some p => Some {| it_type := t; it_peer := p; it_sig := s |}
      | _, _ => None
      end
    | _, _ => None
    end
  | _ => None
  end.

Definition d_receipt (j : json) : option receipt :=
  match j with
  | JNull => Some {| rc_itx := zero_itx; rc_accepted := false |}
  | JObj o =>
    match d_itx (fld "InternalTransaction" o), d_bool (fld "Accepted" o) with
    | Some t, Some a => Some {| rc_itx := t; rc_accepted := a |}
    | _, _ => None
    end
  | _ => None
  end.

Definition d_bsig (j : json) : option bsig :=
  match j with
  | JNull => Some {| bs_validator := None; bs_index := 0; bs_sig := [] |}
  | JObj o =>
    match d_bytes (fld "Validator" o), d_num (fld "Index" o), d_str (fld "Signature" o) with
    | Some v, Some i, Some s => Some {| bs_validator := v; bs_index := i; bs_sig := s |}
    | _, _, _ => None
    end
  | _ => None
  end.

Definition d_wbsig (j : json) : option wbsig :=
  match j with
  | JNull => Some {| wbs_index := 0; wbs_sig := [] |}
  | JObj o =>
    match d_num (fld "Index" o), d_str (fld "Signature" o) with
    | Some i, Some s => Some {| wbs_index := i; wbs_sig := s |}
    | _, _ => None
    end
  | _ => None
  end.

Definition zero_body : ebody :=
  {| b_txs := None; b_itxs := None; b_parents := None; b_creator := None; b_index := 0; b_bsigs := None;
     b_ts := 0; b_cid := 0; b_opcid := 0; b_spi := 0; b_opi := 0 |}.
Definition d_body (j : json) : option ebody :=
  match j with
  | JNull => Some zero_body
  | JObj o =>
    match d_list d_bytes (fld "Transactions" o), d_list d_itx (fld "InternalTransactions" o),
          d_list d_str (fld "Parents" o), d_bytes (fld "Creator" o), d_num (fld "Index" o),
          d_list d_bsig (fld "BlockSignatures" o), d_num (fld "Timestamp" o) with
    | Some txs, Some itxs, Some ps, Some c, Some i, Some bs, Some ts =>
      Some {| b_txs := txs; b_itxs := itxs; b_parents := ps; b_creator := c; b_index := i; b_bsigs := bs;
              b_ts := ts; b_cid := 0; b_opcid := 0; b_spi := 0; b_opi := 0 |}
    | _, _, _, _, _, _, _ => None
    end
  | _ => None
  end.

Definition mk_event (b : ebody) (s : gostr) : event :=
  {| e_body := b; e_sig := s; e_topo := 0; e_round := None; e_lamport := None; e_rr := None;
     e_last := None; e_first := None; e_hexc := None |}.
Definition d_event (j : json) : option event :=
  match j with
  | JNull => Some (mk_event zero_body [])
  | JObj o =>
    match d_body (fld "Body" o), d_str (fld "Signature" o) with
    | Some b, Some s => Some (mk_event b s)
    | _, _ => None
    end
  | _ => None
  end.

Definition d_coord (j : json) : option (gostr * Z) :=
  match j with
  | JNull => Some ([], 0)
  | JObj o =>
    match d_str (fld "Hash" o), d_num (fld "Index" o) with
    | Some h, Some i => Some (h, i)
    | _, _ => None
    end
  | _ => None
  end.

Definition with_wire (b : ebody) (cid opcid spi opi : Z) : ebody :=
  {| b_txs := b_txs b; b_itxs := b_itxs b; b_parents := b_parents b; b_creator := b_creator b;
     b_index := b_index b; b_bsigs := b_bsigs b; b_ts := b_ts b;
     b_cid := cid; b_opcid := opcid; b_spi := spi; b_opi := opi |}.

(* UnmarshalDB: round, lamportTimestamp, roundReceived and the caches are NOT in the wrapper *)
Definition d_wrapper (j : json) : option event :=
  match j with
  | JObj o =>
    match d_body (fld "Body" o), d_str (fld "Signature" o),
          d_num (fld "CreatorID" o), d_num (fld "OtherParentCreatorID" o),
          d_num (fld "SelfParentIndex" o), d_num (fld "OtherParentIndex" o),
          d_num (fld "TopologicalIndex" o),
          d_smap d_coord (fld "LastAncestors" o), d_smap d_coord (fld "FirstDescendants" o) with
    | Some b, Some s, Some cid, Some opcid, Some spi, Some opi, Some topo, Some la, Some fd =>
      Some {| e_body := with_wire b cid opcid spi opi; e_sig := s; e_topo := topo;
              e_round := None; e_lamport := None; e_rr := None;
              e_last := la; e_first := fd; e_hexc := None |}
    | _, _, _, _, _, _, _, _, _ => None
    end
  | _ => None
  end.

Definition d_wevent (j : json) : option wevent :=
  match j with
  | JObj o =>
    match fld "Body" o, d_str (fld "Signature" o) with
    | JObj b, Some s =>
      match d_list d_bytes (fld "Transactions" b), d_list d_itx (fld "InternalTransactions" b),
            d_list d_wbsig (fld "BlockSignatures" b),
            d_num (fld "CreatorID" b), d_num (fld "OtherParentCreatorID" b), d_num (fld "Index" b),
            d_num (fld "SelfParentIndex" b), d_num (fld "OtherParentIndex" b), d_num (fld "Timestamp" b) with
      | Some txs, Some itxs, Some bs, Some cid, Some opcid, Some i, Some spi, Some opi, Some ts =>
        Some {| w_txs := txs; w_itxs := itxs; w_bsigs := bs; w_cid := cid; w_opcid := opcid; w_index := i;
                w_spi := spi; w_opi := opi; w_ts := ts; w_sig := s |}
      | _, _, _, _, _, _, _, _, _ => None
      end
    | _, _ => None
    end
  | _ => None
  end.

Definition d_fevent (j : json) : option fevent :=
  match j with
  | JObj o =>
    match d_ptr d_event (fld "Core" o), d_num (fld "Round" o), d_num (fld "LamportTimestamp" o),
          d_bool (fld "Witness" o) with
    | Some c, Some r, Some l, Some w => Some {| fe_core := c; fe_round := r; fe_lamport := l; fe_witness := w |}
    | _, _, _, _ => None
    end
  | _ => None
  end.

Definition zero_root : root := {| r_events := None |}.
Definition d_root (j : json) : option root :=
  match j with
  | JNull => Some zero_root
  | JObj o =>
    match d_list (d_ptr d_fevent) (fld "Events" o) with
    | Some l => Some {| r_events := l |}
    | None => None
    end
  | _ => None
  end.
(* a map value of pointer type: encoding/json keeps null as a nil pointer; ugorji v1.1.7 allocates
   the zero value ([ug] = true) *)
Definition d_rootptr (ug : bool) (j : json) : option (option root) :=
  match j with
  | JNull => if ug then Some (Some zero_root) else Some None
  | _ => match d_root j with Some r => Some (Some r) | None => None end
  end.
Definition d_peers (j : json) : option (option (list (option peer))) := d_list (d_ptr d_peer) j.

Definition d_frame (ug : bool) (j : json) : option frame :=
  match j with
  | JObj o =>
    match d_num (fld "Round" o), d_peers (fld "Peers" o), d_smap (d_rootptr ug) (fld "Roots" o),
          d_list (d_ptr d_fevent) (fld "Events" o), d_imap d_peers (fld "PeerSets" o),
          d_num (fld "Timestamp" o) with
    | Some r, Some ps, Some rs, Some es, Some pss, Some ts =>
      Some {| f_round := r; f_peers := ps; f_roots := rs; f_events := es; f_psets := pss; f_ts := ts |}
    | _, _, _, _, _, _ => None
    end
  | _ => None
  end.

Definition d_blockbody (j : json) : option blockbody :=
  match j with
  | JObj o =>
    match d_num (fld "Index" o), d_num (fld "RoundReceived" o), d_num (fld "Timestamp" o),
          d_bytes (fld "StateHash" o), d_bytes (fld "FrameHash" o), d_bytes (fld "PeersHash" o),
          d_list d_bytes (fld "Transactions" o), d_list d_itx (fld "InternalTransactions" o),
          d_list d_receipt (fld "InternalTransactionReceipts" o) with
    | Some i, Some rr, Some ts, Some sh, Some fh, Some ph, Some txs, Some itxs, Some rcs =>
      Some {| bb_index := i; bb_rr := rr; bb_ts := ts; bb_state := sh; bb_frame := fh; bb_peers := ph;
              bb_txs := txs; bb_itxs := itxs; bb_receipts := rcs |}
    | _, _, _, _, _, _, _, _, _ => None
    end
  | _ => None
  end.
Definition d_block (j : json) : option block :=
  match j with
  | JObj o =>
    match d_blockbody (fld "Body" o), d_smap d_str (fld "Signatures" o) with
    | Some b, Some s => Some {| bl_body := b; bl_sigs := s |}
    | _, _ => None
    end
  | _ => None
  end.

(* ------------------------------------------------------------------------------------------ *)
(* the conversions *)

(* Event.WireBlockSignatures / Event.ToWire *)
Definition wire_bsigs (l : option (list bsig)) : option (list wbsig) :=
  match l with
  | None => None
  | Some x => Some (map (fun b => {| wbs_index := bs_index b; wbs_sig := bs_sig b |}) x)
  end.
Definition to_wire (e : event) : wevent :=
  let b := e_body e in
  {| w_txs := b_txs b; w_itxs := b_itxs b; w_bsigs := wire_bsigs (b_bsigs b);
     w_cid := b_cid b; w_opcid := b_opcid b; w_index := b_index b; w_spi := b_spi b; w_opi := b_opi b;
     w_ts := b_ts b; w_sig := e_sig e |}.
(* WireEvent.BlockSignatures(validator) *)
Definition unwire_bsigs (validator : bytes) (l : option (list wbsig)) : option (list bsig) :=
  match l with
  | None => None
  | Some x => Some (map (fun w => {| bs_validator := Some validator; bs_index := wbs_index w; bs_sig := wbs_sig w |}) x)
  end.

(* what the conversions ask of a Store *)
Record wstore := {
  ws_rep : list (Z * bytes);           (* RepertoireByID: peer id -> public key bytes *)
  ws_pe : list ((Z * Z) * gostr);      (* ParticipantEvent (peer id, index) -> event hash *)
  ws_ev : list (gostr * (bytes * Z))   (* GetEvent hash -> (creator bytes, index) *) }.

Fixpoint zfind {A} (k : Z) (l : list (Z * A)) : option A :=
  match l with
  | [] => None
  | (k', v) :: r => if k' =? k then Some v else zfind k r
  end.
Fixpoint pe_find (id idx : Z) (l : list ((Z * Z) * gostr)) : option gostr :=
  match l with
  | [] => None
  | ((i, x), h) :: r => if (i =? id) && (x =? idx) then Some h else pe_find id idx r
  end.
Fixpoint ev_find (h : gostr) (l : list (gostr * (bytes * Z))) : option (bytes * Z) :=
  match l with
  | [] => None
  | (h', v) :: r => if zlist_eqb h' h then Some v else ev_find h r
  end.
(* RepertoireByPubKey[hex(creator)] *)
Fixpoint id_of_key (k : bytes) (l : list (Z * bytes)) : option Z :=
  match l with
  | [] => None
  | (i, k') :: r => if zlist_eqb k' k then Some i else id_of_key k r
  end.

Inductive werr := ECreator | ESelfParent | EOpCreator | EOtherParent | ENoParents.

Definition key_bytes (c : option bytes) : bytes := match c with Some k => k | None => [] end.

(* Hashgraph.SetWireInfo (ENoParents: Parents shorter than 2 - the Go code panics) *)
Definition self_parent_index (st : wstore) (sp : gostr) : option Z :=
  if zlist_eqb sp [] then Some (-1)
  else match ev_find sp (ws_ev st) with Some (_, i) => Some i | None => None end.
Definition other_parent_info (st : wstore) (op : gostr) : option (werr + (Z * Z)) :=
  if zlist_eqb op [] then Some (inr (0, -1))
  else match ev_find op (ws_ev st) with
       | Some (k, i) => match id_of_key k (ws_rep st) with
                        | Some oid => Some (inr (oid, i))
                        | None => Some (inl EOpCreator)
                        end
       | None => None
       end.
Definition set_wire_info (st : wstore) (e : event) : werr + event :=
  let b := e_body e in
  match b_parents b with
  | Some (sp :: op :: _) =>
    match id_of_key (key_bytes (b_creator b)) (ws_rep st) with
    | None => inl ECreator
    | Some cid =>
      match self_parent_index st sp with
      | None => inl ESelfParent
      | Some spi =>
        match other_parent_info st op with
        | None => inl EOtherParent
        | Some (inl err) => inl err
        | Some (inr (opcid, opi)) =>
          inr {| e_body := with_wire b cid opcid spi opi; e_sig := e_sig e; e_topo := e_topo e;
                 e_round := e_round e; e_lamport := e_lamport e; e_rr := e_rr e;
                 e_last := e_last e; e_first := e_first e; e_hexc := e_hexc e |}
        end
      end
    end
  | _ => inl ENoParents
  end.

(* Hashgraph.ReadWireInfo *)
Definition read_self_parent (st : wstore) (cid spi : Z) : option gostr :=
  if 0 <=? spi then pe_find cid spi (ws_pe st) else Some [].
Definition read_other_parent (st : wstore) (opcid opi : Z) : option (werr + gostr) :=
  if 0 <=? opi
  then match zfind opcid (ws_rep st) with
       | None => Some (inl EOpCreator)
       | Some _ => match pe_find opcid opi (ws_pe st) with
                   | Some h => Some (inr h)
                   | None => None
                   end
       end
  else Some (inr []).
Definition read_wire (st : wstore) (w : wevent) : werr + event :=
  match zfind (w_cid w) (ws_rep st) with
  | None => inl ECreator
  | Some cb =>
    match read_self_parent st (w_cid w) (w_spi w) with
    | None => inl ESelfParent
    | Some sp =>
      match read_other_parent st (w_opcid w) (w_opi w) with
      | None => inl EOtherParent
      | Some (inl err) => inl err
      | Some (inr op) =>
        inr (mk_event
               {| b_txs := w_txs w; b_itxs := w_itxs w; b_parents := Some [sp; op]; b_creator := Some cb;
                  b_index := w_index w; b_bsigs := unwire_bsigs cb (w_bsigs w); b_ts := w_ts w;
                  b_cid := w_cid w; b_opcid := w_opcid w; b_spi := w_spi w; b_opi := w_opi w |}
               (w_sig w))
      end
    end
  end.

(* transports *)
Definition json_rt_wevent (w : wevent) : option wevent := d_wevent (j_wevent escape w).
Definition json_rt_itx (t : itx) : option itx := d_itx (j_itx escape t).
Definition json_rt_block (b : block) : option block := d_block (j_block escape b).
Definition json_rt_frame (f : frame) : option frame := d_frame false (j_frame escape f).
(* MarshalDB / UnmarshalDB *)
Definition db_rt (e : event) : option event := d_wrapper (j_wrapper escape e).
(* Frame.Marshal / Frame.Unmarshal (ugorji): None = the writer does not terminate *)
Definition ug_rt_frame (f : frame) : option (option frame) :=
  match ug_write (j_frame raw f) (j_frame escape f) with
  | None => None
  | Some _ => Some (d_frame true (j_frame escape f))
  end.

(* wire round trip over a path: [js] = the wire event goes through encoding/json *)
Definition wire_rt (js : bool) (st : wstore) (e : event) : option (werr + event) :=
  if js then match json_rt_wevent (to_wire e) with
             | Some w => Some (read_wire st w)
             | None => None
             end
  else Some (read_wire st (to_wire e)).

(* what an observer that lists map entries by sorted key sees (result printing) *)
Definition view_coords (m : coordmap) : coordmap :=
  match m with None => None | Some l => Some (isort lex_ltb l) end.
Definition view_frame (f : frame) : frame :=
  {| f_round := f_round f; f_peers := f_peers f;
     f_roots := match f_roots f with None => None | Some l => Some (isort lex_ltb l) end;
     f_events := f_events f;
     f_psets := match f_psets f with None => None | Some l => Some (isort Z.ltb l) end;
     f_ts := f_ts f |}.
Definition view_block (b : block) : block :=
  {| bl_body := bl_body b;
     bl_sigs := match bl_sigs b with None => None | Some l => Some (isort lex_ltb l) end |}.

(* predictions that are compared with the implementation *)
Definition same_event_hash (a b : event) : bool := json_eqb (event_digest a) (event_digest b).
(* Event.Verify after the conversion, for an event that verified before: same signed hash (which
   covers the creator's key and the internal transactions) and same signature string *)
Definition verify_preserved (a b : event) : bool := same_event_hash a b && zlist_eqb (e_sig a) (e_sig b).
Definition same_itx_hash (a b : itx) : bool := json_eqb (itx_digest a) (itx_digest b).
Definition same_body_hash (a b : block) : bool := json_eqb (blockbody_digest a) (blockbody_digest b).
Definition same_block_hash (a b : block) : bool := json_eqb (block_digest a) (block_digest b).
Definition same_frame_hash (a b : frame) : option bool :=
  match frame_digest a, frame_digest b with
  | Some x, Some y => Some (json_eqb x y)
  | _, _ => None
  end.

(* ------------------------------------------------------------------------------------------ *)
(* Events received in a Frame: Hashgraph.InsertFrameEvent (as of fix 5bf08c3 in /repo).

   Hashgraph.Reset inserts the frame events in consensus order (SortedFrameEvents: Lamport
   timestamp, ties by signature).  For each one InsertFrameEvent
     - sets round and lamportTimestamp from the FrameEvent,
     - assigns topologicalIndex from the running counter (then increments it),
     - setFrameEventWireInfo: creatorID from the repertoire (nothing is set when the creator is
       unknown - Store.SetEvent then fails with "Unknown Participant" and Reset stops);
       selfParentIndex = Index - 1 when there is a self-parent (-1 otherwise), WITHOUT a store
       lookup; otherParentCreatorID / otherParentIndex from Store.GetEvent(other-parent), and
       (0, -1) - "no other-parent" - when it is not in the store; all three stay (-1, 0, -1)
       when Parents does not have exactly two entries,
     - Store.SetEvent: the event is then found by hash and at (creator, index).
   The event's hash is DATA (supplied with the event).  lastAncestors / firstDescendants
   (initEventCoordinates) are not modelled here. *)

Definition frame_other_parent (st : wstore) (op : gostr) : Z * Z :=
  if zlist_eqb op [] then (0, -1)
  else match ev_find op (ws_ev st) with
       | Some (k, i) => match id_of_key k (ws_rep st) with
                        | Some oid => (oid, i)
                        | None => (0, -1)
                        end
       | None => (0, -1)
       end.

(* could the other-parent be described in wire form ? (false: the counted residual) *)
Definition frame_other_parent_named (st : wstore) (op : gostr) : bool :=
  if zlist_eqb op [] then true
  else match ev_find op (ws_ev st) with
       | Some (k, _) => match id_of_key k (ws_rep st) with Some _ => true | None => false end
       | None => false
       end.

Definition set_private (e : event) (b : ebody) (topo : Z) (r l : option Z) : event :=
  {| e_body := b; e_sig := e_sig e; e_topo := topo; e_round := r; e_lamport := l; e_rr := e_rr e;
     e_last := e_last e; e_first := e_first e; e_hexc := e_hexc e |}.

Definition frame_event_wire_info (st : wstore) (cid : Z) (e : event) : ebody :=
  let b := e_body e in
  match b_parents b with
  | Some [sp; op] =>
    let spi := if zlist_eqb sp [] then -1 else b_index b - 1 in
    let o := frame_other_parent st op in
    with_wire b cid (fst o) spi (snd o)
  | _ => with_wire b cid 0 (-1) (-1)
  end.

Definition store_add (st : wstore) (h : gostr) (cid : Z) (e : event) : wstore :=
  {| ws_rep := ws_rep st;
     ws_pe := ((cid, b_index (e_body e)), h) :: ws_pe st;
     ws_ev := (h, (key_bytes (b_creator (e_body e)), b_index (e_body e))) :: ws_ev st |}.

(* one InsertFrameEvent: None = "Unknown Participant" *)
Definition insert_frame_event (st : wstore) (n : Z) (h : gostr) (fe : fevent) (e : event)
  : option (wstore * Z * event) :=
  match id_of_key (key_bytes (b_creator (e_body e))) (ws_rep st) with
  | None => None
  | Some cid =>
    let e1 := set_private e (frame_event_wire_info st cid e) n (Some (fe_round fe)) (Some (fe_lamport fe)) in
    Some (store_add st h cid e1, n + 1, e1)
  end.

(* the frame events in insertion order: (hash, (frame event, its core)); the result lists every
   inserted event with the flag "its other-parent could be named" (false: the residual) *)
Definition other_parent_of (e : event) : gostr :=
  match b_parents (e_body e) with Some [_; op] => op | _ => [] end.
Fixpoint insert_frame_events (st : wstore) (n : Z) (l : list (gostr * (fevent * event)))
  : option (wstore * Z * list (event * bool)) :=
  match l with
  | [] => Some (st, n, [])
  | (h, (fe, e)) :: r =>
    match insert_frame_event st n h fe e with
    | None => None
    | Some (st1, n1, e1) =>
      match insert_frame_events st1 n1 r with
      | None => None
      | Some (st2, n2, out) => Some (st2, n2, (e1, frame_other_parent_named st (other_parent_of e)) :: out)
      end
    end
  end.

(* InsertFrameEvent BEFORE fix 5bf08c3 (kept for the regression witness): no private field of
   the body is touched and the topological counter is not used *)
Definition insert_frame_event_prefix (st : wstore) (n : Z) (h : gostr) (fe : fevent) (e : event)
  : option (wstore * Z * event) :=
  match id_of_key (key_bytes (b_creator (e_body e))) (ws_rep st) with
  | None => None
  | Some cid =>
    let e1 := set_private e (e_body e) (e_topo e) (Some (fe_round fe)) (Some (fe_lamport fe)) in
    Some (store_add st h cid e1, n, e1)
  end.

(* ------------------------------------------------------------------------------------------ *)
(* Text validation (the guard against the codec's non-termination; /repo bc8842f):
     common.EncodableString(s) = utf8.ValidString(s) && !strings.ContainsRune(s, U+FFFD)
     keys.DecodeSignature: exactly two "|"-separated base-36 integers (big.Int.SetString(v, 36):
       optional sign, at least one digit, digits 0-9 a-z A-Z)
     InternalTransaction.Verify: the three strings of the peer are encodable, the signature decodes
     Event.Verify: every internal transaction verifies, every block signature decodes and is
       encodable, the event signature decodes
     Frame.ValidateText (core.checkFastForward, before frame.Hash()): every string of the frame is
       encodable (peers, root keys, and per event: signature, parents, block signature strings,
       internal transaction signature and peer)
   The cryptographic part of Verify is not modelled (data of the harness). *)

Definition encodable (s : gostr) : bool := valid_str s && negb (str_has_fffd s).

Definition b36_digit (c : Z) : bool :=
  ((48 <=? c) && (c <=? 57)) || ((65 <=? c) && (c <=? 90)) || ((97 <=? c) && (c <=? 122)).
Definition nonempty_digits (s : gostr) : bool :=
  match s with [] => false | _ => forallb b36_digit s end.
Definition b36_int (s : gostr) : bool :=
  match s with
  | [] => false
  | c :: r => if (c =? 43) || (c =? 45) then nonempty_digits r else nonempty_digits s
  end.
(* strings.Split(s, "|") *)
Fixpoint split_bar (s : gostr) : list gostr :=
  match s with
  | [] => [[]]
  | c :: r => if c =? 124 then [] :: split_bar r
              else match split_bar r with
                   | x :: t => (c :: x) :: t
                   | [] => [[c]]
                   end
  end.
Definition sig_decodes (s : gostr) : bool :=
  match split_bar s with
  | [a; b] => b36_int a && b36_int b
  | _ => false
  end.

Definition opt_forall {A} (f : A -> bool) (o : option A) : bool :=
  match o with None => true | Some a => f a end.
Definition list_forall {A} (f : A -> bool) (l : option (list A)) : bool :=
  match l with None => true | Some x => forallb f x end.

Definition peer_text_ok (p : peer) : bool :=
  encodable (p_pub p) && encodable (p_addr p) && encodable (p_moniker p).

(* the text part of InternalTransaction.Verify and of Event.Verify *)
Definition itx_text_ok (t : itx) : bool := peer_text_ok (it_peer t) && sig_decodes (it_sig t).
Definition event_text_ok (e : event) : bool :=
  list_forall itx_text_ok (b_itxs (e_body e)) &&
  list_forall (fun b => sig_decodes (bs_sig b) && encodable (bs_sig b)) (b_bsigs (e_body e)) &&
  sig_decodes (e_sig e).
(* the parents of an admitted event are "" or hashes of stored events (checkSelfParent /
   checkOtherParent); stored hashes are "0X" + upper-case hex *)
Definition parents_text_ok (e : event) : bool := list_forall encodable (b_parents (e_body e)).

(* Frame.ValidateText *)
Definition itx_frame_text_ok (t : itx) : bool := encodable (it_sig t) && peer_text_ok (it_peer t).
Definition event_frame_text_ok (e : event) : bool :=
  encodable (e_sig e) && list_forall encodable (b_parents (e_body e)) &&
  list_forall (fun b => encodable (bs_sig b)) (b_bsigs (e_body e)) &&
  list_forall itx_frame_text_ok (b_itxs (e_body e)).
Definition fevent_text_ok (fe : fevent) : bool := opt_forall event_frame_text_ok (fe_core fe).
Definition fevents_text_ok (l : option (list (option fevent))) : bool :=
  list_forall (opt_forall fevent_text_ok) l.
Definition peers_text_ok (l : option (list (option peer))) : bool :=
  list_forall (opt_forall peer_text_ok) l.
Definition frame_text_ok (f : frame) : bool :=
  peers_text_ok (f_peers f) &&
  list_forall (fun kv : Z * option (list (option peer)) => peers_text_ok (snd kv)) (f_psets f) &&
  list_forall (fun kv : gostr * option root =>
                 encodable (fst kv) && opt_forall (fun r => fevents_text_ok (r_events r)) (snd kv)) (f_roots f) &&
  fevents_text_ok (f_events f).
