(* C15: concrete witnesses (refutation witnesses and the instances used by the Examples of
   Properties/C15.v).  Definitions only. *)
From Coq Require Import ZArith List Bool String.
From V Require Import Model.Wire.
Import ListNotations.
Open Scope Z_scope.

(* a frame whose only peer has the (valid UTF-8) moniker U+FFFD *)
Definition peerA : peer := {| p_addr := name "a:1"; p_pub := name "0X04AA"; p_moniker := [UFFFD] |}.
Definition frame_fffd : frame :=
  {| f_round := 1; f_peers := Some [Some peerA]; f_roots := None; f_events := None; f_psets := None; f_ts := 0 |}.

(* an internal transaction whose moniker contains the invalid byte 0xFF *)
Definition itx_bad : itx :=
  {| it_type := 0; it_peer := {| p_addr := name "a:1"; p_pub := name "0X04AA"; p_moniker := [98; -256; 100] |};
     it_sig := name "sig" |}.

(* a store with two peers and their first events *)
Definition kA : bytes := [4; 1; 2].
Definition kB : bytes := [4; 9; 9].
Definition hA0 : gostr := name "0XA0".
Definition hB0 : gostr := name "0XB0".
Definition st0 : wstore :=
  {| ws_rep := [(11, kA); (22, kB)];
     ws_pe := [((11, 0), hA0); ((22, 0), hB0)];
     ws_ev := [(hA0, (kA, 0)); (hB0, (kB, 0))] |}.

Definition body1 (bs : option (list bsig)) : ebody :=
  {| b_txs := Some [None; Some []; Some [0; 255]]; b_itxs := Some []; b_parents := Some [hA0; hB0];
     b_creator := Some kA; b_index := 1; b_bsigs := bs; b_ts := -5;
     b_cid := 0; b_opcid := 0; b_spi := 0; b_opi := 0 |}.
Definition ev1 (bs : option (list bsig)) : event :=
  {| e_body := body1 bs; e_sig := name "r|s"; e_topo := 7; e_round := Some 3; e_lamport := Some 4; e_rr := None;
     e_last := Some [(name "0XB", (hB0, 0)); (name "0XA", (hA0, 0))]; e_first := Some []; e_hexc := None |}.
Definition own_sigs : option (list bsig) :=
  Some [{| bs_validator := Some kA; bs_index := 0; bs_sig := name "x|y" |}].
Definition foreign_sigs : option (list bsig) :=
  Some [{| bs_validator := Some kB; bs_index := 0; bs_sig := name "x|y" |}].

Definition or_else (r : werr + event) (d : event) : event := match r with inr x => x | inl _ => d end.
Definition ev1w : event := or_else (set_wire_info st0 (ev1 own_sigs)) (ev1 None).
Definition ev1f : event := or_else (set_wire_info st0 (ev1 foreign_sigs)) (ev1 None).
Definition frame1 : frame :=
  {| f_round := 2; f_peers := Some []; f_roots := Some [];
     f_events := Some [Some {| fe_core := Some ev1w; fe_round := 0; fe_lamport := 0; fe_witness := false |}];
     f_psets := None; f_ts := 9 |}.

Definition rootX : option root := Some {| r_events := Some [] |}.
Definition rootY : option root := Some {| r_events := None |}.
Definition frame2 (rs : list (gostr * option root)) (pss : list (Z * option (list (option peer)))) : frame :=
  {| f_round := 2; f_peers := Some [Some {| p_addr := name "a"; p_pub := name "0X04"; p_moniker := name "<m>" |}];
     f_roots := Some rs; f_events := Some []; f_psets := Some pss; f_ts := 9 |}.

(* ---- a frame received over TCP by a node D that only has the repertoire (Hashgraph.Reset) ---- *)
Definition ds0 : wstore := {| ws_rep := ws_rep st0; ws_pe := []; ws_ev := [] |}.
Definition evB0 : event :=
  {| e_body := {| b_txs := None; b_itxs := None; b_parents := Some [[]; []]; b_creator := Some kB; b_index := 0;
                  b_bsigs := None; b_ts := 3; b_cid := 22; b_opcid := 0; b_spi := -1; b_opi := -1 |};
     e_sig := name "p|q"; e_topo := 1; e_round := Some 0; e_lamport := Some 0; e_rr := None;
     e_last := None; e_first := None; e_hexc := None |}.
Definition hA1 : gostr := name "0XA1".
Definition fe0 : fevent := {| fe_core := None; fe_round := 1; fe_lamport := 2; fe_witness := true |}.
(* what arrives: the public part only (C15_json_roundtrip_frame_events) *)
Definition arrived (e : event) : event := mk_event (with_wire (e_body e) 0 0 0 0) (e_sig e).
(* frame order: B's first event, then A's second event whose other-parent it is *)
Definition frame_list2 : list (gostr * (fevent * event)) :=
  [(hB0, (fe0, arrived evB0)); (hA1, (fe0, arrived ev1w))].
(* the same event alone: its other-parent is below the frame (the residual) *)
Definition frame_list1 : list (gostr * (fevent * event)) := [(hA1, (fe0, arrived ev1w))].
Definition third (r : option (wstore * Z * event)) (d : event) : event :=
  match r with Some (_, _, e) => e | None => d end.
