(* Finite maps keyed by non-negative Z, on top of the standard library's PositiveMap. *)
From Coq Require Import ZArith List FMapPositive.
Import ListNotations.
Open Scope Z_scope.

Definition zmap (A : Type) := PositiveMap.t A.
Definition zkey (k : Z) : positive := Z.to_pos (k + 1).
Definition zempty {A} : zmap A := PositiveMap.empty A.
Definition zget {A} (k : Z) (m : zmap A) : option A :=
  if k <? 0 then None else PositiveMap.find (zkey k) m.
Definition zset {A} (k : Z) (v : A) (m : zmap A) : zmap A :=
  if k <? 0 then m else PositiveMap.add (zkey k) v m.
Definition zmem {A} (k : Z) (m : zmap A) : bool :=
  match zget k m with Some _ => true | None => false end.
(* elements in increasing key order *)
Definition zelements {A} (m : zmap A) : list (Z * A) :=
  map (fun kv => (Z.pos (fst kv) - 1, snd kv)) (PositiveMap.elements m).

(* small association lists keyed by Z *)
Fixpoint aget {A} (k : Z) (l : list (Z * A)) : option A :=
  match l with
  | [] => None
  | (k', v) :: r => if Z.eqb k' k then Some v else aget k r
  end.
Fixpoint aset {A} (k : Z) (v : A) (l : list (Z * A)) : list (Z * A) :=
  match l with
  | [] => [(k, v)]
  | (k', v') :: r => if Z.eqb k' k then (k, v) :: r else (k', v') :: aset k v r
  end.

(* lo, lo+1, ..., lo+n-1 *)
Fixpoint zseq (lo : Z) (n : nat) : list Z :=
  match n with O => [] | S m => lo :: zseq (lo + 1) m end.
(* lo..hi inclusive *)
Definition zrange (lo hi : Z) : list Z := zseq lo (Z.to_nat (hi - lo + 1)).
