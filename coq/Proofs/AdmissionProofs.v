(* C07: admission invariants of InsertEvent on the HgImpl model (tree with fix 26c0384). *)
From Coq Require Import ZArith List Bool Lia ZifyBool.
From RecordUpdate Require Import RecordSet.
From V Require Import Model.ZMap Model.Quorum Model.HgImpl Proofs.ZMapFacts Proofs.HgFrames Proofs.HgDagFrames.
Import ListNotations RecordSetNotations.
Open Scope Z_scope.

(** * Step lemmas *)

Lemma insert_admitted_result st e r st' :
  insert_admitted st e = (r, st') -> r = InsOk \/ (r = InsStore /\ st' = st <| topo := topo st + 1 |>).
Proof.
  unfold insert_admitted. cbv zeta.
  destruct (store_set_event _ _); intros H; inversion H; auto.
Qed.

Lemma insert_ok_checks st e st' :
  insert_event st e = (InsOk, st') ->
  e_sigok e = true /\ check_self_parent st e = InsOk /\ check_other_parent st e = InsOk.
Proof.
  unfold insert_event. destruct (e_sigok e) eqn:Hs; cbn [negb]; [|discriminate].
  destruct (check_self_parent st e) eqn:Hsp; try discriminate.
  destruct (check_other_parent st e) eqn:Hop; try discriminate.
  intros _. auto.
Qed.

(* a rejection other than the late Store.SetEvent failure leaves the whole state unchanged *)
Lemma insert_reject_noop st e r st' :
  insert_event st e = (r, st') -> r <> InsOk -> r <> InsStore -> st' = st.
Proof.
  unfold insert_event. destruct (e_sigok e); cbn [negb]; [|intros H; inversion H; auto].
  destruct (check_self_parent st e) eqn:Hsp; try (intros H; inversion H; auto; fail).
  destruct (check_other_parent st e) eqn:Hop; try (intros H; inversion H; auto; fail).
  intros H Hn1 Hn2. apply insert_admitted_result in H. destruct H as [->|[-> _]]; congruence.
Qed.

(** * The DAG invariant *)

Record dag_ok (st : hg) : Prop := {
  d_id : forall x es, get_event st x = Some es -> e_id (ev_e es) = x;
  d_sig : forall x es, get_event st x = Some es -> e_sigok (ev_e es) = true;
  d_sp : forall x es, get_event st x = Some es ->
         (e_sp (ev_e es) = -1 /\ e_index (ev_e es) = 0) \/
         exists ps, get_event st (e_sp (ev_e es)) = Some ps /\
                    e_creator (ev_e ps) = e_creator (ev_e es) /\
                    e_index (ev_e es) = e_index (ev_e ps) + 1;
  d_op : forall x es, get_event st x = Some es ->
         e_op (ev_e es) = -1 \/ exists po, get_event st (e_op (ev_e es)) = Some po;
  d_chain : forall c p, zget c (pevents st) = Some p ->
         pi_last p = Z.of_nat (length (pi_items p)) - 1 /\
         forall i x, nth_error (pi_items p) i = Some x ->
           exists es, get_event st x = Some es /\ e_creator (ev_e es) = c /\
                      e_index (ev_e es) = Z.of_nat i;
  d_listed : forall x es, get_event st x = Some es ->
         exists p, zget (e_creator (ev_e es)) (pevents st) = Some p /\
                   0 <= e_index (ev_e es) /\
                   nth_error (pi_items p) (Z.to_nat (e_index (ev_e es))) = Some x
}.

(* reading through a frame *)
Lemma frame_get_event st st' x :
  dag_frame st st' ->
  (forall es', get_event st' x = Some es' -> exists es, get_event st x = Some es /\ ev_e es = ev_e es') /\
  (forall es, get_event st x = Some es -> exists es', get_event st' x = Some es' /\ ev_e es' = ev_e es).
Proof.
  intros [He _]. specialize (He x). unfold get_event. split.
  - intros es' H'. rewrite H' in He. destruct (zget x (events st)) as [es|]; [|discriminate].
    cbn in He. inversion He. eauto.
  - intros es H. rewrite H in He. destruct (zget x (events st')) as [es'|]; [|discriminate].
    cbn in He. inversion He. eauto.
Qed.

Lemma dag_ok_frame st st' : dag_ok st -> dag_frame st st' -> dag_ok st'.
Proof.
  intros [Hid Hsig Hsp Hop Hch Hl] F.
  assert (Fb : forall x es', get_event st' x = Some es' -> exists es, get_event st x = Some es /\ ev_e es = ev_e es')
    by (intros x; apply (frame_get_event st st' x F)).
  assert (Ff : forall x es, get_event st x = Some es -> exists es', get_event st' x = Some es' /\ ev_e es' = ev_e es)
    by (intros x; apply (frame_get_event st st' x F)).
  destruct F as [_ [Fp _]].
  constructor.
  - intros x es' H. destruct (Fb _ _ H) as [es [H0 E]]. rewrite <- E. eauto.
  - intros x es' H. destruct (Fb _ _ H) as [es [H0 E]]. rewrite <- E. eauto.
  - intros x es' H. destruct (Fb _ _ H) as [es [H0 E]]. rewrite <- E.
    destruct (Hsp _ _ H0) as [?|[ps [Hps [Hc Hi]]]]; [left; auto|right].
    destruct (Ff _ _ Hps) as [ps' [Hps' Eps]]. exists ps'. rewrite Eps. auto.
  - intros x es' H. destruct (Fb _ _ H) as [es [H0 E]]. rewrite <- E.
    destruct (Hop _ _ H0) as [?|[po Hpo]]; [left; auto|right].
    destruct (Ff _ _ Hpo) as [po' [Hpo' _]]. eauto.
  - intros c p' Hp'. destruct (Fp c) as [E|[N S]].
    + rewrite E in Hp'. destruct (Hch _ _ Hp') as [Hlast Hnth]. split; [auto|].
      intros i x Hi. destruct (Hnth _ _ Hi) as [es [H0 [Hc Hidx]]].
      destruct (Ff _ _ H0) as [es' [H' E']]. exists es'. rewrite E'. auto.
    + rewrite S in Hp'. inversion Hp'; subst. cbn. split; [reflexivity|].
      intros i x Hi. destruct i; discriminate.
  - intros x es' H. destruct (Fb _ _ H) as [es [H0 E]]. rewrite <- E.
    destruct (Hl _ _ H0) as [p [Hp [Hge Hn]]]. exists p. split; [|auto].
    destruct (Fp (e_creator (ev_e es))) as [E2|[N _]]; congruence.
Qed.

(** * Admission preserves the invariant *)

Lemma nth_error_app1_some {A} (l l' : list A) n x : nth_error l n = Some x -> nth_error (l ++ l') n = Some x.
Proof.
  intros H. rewrite nth_error_app1; [exact H|]. apply nth_error_Some. congruence.
Qed.

Lemma last_map_some {A} (l : list A) :
  last (map Some l) None = match rev l with [] => None | x :: _ => Some x end.
Proof.
  induction l as [|a r IH] using rev_ind; [reflexivity|].
  rewrite map_app, rev_app_distr. cbn [map rev app]. rewrite last_last. reflexivity.
Qed.

Lemma pidx_last_spec p :
  (pidx_last p = None /\ pi_items p = []) \/
  (exists l front, pidx_last p = Some l /\ pi_items p = front ++ [l]).
Proof.
  unfold pidx_last. rewrite last_map_some.
  destruct (pi_items p) as [|a r] using rev_ind; [left; auto|right].
  rewrite rev_app_distr. cbn. eauto.
Qed.

(* under the invariant a checked event always extends its creator's RollingIndex *)
Lemma checked_extends st e p :
  dag_ok st -> check_self_parent st e = InsOk -> zget (e_creator e) (pevents st) = Some p ->
  pidx_set p (e_id e) (e_index e) = Some (mkPidx (pi_items p ++ [e_id e]) (e_index e)) /\
  e_index e = Z.of_nat (length (pi_items p)) /\
  ((e_sp e = -1 /\ pi_items p = []) \/
   exists front spe, pi_items p = front ++ [e_sp e] /\ get_event st (e_sp e) = Some spe /\
                     e_creator (ev_e spe) = e_creator e /\ e_index e = e_index (ev_e spe) + 1).
Proof.
  intros OK Hc Hp. unfold check_self_parent in Hc. rewrite Hp in Hc.
  destruct (d_chain st OK _ _ Hp) as [Hlast Hnth].
  destruct (pidx_last_spec p) as [[Hl Hi]|[l [front [Hl Hi]]]]; rewrite Hl in Hc.
  - destruct (e_sp e =? -1) eqn:Esp; [|discriminate]. destruct (e_index e =? 0) eqn:Eidx; [|discriminate].
    apply Z.eqb_eq in Esp, Eidx. rewrite Hi in *. cbn in Hlast.
    split; [|split; [cbn; lia|left; auto]].
    unfold pidx_set. rewrite Hlast, Eidx, Hi. reflexivity.
  - destruct (e_sp e =? l) eqn:Esp; [|discriminate]. apply Z.eqb_eq in Esp. subst l.
    destruct (get_event st (e_sp e)) as [spe|] eqn:Hspe; [|discriminate].
    destruct (e_index e =? e_index (ev_e spe) + 1) eqn:Eidx; [|discriminate]. apply Z.eqb_eq in Eidx.
    assert (Hpos : nth_error (pi_items p) (length front) = Some (e_sp e)).
    { rewrite Hi. rewrite nth_error_app2 by lia. rewrite Nat.sub_diag. reflexivity. }
    destruct (Hnth _ _ Hpos) as [es [Hes [Hcr Hix]]]. rewrite Hspe in Hes. inversion Hes; subst es.
    assert (Hlen : length (pi_items p) = S (length front)) by (rewrite Hi, app_length; cbn; lia).
    split; [|split; [lia|right; exists front, spe; auto]].
    unfold pidx_set. rewrite Hlast, Hlen.
    replace (0 <=? Z.of_nat (S (length front)) - 1) with true by lia.
    replace (Z.of_nat (S (length front)) - 1 + 1 <? e_index e) with false by lia.
    replace (Z.of_nat (S (length front)) - 1 <? 0) with false by lia.
    replace (e_index e =? Z.of_nat (S (length front)) - 1 + 1) with true by lia.
    reflexivity.
Qed.

Lemma dag_frame_set_pending_loaded st v : dag_frame st (st <| pending_loaded := v |>).
Proof. apply dag_frame_same; destruct st; reflexivity. Qed.

Lemma dag_frame_after_store st2 e la :
  dag_frame st2
    (let st3 := update_ancestor_fd st2 e la in
     let st4 := st3 <| undetermined := undetermined st3 ++ [e_id e] |> in
     let st5 := if is_loaded e then st4 <| pending_loaded := pending_loaded st4 + 1 |> else st4 in
     st5 <| sigpool := fold_left sigpool_add (e_sigs e) (sigpool st5) |>).
Proof.
  cbv zeta.
  eapply dag_frame_trans; [apply update_ancestor_fd_frame|].
  eapply dag_frame_trans; [apply (dag_frame_set_undetermined _ (undetermined (update_ancestor_fd st2 e la) ++ [e_id e]))|].
  destruct (is_loaded e).
  - eapply dag_frame_trans; [apply dag_frame_set_pending_loaded|apply dag_frame_set_sigpool].
  - apply dag_frame_set_sigpool.
Qed.

(* the state right after Store.SetEvent of a checked, fresh event *)
Lemma dag_ok_store st e :
  dag_ok st -> 0 <= e_id e -> 0 <= e_creator e ->
  e_sigok e = true -> check_self_parent st e = InsOk -> check_other_parent st e = InsOk ->
  get_event st (e_id e) = None ->
  exists st2, store_set_event (st <| topo := topo st + 1 |>)
                (mkEvst e None None None (fst (init_coords (st <| topo := topo st + 1 |>) e))
                        (snd (init_coords (st <| topo := topo st + 1 |>) e)) (topo st)) = Some st2 /\
              dag_ok st2.
Proof.
  intros OK Hid Hcr Hsig Hsp Hop Hfresh.
  assert (Hpart : exists p, zget (e_creator e) (pevents st) = Some p).
  { unfold check_self_parent in Hsp. destruct (zget (e_creator e) (pevents st)); [eauto|discriminate]. }
  destruct Hpart as [p Hp].
  destruct (checked_extends st e p OK Hsp Hp) as [Hset [Hidx Hpar]].
  set (st1 := st <| topo := topo st + 1 |>).
  set (es := mkEvst e None None None _ _ _).
  assert (G1 : forall x, get_event st1 x = get_event st x) by (intros; destruct st; reflexivity).
  assert (P1 : pevents st1 = pevents st) by (destruct st; reflexivity).
  unfold store_set_event. change (e_id (ev_e es)) with (e_id e). change (e_creator (ev_e es)) with (e_creator e).
  change (e_index (ev_e es)) with (e_index e).
  rewrite G1, Hfresh, P1, Hp, Hset.
  eexists; split; [reflexivity|].
  set (p' := mkPidx (pi_items p ++ [e_id e]) (e_index e)).
  set (st2 := set_evst _ _ _).
  assert (GE : forall x, get_event st2 x = if x =? e_id e then Some es else get_event st x).
  { intros x. subst st2 st1. unfold get_event, set_evst. destruct st; cbn. rewrite zget_zset.
    rewrite (Z.eqb_sym x). destruct (Z.eqb_spec (e_id e) x); cbn [andb]; [|reflexivity].
    replace (0 <=? e_id e) with true by lia. reflexivity. }
  assert (GP : forall c, zget c (pevents st2) = if c =? e_creator e then Some p' else zget c (pevents st)).
  { intros c. subst st2 st1. unfold set_evst. destruct st; cbn. rewrite zget_zset.
    rewrite (Z.eqb_sym c). destruct (Z.eqb_spec (e_creator e) c); cbn [andb]; [|reflexivity].
    replace (0 <=? e_creator e) with true by lia. reflexivity. }
  assert (Old : forall x es0, get_event st x = Some es0 -> x <> e_id e).
  { intros x es0 H C. subst x. congruence. }
  constructor.
  - intros x es0. rewrite GE. destruct (Z.eqb_spec x (e_id e)); [intros H; inversion H; subst; reflexivity|apply (d_id st OK)].
  - intros x es0. rewrite GE. destruct (Z.eqb_spec x (e_id e)); [intros H; inversion H; subst; exact Hsig|apply (d_sig st OK)].
  - intros x es0. rewrite GE. destruct (Z.eqb_spec x (e_id e)) as [->|Hne].
    + intros H; inversion H; subst es0; clear H. change (ev_e es) with e.
      destruct Hpar as [[Hs Hnil]|[front [spe [Hi [Hg [Hc Hx]]]]]].
      * left. split; [auto|]. rewrite Hnil in Hidx. cbn in Hidx. lia.
      * right. exists spe. rewrite GE. pose proof (Old _ _ Hg) as Hd.
        destruct (Z.eqb_spec (e_sp e) (e_id e)); [contradiction|]. auto.
    + intros H. destruct (d_sp st OK _ _ H) as [?|[ps [Hps ?]]]; [left; auto|right].
      exists ps. rewrite GE. pose proof (Old _ _ Hps). destruct (Z.eqb_spec (e_sp (ev_e es0)) (e_id e)); [contradiction|auto].
  - intros x es0. rewrite GE. destruct (Z.eqb_spec x (e_id e)) as [->|Hne].
    + intros H; inversion H; subst es0; clear H. change (ev_e es) with e.
      unfold check_other_parent in Hop. destruct (e_op e =? -1) eqn:Eo; [left; lia|right].
      destruct (get_event st (e_op e)) as [po|] eqn:Hpo; [|discriminate].
      exists po. rewrite GE. pose proof (Old _ _ Hpo). destruct (Z.eqb_spec (e_op e) (e_id e)); [contradiction|auto].
    + intros H. destruct (d_op st OK _ _ H) as [?|[po Hpo]]; [left; auto|right].
      exists po. rewrite GE. pose proof (Old _ _ Hpo). destruct (Z.eqb_spec (e_op (ev_e es0)) (e_id e)); [contradiction|auto].
  - intros c q. rewrite GP. destruct (Z.eqb_spec c (e_creator e)) as [->|Hne].
    + intros H; inversion H; subst q; clear H. subst p'. cbn [pi_items pi_last].
      destruct (d_chain st OK _ _ Hp) as [Hlast Hnth].
      split; [rewrite app_length; cbn; lia|].
      intros i x Hi. destruct (Nat.lt_ge_cases i (length (pi_items p))) as [Hlt|Hge].
      * rewrite nth_error_app1 in Hi by auto. destruct (Hnth _ _ Hi) as [es0 [H0 [Hc0 Hi0]]].
        exists es0. rewrite GE. pose proof (Old _ _ H0). destruct (Z.eqb_spec x (e_id e)); [contradiction|auto].
      * rewrite nth_error_app2 in Hi by auto.
        destruct (i - length (pi_items p))%nat as [|k] eqn:Ek; [|destruct k; discriminate].
        cbn in Hi. inversion Hi; subst x. exists es. rewrite GE, Z.eqb_refl.
        split; [auto|split; [reflexivity|]]. change (ev_e es) with e. lia.
    + intros H. destruct (d_chain st OK _ _ H) as [Hlast Hnth]. split; [auto|].
      intros i x Hi. destruct (Hnth _ _ Hi) as [es0 [H0 [Hc0 Hi0]]].
      exists es0. rewrite GE. pose proof (Old _ _ H0). destruct (Z.eqb_spec x (e_id e)); [contradiction|auto].
  - intros x es0. rewrite GE. destruct (Z.eqb_spec x (e_id e)) as [->|Hne].
    + intros H; inversion H; subst es0; clear H. change (ev_e es) with e.
      exists p'. rewrite GP, Z.eqb_refl. split; [auto|]. split; [lia|].
      subst p'. cbn [pi_items]. rewrite Hidx, Nat2Z.id, nth_error_app2 by lia.
      rewrite Nat.sub_diag. reflexivity.
    + intros H. destruct (d_listed st OK _ _ H) as [q [Hq [Hge Hn]]].
      rewrite GP. destruct (Z.eqb_spec (e_creator (ev_e es0)) (e_creator e)) as [Ec|Hnc].
      * rewrite Ec in Hq. rewrite Hp in Hq. inversion Hq; subst q. exists p'. split; [auto|split; [auto|]].
        subst p'. cbn [pi_items]. apply nth_error_app1_some. exact Hn.
      * exists q. auto.
Qed.

(** * All attempt sequences *)

(* event identifiers (hash ordinals) determine the event: SHA-256 collision freedom *)
Definition ids_determine (evs : list event) : Prop :=
  forall e e', In e evs -> In e' evs -> e_id e = e_id e' -> e = e'.

Definition from_attempts (st : hg) (evs : list event) : Prop :=
  forall x es, get_event st x = Some es -> In (ev_e es) evs.

Lemma from_attempts_frame st st' evs : from_attempts st evs -> dag_frame st st' -> from_attempts st' evs.
Proof.
  intros H F x es' H'. destruct (proj1 (frame_get_event st st' x F) _ H') as [es [H0 E]].
  rewrite <- E. eauto.
Qed.

(* a checked event is not yet stored *)
Lemma checked_fresh st e all :
  dag_ok st -> from_attempts st all -> ids_determine all -> In e all ->
  check_self_parent st e = InsOk -> get_event st (e_id e) = None.
Proof.
  intros OK FA ID Hin Hsp.
  destruct (get_event st (e_id e)) as [es|] eqn:Hg; [exfalso|reflexivity].
  assert (He : ev_e es = e).
  { apply ID; [eapply FA; eauto|auto|]. apply (d_id st OK _ _ Hg). }
  destruct (d_listed st OK _ _ Hg) as [p [Hp [Hge Hn]]]. rewrite He in *.
  destruct (checked_extends st e p OK Hsp Hp) as [_ [Hidx _]].
  assert (Hlt : (Z.to_nat (e_index e) < length (pi_items p))%nat) by (apply nth_error_Some; congruence).
  lia.
Qed.

Lemma check_self_parent_not_store st e : check_self_parent st e <> InsStore.
Proof.
  unfold check_self_parent. destruct (zget _ _); [|discriminate].
  destruct (pidx_last p); [destruct (_ =? _); [destruct (get_event _ _); [destruct (_ =? _)|]|]; discriminate|].
  destruct (_ =? _); [destruct (_ =? _)|]; discriminate.
Qed.
Lemma check_other_parent_not_store st e : check_other_parent st e <> InsStore.
Proof. unfold check_other_parent. destruct (_ =? _); [discriminate|]. destruct (get_event _ _); discriminate. Qed.

Lemma insert_event_inv st e all r st' :
  dag_ok st -> from_attempts st all -> ids_determine all -> In e all -> 0 <= e_id e ->
  insert_event st e = (r, st') ->
  dag_ok st' /\ from_attempts st' all /\ r <> InsStore.
Proof.
  intros OK FA ID Hin Hid. unfold insert_event.
  destruct (e_sigok e) eqn:Hsig; cbn [negb]; [|intros H; inversion H; subst; split; [assumption|split; [assumption|discriminate]]].
  destruct (check_self_parent st e) eqn:Hsp;
    try (intros H; inversion H; subst; split; [assumption|split; [assumption|discriminate]]);
    try (exfalso; eapply check_self_parent_not_store; eassumption).
  destruct (check_other_parent st e) eqn:Hop;
    try (intros H; inversion H; subst; split; [assumption|split; [assumption|discriminate]]);
    try (exfalso; eapply check_other_parent_not_store; eassumption).
  assert (Hcr : 0 <= e_creator e).
  { unfold check_self_parent in Hsp. destruct (zget (e_creator e) (pevents st)) eqn:Hz; [|discriminate].
    eapply zget_some_nonneg; eauto. }
  pose proof (checked_fresh st e all OK FA ID Hin Hsp) as Hfresh.
  destruct (dag_ok_store st e OK Hid Hcr Hsig Hsp Hop Hfresh) as [st2 [Hst OK2]].
  unfold insert_admitted. cbv zeta. rewrite Hst. intros H; inversion H; subst r st'; clear H.
  pose proof (dag_frame_after_store st2 e (fst (init_coords (st <| topo := topo st + 1 |>) e))) as F.
  cbv zeta in F.
  split; [eapply dag_ok_frame; eauto|]. split; [|discriminate].
  eapply from_attempts_frame; [|exact F].
  (* events of st2: the old ones plus e *)
  intros x es Hx. revert Hst Hx. unfold store_set_event. cbn [ev_e e_id e_creator e_index].
  replace (get_event (st <| topo := topo st + 1 |>) (e_id e)) with (get_event st (e_id e)) by (destruct st; reflexivity).
  rewrite Hfresh.
  destruct (zget (e_creator e) (pevents (st <| topo := topo st + 1 |>))); [|discriminate].
  destruct (pidx_set _ _ _); [|discriminate].
  intros Hs; inversion Hs; subst st2; clear Hs.
  unfold get_event, set_evst. destruct st; cbn. rewrite zget_zset.
  destruct ((e_id e =? x) && (0 <=? e_id e)); [intros Hx; inversion Hx; subst; exact Hin|].
  intros Hx. apply (FA x es). exact Hx.
Qed.

Lemma step_inv st e all :
  dag_ok st -> from_attempts st all -> ids_determine all -> In e all -> 0 <= e_id e ->
  dag_ok (step st e) /\ from_attempts (step st e) all.
Proof.
  intros OK FA ID Hin Hid. unfold step, insert_and_run.
  destruct (insert_event st e) as [r s] eqn:E.
  destruct (insert_event_inv st e all r s OK FA ID Hin Hid E) as [OK' [FA' _]].
  destruct r; cbn [snd]; auto.
  pose proof (run_consensus_frame s) as F.
  split; [eapply dag_ok_frame; eauto|eapply from_attempts_frame; eauto].
Qed.

Lemma dag_ok_init self_ genesis oracle_ : dag_ok (init_hg self_ genesis oracle_).
Proof.
  assert (E : forall x, get_event (init_hg self_ genesis oracle_) x = None).
  { intros x. unfold init_hg. destruct (set_peerset (empty_hg self_) 0 genesis) as [st|] eqn:S.
    - pose proof (set_peerset_frame _ _ _ _ S) as [Fe _]. specialize (Fe x).
      unfold get_event. change (events (st <| validators := genesis |> <| oracle := oracle_ |>)) with (events st).
      destruct (zget x (events st)); [|reflexivity]. cbn in Fe. unfold empty_hg in Fe. cbn in Fe.
      rewrite zget_empty in Fe. discriminate.
    - unfold get_event, empty_hg. cbn. apply zget_empty. }
  constructor; try (intros x es H; rewrite E in H; discriminate).
  intros c p Hp. unfold init_hg in Hp.
  destruct (set_peerset (empty_hg self_) 0 genesis) as [st|] eqn:S.
  - pose proof (set_peerset_frame _ _ _ _ S) as [_ [Fp _]]. specialize (Fp c).
    change (pevents (st <| validators := genesis |> <| oracle := oracle_ |>)) with (pevents st) in Hp.
    unfold empty_hg in Fp. cbn in Fp. rewrite zget_empty in Fp.
    destruct Fp as [Fp|[_ Fp]]; rewrite Fp in Hp; [discriminate|].
    inversion Hp; subst. cbn. split; [reflexivity|intros i x Hi; destruct i; discriminate].
  - unfold empty_hg in Hp. cbn in Hp. rewrite zget_empty in Hp. discriminate.
Qed.

(* every reachable state of every attempt sequence *)
Theorem run_dag_ok self_ genesis oracle_ evs :
  ids_determine evs -> (forall e, In e evs -> 0 <= e_id e) ->
  dag_ok (run (init_hg self_ genesis oracle_) evs).
Proof.
  intros ID Hpos.
  assert (G : forall done todo st, evs = done ++ todo -> dag_ok st -> from_attempts st evs ->
              dag_ok (run st todo) /\ from_attempts (run st todo) evs).
  { intros done todo. revert done. induction todo as [|e rest IH]; intros done st Hev OK FA; [auto|].
    cbn [run fold_left].
    assert (Hin : In e evs) by (rewrite Hev; apply in_or_app; right; left; reflexivity).
    destruct (step_inv st e evs OK FA ID Hin (Hpos e Hin)) as [OK' FA'].
    apply (IH (done ++ [e])); auto. rewrite <- app_assoc. exact Hev. }
  apply (G [] evs); [reflexivity|apply dag_ok_init|].
  intros x es H. exfalso.
  pose proof (dag_ok_init self_ genesis oracle_) as OK.
  destruct (d_listed _ OK _ _ H) as [p [Hp [_ Hn]]].
  destruct (d_chain _ OK _ _ Hp) as [_ Hch].
  (* initially there is no event at all *)
  unfold init_hg in H. destruct (set_peerset (empty_hg self_) 0 genesis) as [st|] eqn:S.
  - pose proof (set_peerset_frame _ _ _ _ S) as [Fe _]. specialize (Fe x). unfold get_event in H.
    change (events (st <| validators := genesis |> <| oracle := oracle_ |>)) with (events st) in H.
    rewrite H in Fe. cbn in Fe. unfold empty_hg in Fe. cbn in Fe. rewrite zget_empty in Fe. discriminate.
  - unfold get_event, empty_hg in H. cbn in H. rewrite zget_empty in H. discriminate.
Qed.

(** consequences stated on the invariant *)

(* no two events of one creator at the same height *)
Lemma dag_ok_no_fork st x y ex ey :
  dag_ok st -> get_event st x = Some ex -> get_event st y = Some ey ->
  e_creator (ev_e ex) = e_creator (ev_e ey) -> e_index (ev_e ex) = e_index (ev_e ey) -> x = y.
Proof.
  intros OK Hx Hy Hc Hi.
  destruct (d_listed st OK _ _ Hx) as [p [Hp [_ Hn]]].
  destruct (d_listed st OK _ _ Hy) as [q [Hq [_ Hm]]].
  rewrite Hc in Hp. rewrite Hp in Hq. inversion Hq; subst q. rewrite Hi in Hn. congruence.
Qed.

(* per-creator indexes are gap free: every height below a stored event's index is occupied *)
Lemma dag_ok_gap_free st x ex i :
  dag_ok st -> get_event st x = Some ex -> 0 <= i <= e_index (ev_e ex) ->
  exists y ey, get_event st y = Some ey /\ e_creator (ev_e ey) = e_creator (ev_e ex) /\ e_index (ev_e ey) = i.
Proof.
  intros OK Hx Hi.
  destruct (d_listed st OK _ _ Hx) as [p [Hp [_ Hn]]].
  destruct (d_chain st OK _ _ Hp) as [_ Hch].
  assert (Hlt : (Z.to_nat i < length (pi_items p))%nat).
  { assert ((Z.to_nat (e_index (ev_e ex)) < length (pi_items p))%nat) by (apply nth_error_Some; congruence). lia. }
  destruct (nth_error (pi_items p) (Z.to_nat i)) as [y|] eqn:Hy; [|apply nth_error_None in Hy; lia].
  destruct (Hch _ _ Hy) as [ey [Hey [Hc Hix]]]. exists y, ey. split; [auto|split; [auto|lia]].
Qed.
