(* Stage C: which events are admitted does not depend on the order of the attempts.
   Two attempt sequences over one fork-free universe (static membership): if every event attempted
   in the first is attempted in the second and the second sequence is topological (the parents of
   an attempt are attempted before it), then every event the first run admits is admitted by the
   second.  Hence two topological orders of the same attempts let in the same events, and a
   sub-sequence admits a subset. *)
From Coq Require Import ZArith List Bool Lia ZifyBool Permutation.
From RecordUpdate Require Import RecordSet.
From V Require Import Model.ZMap Model.Quorum Model.Voting Model.HgImpl
  Proofs.ZMapFacts Proofs.HgFrames Proofs.HgDagFrames Proofs.AdmissionProofs Proofs.HgBlockFrames
  Proofs.BlockInv Proofs.OrderSort Proofs.OrderFrames Proofs.OrderProofs Proofs.Static Proofs.HgRepFrames
  Proofs.FirstDesc Proofs.CInvRun Proofs.StronglySee Proofs.Agreement Proofs.NoFail Proofs.PevFrames.
Import ListNotations RecordSetNotations.
Open Scope Z_scope.

(** * The set of known creators never changes *)
Lemma zget_zset_keys {A} k (v p : A) m c : zget k m = Some p -> (zget c (zset k v m) <> None <-> zget c m <> None).
Proof.
  intros Hk. pose proof (zget_some_nonneg _ _ _ Hk) as H0.
  destruct (Z.eq_dec k c) as [->|Hne]; [rewrite zget_zset_same by exact H0; rewrite Hk; split; discriminate|].
  rewrite zget_zset_other by exact Hne. reflexivity.
Qed.

Lemma insert_event_pkeys st e c :
  zget c (pevents (snd (insert_event st e))) <> None <-> zget c (pevents st) <> None.
Proof.
  unfold insert_event. destruct (negb _); [reflexivity|].
  destruct (check_self_parent st e); try reflexivity.
  destruct (check_other_parent st e); try reflexivity.
  unfold insert_admitted. cbv zeta.
  set (st1 := st <| topo := topo st + 1 |>).
  assert (P1 : pevents st1 = pevents st) by (destruct st; reflexivity).
  destruct (store_set_event st1 _) as [st2|] eqn:E; cbn [snd]; [|rewrite P1; reflexivity].
  match goal with |- context [pevents ?s] =>
    assert (P5 : pevents s = pevents st2) end.
  { destruct (is_loaded e);
      repeat first [rewrite (rview_pev _ _ (rview_set_sigpool _ _)) | rewrite (rview_pev _ _ (rview_set_pending_loaded _ _))
                   | rewrite (rview_pev _ _ (rview_set_undetermined _ _))];
      apply rview_pev, update_ancestor_fd_rview. }
  rewrite P5. revert E. unfold store_set_event.
  destruct (get_event st1 _).
  - intros H; inversion H. replace (pevents (set_evst st1 _ _)) with (pevents st1) by (destruct st1; reflexivity).
    rewrite P1. reflexivity.
  - destruct (zget _ (pevents st1)) as [p|] eqn:Hp; [|discriminate]. destruct (pidx_set _ _ _) as [p'|]; [|discriminate].
    intros H; inversion H.
    match goal with |- context [set_evst ?s ?x ?v] => replace (pevents (set_evst s x v)) with (pevents s) by (destruct s; reflexivity) end.
    match goal with |- context [pevents (st1 <| pevents := ?m |>)] => replace (pevents (st1 <| pevents := m |>)) with m by (destruct st1; reflexivity) end.
    cbn [ev_e] in Hp. rewrite P1 in Hp. apply (zget_zset_keys _ _ _ _ c Hp).
Qed.

Lemma hstep_pkeys g all st o c : ids_determine all -> no_accept all -> hop_ok all o -> nf_inv g all st ->
  (zget c (pevents (hstep st o)) <> None <-> zget c (pevents st) <> None).
Proof.
  intros ID NA Ho N. destruct o as [e|]; cbn [hstep]; [|rewrite process_sigpool_pevents; reflexivity].
  destruct Ho as [Hin Hid].
  pose proof (g_dag _ _ (gi_core _ _ (nf_g _ _ _ N))) as OK. pose proof (g_from _ _ (gi_core _ _ (nf_g _ _ _ N))) as FA.
  unfold step, insert_and_run. pose proof (insert_event_pkeys st e c) as K.
  destruct (insert_event st e) as [r s] eqn:E. cbn [snd] in K.
  destruct (insert_event_inv st e all r s OK FA ID Hin Hid E) as [_ [FA' _]].
  destruct r; cbn [snd]; try exact K.
  rewrite (run_consensus_pevents all s FA' NA). exact K.
Qed.

Lemma hrun_pkeys g all self_ oracle_ ops c : ids_determine all -> no_accept all -> Forall (hop_ok all) ops ->
  (zget c (pevents (hrun (init_hg self_ g oracle_) ops)) <> None <-> zget c (pevents (init_hg self_ g oracle_)) <> None).
Proof.
  intros ID NA. induction ops as [|o ops IH] using rev_ind; intros H; [reflexivity|].
  apply Forall_app in H. destruct H as [Hops Ho]. inversion Ho as [|? ? Ho' _]; subst.
  rewrite hrun_app. cbn [hrun fold_left].
  rewrite (hstep_pkeys g all _ o c ID NA Ho' (hrun_nf g all self_ oracle_ ops ID NA Hops)). apply IH. exact Hops.
Qed.

Lemma sp_fold_pev r ps : forall s s', pevents s = pevents s' ->
  pevents (fold_left (sp_step r) ps s) = pevents (fold_left (sp_step r) ps s').
Proof.
  induction ps as [|p ps IH]; intros s s' E; cbn [fold_left]; [exact E|]. apply IH.
  unfold sp_step. cbv zeta. destruct s, s'. cbn in *. subst.
  match goal with |- context [zmem ?a ?b] => destruct (zmem a b) end; reflexivity.
Qed.

Lemma init_pev self_ g oracle_ : pevents (init_hg self_ g oracle_) = pevents (init_hg 0 g []).
Proof.
  unfold init_hg, set_peerset. cbn [empty_hg peersets existsb].
  change (pevents (fold_left (sp_step 0) g (empty_hg self_ <| peersets := ps_table_insert 0 g [] |>) <| validators := g |> <| oracle := oracle_ |>) =
          pevents (fold_left (sp_step 0) g (empty_hg 0 <| peersets := ps_table_insert 0 g [] |>) <| validators := g |> <| oracle := [] |>)).
  transitivity (pevents (fold_left (sp_step 0) g (empty_hg self_ <| peersets := ps_table_insert 0 g [] |>)));
    [match goal with |- pevents (?s <| validators := _ |> <| oracle := _ |>) = _ => destruct s; reflexivity end|].
  transitivity (pevents (fold_left (sp_step 0) g (empty_hg 0 <| peersets := ps_table_insert 0 g [] |>)));
    [|match goal with |- _ = pevents (?s <| validators := _ |> <| oracle := _ |>) => destruct s; reflexivity end].
  apply sp_fold_pev. reflexivity.
Qed.

(** * An event admitted elsewhere passes the checks as soon as its parents are stored *)
Lemma stored_nonneg_ev st x ex : get_event st x = Some ex -> 0 <= x.
Proof. unfold get_event. apply zget_some_nonneg. Qed.

Lemma admit_checks all T S1 e es1 :
  ids_determine all -> fork_free all -> In e all ->
  dag_ok T -> from_attempts T all -> dag_ok S1 -> from_attempts S1 all ->
  get_event S1 (e_id e) = Some es1 -> get_event T (e_id e) = None ->
  (e_sp e <> -1 -> get_event T (e_sp e) <> None) -> (e_op e <> -1 -> get_event T (e_op e) <> None) ->
  zget (e_creator e) (pevents T) <> None ->
  e_sigok e = true /\ check_self_parent T e = InsOk /\ check_other_parent T e = InsOk.
Proof.
  intros ID FF Hin OK FA OK1 FA1 H1 HT Hsp Hop Hkey.
  assert (He : ev_e es1 = e) by (apply ID; [eapply FA1; eauto|exact Hin|apply (d_id S1 OK1 _ _ H1)]).
  split; [rewrite <- He; apply (d_sig S1 OK1 _ _ H1)|]. split.
  - (* self-parent *)
    unfold check_self_parent. destruct (zget (e_creator e) (pevents T)) as [p|] eqn:Hp; [|contradiction].
    destruct (d_chain T OK _ _ Hp) as [Hlast Hnth].
    (* no other event of this creator sits at e's index *)
    assert (Hfree : forall z, nth_error (pi_items p) (Z.to_nat (e_index e)) = Some z -> 0 <= e_index e -> False).
    { intros z Hz H0. destruct (Hnth _ _ Hz) as [ez [Hez [Hc Hi]]].
      assert (Ez : e_id (ev_e ez) = e_id e) by (apply FF; [eapply FA; eauto|exact Hin|exact Hc|lia]).
      rewrite (d_id T OK _ _ Hez) in Ez. subst z. rewrite HT in Hez. discriminate. }
    destruct (d_sp S1 OK1 _ _ H1) as [[Hs Hi]|[ps [Hps [Hc Hi]]]]; rewrite He in *.
    + rewrite Hs, Hi. cbn.
      destruct (pidx_last_spec p) as [[Hl _]|[l [front [Hl Hit]]]]; rewrite Hl; [reflexivity|exfalso].
      destruct front as [|z front]; cbn in Hit.
      * apply (Hfree l); [rewrite Hi, Hit; reflexivity|lia].
      * apply (Hfree z); [rewrite Hi, Hit; reflexivity|lia].
    + assert (Hne : e_sp e <> -1) by (apply stored_nonneg_ev in Hps; lia).
      specialize (Hsp Hne). destruct (get_event T (e_sp e)) as [pt|] eqn:Hpt; [|contradiction].
      assert (Ept : ev_e pt = ev_e ps).
      { apply ID; [eapply FA; eauto|eapply FA1; eauto|]. rewrite (d_id T OK _ _ Hpt), (d_id S1 OK1 _ _ Hps). reflexivity. }
      destruct (d_listed T OK _ _ Hpt) as [q [Hq [H0 Hn]]]. rewrite Ept, Hc, Hp in Hq. inversion Hq; subst q. rewrite Ept in Hn, H0.
      destruct (pidx_last_spec p) as [[_ Hit]|[l [front [Hl Hit]]]]; [rewrite Hit in Hn; destruct (Z.to_nat (e_index (ev_e ps))); discriminate Hn|].
      rewrite Hl.
      assert (Hlen : length (pi_items p) = S (length front)) by (rewrite Hit, app_length; cbn; lia).
      assert (Hpos : (Z.to_nat (e_index (ev_e ps)) < length (pi_items p))%nat) by (apply nth_error_Some; rewrite Hn; discriminate).
      destruct (Nat.eq_dec (Z.to_nat (e_index (ev_e ps))) (length front)) as [Eq|Ne].
      * rewrite Hit, nth_error_app2, Eq, Nat.sub_diag in Hn by lia. cbn in Hn. inversion Hn; subst l.
        rewrite Z.eqb_refl, Hpt, Ept. replace (e_index e =? e_index (ev_e ps) + 1) with true by lia. reflexivity.
      * exfalso. assert (Hlt : (Z.to_nat (e_index e) < length (pi_items p))%nat) by lia.
        destruct (nth_error (pi_items p) (Z.to_nat (e_index e))) as [z|] eqn:Hz; [|apply nth_error_None in Hz; lia].
        apply (Hfree z eq_refl). lia.
  - unfold check_other_parent. destruct (Z.eqb_spec (e_op e) (-1)) as [|Hne]; [reflexivity|].
    specialize (Hop Hne). destruct (get_event T (e_op e)); [reflexivity|contradiction].
Qed.

(** * Admission does not depend on the order *)
Definition topological (evs : list event) : Prop :=
  forall i e, nth_error evs i = Some e ->
    (e_sp e = -1 \/ exists j p, (j < i)%nat /\ nth_error evs j = Some p /\ e_id p = e_sp e) /\
    (e_op e = -1 \/ exists j p, (j < i)%nat /\ nth_error evs j = Some p /\ e_id p = e_op e).

Lemma firstn_snoc {A} (l : list A) i x : nth_error l i = Some x -> firstn (S i) l = firstn i l ++ [x].
Proof.
  revert i. induction l as [|a l IH]; intros i H; [destruct i; discriminate|].
  destruct i as [|i]; [cbn in H; inversion H; reflexivity|]. cbn [nth_error] in H.
  change (a :: firstn (S i) l = a :: (firstn i l ++ [x])). f_equal. apply IH. exact H.
Qed.

Lemma firstn_In_ev {A} (l : list A) i x : In x (firstn i l) -> In x l.
Proof. revert i. induction l as [|a l IH]; intros i H; destruct i; cbn in *; try contradiction. destruct H; [left; assumption|right; eapply IH; eauto]. Qed.

Section Admit.
  Variables (g : peerset) (all : list event).
  Hypothesis ID : ids_determine all.
  Hypothesis FF : fork_free all.
  Hypothesis NA : no_accept all.

  Lemma stored_step st o y : ids_determine all -> hop_ok all o -> nf_inv g all st ->
    get_event st y <> None -> get_event (hstep st o) y <> None.
  Proof.
    intros _ Ho N Hy. destruct (get_event st y) as [ey|] eqn:Ey; [|contradiction].
    destruct (m_e _ _ (proj2 (hstep_ginv all st o ID Ho (nf_g _ _ _ N))) y ey Ey) as [ey' [E' _]]. rewrite E'. discriminate.
  Qed.

  Theorem admitted_incl s1 o1 ops1 s2 o2 evs2 :
    Forall (hop_ok all) ops1 -> Forall (hop_ok all) (map HInsert evs2) -> topological evs2 ->
    let S1 := hrun (init_hg s1 g o1) ops1 in
    let S2 := hrun (init_hg s2 g o2) (map HInsert evs2) in
    (forall x es, get_event S1 x = Some es -> In (ev_e es) evs2) ->
    forall x, get_event S1 x <> None -> get_event S2 x <> None.
  Proof.
    intros H1 H2 Topo S1 S2 Hatt.
    pose proof (hrun_nf g all s1 o1 ops1 ID NA H1) as N1. fold S1 in N1.
    pose proof (g_dag _ _ (gi_core _ _ (nf_g _ _ _ N1))) as OK1. pose proof (g_from _ _ (gi_core _ _ (nf_g _ _ _ N1))) as FA1.
    set (T := fun i => hrun (init_hg s2 g o2) (map HInsert (firstn i evs2))).
    assert (Hk : forall i, Forall (hop_ok all) (map HInsert (firstn i evs2))).
    { intros i. rewrite Forall_forall in *. intros o Ho. apply H2. apply in_map_iff in Ho. destruct Ho as [e [<- He]].
      apply in_map. eapply firstn_In_ev; exact He. }
    assert (NT : forall i, nf_inv g all (T i)) by (intros i; apply (hrun_nf g all s2 o2 _ ID NA (Hk i))).
    assert (C : forall i j e, (j < i)%nat -> nth_error evs2 j = Some e -> get_event S1 (e_id e) <> None ->
                get_event (T i) (e_id e) <> None).
    { induction i as [|i IH]; intros j e Hj Hn Hs; [lia|].
      assert (Hjl : (j < length evs2)%nat) by (apply nth_error_Some; rewrite Hn; discriminate).
      destruct (nth_error evs2 i) as [ei|] eqn:Ei.
      2:{ apply nth_error_None in Ei. unfold T. rewrite (firstn_all2 (n := S i)) by lia.
          rewrite <- (firstn_all2 (n := i) evs2) by lia. apply (IH j e ltac:(lia) Hn Hs). }
      assert (ET : T (S i) = hstep (T i) (HInsert ei)).
      { unfold T. rewrite (firstn_snoc _ _ _ Ei), map_app, hrun_app. reflexivity. }
      assert (Hoi : hop_ok all (HInsert ei)).
      { rewrite Forall_forall in H2. apply H2. apply in_map. eapply nth_error_In; exact Ei. }
      rewrite ET.
      destruct (Nat.eq_dec j i) as [->|Hne].
      2:{ apply (stored_step _ _ _ ID Hoi (NT i)). apply (IH j e ltac:(lia) Hn Hs). }
      rewrite Ei in Hn. inversion Hn; subst ei. clear Hn.
      destruct (get_event (T i) (e_id e)) as [et|] eqn:HT; [apply (stored_step _ _ _ ID Hoi (NT i)); rewrite HT; discriminate|].
      destruct (get_event S1 (e_id e)) as [es1|] eqn:Hs1; [|contradiction].
      destruct Hoi as [Hin Hid].
      pose proof (g_dag _ _ (gi_core _ _ (nf_g _ _ _ (NT i)))) as OKT. pose proof (g_from _ _ (gi_core _ _ (nf_g _ _ _ (NT i)))) as FAT.
      assert (He : ev_e es1 = e) by (apply ID; [eapply FA1; eauto|exact Hin|apply (d_id S1 OK1 _ _ Hs1)]).
      destruct (Topo i e Ei) as [Tsp Top].
      assert (Psp : e_sp e <> -1 -> get_event (T i) (e_sp e) <> None).
      { intros Hn. destruct Tsp as [?|[j' [p' [Hj' [Hp' Eid]]]]]; [contradiction|]. rewrite <- Eid.
        apply (IH j' p' Hj' Hp'). rewrite Eid.
        destruct (d_sp S1 OK1 _ _ Hs1) as [[Hs0 _]|[ps [Hps _]]]; rewrite He in *; [contradiction|rewrite Hps; discriminate]. }
      assert (Pop : e_op e <> -1 -> get_event (T i) (e_op e) <> None).
      { intros Hn. destruct Top as [?|[j' [p' [Hj' [Hp' Eid]]]]]; [contradiction|]. rewrite <- Eid.
        apply (IH j' p' Hj' Hp'). rewrite Eid.
        destruct (d_op S1 OK1 _ _ Hs1) as [Hs0|[po Hpo]]; rewrite He in *; [contradiction|rewrite Hpo; discriminate]. }
      assert (Hkey : zget (e_creator e) (pevents (T i)) <> None).
      { apply (hrun_pkeys g all s2 o2 _ (e_creator e) ID NA (Hk i)). rewrite init_pev, <- (init_pev s1 g o1).
        apply (hrun_pkeys g all s1 o1 ops1 (e_creator e) ID NA H1). fold S1.
        destruct (d_listed S1 OK1 _ _ Hs1) as [p [Hp _]]. rewrite He in Hp. rewrite Hp. discriminate. }
      destruct (admit_checks all (T i) S1 e es1 ID FF Hin OKT FAT OK1 FA1 Hs1 HT Psp Pop Hkey) as [Hsig [Hcs Hco]].
      cbn [hstep]. unfold step, insert_and_run.
      destruct (insert_event (T i) e) as [r s] eqn:E.
      assert (Er : r = InsOk).
      { revert E. unfold insert_event. rewrite Hsig, Hcs, Hco. cbn [negb]. intros E.
        destruct (insert_admitted_result _ _ _ _ E) as [?|[Hst _]]; [assumption|].
        destruct (insert_event_inv (T i) e all r s OKT FAT ID Hin Hid) as [_ [_ Hns]];
          [unfold insert_event; rewrite Hsig, Hcs, Hco; exact E|contradiction]. }
      subst r. cbn [snd].
      destruct (insert_post_ins g all (T i) e s ID Hin Hid (NT i) E) as [PI _].
      destruct (u_ex _ (g_o _ _ (pi_c _ _ _ _ PI)) (e_id e) (pi_u _ _ _ _ PI)) as [ex Hex].
      (* and the consensus run keeps it *)
      assert (Hst : get_event (hstep (T i) (HInsert e)) (e_id e) <> None).
      { cbn [hstep]. unfold step, insert_and_run. rewrite E. cbn [snd].
        pose proof (run_consensus_frame s) as Fr. destruct (proj2 (frame_get_event s (run_consensus s) (e_id e) Fr) _ Hex) as [ex' [Hex' _]].
        rewrite Hex'. discriminate. }
      cbn [hstep] in Hst. unfold step, insert_and_run in Hst. rewrite E in Hst. exact Hst. }
    intros x Hx. destruct (get_event S1 x) as [es|] eqn:Hes; [|contradiction].
    pose proof (Hatt x es Hes) as Hin. destruct (In_nth_error _ _ Hin) as [j Hj].
    assert (Eid : e_id (ev_e es) = x) by (apply (d_id S1 OK1 _ _ Hes)).
    assert (Hlen : (j < length evs2)%nat) by (apply nth_error_Some; rewrite Hj; discriminate).
    pose proof (C (length evs2) j (ev_e es) Hlen Hj ltac:(rewrite Eid, Hes; discriminate)) as Hc.
    unfold T in Hc. rewrite firstn_all in Hc. rewrite Eid in Hc. exact Hc.
  Qed.
End Admit.

(** * Consequences for [run] *)
Lemma run_hrun st evs : run st evs = hrun st (map HInsert evs).
Proof. revert st. induction evs as [|e evs IH]; intros st; cbn; [reflexivity|apply IH]. Qed.

Lemma hop_ok_of_incl all evs : (forall e, In e evs -> In e all /\ 0 <= e_id e) -> Forall (hop_ok all) (map HInsert evs).
Proof. intros H. apply Forall_forall. intros o Ho. apply in_map_iff in Ho. destruct Ho as [e [<- He]]. cbn. apply H. exact He. Qed.

Section Order.
  Variables (g : peerset) (evs evs' : list event).
  Hypothesis P : Permutation evs evs'.
  Hypothesis T1 : topological evs.
  Hypothesis T2 : topological evs'.
  Hypothesis ID : ids_determine evs.
  Hypothesis FF : fork_free evs.
  Hypothesis NA : no_accept evs.
  Hypothesis NN : forall e, In e evs -> 0 <= e_id e.
  Variables (s1 s2 : Z) (o1 o2 : list Z).

  Let H1 : Forall (hop_ok evs) (map HInsert evs).
  Proof. apply hop_ok_of_incl. intros e He. auto. Qed.
  Let H2 : Forall (hop_ok evs) (map HInsert evs').
  Proof. apply hop_ok_of_incl. intros e He. apply (Permutation_in _ (Permutation_sym P)) in He. auto. Qed.

  Theorem admitted_order_independent x :
    get_event (run (init_hg s1 g o1) evs) x <> None <-> get_event (run (init_hg s2 g o2) evs') x <> None.
  Proof.
    rewrite !run_hrun. split.
    - apply (admitted_incl g evs ID FF NA s1 o1 (map HInsert evs) s2 o2 evs' H1 H2 T2).
      intros y es Hy. apply (Permutation_in _ P).
      apply (g_from _ _ (gi_core _ _ (nf_g _ _ _ (hrun_nf g evs s1 o1 _ ID NA H1))) y es Hy).
    - apply (admitted_incl g evs ID FF NA s2 o2 (map HInsert evs') s1 o1 evs H2 H1 T1).
      intros y es Hy.
      apply (g_from _ _ (gi_core _ _ (nf_g _ _ _ (hrun_nf g evs s2 o2 _ ID NA H2))) y es Hy).
  Qed.

  Theorem obs_order_independent x :
    option_map (fun e => (ev_round e, ev_lt e)) (get_event (run (init_hg s1 g o1) evs) x) =
    option_map (fun e => (ev_round e, ev_lt e)) (get_event (run (init_hg s2 g o2) evs') x).
  Proof.
    pose proof (admitted_order_independent x) as A. rewrite !run_hrun in *.
    assert (C : get_event (hrun (init_hg s1 g o1) (map HInsert evs)) x <> None \/
                get_event (hrun (init_hg s1 g o1) (map HInsert evs)) x = None)
      by (destruct (get_event (hrun (init_hg s1 g o1) (map HInsert evs)) x); [left; discriminate|right; reflexivity]).
    destruct C as [N1|Z1].
    - apply (obs_agree_hrun g evs s1 s2 o1 o2 _ _ x ID NA H1 H2);
        [apply (nf_f _ _ _ (hrun_nf g evs s1 o1 _ ID NA H1))|apply (nf_f _ _ _ (hrun_nf g evs s2 o2 _ ID NA H2))|exact N1|apply A; exact N1].
    - assert (Z2 : get_event (hrun (init_hg s2 g o2) (map HInsert evs')) x = None).
      { destruct (get_event (hrun (init_hg s2 g o2) (map HInsert evs')) x) eqn:E2; [|reflexivity].
        exfalso. apply (proj2 A); [discriminate|exact Z1]. }
      rewrite Z1, Z2. reflexivity.
  Qed.
End Order.

(* the delivered transactions of a longer attempt sequence extend those of the shorter one (any events) *)
Theorem delivered_txs_prefix s g o evs more :
  exists l, map b_txs (delivered (run (init_hg s g o) (evs ++ more)))
          = map b_txs (delivered (run (init_hg s g o) evs)) ++ l.
Proof.
  rewrite !run_hrun, map_app, hrun_app.
  destruct (hrun_del (map HInsert more) _ (hrun_binv s g o (map HInsert evs))) as [l Hl].
  exists (map b_txs l). rewrite Hl, map_app. reflexivity.
Qed.

(** * Without fork freedom the order matters: two first events of one creator *)
Definition ow_g : peerset := [mkPeer 100 0].
Definition ow_a : event := mkEvent 1 0 0 (-1) (-1) 0 true 1 [] [] [] true.
Definition ow_b : event := mkEvent 2 0 0 (-1) (-1) 0 true 2 [] [] [] true.

Lemma ow_refuted :
  ~ (forall genesis evs evs', Permutation evs evs' -> topological evs -> topological evs' ->
       forall x, option_map (fun e => (ev_round e, ev_lt e)) (get_event (run (init_hg (-1) genesis []) evs) x) =
                 option_map (fun e => (ev_round e, ev_lt e)) (get_event (run (init_hg (-1) genesis []) evs') x)).
Proof.
  intros S.
  assert (Tp : forall l, (forall e, In e l -> e_sp e = -1 /\ e_op e = -1) -> topological l).
  { intros l H i e Hi. destruct (H e (nth_error_In _ _ Hi)) as [A B]. split; left; assumption. }
  specialize (S ow_g [ow_a; ow_b] [ow_b; ow_a] (perm_swap _ _ _)).
  assert (Hp : forall e, In e [ow_a; ow_b] -> e_sp e = -1 /\ e_op e = -1) by (intros e [<-|[<-|[]]]; split; reflexivity).
  assert (Hp' : forall e, In e [ow_b; ow_a] -> e_sp e = -1 /\ e_op e = -1) by (intros e [<-|[<-|[]]]; split; reflexivity).
  specialize (S (Tp _ Hp) (Tp _ Hp') 1). vm_compute in S. discriminate S.
Qed.
