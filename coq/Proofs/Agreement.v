(* Stage S3, assembly: fame agreement between any two reachable states of the per-event pipeline
   under static membership, without view hypotheses.  Reachable states in which no pass failed
   satisfy [good] and [rinv]; two of them over the same universe share event bodies; so the
   premises of the abstract voting theorems T3 / T4 hold. *)
From Coq Require Import ZArith List Bool Lia ZifyBool Permutation.
From RecordUpdate Require Import RecordSet.
From V Require Import Model.ZMap Model.Quorum Model.Voting Model.VotingRef Model.HgImpl
  Proofs.ZMapFacts Proofs.QuorumProofs Proofs.AdmissionProofs Proofs.Ancestry Proofs.BlockInv Proofs.RoundOrder
  Proofs.OrderProofs Proofs.VotingProofs Proofs.VotingTheorems Proofs.FameBridge Proofs.Static Proofs.FirstDesc Proofs.DivInv
  Proofs.CInvRun Proofs.Height Proofs.StronglySee Proofs.RoundFun Proofs.ViewOk Proofs.SameHistory.
Import ListNotations RecordSetNotations.
Open Scope Z_scope.

(** * Reachable states *)
Definition reachable (g : peerset) (all : list event) (st : hg) : Prop :=
  exists self_ oracle_ ops, Forall (hop_ok all) ops /\ st = hrun (init_hg self_ g oracle_) ops.

Lemma reach_good g all st :
  ids_determine all -> no_accept all -> reachable g all st -> failed st = false ->
  good g st /\ rinv st /\ from_attempts st all.
Proof.
  intros ID NA [self_ [oracle_ [ops [Hops ->]]]] Hf.
  destruct (hrun_reach g all self_ oracle_ ops ID NA Hops) as [Gi LA C].
  split; [|split].
  - constructor; [apply (g_dag _ _ (gi_core _ _ Gi))|exact LA|apply C; exact Hf|].
    eexists. apply (ginv_hmeasure all _ Gi Hf).
  - apply (proj2 (hrun_rtop self_ g oracle_ ops) Hf).
  - apply (g_from _ _ (gi_core _ _ Gi)).
Qed.

Lemma same_bodies_of_universe all g s1 s2 :
  ids_determine all -> good g s1 -> good g s2 -> from_attempts s1 all -> from_attempts s2 all ->
  same_bodies s1 s2.
Proof.
  intros ID G1 G2 F1 F2 x e1 e2 H1 H2.
  apply ID; [eapply F1; eauto|eapply F2; eauto|].
  rewrite (d_id _ (gd_dag _ _ G1) _ _ H1), (d_id _ (gd_dag _ _ G2) _ _ H2). reflexivity.
Qed.

(** * What a decision presupposes *)
Lemma fame_loop_no_witness P rw r : forall js votes,
  (forall j, In j js -> rw j = Some []) -> fame_loop P rw r js votes = Some None.
Proof.
  induction js as [|j rest IH]; intros votes H; cbn [fame_loop]; [reflexivity|].
  rewrite (H j (or_introl eq_refl)). cbn [fame_round_j]. apply IH. intros j' Hj'. apply H. right. exact Hj'.
Qed.

Lemma zrange_nil lo hi : hi < lo -> zrange lo hi = [].
Proof. intros H. unfold zrange. replace (Z.to_nat (hi - lo + 1)) with O by lia. reflexivity. Qed.
Lemma zrange_cons lo hi : lo <= hi -> zrange lo hi = lo :: zrange (lo + 1) hi.
Proof.
  intros H. unfold zrange. replace (Z.to_nat (hi - lo + 1)) with (S (Z.to_nat (hi - (lo + 1) + 1))) by lia.
  reflexivity.
Qed.

Section Pre.
  Variables (g : peerset) (st : hg).
  Hypothesis G : good g st.
  Hypothesis R : contig st.
  Let S : static g st := c_static _ _ _ (gd_c _ _ G).

  Lemma round_witnesses_wits j : 0 <= j <= last_round st -> round_witnesses st j = Some (wits st j).
  Proof.
    intros Hj. pose proof (round_witnesses_some g st G R j Hj) as H.
    pose proof (view_witnesses_wits g st G j) as E. unfold view_witnesses in E.
    destruct (round_witnesses st j); [congruence|contradiction].
  Qed.

  Lemma wits_empty_up j0 : 0 <= j0 -> wits st j0 = [] -> forall n j, j = j0 + Z.of_nat n -> wits st j = [].
  Proof.
    intros H0 E0. induction n as [|n IH]; intros j Hj; [replace j with j0 by lia; exact E0|].
    destruct (wits st j) as [|y l] eqn:E; [reflexivity|exfalso].
    assert (Hy : In y (wits st j)) by (rewrite E; left; reflexivity).
    apply (wits_spec g st G) in Hy. destruct Hy as [Hr _].
    destruct (c_rdom _ _ _ (gd_c _ _ G) y j Hr) as [_ [ey [Hey _]]].
    pose proof (quorum g st G y ey j Hey Hr ltac:(lia)) as Hq.
    rewrite (IH (j - 1) ltac:(lia)) in Hq. cbn in Hq. pose proof (super_majority_pos g). lia.
  Qed.

  Lemma no_validator_no_witness j : ps_len g < 1 -> wits st j = [].
  Proof.
    intros Hn. destruct (wits st j) as [|y l] eqn:E; [reflexivity|exfalso].
    assert (Hy : In y (wits st j)) by (rewrite E; left; reflexivity).
    apply (wits_spec g st G) in Hy. destruct Hy as [_ Hw].
    destruct (witness_true g st G y Hw) as [ey [r [spr [_ [_ [_ [_ Hm]]]]]]].
    apply mem_key_In in Hm. apply dedup_In in Hm. unfold ps_len in Hn.
    destruct (dedup (keys g)); [destruct Hm|cbn [length] in Hn; lia].
  Qed.

  Lemma fame_all_empty x r : -1 <= r -> (forall j, r + 1 <= j -> wits st j = []) -> fame_of st x r = Some None.
  Proof.
    intros Hr H. unfold fame_of. apply fame_loop_no_witness. intros j Hj. apply In_zrange in Hj.
    rewrite (round_witnesses_wits j ltac:(lia)). rewrite (H j ltac:(lia)). reflexivity.
  Qed.

  Lemma fame_decided_pre x r v : fame_of st x r = Some (Some v) ->
    1 <= ps_len g /\ -1 <= r <= last_round st /\ exists ex, get_event st x = Some ex.
  Proof.
    intros Hf.
    assert (Hlr : r + 1 <= last_round st).
    { destruct (Z.le_gt_cases (r + 1) (last_round st)); [assumption|].
      unfold fame_of in Hf. rewrite zrange_nil in Hf by lia. discriminate. }
    assert (Hr : -1 <= r).
    { destruct (Z.le_gt_cases (-1) r); [assumption|exfalso].
      unfold fame_of in Hf. rewrite (zrange_cons (r + 1)) in Hf by lia. cbn [fame_loop] in Hf.
      unfold round_witnesses, get_round in Hf. rewrite zget_neg in Hf by lia. discriminate. }
    split; [|split; [lia|]].
    - destruct (Z.le_gt_cases 1 (ps_len g)); [assumption|exfalso].
      rewrite (fame_all_empty x r Hr) in Hf; [discriminate|]. intros j _. apply no_validator_no_witness. lia.
    - destruct (get_event st x) as [ex|] eqn:Hx; [eauto|exfalso].
      destruct (wits st (r + 1)) as [|y l] eqn:E.
      + rewrite (fame_all_empty x r Hr) in Hf; [discriminate|].
        intros j Hj. apply (wits_empty_up (r + 1) ltac:(lia) E (Z.to_nat (j - (r + 1)))). lia.
      + unfold fame_of in Hf. rewrite (zrange_cons (r + 1)) in Hf by lia. cbn [fame_loop] in Hf.
        rewrite (round_witnesses_wits (r + 1) ltac:(lia)), E in Hf. cbn [fame_round_j] in Hf.
        replace (r + 1 - r =? 1) with true in Hf by lia.
        assert (Hy : In y (wits st (r + 1))) by (rewrite E; left; reflexivity).
        destruct (wits_stored g st G _ y Hy) as [ey Hey].
        unfold vparams_of in Hf. cbn [vp_sees] in Hf. unfold see, ancestor in Hf.
        destruct (Z.eqb_spec y x) as [->|Hne]; [congruence|]. rewrite Hey, Hx in Hf. discriminate.
  Qed.
End Pre.

(** * Agreement *)
Theorem fame_agreement_states g s1 s2 x r v1 v2 :
  good g s1 -> rinv s1 -> good g s2 -> rinv s2 -> same_bodies s1 s2 -> no_cross_fork s1 s2 ->
  fame_of s1 x r = Some (Some v1) -> fame_of s2 x r = Some (Some v2) -> v1 = v2.
Proof.
  intros G1 R1' G2 R2' SB NF F1 F2.
  pose proof (rinv_contig _ R1') as R1. pose proof (rinv_contig _ R2') as R2.
  destruct (fame_decided_pre g s1 G1 R1 x r v1 F1) as [Hn [Hr1 [e1x H1x]]].
  destruct (fame_decided_pre g s2 G2 R2 x r v2 F2) as [_ [Hr2 [e2x H2x]]].
  pose proof (view_ok_reach g s1 G1 R1 x r e1x Hn Hr1 H1x) as V1.
  pose proof (view_ok_reach g s2 G2 R2 x r e2x Hn Hr2 H2x) as V2.
  pose proof (same_history_reach g s1 s2 G1 G2 SB NF x r e1x e2x H1x H2x) as SH.
  assert (N1 : forall j, In j (zrange (r + 1) (last_round s1)) -> round_witnesses s1 j <> None).
  { intros j Hj. apply In_zrange in Hj. apply (round_witnesses_some g s1 G1 R1). lia. }
  assert (N2 : forall j, In j (zrange (r + 1) (last_round s2)) -> round_witnesses s2 j <> None).
  { intros j Hj. apply In_zrange in Hj. apply (round_witnesses_some g s2 G2 R2). lia. }
  apply (VOTE_T3_decisions_agree (ps_len g) r _ _ _ _ _ _ (GW s1 s2) v1 v2 V1 V2 SH).
  - rewrite <- (fame_of_as_view s1 x r N1). exact F1.
  - rewrite <- (fame_of_as_view s2 x r N2). exact F2.
Qed.

(* a decision reached by a node that knows fewer events is the decision of every node that
   knows more *)
Theorem fame_stable_states g s1 s2 x r v :
  good g s1 -> rinv s1 -> good g s2 -> rinv s2 -> same_bodies s1 s2 -> no_cross_fork s1 s2 ->
  (forall y e, get_event s1 y = Some e -> get_event s2 y <> None) ->
  fame_of s1 x r = Some (Some v) -> fame_of s2 x r = Some (Some v).
Proof.
  intros G1 R1' G2 R2' SB NF Sub F1.
  pose proof (rinv_contig _ R1') as R1. pose proof (rinv_contig _ R2') as R2.
  destruct (fame_decided_pre g s1 G1 R1 x r v F1) as [Hn [Hr1 [e1x H1x]]].
  destruct (get_event s2 x) as [e2x|] eqn:H2x; [|exfalso; apply (Sub x e1x H1x); exact H2x].
  (* the witnesses of s1 are witnesses of s2 *)
  assert (Incl : forall j, incl (wits s1 j) (wits s2 j)).
  { intros j w Hw. destruct (wits_stored g s1 G1 j w Hw) as [e1 He1].
    destruct (get_event s2 w) as [e2|] eqn:He2; [|exfalso; apply (Sub w e1 He1); exact He2].
    destruct (memo_agree g s1 s2 G1 G2 SB w e1 e2 He1 He2) as [Er Ew].
    apply (wits_spec g s1 G1) in Hw. apply (wits_spec g s2 G2). rewrite <- Er, <- Ew. exact Hw. }
  assert (HJ : last_round s1 <= last_round s2).
  { pose proof (r_lr _ (proj1 R2')). destruct (Z.le_gt_cases 0 (last_round s1)) as [H0|]; [|lia].
    assert (Hg : get_round s1 (last_round s1) <> None) by (apply R1; lia).
    pose proof (c_tabne _ _ _ (gd_c _ _ G1) _ Hg) as Hne.
    destruct (wl s1 (last_round s1)) as [|[y w] l] eqn:E; [contradiction|].
    assert (Hin : In (y, w) (wl s1 (last_round s1))) by (rewrite E; left; reflexivity).
    destruct (c_tab _ _ _ (gd_c _ _ G1) _ y w Hin) as [Hr Hw].
    destruct (c_rdom _ _ _ (gd_c _ _ G1) y _ Hr) as [_ [e1 [He1 _]]].
    destruct (get_event s2 y) as [e2|] eqn:He2; [|exfalso; apply (Sub y e1 He1); exact He2].
    destruct (memo_agree g s1 s2 G1 G2 SB y e1 e2 He1 He2) as [Er Ew]. rewrite Er in Hr. rewrite Ew in Hw.
    pose proof (c_tabc _ _ _ (gd_c _ _ G2) y _ w Hr Hw) as Hin2.
    assert (Hg2 : get_round s2 (last_round s1) <> None).
    { intros C. unfold wl in Hin2. rewrite C in Hin2. destruct Hin2. }
    apply R2 in Hg2. lia. }
  pose proof (view_ok_reach g s1 G1 R1 x r e1x Hn Hr1 H1x) as V1.
  pose proof (view_ok_reach g s2 G2 R2 x r e2x Hn ltac:(lia) H2x) as V2.
  pose proof (same_history_reach g s1 s2 G1 G2 SB NF x r e1x e2x H1x H2x) as SH.
  assert (N1 : forall j, In j (zrange (r + 1) (last_round s1)) -> round_witnesses s1 j <> None).
  { intros j Hj. apply In_zrange in Hj. apply (round_witnesses_some g s1 G1 R1). lia. }
  assert (N2 : forall j, In j (zrange (r + 1) (last_round s2)) -> round_witnesses s2 j <> None).
  { intros j Hj. apply In_zrange in Hj. apply (round_witnesses_some g s2 G2 R2). lia. }
  rewrite (fame_of_as_view s2 x r N2).
  apply (VOTE_T4_decision_monotone (ps_len g) r _ _ _ _ _ _ (GW s1 s2) v V1 V2 SH HJ).
  - intros j _. rewrite (view_witnesses_wits g s1 G1), (view_witnesses_wits g s2 G2). apply Incl.
  - rewrite <- (fame_of_as_view s1 x r N1). exact F1.
Qed.

(** * Lamport timestamps are a function of the ancestry *)
Lemma lt_agree_nat all s1 s2 : ginv all s1 -> ginv all s2 -> failed s1 = false -> failed s2 = false ->
  same_bodies s1 s2 -> forall n x e1 e2 t1,
  get_event s1 x = Some e1 -> get_event s2 x = Some e2 -> ev_lt e1 = Some t1 -> (Z.to_nat t1 < n)%nat ->
  ev_lt e2 = Some t1.
Proof.
  intros Gi1 Gi2 Hf1 Hf2 SB. induction n as [|n IH]; intros x e1 e2 t1 H1 H2 Ht1 Hn; [lia|].
  destruct (ev_lt e2) as [t2|] eqn:Ht2; [|exfalso; apply (gi_all _ _ Gi2 Hf2 x e2 H2 Ht2)].
  destruct (lamport_strict all s1 x e1 t1 Gi1 H1 Ht1) as [a1 [b1 [Ha1 [Hb1 [Ga1 [Gb1 E1]]]]]].
  destruct (lamport_strict all s2 x e2 t2 Gi2 H2 Ht2) as [a2 [b2 [Ha2 [Hb2 [Ga2 [Gb2 E2]]]]]].
  pose proof (SB x e1 e2 H1 H2) as Ee. rewrite <- Ee in Ha2, Hb2.
  assert (Hp : forall p c1 c2, parent_ts s1 p = Some c1 -> parent_ts s2 p = Some c2 -> c1 < t1 -> -1 <= c1 -> c1 = c2).
  { intros p c1 c2. unfold parent_ts. destruct (p =? -1); [congruence|].
    destruct (get_event s1 p) as [ep1|] eqn:Hp1; [|discriminate].
    destruct (get_event s2 p) as [ep2|] eqn:Hp2; [|discriminate].
    intros Hc1 Hc2 Hlt Hge.
    pose proof (g_l _ _ (gi_core _ _ Gi1)) as L1.
    pose proof (memo_consistent_nonneg s1 p c1 (l_memo _ L1) (l_ev _ L1 p ep1 c1 Hp1 Hc1)) as Hnn.
    rewrite (IH p ep1 ep2 c1 Hp1 Hp2 Hc1 ltac:(lia)) in Hc2. congruence. }
  assert (La : a1 < t1) by lia. assert (Lb : b1 < t1) by lia.
  pose proof (Hp _ a1 a2 Ha1 Ha2 La Ga1) as Ea. pose proof (Hp _ b1 b2 Hb1 Hb2 Lb Gb1) as Eb.
  f_equal. lia.
Qed.

(** * The statements for reachable states *)
Section Reachable.
  Variables (g : peerset) (all : list event).
  Hypothesis ID : ids_determine all.
  Hypothesis NA : no_accept all.

  Theorem reach_fame_agreement st1 st2 x r v1 v2 :
    reachable g all st1 -> reachable g all st2 -> failed st1 = false -> failed st2 = false ->
    no_cross_fork st1 st2 ->
    fame_of st1 x r = Some (Some v1) -> fame_of st2 x r = Some (Some v2) -> v1 = v2.
  Proof.
    intros Re1 Re2 Hf1 Hf2 NF.
    destruct (reach_good g all st1 ID NA Re1 Hf1) as [G1 [R1 FA1]].
    destruct (reach_good g all st2 ID NA Re2 Hf2) as [G2 [R2 FA2]].
    apply (fame_agreement_states g st1 st2 x r v1 v2 G1 R1 G2 R2); [|exact NF].
    apply (same_bodies_of_universe all g); assumption.
  Qed.

  Theorem reach_fame_stable st1 st2 x r v :
    reachable g all st1 -> reachable g all st2 -> failed st1 = false -> failed st2 = false ->
    no_cross_fork st1 st2 ->
    (forall y e, get_event st1 y = Some e -> get_event st2 y <> None) ->
    fame_of st1 x r = Some (Some v) -> fame_of st2 x r = Some (Some v).
  Proof.
    intros Re1 Re2 Hf1 Hf2 NF.
    destruct (reach_good g all st1 ID NA Re1 Hf1) as [G1 [R1 FA1]].
    destruct (reach_good g all st2 ID NA Re2 Hf2) as [G2 [R2 FA2]].
    apply (fame_stable_states g st1 st2 x r v G1 R1 G2 R2); [|exact NF].
    apply (same_bodies_of_universe all g); assumption.
  Qed.

  Theorem reach_round_agree st1 st2 x e1 e2 :
    reachable g all st1 -> reachable g all st2 -> failed st1 = false -> failed st2 = false ->
    get_event st1 x = Some e1 -> get_event st2 x = Some e2 ->
    ev_round e1 = ev_round e2 /\ ev_round e1 <> None /\
    zget x (round_memo st1) = zget x (round_memo st2) /\ zget x (witness_memo st1) = zget x (witness_memo st2).
  Proof.
    intros Re1 Re2 Hf1 Hf2 H1 H2.
    destruct (reach_good g all st1 ID NA Re1 Hf1) as [G1 [R1 FA1]].
    destruct (reach_good g all st2 ID NA Re2 Hf2) as [G2 [R2 FA2]].
    pose proof (same_bodies_of_universe all g st1 st2 ID G1 G2 FA1 FA2) as SB.
    destruct (memo_agree g st1 st2 G1 G2 SB x e1 e2 H1 H2) as [Er Ew].
    destruct (memo_of g st1 G1 x e1 H1) as [r1 [w1 [Hr1 [_ Hev1]]]].
    destruct (memo_of g st2 G2 x e2 H2) as [r2 [w2 [Hr2 [_ Hev2]]]].
    rewrite Hev1, Hev2. unfold rmemo, wmemo in *. repeat split; try congruence.
  Qed.

  Theorem reach_lamport_agree st1 st2 x e1 e2 :
    reachable g all st1 -> reachable g all st2 -> failed st1 = false -> failed st2 = false ->
    get_event st1 x = Some e1 -> get_event st2 x = Some e2 -> ev_lt e1 = ev_lt e2 /\ ev_lt e1 <> None.
  Proof.
    intros Re1 Re2 Hf1 Hf2 H1 H2.
    destruct (reach_good g all st1 ID NA Re1 Hf1) as [G1 [R1 FA1]].
    destruct (reach_good g all st2 ID NA Re2 Hf2) as [G2 [R2 FA2]].
    pose proof (same_bodies_of_universe all g st1 st2 ID G1 G2 FA1 FA2) as SB.
    destruct Re1 as [sf1 [o1 [ops1 [Ho1 ->]]]]. destruct Re2 as [sf2 [o2 [ops2 [Ho2 ->]]]].
    pose proof (hrun_ginv all sf1 g o1 ops1 ID Ho1) as Gi1. pose proof (hrun_ginv all sf2 g o2 ops2 ID Ho2) as Gi2.
    destruct (ev_lt e1) as [t1|] eqn:Ht1; [|exfalso; apply (gi_all _ _ Gi1 Hf1 x e1 H1 Ht1)].
    split; [|discriminate]. symmetry.
    apply (lt_agree_nat all _ _ Gi1 Gi2 Hf1 Hf2 SB (S (Z.to_nat t1)) x e1 e2 t1 H1 H2 Ht1). lia.
  Qed.

  Theorem reach_strongly_see_agree st1 st2 x w e1x e2x e1w e2w :
    reachable g all st1 -> reachable g all st2 -> failed st1 = false -> failed st2 = false ->
    get_event st1 x = Some e1x -> get_event st2 x = Some e2x ->
    get_event st1 w = Some e1w -> get_event st2 w = Some e2w ->
    strongly_see st1 x w g = strongly_see st2 x w g /\ strongly_see st1 x w g <> None.
  Proof.
    intros Re1 Re2 Hf1 Hf2 H1x H2x H1w H2w.
    destruct (reach_good g all st1 ID NA Re1 Hf1) as [G1 [R1 FA1]].
    destruct (reach_good g all st2 ID NA Re2 Hf2) as [G2 [R2 FA2]].
    pose proof (same_bodies_of_universe all g st1 st2 ID G1 G2 FA1 FA2) as SB.
    pose proof (ss_agree g st1 st2 G1 G2 SB x w e1x e2x e1w e2w H1x H2x H1w H2w) as E.
    unfold ss_true in E. revert E. unfold strongly_see. rewrite H1x, H2x, H1w, H2w.
    intros E. split; [|discriminate].
    destruct (super_majority g <=? ss_count (ev_la e1x) (ev_fd e1w) (dedup (keys g))),
             (super_majority g <=? ss_count (ev_la e2x) (ev_fd e2w) (dedup (keys g))); congruence.
  Qed.
End Reachable.

(** * Boolean forms of the premises on the universe *)
Definition no_acceptb (all : list event) : bool :=
  forallb (fun e => forallb (fun t => negb (itx_accept t)) (e_itxs e)) all.

Lemma no_acceptb_sound all : no_acceptb all = true -> no_accept all.
Proof.
  unfold no_acceptb. rewrite forallb_forall. intros H e t He Ht.
  specialize (H e He). rewrite forallb_forall in H. specialize (H t Ht).
  destruct (itx_accept t); [discriminate|reflexivity].
Qed.

(* no creator has two different events of one index in the universe *)
Definition fork_free (all : list event) : Prop :=
  forall e e', In e all -> In e' all -> e_creator e = e_creator e' -> e_index e = e_index e' -> e_id e = e_id e'.
Definition fork_freeb (all : list event) : bool :=
  forallb (fun e => forallb (fun e' =>
     implb ((e_creator e =? e_creator e') && (e_index e =? e_index e')) (e_id e =? e_id e')) all) all.

Lemma fork_freeb_sound all : fork_freeb all = true -> fork_free all.
Proof.
  unfold fork_freeb. rewrite forallb_forall. intros H e e' He He' Hc Hi.
  specialize (H e He). rewrite forallb_forall in H. specialize (H e' He').
  replace (e_creator e =? e_creator e') with true in H by lia.
  replace (e_index e =? e_index e') with true in H by lia. cbn in H. lia.
Qed.

Lemma no_cross_fork_of_universe all s1 s2 :
  fork_free all -> dag_ok s1 -> dag_ok s2 -> from_attempts s1 all -> from_attempts s2 all ->
  no_cross_fork s1 s2.
Proof.
  intros FF OK1 OK2 F1 F2 x1 x2 e1 e2 H1 H2 Hc Hi.
  rewrite <- (d_id _ OK1 _ _ H1), <- (d_id _ OK2 _ _ H2).
  apply FF; [eapply F1; eauto|eapply F2; eauto|exact Hc|exact Hi].
Qed.

(** * The final statements, on hrun *)
Lemma reachable_hrun g all self_ oracle_ ops :
  Forall (hop_ok all) ops -> reachable g all (hrun (init_hg self_ g oracle_) ops).
Proof. intros H. exists self_, oracle_, ops. auto. Qed.

Theorem fame_agreement_hrun : forall genesis all self1 self2 oracle1 oracle2 ops1 ops2 x r v1 v2,
  ids_determine all -> no_accept all -> Forall (hop_ok all) ops1 -> Forall (hop_ok all) ops2 ->
  let st1 := hrun (init_hg self1 genesis oracle1) ops1 in
  let st2 := hrun (init_hg self2 genesis oracle2) ops2 in
  failed st1 = false -> failed st2 = false -> no_cross_fork st1 st2 ->
  fame_of st1 x r = Some (Some v1) -> fame_of st2 x r = Some (Some v2) -> v1 = v2.
Proof.
  intros g all s1 s2 o1 o2 ops1 ops2 x r v1 v2 ID NA H1 H2 st1 st2 F1 F2 NF.
  apply (reach_fame_agreement g all ID NA st1 st2 x r v1 v2
           (reachable_hrun g all s1 o1 ops1 H1) (reachable_hrun g all s2 o2 ops2 H2) F1 F2 NF).
Qed.

Theorem fame_stable_hrun : forall genesis all self1 self2 oracle1 oracle2 ops1 ops2 x r v,
  ids_determine all -> no_accept all -> Forall (hop_ok all) ops1 -> Forall (hop_ok all) ops2 ->
  let st1 := hrun (init_hg self1 genesis oracle1) ops1 in
  let st2 := hrun (init_hg self2 genesis oracle2) ops2 in
  failed st1 = false -> failed st2 = false -> no_cross_fork st1 st2 ->
  (forall y e, get_event st1 y = Some e -> get_event st2 y <> None) ->
  fame_of st1 x r = Some (Some v) -> fame_of st2 x r = Some (Some v).
Proof.
  intros g all s1 s2 o1 o2 ops1 ops2 x r v ID NA H1 H2 st1 st2 F1 F2 NF.
  apply (reach_fame_stable g all ID NA st1 st2 x r v
           (reachable_hrun g all s1 o1 ops1 H1) (reachable_hrun g all s2 o2 ops2 H2) F1 F2 NF).
Qed.

(* with the fork-freedom premise on the universe instead of the two states *)
Theorem fame_agreement_universe : forall genesis all self1 self2 oracle1 oracle2 ops1 ops2 x r v1 v2,
  ids_determine all -> fork_free all -> no_accept all -> Forall (hop_ok all) ops1 -> Forall (hop_ok all) ops2 ->
  let st1 := hrun (init_hg self1 genesis oracle1) ops1 in
  let st2 := hrun (init_hg self2 genesis oracle2) ops2 in
  failed st1 = false -> failed st2 = false ->
  fame_of st1 x r = Some (Some v1) -> fame_of st2 x r = Some (Some v2) -> v1 = v2.
Proof.
  intros g all s1 s2 o1 o2 ops1 ops2 x r v1 v2 ID FF NA H1 H2 st1 st2 F1 F2.
  destruct (reach_good g all st1 ID NA (reachable_hrun g all s1 o1 ops1 H1) F1) as [G1 [_ FA1]].
  destruct (reach_good g all st2 ID NA (reachable_hrun g all s2 o2 ops2 H2) F2) as [G2 [_ FA2]].
  apply (fame_agreement_hrun g all s1 s2 o1 o2 ops1 ops2 x r v1 v2 ID NA H1 H2 F1 F2).
  apply (no_cross_fork_of_universe all); auto; [apply (gd_dag _ _ G1)|apply (gd_dag _ _ G2)].
Qed.

Theorem round_function_of_ancestry_hrun : forall genesis all self1 self2 oracle1 oracle2 ops1 ops2 x e1 e2,
  ids_determine all -> no_accept all -> Forall (hop_ok all) ops1 -> Forall (hop_ok all) ops2 ->
  let st1 := hrun (init_hg self1 genesis oracle1) ops1 in
  let st2 := hrun (init_hg self2 genesis oracle2) ops2 in
  failed st1 = false -> failed st2 = false ->
  get_event st1 x = Some e1 -> get_event st2 x = Some e2 ->
  ev_round e1 = ev_round e2 /\ ev_round e1 <> None /\
  zget x (round_memo st1) = zget x (round_memo st2) /\ zget x (witness_memo st1) = zget x (witness_memo st2).
Proof.
  intros g all s1 s2 o1 o2 ops1 ops2 x e1 e2 ID NA H1 H2 st1 st2 F1 F2.
  apply (reach_round_agree g all ID NA st1 st2 x e1 e2
           (reachable_hrun g all s1 o1 ops1 H1) (reachable_hrun g all s2 o2 ops2 H2) F1 F2).
Qed.

Theorem lamport_function_of_ancestry_hrun : forall genesis all self1 self2 oracle1 oracle2 ops1 ops2 x e1 e2,
  ids_determine all -> no_accept all -> Forall (hop_ok all) ops1 -> Forall (hop_ok all) ops2 ->
  let st1 := hrun (init_hg self1 genesis oracle1) ops1 in
  let st2 := hrun (init_hg self2 genesis oracle2) ops2 in
  failed st1 = false -> failed st2 = false ->
  get_event st1 x = Some e1 -> get_event st2 x = Some e2 -> ev_lt e1 = ev_lt e2 /\ ev_lt e1 <> None.
Proof.
  intros g all s1 s2 o1 o2 ops1 ops2 x e1 e2 ID NA H1 H2 st1 st2 F1 F2.
  apply (reach_lamport_agree g all ID NA st1 st2 x e1 e2
           (reachable_hrun g all s1 o1 ops1 H1) (reachable_hrun g all s2 o2 ops2 H2) F1 F2).
Qed.

Theorem strongly_see_function_of_ancestry_hrun :
  forall genesis all self1 self2 oracle1 oracle2 ops1 ops2 x w e1x e2x e1w e2w,
  ids_determine all -> no_accept all -> Forall (hop_ok all) ops1 -> Forall (hop_ok all) ops2 ->
  let st1 := hrun (init_hg self1 genesis oracle1) ops1 in
  let st2 := hrun (init_hg self2 genesis oracle2) ops2 in
  failed st1 = false -> failed st2 = false ->
  get_event st1 x = Some e1x -> get_event st2 x = Some e2x ->
  get_event st1 w = Some e1w -> get_event st2 w = Some e2w ->
  strongly_see st1 x w genesis = strongly_see st2 x w genesis /\ strongly_see st1 x w genesis <> None.
Proof.
  intros g all s1 s2 o1 o2 ops1 ops2 x w e1x e2x e1w e2w ID NA H1 H2 st1 st2 F1 F2.
  apply (reach_strongly_see_agree g all ID NA st1 st2 x w e1x e2x e1w e2w
           (reachable_hrun g all s1 o1 ops1 H1) (reachable_hrun g all s2 o2 ops2 H2) F1 F2).
Qed.

(* the premises of the partial theorems of Properties/C01.v hold in every reachable state *)
Theorem view_ok_hrun : forall genesis all self_ oracle_ ops x r ex,
  ids_determine all -> no_accept all -> Forall (hop_ok all) ops ->
  let st := hrun (init_hg self_ genesis oracle_) ops in
  failed st = false -> 1 <= ps_len genesis -> -1 <= r <= last_round st -> get_event st x = Some ex ->
  view_ok (ps_len genesis) r (vparams_of st x) (view_witnesses st) (last_round st) /\
  (forall j, In j (zrange (r + 1) (last_round st)) -> round_witnesses st j <> None).
Proof.
  intros g all s o ops x r ex ID NA H st F Hn Hr Hx.
  destruct (reach_good g all st ID NA (reachable_hrun g all s o ops H) F) as [G [R _]].
  split; [apply (view_ok_reach g st G (rinv_contig _ R) x r ex Hn Hr Hx)|].
  intros j Hj. apply In_zrange in Hj. apply (round_witnesses_some g st G (rinv_contig _ R)). lia.
Qed.

Lemma In_firstn {A} (x : A) n : forall l, In x (firstn n l) -> In x l.
Proof.
  induction n as [|n IH]; intros l H; [destruct H|]. destruct l as [|a l]; [destruct H|].
  cbn [firstn] in H. destruct H as [->|H]; [left; reflexivity|right; apply IH; exact H].
Qed.

Lemma hop_ok_inserts_firstn all n :
  forallb (fun e => 0 <=? e_id e) all = true -> Forall (hop_ok all) (map HInsert (firstn n all)).
Proof.
  intros H. apply Forall_forall. intros o Ho. apply in_map_iff in Ho. destruct Ho as [e [<- He]].
  apply In_firstn in He. cbn. split; [exact He|]. rewrite forallb_forall in H. specialize (H e He). lia.
Qed.

(* round and timestamp of a shared event, as one observation *)
Theorem obs_agree_hrun : forall genesis all self1 self2 oracle1 oracle2 ops1 ops2 x,
  ids_determine all -> no_accept all -> Forall (hop_ok all) ops1 -> Forall (hop_ok all) ops2 ->
  let st1 := hrun (init_hg self1 genesis oracle1) ops1 in
  let st2 := hrun (init_hg self2 genesis oracle2) ops2 in
  failed st1 = false -> failed st2 = false ->
  get_event st1 x <> None -> get_event st2 x <> None ->
  option_map (fun e => (ev_round e, ev_lt e)) (get_event st1 x) =
  option_map (fun e => (ev_round e, ev_lt e)) (get_event st2 x).
Proof.
  intros g all s1 s2 o1 o2 ops1 ops2 x ID NA H1 H2 st1 st2 F1 F2 N1 N2.
  destruct (get_event st1 x) as [e1|] eqn:E1; [|contradiction].
  destruct (get_event st2 x) as [e2|] eqn:E2; [|contradiction].
  destruct (round_function_of_ancestry_hrun g all s1 s2 o1 o2 ops1 ops2 x e1 e2 ID NA H1 H2 F1 F2 E1 E2) as [A _].
  destruct (lamport_function_of_ancestry_hrun g all s1 s2 o1 o2 ops1 ops2 x e1 e2 ID NA H1 H2 F1 F2 E1 E2) as [B _].
  cbn [option_map]. fold st1 st2 in A, B. congruence.
Qed.
