(* Dynamic membership, fame level (model after fix 05eda0b: quorum of voting round j = super-majority of the
   voters' set, round j - 1).  Two states satisfying the division invariant for one per-round assignment P, whose
   tables answer P on the rounds they have, never decide the fame of a witness differently; run level: two nodes that
   respect the distance bound and whose tables agree on the rounds both have.  Adapted from Proofs/Agreement.v. *)
From Coq Require Import ZArith List Bool Lia ZifyBool Permutation.
From V Require Import Model.ZMap Model.Quorum Model.Voting Model.VotingRef Model.VotingRefD Model.HgImpl Model.PeerSetSpec Model.Window
  Proofs.ZMapFacts Proofs.QuorumProofs Proofs.AdmissionProofs Proofs.Ancestry Proofs.BlockInv Proofs.RoundOrder Proofs.OrderProofs
  Proofs.VotingProofs Proofs.VotingProofsD Proofs.FameBridge Proofs.Static Proofs.FirstDesc Proofs.DivInv Proofs.Height
  Proofs.StronglySee Proofs.RoundFun Proofs.ViewOk Proofs.SameHistory Proofs.Agreement Proofs.PeerSetProofs Proofs.GapWindow
  Proofs.FirstDescD Proofs.CInvRunD Proofs.StronglySeeD Proofs.RoundFunD Proofs.RoundAgreeD Proofs.ViewOkD Proofs.SameHistoryD.
Import ListNotations.
Open Scope Z_scope.

(** * The invariant only reads P on the rounds the state has *)
Lemma wl_in_round st r x w : In (x, w) (wl st r) -> get_round st r <> None.
Proof. unfold wl. destruct (get_round st r); [discriminate|intros []]. Qed.

Lemma cinvD_ext P P' E st :
  (forall q, get_round st q <> None -> P q = P' q) -> cinvD P E st -> cinvD P' E st.
Proof.
  intros HP I. destruct I as [I1 I2 I3 I4 I5 I6 I7 I8 I9 I10 I11 I12 I13 I14].
  constructor; auto.
  - intros x r Hr. destruct (I3 x r Hr) as [H0 [ex [Hx [spr [opr [Hs [Ho [Hz Hq]]]]]]]].
    split; [exact H0|]. exists ex. split; [exact Hx|]. exists spr, opr. repeat split; auto.
    + apply (Hq H).
    + destruct (Hq H) as [Hg ->]. rewrite (HP _ Hg). reflexivity.
  - intros x w Hw. destruct (I4 x w Hw) as [ex [r [Hx [Hr Hq]]]].
    exists ex, r. split; [exact Hx|]. split; [exact Hr|].
    rewrite <- (HP r (wl_in_round st r x w (I8 x r w Hr Hw))). exact Hq.
Qed.

Lemma goodD_ext P P' st : (forall q, get_round st q <> None -> P q = P' q) -> goodD P st -> goodD P' st.
Proof. intros HP [A B C D]. constructor; auto. apply (cinvD_ext P P' None st HP C). Qed.

Section PreD.
  Variables (P : Z -> peerset) (st : hg).
  Hypothesis G : goodD P st.
  Hypothesis R : contig st.
  Hypothesis T : forall q, 0 <= q <= last_round st -> get_peerset st q = Some (P q).

  Lemma round_witnesses_witsD j : 0 <= j <= last_round st -> round_witnesses st j = Some (wits st j).
  Proof.
    intros Hj. pose proof (round_witnesses_someD P st R T j Hj) as H.
    pose proof (view_witnesses_witsD P st T j Hj) as E. unfold view_witnesses in E.
    destruct (round_witnesses st j); [congruence|contradiction].
  Qed.

  Lemma wits_empty_upD j0 : 0 <= j0 -> wits st j0 = [] -> forall n j, j = j0 + Z.of_nat n -> wits st j = [].
  Proof.
    intros H0 E0. induction n as [|n IH]; intros j Hj; [replace j with j0 by lia; exact E0|].
    destruct (wits st j) as [|y l] eqn:E; [reflexivity|exfalso].
    assert (Hy : In y (wits st j)) by (rewrite E; left; reflexivity).
    apply (wits_specD P st G) in Hy. destruct Hy as [Hr _].
    destruct (cd_rdom _ _ _ (gD_c _ _ G) y j Hr) as [_ [ey [Hey _]]].
    pose proof (quorumD P st G y ey j Hey Hr ltac:(lia)) as Hq.
    rewrite (IH (j - 1) ltac:(lia)) in Hq. cbn in Hq. pose proof (super_majority_pos (P (j - 1))). lia.
  Qed.

  Lemma fame_all_emptyD x r : -1 <= r -> (forall j, r + 1 <= j -> wits st j = []) -> fame_of st x r = Some None.
  Proof.
    intros Hr H. unfold fame_of. apply fame_loop_no_witness. intros j Hj. apply In_zrange in Hj.
    rewrite (round_witnesses_witsD j ltac:(lia)). rewrite (H j ltac:(lia)). reflexivity.
  Qed.

  Lemma fame_decided_preD x r v : fame_of st x r = Some (Some v) ->
    -1 <= r <= last_round st /\ exists ex, get_event st x = Some ex.
  Proof.
    intros Hf.
    assert (Hlr : r + 1 <= last_round st).
    { destruct (Z.le_gt_cases (r + 1) (last_round st)); [assumption|].
      unfold fame_of in Hf. rewrite zrange_nil in Hf by lia. discriminate. }
    assert (Hr : -1 <= r).
    { destruct (Z.le_gt_cases (-1) r); [assumption|exfalso].
      unfold fame_of in Hf. rewrite (zrange_cons (r + 1)) in Hf by lia. cbn [fame_loop] in Hf.
      unfold round_witnesses, get_round in Hf. rewrite zget_neg in Hf by lia. discriminate. }
    split; [lia|].
    destruct (get_event st x) as [ex|] eqn:Hx; [eauto|exfalso].
    destruct (wits st (r + 1)) as [|y l] eqn:E.
    + rewrite (fame_all_emptyD x r Hr) in Hf; [discriminate|].
      intros j Hj. apply (wits_empty_upD (r + 1) ltac:(lia) E (Z.to_nat (j - (r + 1)))). lia.
    + unfold fame_of in Hf. rewrite (zrange_cons (r + 1)) in Hf by lia. cbn [fame_loop] in Hf.
      rewrite (round_witnesses_witsD (r + 1) ltac:(lia)), E in Hf. cbn [fame_round_j] in Hf.
      replace (r + 1 - r =? 1) with true in Hf by lia.
      assert (Hy : In y (wits st (r + 1))) by (rewrite E; left; reflexivity).
      destruct (wits_storedD P st G _ y Hy) as [ey Hey].
      unfold vparams_of in Hf. cbn [vp_sees] in Hf. unfold see, ancestor in Hf.
      destruct (Z.eqb_spec y x) as [->|Hne]; [congruence|]. rewrite Hey, Hx in Hf. discriminate.
  Qed.
End PreD.

(** * Agreement of the fame decisions, two states, one assignment P *)
Theorem fame_agreement_statesD P s1 s2 x r v1 v2 :
  goodD P s1 -> rinv s1 -> (forall q, 0 <= q <= last_round s1 -> get_peerset s1 q = Some (P q)) ->
  goodD P s2 -> rinv s2 -> (forall q, 0 <= q <= last_round s2 -> get_peerset s2 q = Some (P q)) ->
  same_bodies s1 s2 -> no_cross_fork s1 s2 ->
  fame_of s1 x r = Some (Some v1) -> fame_of s2 x r = Some (Some v2) -> v1 = v2.
Proof.
  intros G1 R1' T1 G2 R2' T2 SB NF F1 F2.
  pose proof (rinv_contig _ R1') as R1. pose proof (rinv_contig _ R2') as R2.
  destruct (fame_decided_preD P s1 G1 R1 T1 x r v1 F1) as [Hr1 [e1x H1x]].
  destruct (fame_decided_preD P s2 G2 R2 T2 x r v2 F2) as [Hr2 [e2x H2x]].
  pose proof (view_ok_reachD P s1 G1 R1 T1 x r e1x Hr1 H1x) as V1.
  pose proof (view_ok_reachD P s2 G2 R2 T2 x r e2x Hr2 H2x) as V2.
  pose proof (same_history_reachD P s1 s2 G1 G2 SB NF R1 R2 T1 T2 x r e1x e2x ltac:(lia) H1x H2x) as SH.
  assert (N1 : forall j, In j (zrange (r + 1) (last_round s1)) -> round_witnesses s1 j <> None).
  { intros j Hj. apply In_zrange in Hj. apply (round_witnesses_someD P s1 R1 T1). lia. }
  assert (N2 : forall j, In j (zrange (r + 1) (last_round s2)) -> round_witnesses s2 j <> None).
  { intros j Hj. apply In_zrange in Hj. apply (round_witnesses_someD P s2 R2 T2). lia. }
  apply (decisions_agreeD (nD P) r _ _ _ _ _ _ (GWD s1 s2) v1 v2 V1 V2 SH).
  - rewrite <- (fame_of_as_view s1 x r N1). exact F1.
  - rewrite <- (fame_of_as_view s2 x r N2). exact F2.
Qed.

(** * Run level: two nodes that respect the distance bound *)
Lemma psat_some self_ genesis oracle_ ops q : self_ <> -1 ->
  get_peerset (hrun (init_hg self_ genesis oracle_) ops) q = Some (psat (hrun (init_hg self_ genesis oracle_) ops) q).
Proof.
  intros Hs. destruct (hrun_c10inv self_ genesis oracle_ ops Hs) as [_ C10].
  destruct (get_nonempty q (peersets (hrun (init_hg self_ genesis oracle_) ops)) (table_wf_nonempty _ (c_wf _ _ C10))) as [ps Hps].
  unfold psat, get_peerset. rewrite Hps. reflexivity.
Qed.

Lemma tables_agree_sym st1 st2 : tables_agree st1 st2 -> tables_agree st2 st1.
Proof. intros T q A B. symmetry. apply T; assumption. Qed.

Section TwoRunsD.
  Variables (all : list event) (s1 s2 : Z) (g1 g2 : peerset) (o1 o2 : list Z) (ops1 ops2 : list hop).
  Hypothesis ID : ids_determine all.
  Hypothesis S1 : s1 <> -1.
  Hypothesis S2 : s2 <> -1.
  Hypothesis H1 : Forall (hop_ok all) ops1.
  Hypothesis H2 : Forall (hop_ok all) ops2.
  Hypothesis B1 : gap_runb (init_hg s1 g1 o1) ops1 = true.
  Hypothesis B2 : gap_runb (init_hg s2 g2 o2) ops2 = true.
  Let st1 := hrun (init_hg s1 g1 o1) ops1.
  Let st2 := hrun (init_hg s2 g2 o2) ops2.
  Hypothesis F1 : failed st1 = false.
  Hypothesis F2 : failed st2 = false.
  Hypothesis T : tables_agree st1 st2.
  Hypothesis NF : no_cross_fork st1 st2.

  Theorem gap_fame_agreement x r v1 v2 :
    fame_of st1 x r = Some (Some v1) -> fame_of st2 x r = Some (Some v2) -> v1 = v2.
  Proof.
    intros E1 E2.
    destruct (gap_goodD s1 g1 o1 all ops1 S1 ID H1 B1 F1) as [G1 FA1].
    destruct (gap_goodD s2 g2 o2 all ops2 S2 ID H2 B2 F2) as [G2 FA2].
    fold st1 in G1, FA1. fold st2 in G2, FA2.
    pose proof (proj2 (hrun_rtop s1 g1 o1 ops1) F1) as R1. fold st1 in R1.
    pose proof (proj2 (hrun_rtop s2 g2 o2 ops2) F2) as R2. fold st2 in R2.
    pose proof (rinv_contig _ R1) as C1. pose proof (rinv_contig _ R2) as C2.
    pose proof (same_bodies_of_universeD all _ _ st1 st2 ID G1 G2 FA1 FA2) as SB.
    assert (PS1 : forall q, get_peerset st1 q = Some (psat st1 q)) by (intros q; apply psat_some; exact S1).
    assert (PS2 : forall q, get_peerset st2 q = Some (psat st2 q)) by (intros q; apply psat_some; exact S2).
    destruct (Z_le_gt_dec (last_round st1) (last_round st2)) as [Hle|Hgt].
    - (* the table of the node that is ahead *)
      assert (EQ : forall q, get_round st1 q <> None -> psat st1 q = psat st2 q).
      { intros q Hq. apply (tables_agree_psat st1 st2 T q Hq). apply C2. apply C1 in Hq. lia. }
      apply (fame_agreement_statesD (psat st2) st1 st2 x r v1 v2); auto.
      + apply (goodD_ext (psat st1) (psat st2) st1 EQ G1).
      + intros q Hq. rewrite PS1. f_equal. apply EQ. apply C1. exact Hq.
    - assert (EQ : forall q, get_round st2 q <> None -> psat st2 q = psat st1 q).
      { intros q Hq. symmetry. apply (tables_agree_psat st1 st2 T q); [|exact Hq]. apply C1. apply C2 in Hq. lia. }
      apply (fame_agreement_statesD (psat st1) st1 st2 x r v1 v2); auto.
      + apply (goodD_ext (psat st2) (psat st1) st2 EQ G2).
      + intros q Hq. rewrite PS2. f_equal. apply EQ. apply C2. exact Hq.
  Qed.
End TwoRunsD.

(* the same over a fork-free universe of events (each creator has at most one event per index) *)
Theorem gap_fame_agreement_universe all s1 s2 g1 g2 o1 o2 ops1 ops2 x r v1 v2 :
  ids_determine all -> fork_free all -> s1 <> -1 -> s2 <> -1 ->
  Forall (hop_ok all) ops1 -> Forall (hop_ok all) ops2 ->
  gap_runb (init_hg s1 g1 o1) ops1 = true -> gap_runb (init_hg s2 g2 o2) ops2 = true ->
  failed (hrun (init_hg s1 g1 o1) ops1) = false -> failed (hrun (init_hg s2 g2 o2) ops2) = false ->
  tables_agree (hrun (init_hg s1 g1 o1) ops1) (hrun (init_hg s2 g2 o2) ops2) ->
  fame_of (hrun (init_hg s1 g1 o1) ops1) x r = Some (Some v1) ->
  fame_of (hrun (init_hg s2 g2 o2) ops2) x r = Some (Some v2) -> v1 = v2.
Proof.
  intros ID FF S1 S2 H1 H2 B1 B2 F1 F2 T.
  destruct (gap_goodD s1 g1 o1 all ops1 S1 ID H1 B1 F1) as [G1 FA1].
  destruct (gap_goodD s2 g2 o2 all ops2 S2 ID H2 B2 F2) as [G2 FA2].
  apply (gap_fame_agreement all s1 s2 g1 g2 o1 o2 ops1 ops2 ID S1 S2 H1 H2 B1 B2 F1 F2 T).
  apply (no_cross_fork_of_universe all _ _ FF (gD_dag _ _ G1) (gD_dag _ _ G2) FA1 FA2).
Qed.

(** * A decision reached by a node that knows fewer events is the decision of every node that knows more *)
Theorem fame_stable_statesD P s1 s2 x r v :
  goodD P s1 -> rinv s1 -> (forall q, 0 <= q <= last_round s1 -> get_peerset s1 q = Some (P q)) ->
  goodD P s2 -> rinv s2 -> (forall q, 0 <= q <= last_round s2 -> get_peerset s2 q = Some (P q)) ->
  same_bodies s1 s2 -> no_cross_fork s1 s2 ->
  (forall y e, get_event s1 y = Some e -> get_event s2 y <> None) ->
  fame_of s1 x r = Some (Some v) -> fame_of s2 x r = Some (Some v).
Proof.
  intros G1 R1' T1 G2 R2' T2 SB NF Sub F1.
  pose proof (rinv_contig _ R1') as R1. pose proof (rinv_contig _ R2') as R2.
  destruct (fame_decided_preD P s1 G1 R1 T1 x r v F1) as [Hr1 [e1x H1x]].
  destruct (get_event s2 x) as [e2x|] eqn:H2x; [|exfalso; apply (Sub x e1x H1x); exact H2x].
  assert (Incl : forall j, incl (wits s1 j) (wits s2 j)).
  { intros j w Hw. destruct (wits_storedD P s1 G1 j w Hw) as [e1 He1].
    destruct (get_event s2 w) as [e2|] eqn:He2; [|exfalso; apply (Sub w e1 He1); exact He2].
    destruct (memo_agreeD P P s1 s2 G1 G2 SB (fun q _ _ => eq_refl) w e1 e2 He1 He2) as [Er Ew].
    apply (wits_specD P s1 G1) in Hw. apply (wits_specD P s2 G2). rewrite <- Er, <- Ew. exact Hw. }
  assert (HJ : last_round s1 <= last_round s2).
  { pose proof (r_lr _ (proj1 R2')). destruct (Z.le_gt_cases 0 (last_round s1)) as [H0|]; [|lia].
    assert (Hg : get_round s1 (last_round s1) <> None) by (apply R1; lia).
    pose proof (cd_tabne _ _ _ (gD_c _ _ G1) _ Hg) as Hne.
    destruct (wl s1 (last_round s1)) as [|[y w] l] eqn:E; [contradiction|].
    assert (Hin : In (y, w) (wl s1 (last_round s1))) by (rewrite E; left; reflexivity).
    destruct (cd_tab _ _ _ (gD_c _ _ G1) _ y w Hin) as [Hr Hw].
    destruct (cd_rdom _ _ _ (gD_c _ _ G1) y _ Hr) as [_ [e1 [He1 _]]].
    destruct (get_event s2 y) as [e2|] eqn:He2; [|exfalso; apply (Sub y e1 He1); exact He2].
    destruct (memo_agreeD P P s1 s2 G1 G2 SB (fun q _ _ => eq_refl) y e1 e2 He1 He2) as [Er Ew]. rewrite Er in Hr. rewrite Ew in Hw.
    pose proof (cd_tabc _ _ _ (gD_c _ _ G2) y _ w Hr Hw) as Hin2.
    assert (Hg2 : get_round s2 (last_round s1) <> None) by (apply (wl_in_round _ _ _ _ Hin2)).
    apply R2 in Hg2. lia. }
  pose proof (view_ok_reachD P s1 G1 R1 T1 x r e1x Hr1 H1x) as V1.
  pose proof (view_ok_reachD P s2 G2 R2 T2 x r e2x ltac:(lia) H2x) as V2.
  pose proof (same_history_reachD P s1 s2 G1 G2 SB NF R1 R2 T1 T2 x r e1x e2x ltac:(lia) H1x H2x) as SH.
  assert (N1 : forall j, In j (zrange (r + 1) (last_round s1)) -> round_witnesses s1 j <> None).
  { intros j Hj. apply In_zrange in Hj. apply (round_witnesses_someD P s1 R1 T1). lia. }
  assert (N2 : forall j, In j (zrange (r + 1) (last_round s2)) -> round_witnesses s2 j <> None).
  { intros j Hj. apply In_zrange in Hj. apply (round_witnesses_someD P s2 R2 T2). lia. }
  rewrite (fame_of_as_view s2 x r N2).
  apply (decision_monotoneD (nD P) r _ _ _ _ _ _ (GWD s1 s2) v V1 V2 SH HJ).
  - intros j Hj. rewrite (view_witnesses_witsD P s1 T1) by lia. rewrite (view_witnesses_witsD P s2 T2) by lia. apply Incl.
  - rewrite <- (fame_of_as_view s1 x r N1). exact F1.
Qed.

(** * Two runs under the distance bound: one assignment P for both *)
Lemma two_runs_common all s1 s2 g1 g2 o1 o2 ops1 ops2 :
  ids_determine all -> s1 <> -1 -> s2 <> -1 ->
  Forall (hop_ok all) ops1 -> Forall (hop_ok all) ops2 ->
  gap_runb (init_hg s1 g1 o1) ops1 = true -> gap_runb (init_hg s2 g2 o2) ops2 = true ->
  let st1 := hrun (init_hg s1 g1 o1) ops1 in
  let st2 := hrun (init_hg s2 g2 o2) ops2 in
  failed st1 = false -> failed st2 = false -> tables_agree st1 st2 ->
  exists P,
    goodD P st1 /\ goodD P st2 /\ rinv st1 /\ rinv st2 /\
    (forall q, 0 <= q <= last_round st1 -> get_peerset st1 q = Some (P q)) /\
    (forall q, 0 <= q <= last_round st2 -> get_peerset st2 q = Some (P q)) /\
    same_bodies st1 st2.
Proof.
  intros ID S1 S2 H1 H2 B1 B2 st1 st2 F1 F2 T.
  destruct (gap_goodD s1 g1 o1 all ops1 S1 ID H1 B1 F1) as [G1 FA1].
  destruct (gap_goodD s2 g2 o2 all ops2 S2 ID H2 B2 F2) as [G2 FA2].
  fold st1 in G1, FA1. fold st2 in G2, FA2.
  pose proof (proj2 (hrun_rtop s1 g1 o1 ops1) F1) as R1. fold st1 in R1.
  pose proof (proj2 (hrun_rtop s2 g2 o2 ops2) F2) as R2. fold st2 in R2.
  pose proof (rinv_contig _ R1) as C1. pose proof (rinv_contig _ R2) as C2.
  pose proof (same_bodies_of_universeD all _ _ st1 st2 ID G1 G2 FA1 FA2) as SB.
  assert (PS1 : forall q, get_peerset st1 q = Some (psat st1 q)) by (intros q; apply psat_some; exact S1).
  assert (PS2 : forall q, get_peerset st2 q = Some (psat st2 q)) by (intros q; apply psat_some; exact S2).
  destruct (Z_le_gt_dec (last_round st1) (last_round st2)) as [Hle|Hgt].
  - assert (EQ : forall q, get_round st1 q <> None -> psat st1 q = psat st2 q).
    { intros q Hq. apply (tables_agree_psat st1 st2 T q Hq). apply C2. apply C1 in Hq. lia. }
    exists (psat st2). repeat (split; [first [assumption|apply (goodD_ext (psat st1) (psat st2) st1 EQ G1)]|]).
    split; [|split; [intros q _; apply PS2|exact SB]].
    intros q Hq. rewrite PS1. f_equal. apply EQ. apply C1. exact Hq.
  - assert (EQ : forall q, get_round st2 q <> None -> psat st2 q = psat st1 q).
    { intros q Hq. symmetry. apply (tables_agree_psat st1 st2 T q); [|exact Hq]. apply C1. apply C2 in Hq. lia. }
    exists (psat st1). split; [exact G1|]. split; [apply (goodD_ext (psat st2) (psat st1) st2 EQ G2)|].
    split; [exact R1|]. split; [exact R2|]. split; [intros q _; apply PS1|]. split; [|exact SB].
    intros q Hq. rewrite PS2. f_equal. apply EQ. apply C2. exact Hq.
Qed.
