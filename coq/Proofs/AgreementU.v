(* The statements of Proofs/Agreement.v without the premise "no pass failed": by Proofs/NoFail.v it
   holds in every reachable state under static membership. *)
From Coq Require Import ZArith List Bool.
From V Require Import Model.ZMap Model.Quorum Model.Voting Model.VotingRef Model.HgImpl
  Proofs.AdmissionProofs Proofs.BlockInv Proofs.OrderProofs Proofs.VotingProofs Proofs.FameBridge
  Proofs.Static Proofs.FirstDesc Proofs.CInvRun Proofs.SameHistory Proofs.Agreement Proofs.NoFail.
Import ListNotations.
Open Scope Z_scope.

Section U.
  Variables (genesis : peerset) (all : list event).
  Hypothesis ID : ids_determine all.
  Hypothesis NA : no_accept all.
  Variables (self1 self2 : Z) (oracle1 oracle2 : list Z) (ops1 ops2 : list hop).
  Hypothesis H1 : Forall (hop_ok all) ops1.
  Hypothesis H2 : Forall (hop_ok all) ops2.
  Let st1 := hrun (init_hg self1 genesis oracle1) ops1.
  Let st2 := hrun (init_hg self2 genesis oracle2) ops2.
  Let F1 : failed st1 = false := hrun_not_failed genesis all self1 oracle1 ops1 ID NA H1.
  Let F2 : failed st2 = false := hrun_not_failed genesis all self2 oracle2 ops2 ID NA H2.

  Lemma u_cinv : cinv genesis None st1.
  Proof. exact (nf_c _ _ _ (hrun_nf genesis all self1 oracle1 ops1 ID NA H1)). Qed.

  Lemma u_view_ok x r ex : 1 <= ps_len genesis -> -1 <= r <= last_round st1 -> get_event st1 x = Some ex ->
    view_ok (ps_len genesis) r (vparams_of st1 x) (view_witnesses st1) (last_round st1) /\
    (forall j, In j (zrange (r + 1) (last_round st1)) -> round_witnesses st1 j <> None).
  Proof. exact (view_ok_hrun genesis all self1 oracle1 ops1 x r ex ID NA H1 F1). Qed.

  Lemma u_fame_agreement x r v1 v2 : no_cross_fork st1 st2 ->
    fame_of st1 x r = Some (Some v1) -> fame_of st2 x r = Some (Some v2) -> v1 = v2.
  Proof. exact (fame_agreement_hrun genesis all self1 self2 oracle1 oracle2 ops1 ops2 x r v1 v2 ID NA H1 H2 F1 F2). Qed.

  Lemma u_fame_agreement_universe x r v1 v2 : fork_free all ->
    fame_of st1 x r = Some (Some v1) -> fame_of st2 x r = Some (Some v2) -> v1 = v2.
  Proof.
    exact (fun FF => fame_agreement_universe genesis all self1 self2 oracle1 oracle2 ops1 ops2 x r v1 v2 ID FF NA H1 H2 F1 F2).
  Qed.

  Lemma u_fame_stable x r v : no_cross_fork st1 st2 ->
    (forall y e, get_event st1 y = Some e -> get_event st2 y <> None) ->
    fame_of st1 x r = Some (Some v) -> fame_of st2 x r = Some (Some v).
  Proof. exact (fame_stable_hrun genesis all self1 self2 oracle1 oracle2 ops1 ops2 x r v ID NA H1 H2 F1 F2). Qed.

  Lemma u_round x e1 e2 : get_event st1 x = Some e1 -> get_event st2 x = Some e2 ->
    ev_round e1 = ev_round e2 /\ ev_round e1 <> None /\
    zget x (round_memo st1) = zget x (round_memo st2) /\ zget x (witness_memo st1) = zget x (witness_memo st2).
  Proof. exact (round_function_of_ancestry_hrun genesis all self1 self2 oracle1 oracle2 ops1 ops2 x e1 e2 ID NA H1 H2 F1 F2). Qed.

  Lemma u_lamport x e1 e2 : get_event st1 x = Some e1 -> get_event st2 x = Some e2 ->
    ev_lt e1 = ev_lt e2 /\ ev_lt e1 <> None.
  Proof. exact (lamport_function_of_ancestry_hrun genesis all self1 self2 oracle1 oracle2 ops1 ops2 x e1 e2 ID NA H1 H2 F1 F2). Qed.

  Lemma u_strongly_see x w e1x e2x e1w e2w :
    get_event st1 x = Some e1x -> get_event st2 x = Some e2x ->
    get_event st1 w = Some e1w -> get_event st2 w = Some e2w ->
    strongly_see st1 x w genesis = strongly_see st2 x w genesis /\ strongly_see st1 x w genesis <> None.
  Proof.
    exact (strongly_see_function_of_ancestry_hrun genesis all self1 self2 oracle1 oracle2 ops1 ops2 x w e1x e2x e1w e2w
             ID NA H1 H2 F1 F2).
  Qed.

  Lemma u_obs x : get_event st1 x <> None -> get_event st2 x <> None ->
    option_map (fun e => (ev_round e, ev_lt e)) (get_event st1 x) =
    option_map (fun e => (ev_round e, ev_lt e)) (get_event st2 x).
  Proof. exact (obs_agree_hrun genesis all self1 self2 oracle1 oracle2 ops1 ops2 x ID NA H1 H2 F1 F2). Qed.
End U.
