(* Why C01_agreement needs distinct signature keys: two parentless events with the same Lamport
   timestamp and the same signature rank are ordered, inside their frame, in the order in which
   the node received them (SortedFrameEvents.Less is not a strict order on them; the model's
   fe_sort, like Go's sort.Sort on such input, leaves the tie to the input order).  Two nodes fed
   the same 24 events, the first two swapped, deliver [0;1;2] and [1;0;2] as their first block. *)
From Coq Require Import ZArith List Bool Permutation.
From V Require Import Model.ZMap Model.Quorum Model.Voting Model.HgImpl Proofs.AdmissionProofs Proofs.BlockInv
  Proofs.OrderProofs Proofs.Static Proofs.Agreement.
Import ListNotations.
Open Scope Z_scope.

Definition tw_g : peerset := [mkPeer 100 0; mkPeer 101 1].
(* ping-pong gossip; events 0 and 1 have no parents and carry the same signature key 7 *)
Definition tw_ev (k : Z) : event :=
  mkEvent k (k mod 2) (k / 2) (if k <? 2 then -1 else k - 2) (if k <? 2 then -1 else k - 1) 0
          true (if k <? 2 then 7 else 100 + k) [k] [] [] true.
Definition tw_rest : list event := map tw_ev (zseq 2 22).
Definition tw_all : list event := tw_ev 0 :: tw_ev 1 :: tw_rest.
Definition tw_all' : list event := tw_ev 1 :: tw_ev 0 :: tw_rest.

Lemma hop_ok_perm all l : Permutation l all -> forallb (fun e => 0 <=? e_id e) all = true ->
  Forall (hop_ok all) (map HInsert l).
Proof.
  intros P H. apply Forall_forall. intros o Ho. apply in_map_iff in Ho. destruct Ho as [e [<- He]].
  pose proof (Permutation_in _ P He) as Hin. cbn. split; [exact Hin|]. rewrite forallb_forall in H. specialize (H e Hin).
  apply Z.leb_le. exact H.
Qed.

Lemma tw_premises : ids_determine tw_all /\ no_accept tw_all /\ fork_free tw_all /\
  Forall (hop_ok tw_all) (map HInsert tw_all) /\ Forall (hop_ok tw_all) (map HInsert tw_all').
Proof.
  split; [apply ids_determine_distinct; vm_compute; reflexivity|].
  split; [apply no_acceptb_sound; vm_compute; reflexivity|].
  split; [apply fork_freeb_sound; vm_compute; reflexivity|].
  split; [apply hop_ok_inserts; vm_compute; reflexivity|].
  apply hop_ok_perm; [apply perm_swap|vm_compute; reflexivity].
Qed.

Local Notation TA := (hrun (init_hg 0 tw_g []) (map HInsert tw_all)) (only parsing).
Local Notation TB := (hrun (init_hg 1 tw_g []) (map HInsert tw_all')) (only parsing).

Lemma tw_facts :
  match nth_error (delivered TA) 0 with Some d => b_txs d | None => [] end = [0; 1; 2] /\
  match nth_error (delivered TB) 0 with Some d => b_txs d | None => [] end = [1; 0; 2].
Proof. vm_compute. split; reflexivity. Qed.

(* agreement on the transactions of the blocks, without the premise on signature keys, is false *)
Lemma tw_refuted :
  ~ (forall genesis all self1 self2 oracle1 oracle2 ops1 ops2 k d1 d2,
       ids_determine all -> no_accept all -> fork_free all ->
       Forall (hop_ok all) ops1 -> Forall (hop_ok all) ops2 ->
       let st1 := hrun (init_hg self1 genesis oracle1) ops1 in
       let st2 := hrun (init_hg self2 genesis oracle2) ops2 in
       nth_error (delivered st1) k = Some d1 -> nth_error (delivered st2) k = Some d2 -> b_txs d1 = b_txs d2).
Proof.
  intros S. destruct tw_premises as [ID [NA [FF [H1 H2]]]]. destruct tw_facts as [F1 F2].
  destruct (nth_error (delivered TA) 0) as [d1|] eqn:E1; [|discriminate F1].
  destruct (nth_error (delivered TB) 0) as [d2|] eqn:E2; [|discriminate F2].
  specialize (S tw_g tw_all 0 1 [] [] (map HInsert tw_all) (map HInsert tw_all') 0%nat d1 d2 ID NA FF H1 H2).
  cbv zeta in S. specialize (S E1 E2). rewrite F1, F2 in S. discriminate S.
Qed.
