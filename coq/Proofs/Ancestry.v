(* Stage S1: the last-ancestor coordinates are exactly "highest-index ancestor-or-self per
   creator", and _ancestor(x,y) decides ancestry, in every reachable state. *)
From Coq Require Import ZArith List Bool Lia ZifyBool.
From RecordUpdate Require Import RecordSet.
From V Require Import Model.ZMap Model.Quorum Model.HgImpl
  Proofs.ZMapFacts Proofs.HgFrames Proofs.HgDagFrames Proofs.AdmissionProofs Proofs.InsertShape.
Import ListNotations RecordSetNotations.
Open Scope Z_scope.

(** * Ancestry in the stored DAG *)

Definition parent_of (st : hg) (x p : Z) : Prop :=
  exists ex, get_event st x = Some ex /\ p <> -1 /\ (e_sp (ev_e ex) = p \/ e_op (ev_e ex) = p).

(* ancestor-or-self *)
Inductive anc (st : hg) : Z -> Z -> Prop :=
| anc_refl x : anc st x x
| anc_step x p y : parent_of st x p -> anc st p y -> anc st x y.

Lemma anc_inv st x y : anc st x y -> x = y \/ exists p, parent_of st x p /\ anc st p y.
Proof. intros H; destruct H as [x|x p y Hp Ha]; [left; reflexivity|right; eauto]. Qed.

Lemma anc_trans st x y z : anc st x y -> anc st y z -> anc st x z.
Proof. induction 1; intros; [auto|]. econstructor; eauto. Qed.

Lemma parent_of_frame st st' x p : dag_frame st st' -> parent_of st x p -> parent_of st' x p.
Proof.
  intros F [ex [Hx [Hn Hp]]]. destruct (proj2 (frame_get_event st st' x F) _ Hx) as [ex' [Hx' E]].
  exists ex'. rewrite E. auto.
Qed.
Lemma parent_of_frame_back st st' x p : dag_frame st st' -> parent_of st' x p -> parent_of st x p.
Proof.
  intros F [ex' [Hx' [Hn Hp]]]. destruct (proj1 (frame_get_event st st' x F) _ Hx') as [ex [Hx E]].
  exists ex. rewrite E. auto.
Qed.
Lemma anc_frame st st' x y : dag_frame st st' -> anc st x y <-> anc st' x y.
Proof.
  intros F. split; induction 1; try constructor.
  - econstructor; [eapply parent_of_frame; eauto|auto].
  - econstructor; [eapply parent_of_frame_back; eauto|auto].
Qed.

(** * merge_la *)

Lemma NoDup_app_intro' {A} (l1 l2 : list A) :
  NoDup l1 -> NoDup l2 -> (forall x, In x l1 -> ~ In x l2) -> NoDup (l1 ++ l2).
Proof.
  induction 1 as [|x r Hx Hr IH]; cbn [app]; intros H2 Hd; [auto|].
  constructor.
  - rewrite in_app_iff; intros [?|?]; [contradiction|]. apply (Hd x); [left; reflexivity|auto].
  - apply IH; [auto|]. intros y Hy; apply Hd; right; auto.
Qed.


Definition ukeys {A} (l : list (Z * A)) : Prop := NoDup (map fst l).

Lemma aget_In_fst {A} c (l : list (Z * A)) v : aget c l = Some v -> In c (map fst l).
Proof.
  induction l as [|[k w] r IH]; cbn [aget map fst]; [discriminate|].
  destruct (Z.eqb_spec k c); [intros _; left; auto|intros H; right; auto].
Qed.
Lemma aget_not_In {A} c (l : list (Z * A)) : ~ In c (map fst l) -> aget c l = None.
Proof.
  induction l as [|[k w] r IH]; cbn [aget map fst]; [reflexivity|]. intros H.
  destruct (Z.eqb_spec k c); [exfalso; apply H; left; auto|apply IH; intros C; apply H; right; auto].
Qed.

Lemma map_fst_aset {A} k (v : A) l :
  (In k (map fst l) -> map fst (aset k v l) = map fst l) /\
  (~ In k (map fst l) -> map fst (aset k v l) = map fst l ++ [k]).
Proof.
  induction l as [|[k' v'] r [IH1 IH2]]; cbn [aset map fst app].
  - split; [intros []|reflexivity].
  - destruct (Z.eqb_spec k' k) as [->|Hne]; cbn [map fst].
    + split; [reflexivity|intros H; exfalso; apply H; left; reflexivity].
    + split.
      * intros [E|H]; [congruence|]. rewrite IH1 by auto. reflexivity.
      * intros H. rewrite IH2; [reflexivity|]. intros C; apply H; right; exact C.
Qed.

Lemma ukeys_aset {A} k (v : A) l : ukeys l -> ukeys (aset k v l).
Proof.
  unfold ukeys. intros H. destruct (in_dec Z.eq_dec k (map fst l)) as [Hin|Hnin].
  - rewrite (proj1 (map_fst_aset k v l) Hin). exact H.
  - rewrite (proj2 (map_fst_aset k v l) Hnin). apply NoDup_app_intro'; auto.
    + constructor; [intros []|constructor].
    + intros x Hx [<-|[]]. contradiction.
Qed.

(* one step of the merge *)
Definition merge1 (acc : coords) (po : Z * (Z * Z)) : coords :=
  match aget (fst po) acc with
  | Some (i, _) => if i <? fst (snd po) then aset (fst po) (snd po) acc else acc
  | None => aset (fst po) (snd po) acc
  end.

Lemma merge_la_fold sla ola : merge_la sla ola = fold_left merge1 ola sla.
Proof. reflexivity. Qed.

Lemma merge1_ukeys acc po : ukeys acc -> ukeys (merge1 acc po).
Proof.
  unfold merge1. intros H. destruct (aget (fst po) acc) as [[i y]|]; [destruct (i <? fst (snd po))|]; auto using ukeys_aset.
Qed.

Lemma merge1_get acc po c :
  aget c (merge1 acc po) =
  if fst po =? c then
    match aget c acc with
    | Some (i, y) => if i <? fst (snd po) then Some (snd po) else Some (i, y)
    | None => Some (snd po)
    end
  else aget c acc.
Proof.
  unfold merge1. destruct (Z.eqb_spec (fst po) c) as [E|Hne].
  - rewrite E. destruct (aget c acc) as [[i y]|] eqn:G.
    + destruct (i <? fst (snd po)); [apply aget_aset_same|exact G].
    + apply aget_aset_same.
  - destruct (aget (fst po) acc) as [[i y]|]; [destruct (i <? fst (snd po))|];
      rewrite ?aget_aset_other by auto; reflexivity.
Qed.

(* the merged entry for creator c is the greater-index one of the two inputs (ties: self-parent's) *)
Lemma fold_merge1_get ola : forall acc c, ukeys ola ->
  aget c (fold_left merge1 ola acc) =
  match aget c acc, aget c ola with
  | Some (i, y), Some (j, z) => if i <? j then Some (j, z) else Some (i, y)
  | Some v, None => Some v
  | None, Some w => Some w
  | None, None => None
  end.
Proof.
  induction ola as [|[k [j z]] r IH]; intros acc c U; cbn [fold_left aget].
  - destruct (aget c acc) as [[i y]|]; reflexivity.
  - assert (Ur : ukeys r) by (inversion U; auto).
    assert (Hk : ~ In k (map fst r)) by (inversion U; auto).
    rewrite (IH _ c Ur), merge1_get. cbn [fst snd].
    destruct (Z.eqb_spec k c) as [->|Hne].
    + rewrite (aget_not_In c r Hk).
      destruct (aget c acc) as [[i y]|]; [destruct (i <? j)|]; reflexivity.
    + destruct (aget c acc) as [[i y]|]; reflexivity.
Qed.

Lemma merge_la_get sla ola c : ukeys ola ->
  aget c (merge_la sla ola) =
  match aget c sla, aget c ola with
  | Some (i, y), Some (j, z) => if i <? j then Some (j, z) else Some (i, y)
  | Some v, None => Some v
  | None, Some w => Some w
  | None, None => None
  end.
Proof. intros U. rewrite merge_la_fold. apply fold_merge1_get. exact U. Qed.

Lemma merge_la_ukeys sla ola : ukeys sla -> ukeys (merge_la sla ola).
Proof.
  rewrite merge_la_fold. revert sla. induction ola as [|po r IH]; intros sla U; cbn [fold_left]; [exact U|].
  apply IH. apply merge1_ukeys. exact U.
Qed.

(** * The last-ancestor invariant *)

Record la_ok (st : hg) : Prop := {
  la_u : forall x ex, get_event st x = Some ex -> ukeys (ev_la ex);
  la_s : forall x ex c i y, get_event st x = Some ex -> aget c (ev_la ex) = Some (i, y) ->
         exists ey, get_event st y = Some ey /\ e_creator (ev_e ey) = c /\ e_index (ev_e ey) = i /\ anc st x y;
  la_c : forall x ex y ey, get_event st x = Some ex -> anc st x y -> get_event st y = Some ey ->
         exists i y', aget (e_creator (ev_e ey)) (ev_la ex) = Some (i, y') /\ e_index (ev_e ey) <= i
}.

Lemma frame_get_la st st' x ex' :
  dag_frame st st' -> get_event st' x = Some ex' ->
  exists ex, get_event st x = Some ex /\ ev_la ex = ev_la ex' /\ ev_e ex = ev_e ex'.
Proof.
  intros [He _] H'. specialize (He x). unfold get_event in *. rewrite H' in He.
  destruct (zget x (events st)) as [ex|]; [|discriminate]. cbn in He. unfold ev_static in He.
  inversion He. eauto.
Qed.

Lemma la_ok_frame st st' : la_ok st -> dag_frame st st' -> la_ok st'.
Proof.
  intros [U S C] F. constructor.
  - intros x ex' H'. destruct (frame_get_la _ _ _ _ F H') as [ex [H [El _]]]. rewrite <- El. eauto.
  - intros x ex' c i y H' Hg. destruct (frame_get_la _ _ _ _ F H') as [ex [H [El _]]].
    rewrite <- El in Hg. destruct (S _ _ _ _ _ H Hg) as [ey [Hy [Hc [Hi Ha]]]].
    destruct (proj2 (frame_get_event st st' y F) _ Hy) as [ey' [Hy' E]].
    exists ey'. rewrite E. split; [auto|split; [auto|split; [auto|]]]. apply (anc_frame st st' x y F). exact Ha.
  - intros x ex' y ey' H' Ha Hy'. destruct (frame_get_la _ _ _ _ F H') as [ex [H [El _]]].
    destruct (proj1 (frame_get_event st st' y F) _ Hy') as [ey [Hy E]].
    rewrite <- El, <- E. apply (C x ex y ey H); [|exact Hy]. apply (anc_frame st st' x y F). exact Ha.
Qed.

(** * Insertion preserves the invariant *)

Definition la_of (st : hg) (p c : Z) : option (Z * Z) :=
  match get_event st p with Some ep => aget c (ev_la ep) | None => None end.

Definition mm (a b : option (Z * Z)) : option (Z * Z) :=
  match a, b with
  | Some (i, y), Some (j, z) => if i <? j then Some (j, z) else Some (i, y)
  | Some v, None => Some v
  | None, Some w => Some w
  | None, None => None
  end.

Lemma aget_aset {A} k (v : A) l c : aget c (aset k v l) = if k =? c then Some v else aget c l.
Proof.
  destruct (Z.eqb_spec k c) as [->|Hne]; [apply aget_aset_same|apply aget_aset_other; auto].
Qed.

Lemma init_la_get st e : la_ok st ->
  ukeys (fst (init_coords st e)) /\
  forall c, aget c (fst (init_coords st e)) =
            if e_creator e =? c then Some (e_index e, e_id e) else mm (la_of st (e_sp e) c) (la_of st (e_op e) c).
Proof.
  intros LA. unfold init_coords, la_of. cbn [fst].
  destruct (get_event st (e_sp e)) as [s|] eqn:Hs; destruct (get_event st (e_op e)) as [o|] eqn:Ho.
  - split; [apply ukeys_aset, merge_la_ukeys, (la_u st LA _ _ Hs)|].
    intros c. rewrite aget_aset. destruct (e_creator e =? c); [reflexivity|].
    rewrite merge_la_get by apply (la_u st LA _ _ Ho). unfold mm. reflexivity.
  - split; [apply ukeys_aset, (la_u st LA _ _ Hs)|].
    intros c. rewrite aget_aset. destruct (e_creator e =? c); [reflexivity|].
    unfold mm. destruct (aget c (ev_la s)) as [[i y]|]; reflexivity.
  - split; [apply ukeys_aset, (la_u st LA _ _ Ho)|].
    intros c. rewrite aget_aset. destruct (e_creator e =? c); [reflexivity|].
    unfold mm. destruct (aget c (ev_la o)) as [[i y]|]; reflexivity.
  - split; [apply ukeys_aset; constructor|].
    intros c. rewrite aget_aset. destruct (e_creator e =? c); reflexivity.
Qed.

Section InsertStep.
  Variables (st st2 : hg) (e : event) (es : evst).
  Hypothesis OK : dag_ok st.
  Hypothesis LA : la_ok st.
  Hypothesis Hes : es = mkEvst e None None None (fst (init_coords st e)) (snd (init_coords st e)) (topo st).
  Hypothesis GE : forall x, get_event st2 x = if x =? e_id e then Some es else get_event st x.
  Hypothesis Fresh : get_event st (e_id e) = None.
  Hypothesis Hsp : check_self_parent st e = InsOk.
  Hypothesis Hop : check_other_parent st e = InsOk.

  Let stored_old x ex : get_event st x = Some ex -> x <> e_id e.
  Proof. intros H C; subst; congruence. Qed.

  Lemma old_get x ex : get_event st x = Some ex -> get_event st2 x = Some ex.
  Proof. intros H. rewrite GE. destruct (Z.eqb_spec x (e_id e)); [exfalso; eapply stored_old; eauto|exact H]. Qed.

  (* parents of stored events are stored *)
  Lemma parent_stored x p : parent_of st x p -> exists ep, get_event st p = Some ep.
  Proof.
    intros [ex [Hx [Hn [Hp|Hp]]]].
    - destruct (d_sp st OK _ _ Hx) as [[E _]|[ps [Hps _]]]; [congruence|]. rewrite Hp in Hps. eauto.
    - destruct (d_op st OK _ _ Hx) as [E|[po Hpo]]; [congruence|]. rewrite Hp in Hpo. eauto.
  Qed.

  Lemma anc_stored x y ex : get_event st x = Some ex -> anc st x y -> exists ey, get_event st y = Some ey.
  Proof.
    intros Hx Ha. revert ex Hx. induction Ha as [x|x p y Hp Ha IH]; intros ex Hx; [eauto|].
    destruct (parent_stored _ _ Hp) as [ep Hep]. eapply IH; eauto.
  Qed.

  Lemma parent_old_iff x ex p : get_event st x = Some ex -> (parent_of st2 x p <-> parent_of st x p).
  Proof.
    intros Hx. split; intros [ex' [Hx' R]].
    - rewrite (old_get _ _ Hx) in Hx'. inversion Hx'; subst ex'. exists ex. auto.
    - rewrite Hx in Hx'. inversion Hx'; subst ex'. exists ex. split; [apply old_get; auto|auto].
  Qed.

  Lemma anc_old_iff x ex y : get_event st x = Some ex -> (anc st2 x y <-> anc st x y).
  Proof.
    intros Hx. split; intros Ha.
    - revert ex Hx. induction Ha as [x|x p y Hp Ha IH]; intros ex Hx; [constructor|].
      apply (parent_old_iff _ _ _ Hx) in Hp. destruct (parent_stored _ _ Hp) as [ep Hep].
      econstructor; [exact Hp|eapply IH; eauto].
    - revert ex Hx. induction Ha as [x|x p y Hp Ha IH]; intros ex Hx; [constructor|].
      destruct (parent_stored _ _ Hp) as [ep Hep].
      econstructor; [apply (parent_old_iff _ _ _ Hx); exact Hp|eapply IH; eauto].
  Qed.

  Lemma new_parent p : parent_of st2 (e_id e) p <-> (p <> -1 /\ (e_sp e = p \/ e_op e = p)).
  Proof.
    split.
    - intros [ex [Hx R]]. rewrite GE, Z.eqb_refl in Hx. inversion Hx; subst ex. rewrite Hes in R. exact R.
    - intros R. exists es. rewrite GE, Z.eqb_refl. split; [reflexivity|]. rewrite Hes. exact R.
  Qed.

  (* the parents named by a checked event are stored *)
  Lemma checked_parent_stored p : p <> -1 -> (e_sp e = p \/ e_op e = p) -> exists ep, get_event st p = Some ep.
  Proof.
    intros Hn [E|E]; subst p.
    - unfold check_self_parent in Hsp. destruct (zget (e_creator e) (pevents st)) as [pi|]; [|discriminate].
      destruct (pidx_last pi) as [l|].
      + destruct (e_sp e =? l) eqn:El; [|discriminate]. apply Z.eqb_eq in El. rewrite El.
        destruct (get_event st l); [eauto|discriminate].
      + destruct (e_sp e =? -1) eqn:E1; [lia|discriminate].
    - unfold check_other_parent in Hop. destruct (e_op e =? -1) eqn:E1; [lia|].
      destruct (get_event st (e_op e)); [eauto|discriminate].
  Qed.

  Lemma anc_new y : anc st2 (e_id e) y <->
    (y = e_id e \/ exists p, p <> -1 /\ (e_sp e = p \/ e_op e = p) /\ anc st p y).
  Proof.
    split.
    - intros Ha. destruct (anc_inv _ _ _ Ha) as [E|[p [Hp Ha']]]; [left; symmetry; exact E|right].
      apply new_parent in Hp. destruct Hp as [Hn Hp]. exists p. split; [auto|split; [auto|]].
      destruct (checked_parent_stored p Hn Hp) as [ep Hep]. apply (proj1 (anc_old_iff p ep y Hep)). exact Ha'.
    - intros [->|[p [Hn [Hp Ha]]]]; [constructor|].
      destruct (checked_parent_stored p Hn Hp) as [ep Hep].
      apply anc_step with p; [apply (proj2 (new_parent p)); auto|apply (proj2 (anc_old_iff p ep y Hep)); exact Ha].
  Qed.
End InsertStep.

Lemma mm_some_l a b i y : a = Some (i, y) -> exists i' y', mm a b = Some (i', y') /\ i <= i'.
Proof.
  intros ->. unfold mm. destruct b as [[j z]|]; [destruct (i <? j) eqn:E|]; eauto; try (eexists _, _; split; [reflexivity|lia]).
Qed.
Lemma mm_some_r a b i y : b = Some (i, y) -> exists i' y', mm a b = Some (i', y') /\ i <= i'.
Proof.
  intros ->. unfold mm. destruct a as [[j z]|]; [destruct (j <? i) eqn:E|]; eexists _, _; (split; [reflexivity|lia]).
Qed.
Lemma mm_from a b i y : mm a b = Some (i, y) -> a = Some (i, y) \/ b = Some (i, y).
Proof.
  unfold mm. destruct a as [[j z]|], b as [[k w]|]; try (destruct (j <? k)); intros H; inversion H; auto.
Qed.

Lemma get_event_neg st p : p < 0 -> get_event st p = None.
Proof. intros H. unfold get_event. apply zget_neg. exact H. Qed.

Lemma la_ok_store st st2 e es :
  dag_ok st -> la_ok st ->
  es = mkEvst e None None None (fst (init_coords st e)) (snd (init_coords st e)) (topo st) ->
  (forall x, get_event st2 x = if x =? e_id e then Some es else get_event st x) ->
  get_event st (e_id e) = None ->
  check_self_parent st e = InsOk -> check_other_parent st e = InsOk ->
  la_ok st2.
Proof.
  intros OK LA Hes GE Fresh Hsp Hop.
  destruct (init_la_get st e LA) as [UL GL].
  assert (Ela : ev_la es = fst (init_coords st e)) by (rewrite Hes; reflexivity).
  assert (Eev : ev_e es = e) by (rewrite Hes; reflexivity).
  assert (Old : forall x ex, get_event st x = Some ex -> x <> e_id e) by (intros x ex H C; subst; congruence).
  assert (Pstored : forall p c i y, la_of st p c = Some (i, y) -> exists ep, get_event st p = Some ep /\ aget c (ev_la ep) = Some (i, y)).
  { intros p c i y H. unfold la_of in H. destruct (get_event st p) as [ep|]; [eauto|discriminate]. }
  assert (Pneg : forall p ep, get_event st p = Some ep -> p <> -1).
  { intros p ep H C. subst. rewrite get_event_neg in H by lia. discriminate. }
  constructor.
  - (* unique keys *)
    intros x ex. rewrite GE. destruct (Z.eqb_spec x (e_id e)).
    + intros H; inversion H; subst ex. rewrite Ela. exact UL.
    + apply (la_u st LA).
  - (* soundness *)
    intros x ex c i y. rewrite GE. destruct (Z.eqb_spec x (e_id e)) as [->|Hne].
    + intros H; inversion H; subst ex; clear H. rewrite Ela, GL.
      destruct (Z.eqb_spec (e_creator e) c) as [Ec|Hnc].
      * intros H; inversion H; subst i y. exists es. rewrite GE, Z.eqb_refl, Eev.
        split; [reflexivity|split; [auto|split; [reflexivity|constructor]]].
      * intros H. apply mm_from in H.
        assert (G : forall p, (e_sp e = p \/ e_op e = p) -> la_of st p c = Some (i, y) ->
                    exists ey, get_event st2 y = Some ey /\ e_creator (ev_e ey) = c /\ e_index (ev_e ey) = i /\ anc st2 (e_id e) y).
        { intros p Hp Hl. destruct (Pstored _ _ _ _ Hl) as [ep [Hep Hg]].
          destruct (la_s st LA _ _ _ _ _ Hep Hg) as [ey [Hy [Hc [Hi Ha]]]].
          exists ey. split; [apply (old_get st st2 e es Hes GE Fresh _ _ Hy)|split; [auto|split; [auto|]]].
          apply (proj2 (anc_new st st2 e es OK Hes GE Fresh Hsp Hop y)). right. exists p.
          split; [eapply Pneg; eauto|split; [auto|exact Ha]]. }
        destruct H as [H|H]; [apply (G (e_sp e)); auto|apply (G (e_op e)); auto].
    + intros Hx Hg. destruct (la_s st LA _ _ _ _ _ Hx Hg) as [ey [Hy [Hc [Hi Ha]]]].
      exists ey. split; [apply (old_get st st2 e es Hes GE Fresh _ _ Hy)|split; [auto|split; [auto|]]].
      apply (proj2 (anc_old_iff st st2 e es OK Hes GE Fresh x ex y Hx)). exact Ha.
  - (* completeness *)
    intros x ex y ey. rewrite GE. destruct (Z.eqb_spec x (e_id e)) as [->|Hne].
    + intros H; inversion H; subst ex; clear H. intros Ha Hy.
      apply (proj1 (anc_new st st2 e es OK Hes GE Fresh Hsp Hop y)) in Ha.
      rewrite Ela. destruct Ha as [->|[p [Hn [Hp Ha]]]].
      * rewrite GE, Z.eqb_refl in Hy. inversion Hy; subst ey. rewrite Eev, GL, Z.eqb_refl.
        exists (e_index e), (e_id e). split; [reflexivity|lia].
      * destruct (checked_parent_stored st e Hsp Hop p Hn Hp) as [ep Hep].
        destruct (anc_stored st OK _ _ _ Hep Ha) as [ey0 Hy0].
        rewrite (old_get st st2 e es Hes GE Fresh _ _ Hy0) in Hy. inversion Hy; subst ey0; clear Hy.
        destruct (la_c st LA _ _ _ _ Hep Ha Hy0) as [i [y' [Hg Hle]]].
        rewrite GL. destruct (Z.eqb_spec (e_creator e) (e_creator (ev_e ey))) as [Ec|Hnc].
        -- exists (e_index e), (e_id e). split; [reflexivity|].
           (* a stored event of the same creator sits below the new index *)
           destruct (d_listed st OK _ _ Hy0) as [pi [Hpi [_ Hn']]].
           rewrite <- Ec in Hpi.
           destruct (checked_extends st e pi OK Hsp Hpi) as [_ [Hidx _]].
           assert ((Z.to_nat (e_index (ev_e ey)) < length (pi_items pi))%nat) by (apply nth_error_Some; congruence).
           destruct (d_listed st OK _ _ Hy0) as [_ [_ [Hge _]]]. lia.
        -- assert (Hl : la_of st p (e_creator (ev_e ey)) = Some (i, y')) by (unfold la_of; rewrite Hep; exact Hg).
           destruct Hp as [Hp|Hp]; subst p.
           ++ destruct (mm_some_l _ (la_of st (e_op e) (e_creator (ev_e ey))) _ _ Hl) as [i' [y'' [Hm Hle']]].
              exists i', y''. split; [exact Hm|lia].
           ++ destruct (mm_some_r (la_of st (e_sp e) (e_creator (ev_e ey))) _ _ _ Hl) as [i' [y'' [Hm Hle']]].
              exists i', y''. split; [exact Hm|lia].
    + intros Hx Ha Hy.
      apply (proj1 (anc_old_iff st st2 e es OK Hes GE Fresh x ex y Hx)) in Ha.
      destruct (anc_stored st OK _ _ _ Hx Ha) as [ey0 Hy0].
      rewrite (old_get st st2 e es Hes GE Fresh _ _ Hy0) in Hy. inversion Hy; subst ey0.
      apply (la_c st LA _ _ _ _ Hx Ha Hy0).
Qed.

(** * Every reachable state *)

Lemma la_ok_no_events st : (forall x, get_event st x = None) -> la_ok st.
Proof. intros E. constructor; intros x ex; rewrite E; discriminate. Qed.

Lemma step_la_inv st e all :
  dag_ok st -> la_ok st -> from_attempts st all -> ids_determine all -> In e all -> 0 <= e_id e ->
  la_ok (step st e).
Proof.
  intros OK LA FA ID Hin Hid. unfold step, insert_and_run.
  destruct (insert_event st e) as [r s] eqn:E.
  destruct r; cbn [snd];
    try (rewrite (insert_reject_noop st e _ s E ltac:(discriminate) ltac:(discriminate)); exact LA).
  - (* InsOk *)
    destruct (insert_event_ok_shape st e all s OK FA ID Hin Hid E) as [st2 [GE [Fresh [F [OK2 [Hsp Hop]]]]]].
    cbv zeta in GE.
    assert (LA2 : la_ok st2) by (apply (la_ok_store st st2 e _ OK LA eq_refl GE Fresh Hsp Hop)).
    eapply la_ok_frame; [|apply run_consensus_frame]. eapply la_ok_frame; eauto.
  - (* InsStore cannot happen in a reachable state *)
    exfalso. destruct (insert_event_inv st e all _ s OK FA ID Hin Hid E) as [_ [_ Hn]]. congruence.
Qed.

Theorem run_la_ok self_ genesis oracle_ evs :
  ids_determine evs -> (forall e, In e evs -> 0 <= e_id e) ->
  dag_ok (run (init_hg self_ genesis oracle_) evs) /\ la_ok (run (init_hg self_ genesis oracle_) evs).
Proof.
  intros ID Hpos.
  assert (G : forall done todo st, evs = done ++ todo -> dag_ok st -> la_ok st -> from_attempts st evs ->
              dag_ok (run st todo) /\ la_ok (run st todo)).
  { intros done todo. revert done. induction todo as [|e rest IH]; intros done st Hev OK LA FA; [auto|].
    cbn [run fold_left].
    assert (Hin : In e evs) by (rewrite Hev; apply in_or_app; right; left; reflexivity).
    destruct (step_inv st e evs OK FA ID Hin (Hpos e Hin)) as [OK' FA'].
    pose proof (step_la_inv st e evs OK LA FA ID Hin (Hpos e Hin)) as LA'.
    apply (IH (done ++ [e])); auto. rewrite <- app_assoc. exact Hev. }
  pose proof (dag_ok_init self_ genesis oracle_) as OK0.
  assert (E0 : forall x, get_event (init_hg self_ genesis oracle_) x = None).
  { intros x. destruct (get_event (init_hg self_ genesis oracle_) x) as [es|] eqn:H; [exfalso|reflexivity].
    destruct (d_listed _ OK0 _ _ H) as [p [Hp [_ Hn]]].
    destruct (d_chain _ OK0 _ _ Hp) as [Hl Hch].
    (* every participant index of the initial state is empty *)
    assert (Hempty : pi_items p = []).
    { unfold init_hg in Hp. destruct (set_peerset (empty_hg self_) 0 genesis) as [s|] eqn:S.
      - pose proof (set_peerset_frame _ _ _ _ S) as [_ [Fp _]]. specialize (Fp (e_creator (ev_e es))).
        change (pevents (s <| validators := genesis |> <| oracle := oracle_ |>)) with (pevents s) in Hp.
        unfold empty_hg in Fp. cbn in Fp. rewrite zget_empty in Fp.
        destruct Fp as [Fp|[_ Fp]]; rewrite Fp in Hp; [discriminate|]. inversion Hp. reflexivity.
      - unfold empty_hg in Hp. cbn in Hp. rewrite zget_empty in Hp. discriminate. }
    rewrite Hempty in Hn. destruct (Z.to_nat _); discriminate. }
  apply (G [] evs); [reflexivity|exact OK0|apply la_ok_no_events; exact E0|].
  intros x es H. rewrite E0 in H. discriminate.
Qed.

(** * _ancestor decides ancestry *)

(* the event of creator c at height j is an ancestor of every higher event of c *)
Lemma chain_anc st : dag_ok st -> forall n z ez y ey,
  get_event st z = Some ez -> get_event st y = Some ey ->
  e_creator (ev_e ey) = e_creator (ev_e ez) ->
  e_index (ev_e ey) <= e_index (ev_e ez) -> e_index (ev_e ez) - e_index (ev_e ey) = Z.of_nat n ->
  anc st z y.
Proof.
  intros OK. induction n as [|n IH]; intros z ez y ey Hz Hy Hc Hle Hd.
  - assert (z = y) by (eapply (dag_ok_no_fork st z y ez ey OK); eauto; lia). subst. constructor.
  - destruct (d_sp st OK _ _ Hz) as [[Hs Hi0]|[ps [Hps [Hcp Hip]]]].
    + destruct (d_listed st OK _ _ Hy) as [_ [_ [Hge _]]]. lia.
    + apply anc_step with (e_sp (ev_e ez)).
      * exists ez. split; [auto|split; [|left; reflexivity]]. intros C. rewrite C, get_event_neg in Hps by lia. discriminate.
      * apply (IH (e_sp (ev_e ez)) ps y ey Hps Hy); [congruence|lia|lia].
Qed.

Theorem ancestor_correct st x y ex ey :
  dag_ok st -> la_ok st -> get_event st x = Some ex -> get_event st y = Some ey ->
  (ancestor st x y = Some true <-> anc st x y).
Proof.
  intros OK LA Hx Hy. unfold ancestor. destruct (Z.eqb_spec x y) as [->|Hne].
  - split; [constructor|reflexivity].
  - rewrite Hx, Hy. split.
    + destruct (aget (e_creator (ev_e ey)) (ev_la ex)) as [[i z]|] eqn:G; [|discriminate].
      intros H. assert (Hle : e_index (ev_e ey) <= i) by (inversion H; lia).
      destruct (la_s st LA _ _ _ _ _ Hx G) as [ez [Hz [Hc [Hi Ha]]]].
      eapply anc_trans; [exact Ha|].
      apply (chain_anc st OK (Z.to_nat (i - e_index (ev_e ey))) z ez y ey Hz Hy); [congruence|lia|lia].
    + intros Ha. destruct (la_c st LA _ _ _ _ Hx Ha Hy) as [i [z [G Hle]]]. rewrite G.
      f_equal. lia.
Qed.
