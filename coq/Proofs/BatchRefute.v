(* C03: for a fixed validator set the results DO depend on how insertions are batched between
   consensus passes.  Witness found by harness/cmd/sim -c03witness on the real code (15 events,
   2 validators, passes every 3 insertions) and evaluated here on the model. *)
From Coq Require Import ZArith List Bool.
From V Require Import Model.ZMap Model.Quorum Model.HgImpl Model.HgBatch.
Import ListNotations.
Open Scope Z_scope.

Definition bw (id c idx sp op : Z) (coin : bool) : event := mkEvent id c idx sp op 0 coin id [] [] [] true.
Definition bw_genesis : peerset := [mkPeer 100 0; mkPeer 101 1].
Definition bw_events : list event :=
  [bw 0 1 0 (-1) (-1) true; bw 1 1 1 (0) (-1) true; bw 2 1 2 (1) (-1) true; bw 3 0 0 (-1) (2) true;
   bw 4 1 3 (2) (3) true; bw 5 1 4 (4) (-1) true; bw 6 1 5 (5) (-1) true; bw 7 1 6 (6) (-1) true;
   bw 8 0 1 (3) (7) true; bw 9 1 7 (7) (8) true; bw 10 0 2 (8) (9) true; bw 11 1 8 (9) (10) true;
   bw 12 0 3 (10) (11) true; bw 13 1 9 (11) (12) true; bw 14 0 4 (12) (13) true].

Definition bw_per_event := run (init_hg (-1) bw_genesis []) bw_events.
Definition bw_batched := run_batched 3 (init_hg (-1) bw_genesis []) bw_events.

Definition bw_rounds (st : hg) : list (option Z) := map (fun e => round_of_event st (e_id e)) bw_events.

Lemma batching_changes_rounds : bw_rounds bw_per_event <> bw_rounds bw_batched.
Proof. vm_compute. discriminate. Qed.


Lemma batching_witness :
  exists genesis evs k x r1 r2,
    round_of_event (run (init_hg (-1) genesis []) evs) x = Some r1 /\
    round_of_event (run_batched k (init_hg (-1) genesis []) evs) x = Some r2 /\ r1 <> r2.
Proof.
  exists bw_genesis, bw_events, 3%nat, 13, 4, 3.
  split; [vm_compute; reflexivity|]. split; [vm_compute; reflexivity|discriminate].
Qed.
