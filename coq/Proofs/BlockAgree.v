(* Stage B: two nodes fed parts of one fork-free universe of events (static membership) build the
   same frame for every round that both have processed, and deliver the same blocks. *)
From Coq Require Import ZArith List Bool Lia ZifyBool Permutation Sorted.
From RecordUpdate Require Import RecordSet.
From V Require Import Model.ZMap Model.Quorum Model.Voting Model.VotingRef Model.Median Model.HgImpl
  Proofs.ZMapFacts Proofs.QuorumProofs Proofs.HgFrames Proofs.HgDagFrames Proofs.AdmissionProofs Proofs.Ancestry
  Proofs.HgBlockFrames Proofs.BlockInv Proofs.RoundOrder Proofs.OrderSort Proofs.OrderFrames Proofs.OrderProofs
  Proofs.VotingProofs Proofs.FameBridge Proofs.Static Proofs.FirstDesc Proofs.FdWalk Proofs.DivInv Proofs.CInvRun
  Proofs.Height Proofs.StronglySee Proofs.RoundFun Proofs.ViewOk Proofs.SameHistory Proofs.Agreement Proofs.NoFail
  Proofs.LrFrames Proofs.LceFrames Proofs.FameInv Proofs.LateWitness Proofs.FamousSet Proofs.DecidedFlag Proofs.RoundReceived
  Proofs.UndFrames Proofs.Undetermined Proofs.Committed Proofs.FsvFrames Proofs.FrameFn Proofs.FrameInv Proofs.BlockShape
  Proofs.MedianProofs.
Import ListNotations RecordSetNotations.
Open Scope Z_scope.

(* signatures (their R component) are not reused: the tie-break of the consensus order *)
Definition sigkeys_determine (all : list event) : Prop :=
  forall e e', In e all -> In e' all -> e_sigkey e = e_sigkey e' -> e = e'.

Lemma sigkeys_determine_distinct all : distinctb (map e_sigkey all) = true -> sigkeys_determine all.
Proof. intros H e e' He He' E. eapply NoDup_map_inj; eauto. apply distinctb_NoDup. exact H. Qed.

Lemma nf_fready g all st : nf_inv g all st -> fready g st.
Proof.
  intros [Gi LA I R Hf Lce]. pose proof (gi_core _ _ Gi) as C. constructor.
  - apply (g_dag _ _ C).
  - exact I.
  - intros x ex Hx. destruct (ev_lt ex) as [t|] eqn:Et; [|exfalso; apply (gi_all _ _ Gi Hf x ex Hx Et)].
    rewrite (l_ev _ (g_l _ _ C) x ex t Hx Et). discriminate.
  - intros r x Hx. destruct (c_in _ (g_o _ _ C) r x Hx) as [ex [Hex _]]. rewrite Hex. discriminate.
  - exact Lce.
Qed.

(* the attributes of a frame event are the memoised round and witness flag and the Lamport timestamp *)
Lemma cfe_attrs g all st x fe : nf_inv g all st -> create_frame_event st x = Some fe ->
  fe_id fe = x /\ zget x (round_memo st) = Some (fe_round fe) /\ zget x (witness_memo st) = Some (fe_wit fe) /\
  exists ex, get_event st x = Some ex /\ ev_lt ex = Some (fe_lt fe).
Proof.
  intros [Gi LA I R Hf Lce]. unfold create_frame_event.
  destruct (get_event st x) as [ex|] eqn:Hx; [|discriminate].
  destruct (zget x (round_memo st)) as [r|] eqn:Hr; [|discriminate].
  destruct (get_round st r) as [ri|] eqn:Hri; [|discriminate].
  destruct (aget x (ri_created ri)) as [[w t0]|] eqn:Ha; [|discriminate].
  destruct (zget x (lt_memo st)) as [t|] eqn:Ht; [|discriminate].
  intros H; inversion H; subst; clear H. cbn [fe_id fe_round fe_wit fe_lt].
  split; [reflexivity|]. split; [reflexivity|]. split.
  - assert (Hin : In (x, w) (wl st r)).
    { unfold wl. rewrite Hri. unfold wl_of. apply in_map_iff. exists (x, (w, t0)). split; [reflexivity|].
      apply FdWalk.aget_In. exact Ha. }
    destruct (c_tab _ _ _ I r x w Hin) as [_ Hw]. exact Hw.
  - exists ex. split; [reflexivity|].
    destruct (ev_lt ex) as [t'|] eqn:Et; [|exfalso; apply (gi_all _ _ Gi Hf x ex Hx Et)].
    pose proof (l_ev _ (g_l _ _ (gi_core _ _ Gi)) x ex t' Hx Et) as Hm. congruence.
Qed.

Section Two.
  Variables (g : peerset) (all : list event).
  Hypothesis ID : ids_determine all.
  Hypothesis NA : no_accept all.

  Notation reach := (reachable g all).

  Lemma reach_nf st : reach st -> nf_inv g all st.
  Proof. intros [s [o [ops [H ->]]]]. apply (hrun_nf g all s o ops ID NA H). Qed.

  Lemma reach_sb sa sb : reach sa -> reach sb -> same_bodies sa sb.
  Proof.
    intros Ra Rb. pose proof (reach_nf _ Ra) as Na. pose proof (reach_nf _ Rb) as Nb.
    apply (same_bodies_of_universe all g sa sb ID (nf_good g all sa Na) (nf_good g all sb Nb));
      [apply (g_from _ _ (gi_core _ _ (nf_g _ _ _ Na)))|apply (g_from _ _ (gi_core _ _ (nf_g _ _ _ Nb)))].
  Qed.

  Lemma cfe_cross sa sb x fa fb : reach sa -> reach sb ->
    create_frame_event sa x = Some fa -> create_frame_event sb x = Some fb -> fa = fb.
  Proof.
    intros Ra Rb Ha Hb. pose proof (reach_nf _ Ra) as Na. pose proof (reach_nf _ Rb) as Nb.
    destruct (cfe_attrs g all sa x fa Na Ha) as [A1 [A2 [A3 [ea [A4 A5]]]]].
    destruct (cfe_attrs g all sb x fb Nb Hb) as [B1 [B2 [B3 [eb [B4 B5]]]]].
    destruct (reach_round_agree g all ID NA sa sb x ea eb Ra Rb (nf_f _ _ _ Na) (nf_f _ _ _ Nb) A4 B4) as [_ [_ [Er Ew]]].
    destruct (reach_lamport_agree g all ID NA sa sb x ea eb Ra Rb (nf_f _ _ _ Na) (nf_f _ _ _ Nb) A4 B4) as [El _].
    destruct fa as [i1 r1 t1 w1], fb as [i2 r2 t2 w2]. cbn in *. f_equal; congruence.
  Qed.

  Lemma fe_of_cross sa sb x : reach sa -> reach sb -> get_event sa x <> None -> get_event sb x <> None ->
    fe_of sa x = fe_of sb x.
  Proof.
    intros Ra Rb Ha Hb. unfold fe_of.
    pose proof (create_frame_event_some g sa x (nf_fready g all sa (reach_nf _ Ra)) Ha) as Sa.
    pose proof (create_frame_event_some g sb x (nf_fready g all sb (reach_nf _ Rb)) Hb) as Sb.
    destruct (create_frame_event sa x) as [fa|] eqn:Ea; [|contradiction].
    destruct (create_frame_event sb x) as [fb|] eqn:Eb; [|contradiction].
    apply (cfe_cross sa sb x fa fb Ra Rb Ea Eb).
  Qed.

  Lemma sp_of_cross sa sb x ea eb : reach sa -> reach sb -> get_event sa x = Some ea -> get_event sb x = Some eb ->
    sp_of sa x = sp_of sb x /\ creator_of sa x = creator_of sb x /\ ts_of sa x = ts_of sb x /\
    sigkey_of sa x = sigkey_of sb x /\
    (sp_of sa x = -1 \/ (get_event sa (sp_of sa x) <> None /\ get_event sb (sp_of sa x) <> None)).
  Proof.
    intros Ra Rb Ha Hb. pose proof (reach_sb sa sb Ra Rb x ea eb Ha Hb) as E.
    unfold sp_of, creator_of, ts_of, sigkey_of. rewrite Ha, Hb, E. repeat split; try reflexivity.
    pose proof (g_dag _ _ (gi_core _ _ (nf_g _ _ _ (reach_nf _ Ra)))) as OKa.
    pose proof (g_dag _ _ (gi_core _ _ (nf_g _ _ _ (reach_nf _ Rb)))) as OKb.
    destruct (d_sp sb OKb x eb Hb) as [[Hs _]|[ps [Hps _]]]; [left; exact Hs|right].
    destruct (d_sp sa OKa x ea Ha) as [[Hs _]|[pa [Hpa _]]].
    - rewrite E in Hs. rewrite Hs in Hps. apply stored_nonneg in Hps. lia.
    - rewrite E in Hpa. rewrite Hpa, Hps. split; discriminate.
  Qed.

  Lemma sp_chain_cross sa sb : reach sa -> reach sb -> forall n h, get_event sa h <> None -> get_event sb h <> None ->
    sp_chain sa h n = sp_chain sb h n /\
    forall x, In x (sp_chain sa h n) -> get_event sa x <> None /\ get_event sb x <> None.
  Proof.
    intros Ra Rb. induction n as [|n IH]; intros h Ha Hb; cbn [sp_chain]; [split; [reflexivity|intros x []]|].
    destruct (get_event sa h) as [ea|] eqn:Ea; [|contradiction]. destruct (get_event sb h) as [eb|] eqn:Eb; [|contradiction].
    destruct (sp_of_cross sa sb h ea eb Ra Rb Ea Eb) as [Es [_ [_ [_ Hs]]]]. rewrite <- Es.
    destruct (Z.eqb_spec (sp_of sa h) (-1)) as [E|E]; [split; [reflexivity|intros x []]|].
    destruct Hs as [?|[Sa Sb]]; [contradiction|].
    destruct (IH (sp_of sa h) Sa Sb) as [Ec Hc]. rewrite Ec. split; [reflexivity|].
    intros x [<-|Hx]; [auto|]. rewrite <- Ec in Hx. apply Hc. exact Hx.
  Qed.

  Lemma root_fn_cross sa sb h : reach sa -> reach sb ->
    (h = -1 \/ (get_event sa h <> None /\ get_event sb h <> None)) -> root_fn sa h = root_fn sb h.
  Proof.
    intros Ra Rb Hh. unfold root_fn. destruct (Z.eqb_spec h (-1)) as [E|E]; [reflexivity|].
    destruct Hh as [?|[Ha Hb]]; [contradiction|].
    destruct (sp_chain_cross sa sb Ra Rb ROOT_DEPTH h Ha Hb) as [Ec Hc]. rewrite <- Ec. f_equal.
    apply map_ext_in. intros x [<-|Hx]; [apply fe_of_cross; assumption|].
    destruct (Hc x Hx) as [A B]. apply fe_of_cross; assumption.
  Qed.
End Two.

(** * The received set of a processed round is the same in both nodes *)
Section Pair.
  Variables (g : peerset) (all : list event).
  Hypothesis ID : ids_determine all.
  Hypothesis NA : no_accept all.
  Hypothesis FF : fork_free all.
  Variables (s1 s2 : Z) (o1 o2 : list Z) (ops1 ops2 : list hop).
  Hypothesis H1 : Forall (hop_ok all) ops1.
  Hypothesis H2 : Forall (hop_ok all) ops2.
  Let st1 := hrun (init_hg s1 g o1) ops1.
  Let st2 := hrun (init_hg s2 g o2) ops2.

  Lemma pair_reach : reachable g all st1 /\ reachable g all st2.
  Proof. split; [exists s1, o1, ops1|exists s2, o2, ops2]; auto. Qed.

  Lemma pair_ncf : no_cross_fork st1 st2.
  Proof.
    destruct pair_reach as [R1 R2]. pose proof (reach_nf g all ID NA _ R1) as N1. pose proof (reach_nf g all ID NA _ R2) as N2.
    apply (no_cross_fork_of_universe all); [exact FF|apply (g_dag _ _ (gi_core _ _ (nf_g _ _ _ N1)))|apply (g_dag _ _ (gi_core _ _ (nf_g _ _ _ N2)))
      |apply (g_from _ _ (gi_core _ _ (nf_g _ _ _ N1)))|apply (g_from _ _ (gi_core _ _ (nf_g _ _ _ N2)))].
  Qed.

  (* the famous witnesses of a round flagged decided in both *)
  Lemma fam_cross R w : flag st1 R -> flag st2 R -> (In w (fam st1 R) <-> In w (fam st2 R)).
  Proof.
    intros [r1 [G1 D1]] [r2 [G2 D2]]. rewrite (fam_get_round st1 R r1 G1), (fam_get_round st2 R r2 G2).
    apply (famous_witnesses_agree_decided_hrun g all s1 s2 o1 o2 ops1 ops2 R r1 r2 w ID NA H1 H2 pair_ncf G1 G2 D1 D2).
  Qed.

  Lemma rr_cross x R : rr_of st1 x = Some R -> lcle st2 R -> rr_of st2 x = Some R.
  Proof.
    intros Hx Hlc. destruct pair_reach as [Re1 Re2].
    pose proof (reach_nf g all ID NA _ Re1) as N1. pose proof (reach_nf g all ID NA _ Re2) as N2.
    pose proof (nf_good g all st1 N1) as G1. pose proof (nf_good g all st2 N2) as G2.
    pose proof (reach_sb g all ID NA st1 st2 Re1 Re2) as SB.
    destruct (rr_spec_run g all ID NA s1 o1 ops1 H1 x R Hx) as [r [Hrm [Hlt [Hfl [Hno Hrc]]]]].
    fold st1 in Hrm, Hfl, Hno, Hrc.
    assert (HR0 : 0 <= R) by (destruct (c_rdom _ _ _ (gd_c _ _ G1) x r Hrm) as [H0 _]; lia).
    pose proof (Hfl R ltac:(lia)) as F1. pose proof (flag_below_lc st2 R (nf_r _ _ _ N2) Hlc HR0) as F2.
    assert (Hx1 : exists e1, get_event st1 x = Some e1).
    { unfold rr_of in Hx. destruct (get_event st1 x) as [e1|]; [eauto|discriminate]. }
    destruct Hx1 as [e1 He1].
    (* x is stored in the second node: it is below a famous witness of round R *)
    assert (Hx2 : exists e2, get_event st2 x = Some e2).
    { destruct Hrc as [Hsee Hsm]. pose proof (super_majority_pos g) as Hp.
      assert (Hne : exists w, In w (fam st1 R)).
      { destruct (fam st1 R) as [|w l]; [cbn in Hsm; lia|exists w; left; reflexivity]. }
      destruct Hne as [w Hw1]. pose proof (proj1 (fam_cross R w F1 F2) Hw1) as Hw2.
      pose proof (Hsee w Hw1) as Hs.
      apply (fam_frec g st1 R w G1) in Hw1. destruct (wits_stored g st1 G1 R w (frec_wits g st1 R w true G1 Hw1)) as [ew1 Hew1].
      apply (fam_frec g st2 R w G2) in Hw2. destruct (wits_stored g st2 G2 R w (frec_wits g st2 R w true G2 Hw2)) as [ew2 Hew2].
      apply (see_true_anc g st1 w x ew1 e1 G1 Hew1 He1) in Hs.
      destruct (anc_common g st1 st2 G1 G2 SB w ew1 ew2 x Hew1 Hew2 Hs) as [_ Hst]. exact Hst. }
    destruct Hx2 as [e2 He2].
    pose proof (rcond_cross g all s1 s2 o1 o2 ops1 ops2 R x e1 e2 ID NA H1 H2 pair_ncf F1 F2 He1 He2) as RC.
    fold st1 st2 in RC.
    destruct (rr_of st2 x) as [R'|] eqn:Hr2.
    - f_equal. symmetry.
      apply (rr_agreement_hrun g all s1 s2 o1 o2 ops1 ops2 x e1 e2 R R' ID NA H1 H2 pair_ncf He1 He2).
      + unfold rr_of in Hx. fold st1 in He1. rewrite He1 in Hx. exact Hx.
      + unfold rr_of in Hr2. fold st2 in He2. rewrite He2 in Hr2. exact Hr2.
    - exfalso. pose proof (hrun_uinv g all s2 o2 ops2 ID NA H2) as UI. fold st2 in UI.
      assert (Hu : ustop g st2 x) by (apply (ui_u _ _ UI x); [rewrite He2; discriminate|exact Hr2]).
      destruct Hu as [r' [j0 [Hr' [Hlt' [Hnf [_ Hall]]]]]].
      destruct (memo_agree g st1 st2 G1 G2 SB x e1 e2 He1 He2) as [Er _]. assert (r' = r) by congruence. subst r'.
      assert (Hj0 : R < j0).
      { destruct (Z.lt_ge_cases R j0) as [|Hge]; [assumption|exfalso]. apply Hnf.
        apply (flag_below_lc st2 j0 (nf_r _ _ _ N2)); [|destruct (c_rdom _ _ _ (gd_c _ _ G2) x r Hr') as [H0 _]; lia].
        destruct Hlc as [l [Hl Hle]]. exists l. split; [exact Hl|lia]. }
      destruct (Hall R ltac:(lia)) as [_ Hnr]. apply Hnr. apply RC. exact Hrc.
  Qed.
End Pair.

(** * The frames of a round processed by both nodes are equal *)
Lemma frame_ext (f1 f2 : frame) :
  f_round f1 = f_round f2 -> f_peers f1 = f_peers f2 -> f_roots f1 = f_roots f2 -> f_events f1 = f_events f2 ->
  f_peersets f1 = f_peersets f2 -> f_ts f1 = f_ts f2 -> f1 = f2.
Proof. destruct f1, f2. cbn. intros. congruence. Qed.

Lemma StronglySorted_impl_in {A} (R R' : A -> A -> Prop) l :
  (forall a b, In a l -> In b l -> R a b -> R' a b) -> StronglySorted R l -> StronglySorted R' l.
Proof.
  induction l as [|x l IH]; intros H S; [constructor|]. inversion S as [|? ? S1 F1]; subst. constructor.
  - apply IH; [|exact S1]. intros a b Ha Hb. apply H; right; assumption.
  - rewrite Forall_forall in *. intros y Hy. apply H; [left; reflexivity|right; exact Hy|apply F1; exact Hy].
Qed.

Section Agree.
  Variables (g : peerset) (all : list event).
  Hypothesis ID : ids_determine all.
  Hypothesis SK : sigkeys_determine all.
  Hypothesis NA : no_accept all.
  Hypothesis FF : fork_free all.

  (* frame equations in two reachable states + the same lower frames => the same frame *)
  Lemma FE_agree sa oa opsa sb ob opsb R fa fb :
    Forall (hop_ok all) opsa -> Forall (hop_ok all) opsb ->
    let Sa := hrun (init_hg sa g oa) opsa in
    let Sb := hrun (init_hg sb g ob) opsb in
    zget R (frames Sa) = Some fa -> zget R (frames Sb) = Some fb -> FE g Sa R fa -> FE g Sb R fb ->
    (forall x, In x (map fe_id (f_events fa)) <-> In x (map fe_id (f_events fb))) ->
    (forall R', 0 <= R' < R -> zget R' (frames Sa) = zget R' (frames Sb)) ->
    fa = fb.
  Proof.
    intros Ha Hb Sa Sb Hza Hzb [Pa Qa [ria [Hria Tsa]] Ea Ra] [Pb Qb [rib [Hrib Tsb]] Eb Rb] Hids Hlow.
    assert (Rea : reachable g all Sa) by (exists sa, oa, opsa; auto).
    assert (Reb : reachable g all Sb) by (exists sb, ob, opsb; auto).
    pose proof (reach_nf g all ID NA _ Rea) as Na. pose proof (reach_nf g all ID NA _ Reb) as Nb.
    pose proof (nf_good g all _ Na) as Ga. pose proof (nf_good g all _ Nb) as Gb.
    pose proof (gi_f _ _ (nf_g _ _ _ Na) R fa Hza) as [Hra [_ [NDa [_ [Sta Soa]]]]].
    pose proof (gi_f _ _ (nf_g _ _ _ Nb) R fb Hzb) as [Hrb [_ [NDb [_ [Stb Sob]]]]].
    rewrite Forall_forall in Ea, Eb.
    pose proof (zget_some_nonneg _ _ _ Hza) as HR0.
    (* the events *)
    assert (Hel : forall fe, In fe (f_events fa) <-> In fe (f_events fb)).
    { assert (G : forall f1 f2 (E1 : forall fe, In fe (f_events f1) -> create_frame_event Sa (fe_id fe) = Some fe)
                  (E2 : forall fe, In fe (f_events f2) -> create_frame_event Sb (fe_id fe) = Some fe),
                  (forall x, In x (map fe_id (f_events f1)) -> In x (map fe_id (f_events f2))) ->
                  forall fe, In fe (f_events f1) -> In fe (f_events f2)).
      { intros f1 f2 E1 E2 Hi fe Hfe. pose proof (Hi _ (in_map fe_id _ _ Hfe)) as Hin.
        apply in_map_iff in Hin. destruct Hin as [fe' [Eid Hfe']].
        pose proof (E1 fe Hfe) as C1. pose proof (E2 fe' Hfe') as C2. rewrite Eid in C2.
        rewrite (cfe_cross g all ID NA Sa Sb _ fe fe' Rea Reb C1 C2). exact Hfe'. }
      intros fe. split.
      - apply (G fa fb Ea Eb). intros x. apply Hids.
      - intros Hfe. pose proof (proj2 (Hids _) (in_map fe_id _ _ Hfe)) as Hin.
        apply in_map_iff in Hin. destruct Hin as [fe' [Eid Hfe']].
        pose proof (Ea fe' Hfe') as C1. pose proof (Eb fe Hfe) as C2. rewrite Eid in C1.
        rewrite <- (cfe_cross g all ID NA Sa Sb _ fe' fe Rea Reb C1 C2). exact Hfe'. }
    assert (Hstored : forall fe, In fe (f_events fa) -> exists ea eb, get_event Sa (fe_id fe) = Some ea /\ get_event Sb (fe_id fe) = Some eb).
    { intros fe Hfe. destruct (Sta fe Hfe) as [ea Hea]. destruct (Stb fe (proj1 (Hel fe) Hfe)) as [eb Heb]. eauto. }
    assert (Eev : f_events fa = f_events fb).
    { apply (sorted_perm_unique (fe_le Sa)).
      - apply NoDup_Permutation; [eapply NoDup_map_inv; exact NDa|eapply NoDup_map_inv; exact NDb|exact Hel].
      - exact Soa.
      - apply (StronglySorted_impl_in (fe_le Sb)); [|exact Sob].
        intros a b Hina Hinb. apply Hel in Hina. apply Hel in Hinb.
        destruct (Hstored a Hina) as [ea [eb [A1 A2]]]. destruct (Hstored b Hinb) as [ea' [eb' [B1 B2]]].
        destruct (sp_of_cross g all ID NA Sa Sb _ ea eb Rea Reb A1 A2) as [_ [_ [_ [K1 _]]]].
        destruct (sp_of_cross g all ID NA Sa Sb _ ea' eb' Rea Reb B1 B2) as [_ [_ [_ [K2 _]]]].
        rewrite !fe_le_spec, K1, K2. auto.
      - intros a b Hina Hinb L1 L2. rewrite fe_le_spec in L1, L2.
        destruct (Hstored a Hina) as [ea [_ [A1 _]]]. destruct (Hstored b Hinb) as [eb [_ [B1 _]]].
        assert (Ks : sigkey_of Sa (fe_id a) = sigkey_of Sa (fe_id b)) by lia.
        unfold sigkey_of in Ks. rewrite A1, B1 in Ks.
        pose proof (g_from _ _ (gi_core _ _ (nf_g _ _ _ Na))) as FA. pose proof (g_dag _ _ (gi_core _ _ (nf_g _ _ _ Na))) as OK.
        pose proof (SK _ _ (FA _ _ A1) (FA _ _ B1) Ks) as Ee.
        apply (NoDup_map_inj fe_id (f_events fa)); auto.
        rewrite <- (d_id _ OK _ _ A1), <- (d_id _ OK _ _ B1), Ee. reflexivity. }
    apply frame_ext; [congruence|congruence| |exact Eev|congruence|].
    - (* roots *)
      rewrite Ra, Rb, <- Eev.
      pose proof (hrun_fsv g all ID NA sa oa opsa Ha) as Fa. pose proof (hrun_fsv g all ID NA sb ob opsb Hb) as Fb.
      fold Sa in Fa. fold Sb in Fb. rewrite (init_fsv sa g oa) in Fa. rewrite (init_fsv sb g ob) in Fb.
      unfold fsv in Fa, Fb. inversion Fa as [[Fa1 Fa2]]. inversion Fb as [[Fb1 Fb2]]. rewrite Fa1, Fa2, Fb1, Fb2.
      assert (Elce : lce_fn (creator_of Sa) (frames Sa) (Z.to_nat R) = lce_fn (creator_of Sb) (frames Sb) (Z.to_nat R)).
      { apply lce_fn_ext; [intros R' HR'; apply Hlow; lia|].
        intros R' f fe HR' Hz Hfe. rewrite Z2Nat.id in HR' by exact HR0.
        destruct (gi_f _ _ (nf_g _ _ _ Na) R' f Hz) as [_ [_ [_ [_ [St1 _]]]]]. destruct (St1 fe Hfe) as [ea Hea].
        rewrite (Hlow R' HR') in Hz.
        destruct (gi_f _ _ (nf_g _ _ _ Nb) R' f Hz) as [_ [_ [_ [_ [St2 _]]]]]. destruct (St2 fe Hfe) as [eb Heb].
        destruct (sp_of_cross g all ID NA Sa Sb _ ea eb Rea Reb Hea Heb) as [_ [K _]]. exact K. }
      unfold roots_fn.
      rewrite (roots1_fn_ext (creator_of Sa) (creator_of Sb) (sp_of Sa) (sp_of Sb) (fun _ h => root_fn Sa h) (fun _ h => root_fn Sb h)).
      2:{ intros fe Hfe. destruct (Hstored fe Hfe) as [ea [eb [A1 A2]]].
          destruct (sp_of_cross g all ID NA Sa Sb _ ea eb Rea Reb A1 A2) as [K1 [K2 [_ [_ K3]]]].
          split; [exact K2|]. rewrite <- K1. apply (root_fn_cross g all ID NA Sa Sb _ Rea Reb). exact K3. }
      apply roots2_fn_ext. intros p _. rewrite <- Elce.
      apply (root_fn_cross g all ID NA Sa Sb _ Rea Reb).
      unfold lce_head. destruct (aget (pkey p) (lce_fn (creator_of Sa) (frames Sa) (Z.to_nat R))) as [h|] eqn:Eh; [right|left; reflexivity].
      destruct (lce_fn_creator _ _ _ _ _ Eh) as [_ [R0 [f0 [HR0' [Hz0 Hin0]]]]].
      rewrite Z2Nat.id in HR0' by exact HR0.
      apply in_map_iff in Hin0. destruct Hin0 as [fe [Efe Hfe]].
      destruct (gi_f _ _ (nf_g _ _ _ Na) R0 f0 Hz0) as [_ [_ [_ [_ [St1 _]]]]]. destruct (St1 fe Hfe) as [ea Hea].
      rewrite (Hlow R0 HR0') in Hz0.
      destruct (gi_f _ _ (nf_g _ _ _ Nb) R0 f0 Hz0) as [_ [_ [_ [_ [St2 _]]]]]. destruct (St2 fe Hfe) as [eb Heb].
      rewrite Efe in Hea, Heb. rewrite Hea, Heb. split; discriminate.
    - (* the timestamp: median over the famous witnesses *)
      rewrite Tsa, Tsb.
      destruct (hrun_pinv g all ID NA sa oa opsa Ha) as [_ FRa _]. destruct (hrun_pinv g all ID NA sb ob opsb Hb) as [_ FRb _].
      fold Sa in FRa. fold Sb in FRb.
      pose proof (flag_below_lc Sa R (nf_r _ _ _ Na) (FRa R fa Hza) HR0) as Fla.
      pose proof (flag_below_lc Sb R (nf_r _ _ _ Nb) (FRb R fb Hzb) HR0) as Flb.
      assert (Pm : Permutation (famous_witnesses ria) (famous_witnesses rib)).
      { rewrite <- (fam_get_round Sa R ria Hria), <- (fam_get_round Sb R rib Hrib).
        apply NoDup_Permutation; [apply (fam_nodup g Sa R Ga)|apply (fam_nodup g Sb R Gb)|].
        intros w. apply (fam_cross g all ID NA FF sa sb oa ob opsa opsb Ha Hb R w Fla Flb). }
      apply median_perm_invariant.
      eapply Permutation_trans; [apply (Permutation_map (ts_of Sa)); exact Pm|].
      assert (Eq : map (ts_of Sa) (famous_witnesses rib) = map (ts_of Sb) (famous_witnesses rib)).
      { apply map_ext_in. intros w Hw.
        assert (Hw2 : In w (fam Sb R)) by (rewrite (fam_get_round Sb R rib Hrib); exact Hw).
        pose proof (proj2 (fam_cross g all ID NA FF sa sb oa ob opsa opsb Ha Hb R w Fla Flb) Hw2) as Hw1.
        apply (fam_frec g Sa R w Ga) in Hw1. destruct (wits_stored g Sa Ga R w (frec_wits g Sa R w true Ga Hw1)) as [ea Hea].
        apply (fam_frec g Sb R w Gb) in Hw2. destruct (wits_stored g Sb Gb R w (frec_wits g Sb R w true Gb Hw2)) as [eb Heb].
        destruct (sp_of_cross g all ID NA Sa Sb _ ea eb Rea Reb Hea Heb) as [_ [_ [K _]]]. exact K. }
      rewrite Eq. apply Permutation_refl.
  Qed.
End Agree.

Lemma Forall_firstn' {A} (P : A -> Prop) l k : Forall P l -> Forall P (firstn k l).
Proof.
  revert k. induction l as [|x l IH]; intros k H; destruct k; cbn [firstn]; try constructor.
  - inversion H; assumption.
  - apply IH. inversion H; assumption.
Qed.

Section Frames.
  Variables (g : peerset) (all : list event).
  Hypothesis ID : ids_determine all.
  Hypothesis SK : sigkeys_determine all.
  Hypothesis NA : no_accept all.
  Hypothesis FF : fork_free all.

  (* one direction of the identifier sets *)
  Lemma frame_ids_incl s1 s2 o1 o2 ops1 ops2 R f1 f2 :
    Forall (hop_ok all) ops1 -> Forall (hop_ok all) ops2 ->
    let st1 := hrun (init_hg s1 g o1) ops1 in
    let st2 := hrun (init_hg s2 g o2) ops2 in
    zget R (frames st1) = Some f1 -> zget R (frames st2) = Some f2 ->
    forall x, In x (map fe_id (f_events f1)) -> In x (map fe_id (f_events f2)).
  Proof.
    intros H1 H2 st1 st2 Hz1 Hz2 x Hx.
    pose proof (hrun_nf g all s1 o1 ops1 ID NA H1) as N1. fold st1 in N1.
    apply in_map_iff in Hx. destruct Hx as [fe [Eid Hfe]].
    destruct (frame_events_received all st1 R f1 fe (nf_g _ _ _ N1) Hz1 Hfe) as [_ [_ [ex [Hex [Hrr _]]]]].
    assert (R1 : rr_of st1 x = Some R) by (unfold rr_of; rewrite <- Eid, Hex; exact Hrr).
    destruct (hrun_pinv g all ID NA s2 o2 ops2 H2) as [_ FR2 DB2]. fold st2 in FR2, DB2.
    pose proof (FR2 R f2 Hz2) as Hlc.
    pose proof (rr_cross g all ID NA FF s1 s2 o1 o2 ops1 ops2 H1 H2 x R R1 Hlc) as R2. fold st2 in R2.
    unfold rr_of in R2. destruct (get_event st2 x) as [e2|] eqn:He2; [|discriminate].
    destruct (DB2 x e2 R He2 R2 Hlc) as [f [Hzf [Hin _]]]. rewrite Hz2 in Hzf. inversion Hzf; subst f. exact Hin.
  Qed.

  Theorem frames_agree s1 s2 o1 o2 ops1 ops2 :
    Forall (hop_ok all) ops1 -> Forall (hop_ok all) ops2 ->
    let st1 := hrun (init_hg s1 g o1) ops1 in
    let st2 := hrun (init_hg s2 g o2) ops2 in
    forall R f1 f2, zget R (frames st1) = Some f1 -> zget R (frames st2) = Some f2 -> f1 = f2.
  Proof.
    intros H1 H2 st1 st2.
    assert (G : forall n R, (Z.to_nat R < n)%nat -> forall f1 f2,
              zget R (frames st1) = Some f1 -> zget R (frames st2) = Some f2 -> f1 = f2).
    { induction n as [|n IH]; intros R Hn f1 f2 Hz1 Hz2; [lia|].
      pose proof (zget_some_nonneg _ _ _ Hz1) as HR0.
      destruct (f2_fe _ _ _ _ (hrun_finv2 g all ID NA s1 o1 ops1 H1) R f1 Hz1) as [k1 [_ [FE1 C1]]].
      destruct (f2_fe _ _ _ _ (hrun_finv2 g all ID NA s2 o2 ops2 H2) R f2 Hz2) as [k2 [_ [FE2 C2]]].
      pose proof (Forall_firstn' _ _ k1 H1) as P1. pose proof (Forall_firstn' _ _ k2 H2) as P2.
      apply (FE_agree g all ID SK NA FF s1 o1 (firstn k1 ops1) s2 o2 (firstn k2 ops2) R f1 f2 P1 P2 C1 C2 FE1 FE2).
      - intros x. split.
        + apply (frame_ids_incl s1 s2 o1 o2 ops1 ops2 R f1 f2 H1 H2 Hz1 Hz2).
        + apply (frame_ids_incl s2 s1 o2 o1 ops2 ops1 R f2 f1 H2 H1 Hz2 Hz1).
      - intros R' HR'.
        assert (Low : forall s o ops k f, Forall (hop_ok all) ops ->
                  zget R (frames (hrun (init_hg s g o) (firstn k ops))) = Some f ->
                  exists f', zget R' (frames (hrun (init_hg s g o) (firstn k ops))) = Some f' /\
                             zget R' (frames (hrun (init_hg s g o) ops)) = Some f').
        { intros s o ops k f Hops Hc. pose proof (Forall_firstn' _ _ k Hops) as Pk.
          destruct (hrun_pinv g all ID NA s o (firstn k ops) Pk) as [_ FRk _].
          destruct (FRk R f Hc) as [l [Hl Hle]].
          pose proof (f2_fc _ _ _ _ (hrun_finv2 g all ID NA s o (firstn k ops) Pk) R' ltac:(lia)
                        ltac:(exists l; split; [exact Hl|lia])) as Hne.
          destruct (zget R' (frames (hrun (init_hg s g o) (firstn k ops)))) as [f'|] eqn:E; [|contradiction].
          exists f'. split; [reflexivity|]. apply (prefix_fext g all ID NA s o ops Hops k R' f' E). }
        destruct (Low s1 o1 ops1 k1 f1 H1 C1) as [f1' [A1 B1]]. destruct (Low s2 o2 ops2 k2 f2 H2 C2) as [f2' [A2 B2]].
        rewrite A1, A2. f_equal. apply (IH R' ltac:(lia) f1' f2' B1 B2). }
    intros R f1 f2. apply (G (S (Z.to_nat R)) R). lia.
  Qed.
End Frames.

(** * Delivered blocks *)
Definition cbody (d : block) := (b_index d, b_rr d, b_ts d, b_txs d, b_itxs d, b_frame d, b_peers d).

Lemma sorted_prefix_nth : forall l1 l2, StronglySorted Z.lt l1 -> StronglySorted Z.lt l2 ->
  (forall x, In x l1 -> In x l2) -> (forall x y, In x l2 -> In y l1 -> x < y -> In x l1) ->
  forall k a b, nth_error l1 k = Some a -> nth_error l2 k = Some b -> a = b.
Proof.
  induction l1 as [|a0 l1 IH]; intros l2 S1 S2 Hin Hcl k a b Ha Hb; [destruct k; discriminate|].
  destruct l2 as [|b0 l2]; [destruct (Hin a0 (or_introl eq_refl))|].
  inversion S1 as [|? ? S1' F1]; subst. inversion S2 as [|? ? S2' F2]; subst. rewrite Forall_forall in F1, F2.
  assert (E0 : a0 = b0).
  { destruct (Hin a0 (or_introl eq_refl)) as [E|Hi]; [auto|]. pose proof (F2 a0 Hi) as Hlt.
    destruct (Hcl b0 a0 (or_introl eq_refl) (or_introl eq_refl) Hlt) as [E|Hi']; [auto|]. pose proof (F1 b0 Hi'). lia. }
  subst b0. destruct k as [|k]; cbn in Ha, Hb; [congruence|].
  refine (IH l2 S1' S2' _ _ k a b Ha Hb).
  - intros x Hx. destruct (Hin x (or_intror Hx)) as [E|Hi]; [|exact Hi]. pose proof (F1 x Hx). lia.
  - intros x y Hx Hy Hlt. destruct (Hcl x y (or_intror Hx) (or_intror Hy) Hlt) as [E|Hi]; [|exact Hi]. pose proof (F2 x Hx). lia.
Qed.

Lemma flat_map_nonempty {A B} (f : A -> list B) l : flat_map f l <> [] -> exists a, In a l /\ f a <> [].
Proof.
  induction l as [|a l IH]; cbn [flat_map]; [intros H; contradiction|].
  intros H. destruct (f a) as [|b r] eqn:E.
  - destruct (IH H) as [a' [Hi Hn]]. exists a'. split; [right; exact Hi|exact Hn].
  - exists a. split; [left; reflexivity|rewrite E; discriminate].
Qed.

Lemma flat_map_ext_in {A B} (f f' : A -> list B) l : (forall a, In a l -> f a = f' a) -> flat_map f l = flat_map f' l.
Proof.
  induction l as [|a l IH]; intros H; cbn [flat_map]; [reflexivity|].
  rewrite (H a (or_introl eq_refl)), IH; [reflexivity|]. intros a' Ha'. apply H. right. exact Ha'.
Qed.

Lemma prefix_of_pointwise {A} : forall (l1 l2 : list A), (length l1 <= length l2)%nat ->
  (forall k a b, nth_error l1 k = Some a -> nth_error l2 k = Some b -> a = b) -> l1 = firstn (length l1) l2.
Proof.
  induction l1 as [|x l1 IH]; intros l2 Hlen H; [reflexivity|].
  destruct l2 as [|y l2]; [cbn in Hlen; lia|]. cbn [length firstn].
  rewrite (H O x y eq_refl eq_refl). f_equal. apply IH; [cbn in Hlen; lia|].
  intros k a b Ha Hb. apply (H (S k) a b Ha Hb).
Qed.

Section Blocks.
  Variables (g : peerset) (all : list event).
  Hypothesis ID : ids_determine all.
  Hypothesis SK : sigkeys_determine all.
  Hypothesis NA : no_accept all.
  Hypothesis FF : fork_free all.

  (* a block of one node is a block of the other as soon as the other has processed its round *)
  Lemma block_transfer s1 s2 o1 o2 ops1 ops2 d1 :
    Forall (hop_ok all) ops1 -> Forall (hop_ok all) ops2 ->
    let st1 := hrun (init_hg s1 g o1) ops1 in
    let st2 := hrun (init_hg s2 g o2) ops2 in
    In d1 (delivered st1) -> lcle st2 (b_rr d1) ->
    exists d2, In d2 (delivered st2) /\ b_rr d2 = b_rr d1 /\ b_frame d2 = b_frame d1.
  Proof.
    intros H1 H2 st1 st2 Hd1 Hlc.
    pose proof (hrun_nf g all s1 o1 ops1 ID NA H1) as N1. pose proof (hrun_nf g all s2 o2 ops2 ID NA H2) as N2.
    fold st1 in N1. fold st2 in N2.
    destruct (gi_d _ _ (nf_g _ _ _ N1) d1 Hd1) as [Hz1 [Htx Hitx]].
    pose proof (zget_some_nonneg _ _ _ Hz1) as HR0.
    pose proof (f2_fc _ _ _ _ (hrun_finv2 g all ID NA s2 o2 ops2 H2) (b_rr d1) HR0 Hlc) as Hne. fold st2 in Hne.
    destruct (zget (b_rr d1) (frames st2)) as [f2|] eqn:Hz2; [|contradiction].
    pose proof (frames_agree g all ID SK NA FF s1 s2 o1 o2 ops1 ops2 H1 H2 (b_rr d1) (b_frame d1) f2 Hz1 Hz2) as Ef. subst f2.
    (* an event with a payload *)
    assert (Hp : exists fe, In fe (f_events (b_frame d1)) /\ (txs_of st1 fe <> [] \/ itxs_of st1 fe <> [])).
    { destruct (hrun_payload s1 g o1 ops1 d1 Hd1) as [Hp|Hp].
      - rewrite Htx in Hp. destruct (flat_map_nonempty _ _ Hp) as [fe [A B]]. eauto.
      - rewrite Hitx in Hp. destruct (flat_map_nonempty _ _ Hp) as [fe [A B]]. eauto. }
    destruct Hp as [fe [Hfe Hpay]].
    destruct (frame_events_received all st1 _ _ fe (nf_g _ _ _ N1) Hz1 Hfe) as [_ [_ [e1 [He1 _]]]].
    destruct (frame_events_received all st2 _ _ fe (nf_g _ _ _ N2) Hz2 Hfe) as [_ [_ [e2 [He2 [Hrr2 _]]]]].
    assert (Rea : reachable g all st1) by (exists s1, o1, ops1; auto).
    assert (Reb : reachable g all st2) by (exists s2, o2, ops2; auto).
    pose proof (reach_sb g all ID NA st1 st2 Rea Reb _ e1 e2 He1 He2) as Eb.
    destruct (hrun_pinv g all ID NA s2 o2 ops2 H2) as [_ _ DB2]. fold st2 in DB2.
    destruct (DB2 _ e2 _ He2 Hrr2 Hlc) as [f [Hzf [_ Hd]]]. rewrite Hz2 in Hzf. inversion Hzf; subst f.
    assert (P2 : payload e2).
    { unfold payload. rewrite <- Eb. unfold txs_of, itxs_of in Hpay. rewrite He1 in Hpay. exact Hpay. }
    destruct (Hd P2) as [d2 [A [B C]]]. exists d2. auto.
  Qed.

  Theorem blocks_agree s1 s2 o1 o2 ops1 ops2 k d1 d2 :
    Forall (hop_ok all) ops1 -> Forall (hop_ok all) ops2 ->
    let st1 := hrun (init_hg s1 g o1) ops1 in
    let st2 := hrun (init_hg s2 g o2) ops2 in
    nth_error (delivered st1) k = Some d1 -> nth_error (delivered st2) k = Some d2 -> cbody d1 = cbody d2.
  Proof.
    intros H1 H2 st1 st2 Hk1 Hk2.
    pose proof (hrun_nf g all s1 o1 ops1 ID NA H1) as N1. pose proof (hrun_nf g all s2 o2 ops2 ID NA H2) as N2.
    fold st1 in N1. fold st2 in N2.
    pose proof (nth_error_In _ _ Hk1) as Hd1. pose proof (nth_error_In _ _ Hk2) as Hd2.
    destruct (nf_r _ _ _ N1) as [A1 _]. destruct (nf_r _ _ _ N2) as [A2 _].
    (* the same round-received *)
    assert (Err : b_rr d1 = b_rr d2).
    { destruct (r_del_lc _ A1 d1 Hd1) as [l1 [Hl1 Hle1]]. destruct (r_del_lc _ A2 d2 Hd2) as [l2 [Hl2 Hle2]].
      assert (T12 : forall d, In d (delivered st1) -> b_rr d <= l2 -> In (b_rr d) (map b_rr (delivered st2))).
      { intros d Hd Hle. destruct (block_transfer s1 s2 o1 o2 ops1 ops2 d H1 H2 Hd ltac:(exists l2; auto)) as [d' [A [B _]]].
        rewrite <- B. apply in_map. exact A. }
      assert (T21 : forall d, In d (delivered st2) -> b_rr d <= l1 -> In (b_rr d) (map b_rr (delivered st1))).
      { intros d Hd Hle. destruct (block_transfer s2 s1 o2 o1 ops2 ops1 d H2 H1 Hd ltac:(exists l1; auto)) as [d' [A [B _]]].
        rewrite <- B. apply in_map. exact A. }
      assert (B1 : forall d, In d (delivered st1) -> b_rr d <= l1).
      { intros d Hd. destruct (r_del_lc _ A1 d Hd) as [l [Hl Hle]]. congruence. }
      assert (B2 : forall d, In d (delivered st2) -> b_rr d <= l2).
      { intros d Hd. destruct (r_del_lc _ A2 d Hd) as [l [Hl Hle]]. congruence. }
      destruct (Z.le_ge_cases l1 l2) as [Hl|Hl].
      - apply (sorted_prefix_nth (map b_rr (delivered st1)) (map b_rr (delivered st2)) (r_del_sorted _ A1) (r_del_sorted _ A2)) with (k := k).
        + intros x Hx. apply in_map_iff in Hx. destruct Hx as [d [<- Hd]]. apply T12; [exact Hd|]. specialize (B1 d Hd). lia.
        + intros x y Hx Hy Hlt. apply in_map_iff in Hx. destruct Hx as [d [<- Hd]].
          apply in_map_iff in Hy. destruct Hy as [d' [<- Hd']]. apply T21; [exact Hd|]. specialize (B1 d' Hd'). lia.
        + apply map_nth_error. exact Hk1.
        + apply map_nth_error. exact Hk2.
      - symmetry.
        apply (sorted_prefix_nth (map b_rr (delivered st2)) (map b_rr (delivered st1)) (r_del_sorted _ A2) (r_del_sorted _ A1)) with (k := k).
        + intros x Hx. apply in_map_iff in Hx. destruct Hx as [d [<- Hd]]. apply T21; [exact Hd|]. specialize (B2 d Hd). lia.
        + intros x y Hx Hy Hlt. apply in_map_iff in Hx. destruct Hx as [d [<- Hd]].
          apply in_map_iff in Hy. destruct Hy as [d' [<- Hd']]. apply T12; [exact Hd|]. specialize (B2 d' Hd'). lia.
        + apply map_nth_error. exact Hk2.
        + apply map_nth_error. exact Hk1. }
    destruct (gi_d _ _ (nf_g _ _ _ N1) d1 Hd1) as [Hz1 [Htx1 Hitx1]].
    destruct (gi_d _ _ (nf_g _ _ _ N2) d2 Hd2) as [Hz2 [Htx2 Hitx2]].
    rewrite <- Err in Hz2.
    pose proof (frames_agree g all ID SK NA FF s1 s2 o1 o2 ops1 ops2 H1 H2 _ _ _ Hz1 Hz2) as Ef.
    destruct (hrun_tinv s1 g o1 ops1 d1 Hd1) as [Ts1 Ps1]. destruct (hrun_tinv s2 g o2 ops2 d2 Hd2) as [Ts2 Ps2].
    pose proof (binv_consecutive _ (hrun_binv s1 g o1 ops1) k d1 Hk1) as I1.
    pose proof (binv_consecutive _ (hrun_binv s2 g o2 ops2) k d2 Hk2) as I2.
    assert (Rea : reachable g all st1) by (exists s1, o1, ops1; auto).
    assert (Reb : reachable g all st2) by (exists s2, o2, ops2; auto).
    assert (Ebody : forall fe, In fe (f_events (b_frame d1)) -> txs_of st1 fe = txs_of st2 fe /\ itxs_of st1 fe = itxs_of st2 fe).
    { intros fe Hfe.
      destruct (frame_events_received all st1 _ _ fe (nf_g _ _ _ N1) Hz1 Hfe) as [_ [_ [e1 [He1 _]]]].
      rewrite Ef in Hfe.
      destruct (frame_events_received all st2 _ _ fe (nf_g _ _ _ N2) Hz2 Hfe) as [_ [_ [e2 [He2 _]]]].
      unfold txs_of, itxs_of. rewrite He1, He2, (reach_sb g all ID NA st1 st2 Rea Reb _ e1 e2 He1 He2). auto. }
    unfold cbody. rewrite I1, I2, Err, Ts1, Ts2, Ps1, Ps2, Htx1, Htx2, Hitx1, Hitx2, <- Ef.
    rewrite (flat_map_ext_in (txs_of st1) (txs_of st2)) by (intros fe Hfe; apply (Ebody fe Hfe)).
    rewrite (flat_map_ext_in (itxs_of st1) (itxs_of st2)) by (intros fe Hfe; apply (Ebody fe Hfe)).
    reflexivity.
  Qed.

  (* prefix form *)
  Corollary blocks_prefix s1 s2 o1 o2 ops1 ops2 :
    Forall (hop_ok all) ops1 -> Forall (hop_ok all) ops2 ->
    let st1 := hrun (init_hg s1 g o1) ops1 in
    let st2 := hrun (init_hg s2 g o2) ops2 in
    (length (delivered st1) <= length (delivered st2))%nat ->
    map cbody (delivered st1) = firstn (length (delivered st1)) (map cbody (delivered st2)).
  Proof.
    intros H1 H2 st1 st2 Hlen. rewrite <- (map_length cbody (delivered st1)).
    apply prefix_of_pointwise; [rewrite !map_length; exact Hlen|].
    intros k a b Ha Hb.
    destruct (nth_error (delivered st1) k) as [d1|] eqn:D1.
    2:{ apply nth_error_None in D1. assert (C : nth_error (map cbody (delivered st1)) k <> None) by (rewrite Ha; discriminate).
        apply nth_error_Some in C. rewrite map_length in C. lia. }
    destruct (nth_error (delivered st2) k) as [d2|] eqn:D2.
    2:{ apply nth_error_None in D2. assert (C : nth_error (map cbody (delivered st2)) k <> None) by (rewrite Hb; discriminate).
        apply nth_error_Some in C. rewrite map_length in C. lia. }
    rewrite (map_nth_error cbody _ _ D1) in Ha. rewrite (map_nth_error cbody _ _ D2) in Hb.
    inversion Ha; inversion Hb; subst. apply (blocks_agree s1 s2 o1 o2 ops1 ops2 k d1 d2 H1 H2 D1 D2).
  Qed.
End Blocks.
