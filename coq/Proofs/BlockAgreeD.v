(* Dynamic membership (model after fix 05eda0b): AGREEMENT ON THE TRANSACTIONS OF THE DELIVERED BLOCKS for two nodes that
   respect the distance bound -- with NO premise on the validator-set tables: [tables_agree] is PROVED here, by induction
   on the total number of steps of the two runs (remove the last step of one run; the lookups the longer run makes for
   its new rounds are determined by blocks both nodes have processed, whose internal transactions agree by the induction
   hypothesis and the round-received / frame-event agreement of Proofs/RoundReceivedD.v, Proofs/CommittedD.v).
   The frame level used here is the list of (event, Lamport timestamp) of a cached frame: roots, f_peers and f_peersets
   are not compared (they are not needed for the transactions). *)
From Coq Require Import ZArith List Bool Lia ZifyBool Permutation Sorted.
From RecordUpdate Require Import RecordSet.
From V Require Import Proofs.MedianProofs Proofs.TidyC18.
From V Require Import Model.ZMap Model.Quorum Model.Voting Model.VotingRef Model.HgImpl Model.PeerSetSpec Model.Window
  Proofs.ZMapFacts Proofs.QuorumProofs Proofs.HgFrames Proofs.HgDagFrames Proofs.AdmissionProofs Proofs.InsertShape Proofs.Ancestry
  Proofs.HgBlockFrames Proofs.BlockInv Proofs.RoundOrder Proofs.OrderSort Proofs.OrderFrames Proofs.OrderProofs
  Proofs.VotingProofs Proofs.FameBridge Proofs.Static Proofs.FirstDesc Proofs.FdWalk Proofs.DivInv Proofs.CInvRun
  Proofs.Height Proofs.StronglySee Proofs.RoundFun Proofs.ViewOk Proofs.SameHistory Proofs.Agreement Proofs.NoFail
  Proofs.LrFrames Proofs.LceFrames Proofs.FameInv Proofs.LateWitness Proofs.FamousSet Proofs.DecidedFlag Proofs.RoundReceived
  Proofs.UndFrames Proofs.Undetermined Proofs.Committed Proofs.FrameInv Proofs.BlockShape Proofs.BlockAgree
  Proofs.PeerSetProofs Proofs.TidyRR Proofs.LrMono Proofs.WindowStable Proofs.GapWindow
  Proofs.FirstDescD Proofs.InsertInvD Proofs.DivInvD Proofs.CInvRunD Proofs.StronglySeeD Proofs.RoundFunD Proofs.RoundAgreeD
  Proofs.ViewOkD Proofs.SameHistoryD Proofs.AgreementD Proofs.FameInvD Proofs.LateWitnessD Proofs.FamousSetD Proofs.DecidedFlagD
  Proofs.RoundReceivedD Proofs.UndeterminedD Proofs.CommittedD Proofs.OrderIndepD.
Import ListNotations RecordSetNotations.
Open Scope Z_scope.

(** * The distance bound on prefixes and in the final state *)
Lemma gap_runb_app st a b : gap_runb st (a ++ b) = true -> gap_runb st a = true /\ gap_runb (hrun st a) b = true.
Proof.
  revert st. induction a as [|o a IH]; intros st H; cbn [app gap_runb hrun fold_left] in *; [auto|].
  apply andb_prop in H. destruct H as [H1 H2]. destruct (IH _ H2) as [A B]. rewrite H1, A. auto.
Qed.

(** * last_consensus never decreases *)
Definition lc_le (s s' : hg) : Prop :=
  forall l, last_consensus s = Some l -> exists l', last_consensus s' = Some l' /\ l <= l'.

Lemma lc_le_refl s : lc_le s s.
Proof. intros l H. exists l. split; [exact H|lia]. Qed.
Lemma lc_le_trans a b c : lc_le a b -> lc_le b c -> lc_le a c.
Proof. intros A B l H. destruct (A l H) as [l1 [H1 L1]]. destruct (B l1 H1) as [l2 [H2 L2]]. exists l2. split; [exact H2|lia]. Qed.
Lemma lc_le_eq s s' : last_consensus s' = last_consensus s -> lc_le s s'.
Proof. intros E l H. exists l. rewrite E. split; [exact H|lia]. Qed.

Lemma lc_le_bump s r : lc_le s (bump_last_consensus s r).
Proof.
  intros l H. unfold bump_last_consensus. rewrite H. destruct (Z.ltb_spec l r).
  - exists r. split; [destruct s; reflexivity|lia].
  - exists l. split; [exact H|lia].
Qed.

Lemma get_frame_lc st rr : last_consensus (snd (get_frame st rr)) = last_consensus st.
Proof.
  destruct (get_frame_cases st rr) as [[E _]|[E|[f [ri [evs [E _]]]]]]; rewrite E; cbn [snd]; try reflexivity.
Qed.

Lemma process_round_lc_le s p stop pr : lc_le s (fst (fst (process_round (s, p, stop) pr))).
Proof.
  unfold process_round. destruct (stop || failed s); [apply lc_le_refl|].
  destruct (negb (snd pr)); [apply lc_le_refl|].
  destruct (get_round s (fst pr)); [|apply lc_le_eq; destruct s; reflexivity].
  pose proof (get_frame_lc s (fst pr)) as L1.
  destruct (get_frame s (fst pr)) as [[f|] s1]; cbn [snd fst] in *.
  - eapply lc_le_trans; [|apply lc_le_bump]. apply lc_le_eq.
    destruct (cv_lc_fr _ _ (process_frame_cv s1 f)) as [A _]. congruence.
  - apply lc_le_eq. rewrite <- L1. destruct s1; reflexivity.
Qed.

Lemma process_decided_rounds_lc_le st : lc_le st (process_decided_rounds st).
Proof.
  unfold process_decided_rounds.
  assert (G : forall l s p b, lc_le s (fst (fst (fold_left process_round l (s, p, b))))).
  { induction l as [|pr l IH]; intros s p b; cbn [fold_left]; [apply lc_le_refl|].
    pose proof (process_round_lc_le s p b pr) as A. destruct (process_round (s, p, b) pr) as [[s' p'] b']. cbn [fst] in A.
    eapply lc_le_trans; [exact A|apply IH]. }
  specialize (G (pending st) st [] false).
  destruct (fold_left process_round (pending st) (st, [], false)) as [[s processed] stop]. cbn [fst] in G.
  eapply lc_le_trans; [exact G|]. apply lc_le_eq. destruct s; reflexivity.
Qed.

Lemma run_consensus_lc_le st : lc_le st (run_consensus st).
Proof.
  unfold run_consensus.
  assert (A1 : lc_le st (divide_rounds st)).
  { apply lc_le_eq. destruct (bview_fields _ _ (divide_rounds_bview st)) as [_ [_ L]]. exact L. }
  destruct (failed (divide_rounds st)); [exact A1|]. cbv zeta.
  assert (A2 : lc_le st (decide_fame (divide_rounds st))).
  { eapply lc_le_trans; [exact A1|]. apply lc_le_eq. destruct (bview_fields _ _ (decide_fame_bview (divide_rounds st))) as [_ [_ L]]. exact L. }
  destruct (failed (decide_fame (divide_rounds st))); [exact A2|].
  assert (A3 : lc_le st (decide_round_received (decide_fame (divide_rounds st)))).
  { eapply lc_le_trans; [exact A2|]. apply lc_le_eq. destruct (bview_fields _ _ (decide_round_received_bview (decide_fame (divide_rounds st)))) as [_ [_ L]]. exact L. }
  destruct (failed (decide_round_received (decide_fame (divide_rounds st)))); [exact A3|].
  eapply lc_le_trans; [exact A3|apply process_decided_rounds_lc_le].
Qed.

Lemma hstep_lc_le st o : lc_le st (hstep st o).
Proof.
  destruct o as [e|]; cbn [hstep].
  - unfold step, insert_and_run. pose proof (insert_event_bview st e) as B.
    destruct (insert_event st e) as [r s]. cbn [snd] in B.
    assert (A : lc_le st s) by (apply lc_le_eq; destruct (bview_fields _ _ B) as [_ [_ L]]; exact L).
    destruct r; cbn [snd]; try exact A. eapply lc_le_trans; [exact A|apply run_consensus_lc_le].
  - apply lc_le_eq. assert (E : rv (process_sigpool st) = rv st).
    { unfold process_sigpool. generalize (sigpool st). intros l. generalize st.
      induction l as [|s l IHl]; intros st0; cbn [fold_left]; [reflexivity|]. rewrite IHl. apply (proj1 (process_sig_rv st0 s)). }
    destruct (rv_fields _ _ E) as [_ [_ [L _]]]. exact L.
Qed.

(* a processed round stays processed *)
Lemma lcle_hstep st o R : lcle st R -> lcle (hstep st o) R.
Proof. apply lcle_mono. apply hstep_lc_le. Qed.

Lemma lcle_hrun ops : forall st R, lcle st R -> lcle (hrun st ops) R.
Proof. induction ops as [|o ops IH]; intros st R H; cbn [hrun fold_left]; [exact H|]. apply IH. apply lcle_hstep. exact H. Qed.

(* the block that writes the entry of a round q reachable under the distance bound is already processed *)
Lemma gap_step_processed st o R q : gap_stepb st (hstep st o) = true -> 0 <= R -> R + 6 <= q -> q <= last_round (hstep st o) -> lcle st R.
Proof.
  unfold gap_stepb, lc_next, lcle. intros G H0 Hq Hl. apply Z.leb_le in G.
  destruct (last_consensus st) as [l|]; [exists l; split; [reflexivity|lia]|lia].
Qed.

(** * Two nodes that respect the distance bound and whose tables agree *)
Lemma StronglySorted_map_intro {A B} (f : A -> B) (R : B -> B -> Prop) l :
  StronglySorted (fun a b => R (f a) (f b)) l -> StronglySorted R (map f l).
Proof.
  induction 1 as [|a l S IH F]; cbn [map]; constructor; [exact IH|].
  rewrite Forall_forall in *. intros y Hy. apply in_map_iff in Hy. destruct Hy as [x [<- Hx]]. apply F. exact Hx.
Qed.

(* the (event, Lamport timestamp) list of a frame *)
Definition kl (f : frame) : list (Z * Z) := map (fun fe => (fe_id fe, fe_lt fe)) (f_events f).

Section PairD.
  Variables (all : list event) (s1 s2 : Z) (g1 g2 : peerset) (o1 o2 : list Z) (ops1 ops2 : list hop).
  Hypothesis ID : ids_determine all.
  Hypothesis FF : fork_free all.
  Hypothesis S1 : s1 <> -1.
  Hypothesis S2 : s2 <> -1.
  Hypothesis H1 : Forall (hop_ok all) ops1.
  Hypothesis H2 : Forall (hop_ok all) ops2.
  Hypothesis B1 : gap_runb (init_hg s1 g1 o1) ops1 = true.
  Hypothesis B2 : gap_runb (init_hg s2 g2 o2) ops2 = true.
  Let st1 := hrun (init_hg s1 g1 o1) ops1.
  Let st2 := hrun (init_hg s2 g2 o2) ops2.
  Hypothesis F1 : failed st1 = false.
  Hypothesis F2 : failed st2 = false.
  Hypothesis T : tables_agree st1 st2.

  Lemma pair_ncfD : no_cross_fork st1 st2.
  Proof.
    destruct (gap_goodD s1 g1 o1 all ops1 S1 ID H1 B1 F1) as [G1 FA1].
    destruct (gap_goodD s2 g2 o2 all ops2 S2 ID H2 B2 F2) as [G2 FA2].
    apply (no_cross_fork_of_universe all _ _ FF (gD_dag _ _ G1) (gD_dag _ _ G2) FA1 FA2).
  Qed.

  Lemma pair_common : exists P,
    goodD P st1 /\ goodD P st2 /\ rinv st1 /\ rinv st2 /\ same_bodies st1 st2 /\
    (forall q, 0 <= q <= last_round st1 -> P q = psat st1 q) /\ (forall q, 0 <= q <= last_round st2 -> P q = psat st2 q).
  Proof.
    destruct (two_runs_common all s1 s2 g1 g2 o1 o2 ops1 ops2 ID S1 S2 H1 H2 B1 B2 F1 F2 T) as [P [G1 [G2 [R1 [R2 [T1 [T2 SB]]]]]]].
    fold st1 in G1, R1, T1, SB. fold st2 in G2, R2, T2, SB.
    exists P. repeat (split; [assumption|]). split.
    - intros q Hq. pose proof (T1 q Hq) as A. pose proof (psat_some s1 g1 o1 ops1 q S1) as Q. fold st1 in Q. rewrite Q in A. inversion A. reflexivity.
    - intros q Hq. pose proof (T2 q Hq) as A. pose proof (psat_some s2 g2 o2 ops2 q S2) as Q. fold st2 in Q. rewrite Q in A. inversion A. reflexivity.
  Qed.

  (* an event received in round R by node 1 is received in round R by node 2 as soon as node 2 has processed R *)
  Lemma rr_crossD x R : rr_of st1 x = Some R -> lcle st2 R -> rr_of st2 x = Some R.
  Proof.
    intros Hx Hlc. destruct pair_common as [P [G1 [G2 [R1 [R2 [SB [HP1 HP2]]]]]]].
    pose proof pair_ncfD as NF.
    pose proof (rr_spec_preD s1 g1 o1 all ops1 S1 ID H1 B1 P HP1 (length ops1)) as A. cbv zeta beta in A. rewrite firstn_all in A. fold st1 in A.
    destruct (A F1 x R Hx) as [r [Hrm [Hlt [Hfl [Hno Hrc]]]]].
    assert (HR0 : 0 <= R) by (destruct (cd_rdom _ _ _ (gD_c _ _ G1) x r Hrm) as [H0 _]; lia).
    pose proof (Hfl R ltac:(lia)) as Fl1. pose proof (flag_below_lc st2 R R2 Hlc HR0) as Fl2.
    assert (Hx1 : exists e1, get_event st1 x = Some e1).
    { unfold rr_of in Hx. destruct (get_event st1 x) as [e1|]; [eauto|discriminate]. }
    destruct Hx1 as [e1 He1].
    assert (FamX : forall w, In w (fam st1 R) <-> In w (fam st2 R)).
    { intros w. rewrite (fam_frecD P st1 R w G1), (fam_frecD P st2 R w G2).
      apply (famous_agree_flags_gap all s1 s2 g1 g2 o1 o2 ops1 ops2 R w ID S1 S2 H1 H2 B1 B2 F1 F2 T NF Fl1 Fl2). }
    assert (Hx2 : exists e2, get_event st2 x = Some e2).
    { destruct Hrc as [Hsee Hsm]. pose proof (super_majority_pos (P R)) as Hp.
      assert (Hne : exists w, In w (fam st1 R)).
      { destruct (fam st1 R) as [|w l]; [cbn in Hsm; lia|exists w; left; reflexivity]. }
      destruct Hne as [w Hw1]. pose proof (proj1 (FamX w) Hw1) as Hw2.
      pose proof (Hsee w Hw1) as Hs.
      apply (fam_frecD P st1 R w G1) in Hw1. destruct (wits_storedD P st1 G1 R w (frec_witsD P st1 R w true G1 Hw1)) as [ew1 Hew1].
      apply (fam_frecD P st2 R w G2) in Hw2. destruct (wits_storedD P st2 G2 R w (frec_witsD P st2 R w true G2 Hw2)) as [ew2 Hew2].
      apply (see_true_ancD P st1 w x ew1 e1 G1 Hew1 He1) in Hs.
      destruct (anc_commonD P P st1 st2 G1 G2 SB w ew1 ew2 x Hew1 Hew2 Hs) as [_ Hst]. exact Hst. }
    destruct Hx2 as [e2 He2].
    assert (RC : rcond (P R) st1 R x <-> rcond (P R) st2 R x).
    { apply rcond_same; [apply (fam_nodupD P st1 R G1)|apply (fam_nodupD P st2 R G2)|intros w; symmetry; apply FamX|].
      intros w Hw1. pose proof (proj1 (FamX w) Hw1) as Hw2.
      apply (fam_frecD P st1 R w G1) in Hw1. apply (fam_frecD P st2 R w G2) in Hw2.
      destruct (wits_storedD P st1 G1 R w (frec_witsD P st1 R w true G1 Hw1)) as [e1w H1w].
      destruct (wits_storedD P st2 G2 R w (frec_witsD P st2 R w true G2 Hw2)) as [e2w H2w].
      symmetry. apply (see_agreeD P st1 st2 G1 G2 SB w x e1w e2w e1 e2 H1w H2w He1 He2). }
    destruct (rr_of st2 x) as [R'|] eqn:Hr2.
    - f_equal. symmetry.
      apply (rr_agreement_gap all s1 s2 g1 g2 o1 o2 ops1 ops2 x e1 e2 R R' ID S1 S2 H1 H2 B1 B2 F1 F2 T NF He1 He2).
      + unfold rr_of in Hx. fold st1 in He1. rewrite He1 in Hx. exact Hx.
      + unfold rr_of in Hr2. fold st2 in He2. rewrite He2 in Hr2. exact Hr2.
    - exfalso.
      pose proof (uinv_preD s2 g2 o2 all ops2 S2 ID H2 B2 P HP2 (length ops2)) as UI. rewrite firstn_all in UI. fold st2 in UI. specialize (UI F2).
      assert (Hu : ustopD P st2 x) by (apply (uD_u _ _ UI x); [rewrite He2; discriminate|exact Hr2]).
      destruct Hu as [r' [j0 [Hr' [Hlt' [Hnf [_ Hall]]]]]].
      destruct (memo_agreeD P P st1 st2 G1 G2 SB (fun q _ _ => eq_refl) x e1 e2 He1 He2) as [Er _]. assert (r' = r) by congruence. subst r'.
      assert (Hj0 : R < j0).
      { destruct (Z.lt_ge_cases R j0) as [|Hge]; [assumption|exfalso]. apply Hnf.
        apply (flag_below_lc st2 j0 R2); [|destruct (cd_rdom _ _ _ (gD_c _ _ G2) x r Hr') as [H0 _]; lia].
        destruct Hlc as [l [Hl Hle]]. exists l. split; [exact Hl|lia]. }
      destruct (Hall R ltac:(lia)) as [_ Hnr]. apply Hnr. apply RC. exact Hrc.
  Qed.

  (* every (event, timestamp) of node 1's frame of round R is in node 2's frame of round R *)
  Lemma kl_incl R f1 f2 : zget R (frames st1) = Some f1 -> zget R (frames st2) = Some f2 -> incl (kl f1) (kl f2).
  Proof.
    intros Hz1 Hz2 p Hp. unfold kl in Hp. apply in_map_iff in Hp. destruct Hp as [fe1 [<- Hfe1]].
    pose proof (hrun_ginv all s1 g1 o1 ops1 ID H1) as Gi1. pose proof (hrun_ginv all s2 g2 o2 ops2 ID H2) as Gi2.
    fold st1 in Gi1. fold st2 in Gi2.
    destruct (frame_events_received all st1 R f1 fe1 Gi1 Hz1 Hfe1) as [_ [_ [ex1 [Hex1 [Hrr1 Hlt1]]]]].
    destruct (hrun_pinvD s2 g2 o2 all ops2 S2 ID H2 B2 F2) as [_ Fr2 Db2]. fold st2 in Fr2, Db2.
    pose proof (Fr2 R f2 Hz2) as Hlc2.
    assert (Rx1 : rr_of st1 (fe_id fe1) = Some R) by (unfold rr_of; rewrite Hex1; exact Hrr1).
    pose proof (rr_crossD (fe_id fe1) R Rx1 Hlc2) as Rx2.
    unfold rr_of in Rx2. destruct (get_event st2 (fe_id fe1)) as [ex2|] eqn:Hex2; [|discriminate].
    destruct (Db2 (fe_id fe1) ex2 R Hex2 Rx2 Hlc2) as [f [Hzf [Hin _]]]. rewrite Hz2 in Hzf. inversion Hzf; subst f.
    apply in_map_iff in Hin. destruct Hin as [fe2 [Eid Hfe2]].
    destruct (frame_events_received all st2 R f2 fe2 Gi2 Hz2 Hfe2) as [_ [_ [ex2' [Hex2' [_ Hlt2]]]]].
    rewrite Eid, Hex2 in Hex2'. inversion Hex2'; subst ex2'.
    destruct (lamport_agree_any all s1 s2 g1 g2 o1 o2 ops1 ops2 (fe_id fe1) ex1 ex2 ID H1 H2 F1 F2 Hex1 Hex2) as [El _].
    rewrite (Hlt1 F1), (Hlt2 F2) in El. inversion El as [El'].
    unfold kl. apply in_map_iff. exists fe2. split; [rewrite Eid, El'; reflexivity|exact Hfe2].
  Qed.
End PairD.

Lemma same_bodies_runs all s1 s2 g1 g2 o1 o2 ops1 ops2 :
  ids_determine all -> Forall (hop_ok all) ops1 -> Forall (hop_ok all) ops2 ->
  same_bodies (hrun (init_hg s1 g1 o1) ops1) (hrun (init_hg s2 g2 o2) ops2).
Proof.
  intros ID H1 H2 y a b Ha Hb.
  pose proof (hrun_ginv all s1 g1 o1 ops1 ID H1) as Gi1. pose proof (hrun_ginv all s2 g2 o2 ops2 ID H2) as Gi2.
  apply ID; [eapply (g_from _ _ (gi_core _ _ Gi1)); eauto|eapply (g_from _ _ (gi_core _ _ Gi2)); eauto|].
  rewrite (d_id _ (g_dag _ _ (gi_core _ _ Gi1)) _ _ Ha), (d_id _ (g_dag _ _ (gi_core _ _ Gi2)) _ _ Hb). reflexivity.
Qed.

(* the frames of a round cached by both nodes list the same events with the same timestamps, in the same order *)
Theorem frames_kl_agree all s1 s2 g1 g2 o1 o2 ops1 ops2 R f1 f2 :
  ids_determine all -> sigkeys_determine all -> fork_free all -> s1 <> -1 -> s2 <> -1 ->
  Forall (hop_ok all) ops1 -> Forall (hop_ok all) ops2 ->
  gap_runb (init_hg s1 g1 o1) ops1 = true -> gap_runb (init_hg s2 g2 o2) ops2 = true ->
  let st1 := hrun (init_hg s1 g1 o1) ops1 in
  let st2 := hrun (init_hg s2 g2 o2) ops2 in
  failed st1 = false -> failed st2 = false -> tables_agree st1 st2 ->
  zget R (frames st1) = Some f1 -> zget R (frames st2) = Some f2 -> kl f1 = kl f2.
Proof.
  intros ID SK FF S1 S2 H1 H2 B1 B2 st1 st2 F1 F2 T Hz1 Hz2.
  pose proof (kl_incl all s1 s2 g1 g2 o1 o2 ops1 ops2 ID FF S1 S2 H1 H2 B1 B2 F1 F2 T R f1 f2 Hz1 Hz2) as I12.
  pose proof (kl_incl all s2 s1 g2 g1 o2 o1 ops2 ops1 ID FF S2 S1 H2 H1 B2 B1 F2 F1 (tables_agree_sym _ _ T) R f2 f1 Hz2 Hz1) as I21.
  pose proof (hrun_ginv all s1 g1 o1 ops1 ID H1) as Gi1. pose proof (hrun_ginv all s2 g2 o2 ops2 ID H2) as Gi2.
  fold st1 in Gi1. fold st2 in Gi2.
  pose proof (same_bodies_runs all s1 s2 g1 g2 o1 o2 ops1 ops2 ID H1 H2) as SB. fold st1 st2 in SB.
  destruct (gi_f _ _ Gi1 R f1 Hz1) as [_ [_ [ND1 [_ [St1 So1]]]]].
  destruct (gi_f _ _ Gi2 R f2 Hz2) as [_ [_ [ND2 [_ [St2 So2]]]]].
  set (RK := fun a b : Z * Z => snd a < snd b \/ (snd a = snd b /\ sigkey_of st1 (fst a) <= sigkey_of st1 (fst b))).
  assert (ND1' : NoDup (kl f1)).
  { apply (NoDup_map_inv fst). unfold kl. rewrite map_map. cbn [fst]. exact ND1. }
  assert (ND2' : NoDup (kl f2)).
  { apply (NoDup_map_inv fst). unfold kl. rewrite map_map. cbn [fst]. exact ND2. }
  apply (sorted_perm_unique RK).
  - apply NoDup_Permutation; [exact ND1'|exact ND2'|]. intros p. split; [apply I12|apply I21].
  - unfold kl. apply StronglySorted_map_intro. apply (StronglySorted_impl_in (fe_le st1)); [|exact So1].
    intros a b _ _ L. rewrite fe_le_spec in L. unfold RK. cbn [fst snd]. exact L.
  - unfold kl. apply StronglySorted_map_intro. apply (StronglySorted_impl_in (fe_le st2)); [|exact So2].
    intros a b Ha Hb L. rewrite fe_le_spec in L. unfold RK. cbn [fst snd].
    assert (Ks : forall fe, In fe (f_events f2) -> sigkey_of st2 (fe_id fe) = sigkey_of st1 (fe_id fe)).
    { intros fe Hfe. destruct (St2 fe Hfe) as [e2 He2].
      assert (Hin : In (fe_id fe, fe_lt fe) (kl f1)) by (apply I21; unfold kl; apply in_map_iff; exists fe; auto).
      unfold kl in Hin. apply in_map_iff in Hin. destruct Hin as [fe' [Eq Hfe']]. injection Eq as Eid Elt.
      destruct (St1 fe' Hfe') as [e1 He1]. rewrite Eid in He1.
      unfold sigkey_of. rewrite He1, He2, (SB _ e1 e2 He1 He2). reflexivity. }
    rewrite <- (Ks a Ha), <- (Ks b Hb). exact L.
  - intros a b Ha Hb L1 L2. unfold RK in L1, L2.
    unfold kl in Ha, Hb. apply in_map_iff in Ha. apply in_map_iff in Hb.
    destruct Ha as [fa [<- Hfa]]. destruct Hb as [fb [<- Hfb]]. cbn [fst snd] in *.
    destruct (St1 fa Hfa) as [ea Hea]. destruct (St1 fb Hfb) as [eb Heb].
    assert (Ks : sigkey_of st1 (fe_id fa) = sigkey_of st1 (fe_id fb)) by lia.
    unfold sigkey_of in Ks. rewrite Hea, Heb in Ks.
    pose proof (g_from _ _ (gi_core _ _ Gi1)) as FA. pose proof (g_dag _ _ (gi_core _ _ Gi1)) as OK.
    pose proof (SK _ _ (FA _ _ Hea) (FA _ _ Heb) Ks) as Ee.
    assert (Eid : fe_id fa = fe_id fb) by (rewrite <- (d_id _ OK _ _ Hea), <- (d_id _ OK _ _ Heb), Ee; reflexivity).
    f_equal; [exact Eid|lia].
Qed.

(** * Blocks of two nodes whose tables agree *)
Definition txs_id (st : hg) (x : Z) : list Z := match get_event st x with Some e => e_txs (ev_e e) | None => [] end.
Definition itxs_id (st : hg) (x : Z) : list itx := match get_event st x with Some e => e_itxs (ev_e e) | None => [] end.

Lemma flat_txs_kl st f : flat_map (txs_of st) (f_events f) = flat_map (fun p => txs_id st (fst p)) (kl f).
Proof. unfold kl. induction (f_events f) as [|fe l IH]; cbn [flat_map map fst]; [reflexivity|]. rewrite IH. reflexivity. Qed.
Lemma flat_itxs_kl st f : flat_map (itxs_of st) (f_events f) = flat_map (fun p => itxs_id st (fst p)) (kl f).
Proof. unfold kl. induction (f_events f) as [|fe l IH]; cbn [flat_map map fst]; [reflexivity|]. rewrite IH. reflexivity. Qed.

Lemma replay_ext tbl vals l1 l2 :
  map (fun d => (b_rr d, b_itxs d)) l1 = map (fun d => (b_rr d, b_itxs d)) l2 -> replay tbl vals l1 = replay tbl vals l2.
Proof.
  revert tbl vals l2. induction l1 as [|d1 l1 IH]; intros tbl vals l2 E; destruct l2 as [|d2 l2]; cbn [map] in E; try discriminate; [reflexivity|].
  injection E as E1 E2 E3. unfold replay. cbn [fold_left]. unfold replay_block at 2 4. rewrite E1, E2.
  destruct (replay_step (tbl, vals) (b_rr d2) (b_itxs d2)) as [t' v']. apply (IH t' v' l2 E3).
Qed.

Section BlocksD.
  Variables (all : list event) (s1 s2 : Z) (g1 g2 : peerset) (o1 o2 : list Z) (ops1 ops2 : list hop).
  Hypothesis ID : ids_determine all.
  Hypothesis SK : sigkeys_determine all.
  Hypothesis FF : fork_free all.
  Hypothesis S1 : s1 <> -1.
  Hypothesis S2 : s2 <> -1.
  Hypothesis H1 : Forall (hop_ok all) ops1.
  Hypothesis H2 : Forall (hop_ok all) ops2.
  Hypothesis B1 : gap_runb (init_hg s1 g1 o1) ops1 = true.
  Hypothesis B2 : gap_runb (init_hg s2 g2 o2) ops2 = true.
  Let st1 := hrun (init_hg s1 g1 o1) ops1.
  Let st2 := hrun (init_hg s2 g2 o2) ops2.
  Hypothesis F1 : failed st1 = false.
  Hypothesis F2 : failed st2 = false.
  Hypothesis T : tables_agree st1 st2.

  (* blocks of one round-received carry the same transactions and internal transactions *)
  Lemma block_data_agree d1 d2 : In d1 (delivered st1) -> In d2 (delivered st2) -> b_rr d1 = b_rr d2 ->
    b_txs d1 = b_txs d2 /\ b_itxs d1 = b_itxs d2.
  Proof.
    intros Hd1 Hd2 Er.
    pose proof (hrun_ginv all s1 g1 o1 ops1 ID H1) as Gi1. pose proof (hrun_ginv all s2 g2 o2 ops2 ID H2) as Gi2.
    fold st1 in Gi1. fold st2 in Gi2.
    destruct (delivered_block_payload all st1 d1 Gi1 Hd1) as [Hz1 [Tx1 Ix1]].
    destruct (delivered_block_payload all st2 d2 Gi2 Hd2) as [Hz2 [Tx2 Ix2]]. rewrite <- Er in Hz2.
    pose proof (frames_kl_agree all s1 s2 g1 g2 o1 o2 ops1 ops2 (b_rr d1) (b_frame d1) (b_frame d2) ID SK FF S1 S2 H1 H2 B1 B2 F1 F2 T Hz1 Hz2) as K.
    pose proof (same_bodies_runs all s1 s2 g1 g2 o1 o2 ops1 ops2 ID H1 H2) as SB. fold st1 st2 in SB.
    destruct (gi_f _ _ Gi1 _ _ Hz1) as [_ [_ [_ [_ [St1 _]]]]]. destruct (gi_f _ _ Gi2 _ _ Hz2) as [_ [_ [_ [_ [St2 _]]]]].
    assert (Hb : forall p, In p (kl (b_frame d1)) -> txs_id st1 (fst p) = txs_id st2 (fst p) /\ itxs_id st1 (fst p) = itxs_id st2 (fst p)).
    { intros p Hp. pose proof Hp as Hp2. rewrite K in Hp2. unfold kl in Hp, Hp2.
      apply in_map_iff in Hp. destruct Hp as [fa [<- Hfa]]. apply in_map_iff in Hp2. destruct Hp2 as [fb [Eq Hfb]].
      injection Eq as Eid _. cbn [fst].
      destruct (St1 fa Hfa) as [e1 He1]. destruct (St2 fb Hfb) as [e2 He2]. rewrite Eid in He2.
      unfold txs_id, itxs_id. rewrite He1, He2, (SB _ e1 e2 He1 He2). auto. }
    rewrite Tx1, Tx2, Ix1, Ix2, !flat_txs_kl, !flat_itxs_kl, <- K. split; apply flat_map_ext_in; intros p Hp; apply (Hb p Hp).
  Qed.

  (* a block of node 1 for a round that node 2 has processed exists in node 2 as well *)
  Lemma block_transferD d1 : In d1 (delivered st1) -> lcle st2 (b_rr d1) -> exists d2, In d2 (delivered st2) /\ b_rr d2 = b_rr d1.
  Proof.
    intros Hd1 Hlc.
    pose proof (hrun_ginv all s1 g1 o1 ops1 ID H1) as Gi1. fold st1 in Gi1.
    destruct (delivered_block_payload all st1 d1 Gi1 Hd1) as [Hz1 [Tx1 Ix1]].
    pose proof (hrun_payload s1 g1 o1 ops1 d1 Hd1) as Hp. unfold pshape in Hp.
    assert (Hfe : exists fe, In fe (f_events (b_frame d1)) /\ (txs_of st1 fe <> [] \/ itxs_of st1 fe <> [])).
    { destruct Hp as [Hp|Hp]; [rewrite Tx1 in Hp|rewrite Ix1 in Hp]; destruct (flat_map_nonempty _ _ Hp) as [fe [A B]]; exists fe; auto. }
    destruct Hfe as [fe [Hfe Hpay]].
    destruct (frame_events_received all st1 _ _ fe Gi1 Hz1 Hfe) as [_ [_ [ex1 [Hex1 [Hrr1 _]]]]].
    assert (Rx1 : rr_of st1 (fe_id fe) = Some (b_rr d1)) by (unfold rr_of; rewrite Hex1; exact Hrr1).
    pose proof (rr_crossD all s1 s2 g1 g2 o1 o2 ops1 ops2 ID FF S1 S2 H1 H2 B1 B2 F1 F2 T (fe_id fe) (b_rr d1) Rx1 Hlc) as Rx2.
    fold st2 in Rx2. unfold rr_of in Rx2. destruct (get_event st2 (fe_id fe)) as [ex2|] eqn:Hex2; [|discriminate].
    destruct (hrun_pinvD s2 g2 o2 all ops2 S2 ID H2 B2 F2) as [_ _ Db2]. fold st2 in Db2.
    destruct (Db2 (fe_id fe) ex2 (b_rr d1) Hex2 Rx2 Hlc) as [f [_ [_ Hp2]]].
    pose proof (same_bodies_runs all s1 s2 g1 g2 o1 o2 ops1 ops2 ID H1 H2) as SB. fold st1 st2 in SB.
    assert (Hpay2 : payload ex2).
    { unfold payload. rewrite <- (SB _ ex1 ex2 Hex1 Hex2). unfold txs_of, itxs_of in Hpay. rewrite Hex1 in Hpay. exact Hpay. }
    destruct (Hp2 Hpay2) as [d2 [Hd2 [Er _]]]. exists d2. auto.
  Qed.
End BlocksD.

(** * The blocks that determine a lookup *)
Lemma StronglySorted_map_elim {A B} (f : A -> B) (R : B -> B -> Prop) l :
  StronglySorted R (map f l) -> StronglySorted (fun a b => R (f a) (f b)) l.
Proof.
  induction l as [|a l IH]; cbn [map]; intros S; [constructor|]. inversion S as [|? ? S1 F1]; subst. constructor; [apply IH; exact S1|].
  rewrite Forall_forall in *. intros x Hx. apply F1. apply in_map. exact Hx.
Qed.

Lemma StronglySorted_filter_keep {A} (R : A -> A -> Prop) (p : A -> bool) l : StronglySorted R l -> StronglySorted R (filter p l).
Proof.
  induction 1 as [|a l S IH F]; cbn [filter]; [constructor|]. destruct (p a); [|exact IH]. constructor; [exact IH|].
  rewrite Forall_forall in *. intros x Hx. apply filter_In in Hx. apply F. tauto.
Qed.

Lemma StronglySorted_lt_NoDup {A} (k : A -> Z) l : StronglySorted (fun a b => k a < k b) l -> NoDup l.
Proof.
  induction 1 as [|a l S IH F]; constructor; [|exact IH]. intros Hin. rewrite Forall_forall in F. specialize (F a Hin). lia.
Qed.

Definition bkey (d : block) : Z * list itx := (b_rr d, b_itxs d).

Theorem effective_agree all s1 s2 g1 g2 o1 o2 ops1 ops2 q :
  ids_determine all -> sigkeys_determine all -> fork_free all -> s1 <> -1 -> s2 <> -1 ->
  Forall (hop_ok all) ops1 -> Forall (hop_ok all) ops2 ->
  gap_runb (init_hg s1 g1 o1) ops1 = true -> gap_runb (init_hg s2 g2 o2) ops2 = true ->
  let st1 := hrun (init_hg s1 g1 o1) ops1 in
  let st2 := hrun (init_hg s2 g2 o2) ops2 in
  failed st1 = false -> failed st2 = false -> tables_agree st1 st2 ->
  (forall d1, In d1 (effective_blocks q (delivered st1)) -> lcle st2 (b_rr d1)) ->
  (forall d2, In d2 (effective_blocks q (delivered st2)) -> lcle st1 (b_rr d2)) ->
  map bkey (effective_blocks q (delivered st1)) = map bkey (effective_blocks q (delivered st2)).
Proof.
  intros ID SK FF S1 S2 H1 H2 B1 B2 st1 st2 F1 F2 T L12 L21.
  pose proof (tables_agree_sym _ _ T) as T'.
  assert (Srt : forall s g o ops, StronglySorted (fun a b : Z * list itx => fst a < fst b)
                  (map bkey (effective_blocks q (delivered (hrun (init_hg s g o) ops))))).
  { intros s g o ops. apply StronglySorted_map_intro. unfold effective_blocks. apply StronglySorted_filter_keep.
    apply (StronglySorted_map_elim b_rr Z.lt). apply (reach_rr_increasing s g o ops). }
  assert (Inc : forall sa sb ga gb oa ob opsa opsb,
            sa <> -1 -> sb <> -1 -> Forall (hop_ok all) opsa -> Forall (hop_ok all) opsb ->
            gap_runb (init_hg sa ga oa) opsa = true -> gap_runb (init_hg sb gb ob) opsb = true ->
            failed (hrun (init_hg sa ga oa) opsa) = false -> failed (hrun (init_hg sb gb ob) opsb) = false ->
            tables_agree (hrun (init_hg sa ga oa) opsa) (hrun (init_hg sb gb ob) opsb) ->
            (forall d1, In d1 (effective_blocks q (delivered (hrun (init_hg sa ga oa) opsa))) -> lcle (hrun (init_hg sb gb ob) opsb) (b_rr d1)) ->
            forall p, In p (map bkey (effective_blocks q (delivered (hrun (init_hg sa ga oa) opsa)))) ->
                      In p (map bkey (effective_blocks q (delivered (hrun (init_hg sb gb ob) opsb))))).
  { intros sa sb ga gb oa ob opsa opsb Sa Sb Ha Hb Ba Bb Fa Fb Tab Lab p Hp.
    apply in_map_iff in Hp. destruct Hp as [d1 [<- Hd1]]. pose proof (Lab d1 Hd1) as Hlc.
    unfold effective_blocks in Hd1. apply filter_In in Hd1. destruct Hd1 as [Hd1 Hq].
    destruct (block_transferD all sa sb ga gb oa ob opsa opsb ID FF Sa Sb Ha Hb Ba Bb Fa Fb Tab d1 Hd1 Hlc) as [d2 [Hd2 Er]].
    destruct (block_data_agree all sa sb ga gb oa ob opsa opsb ID SK FF Sa Sb Ha Hb Ba Bb Fa Fb Tab d1 d2 Hd1 Hd2 (eq_sym Er)) as [_ Ei].
    apply in_map_iff. exists d2. split; [unfold bkey; rewrite Er, Ei; reflexivity|].
    unfold effective_blocks. apply filter_In. split; [exact Hd2|rewrite Er; exact Hq]. }
  apply (sorted_perm_unique (fun a b : Z * list itx => fst a < fst b)).
  - apply NoDup_Permutation; [apply (StronglySorted_lt_NoDup fst), Srt|apply (StronglySorted_lt_NoDup fst), Srt|].
    intros p. split.
    + apply (Inc s1 s2 g1 g2 o1 o2 ops1 ops2 S1 S2 H1 H2 B1 B2 F1 F2 T L12).
    + apply (Inc s2 s1 g2 g1 o2 o1 ops2 ops1 S2 S1 H2 H1 B2 B1 F2 F1 T' L21).
  - apply Srt.
  - apply Srt.
  - intros a b _ _ A B. lia.
Qed.

(** * tables_agree is a THEOREM: induction on the total number of steps *)
Lemma init_no_round self_ g oracle_ q : get_round (init_hg self_ g oracle_) q = None.
Proof.
  destruct (cw_fields _ _ (cw_init self_ g oracle_)) as [_ [Ro _]]. unfold get_round. rewrite Ro. cbn. apply zget_empty.
Qed.

Lemma gap_last_step st ops o : gap_runb st (ops ++ [o]) = true ->
  gap_runb st ops = true /\ gap_stepb (hrun st ops) (hstep (hrun st ops) o) = true.
Proof.
  intros H. destruct (gap_runb_app st ops [o] H) as [A B]. split; [exact A|].
  cbn [gap_runb] in B. apply andb_prop in B. tauto.
Qed.

Lemma exists_last_or_nil {A} (l : list A) : l = [] \/ exists l' a, l = l' ++ [a].
Proof. destruct l as [|x l]; [left; reflexivity|right]. destruct (exists_last (l := x :: l)) as [l' [a E]]; [discriminate|eauto]. Qed.

Lemma ta_step all s1 s2 g o1 o2 ops1 o ops2 :
  ids_determine all -> sigkeys_determine all -> fork_free all -> s1 <> -1 -> s2 <> -1 ->
  Forall (hop_ok all) (ops1 ++ [o]) -> Forall (hop_ok all) ops2 ->
  gap_runb (init_hg s1 g o1) (ops1 ++ [o]) = true -> gap_runb (init_hg s2 g o2) ops2 = true ->
  failed (hrun (init_hg s1 g o1) (ops1 ++ [o])) = false -> failed (hrun (init_hg s2 g o2) ops2) = false ->
  tables_agree (hrun (init_hg s1 g o1) ops1) (hrun (init_hg s2 g o2) ops2) ->
  tables_agree (hrun (init_hg s1 g o1) (ops1 ++ [o])) (hrun (init_hg s2 g o2) ops2).
Proof.
  intros ID SK FF S1 S2 H1 H2 B1 B2 F1 F2 T' q A B.
  pose proof H1 as H1'. apply Forall_app in H1'. destruct H1' as [H1p _].
  destruct (gap_last_step _ _ _ B1) as [B1p G1].
  pose proof (hrun_app (init_hg s1 g o1) ops1 [o]) as Eapp. cbn [hrun fold_left] in Eapp.
  set (st1' := hrun (init_hg s1 g o1) ops1) in *. set (st1 := hrun (init_hg s1 g o1) (ops1 ++ [o])) in *.
  set (st2 := hrun (init_hg s2 g o2) ops2) in *.
  assert (F1p : failed st1' = false).
  { destruct (failed st1') eqn:E; [|reflexivity]. rewrite Eapp, (hstep_failed_mono st1' o E) in F1. discriminate. }
  pose proof (proj2 (hrun_rtop s1 g o1 (ops1 ++ [o])) F1) as R1. fold st1 in R1.
  pose proof (proj2 (hrun_rtop s2 g o2 ops2) F2) as R2. fold st2 in R2.
  assert (Hq1 : 0 <= q <= last_round st1) by (apply (rinv_contig _ R1); exact A).
  assert (Hq2 : 0 <= q <= last_round st2) by (apply (rinv_contig _ R2); exact B).
  (* the lookup of the longer run is the one its prefix would have made *)
  assert (E1 : get_peerset st1' q = get_peerset st1 q).
  { pose proof (gap_run_window s1 g o1 S1 (ops1 ++ [o]) [] B1) as Hw. unfold reach in Hw. cbn in Hw.
    destruct (window_lookup_final_step s1 g o1 S1 (ops1 ++ [o]) (length ops1) q Hw) as [X _].
    - rewrite app_length. cbn. lia.
    - unfold reach. replace (firstn (S (length ops1)) (ops1 ++ [o])) with (ops1 ++ [o]); [fold st1; lia|].
      rewrite firstn_all2; [reflexivity|rewrite app_length; cbn; lia].
    - unfold reach in X. rewrite firstn_app, firstn_all, Nat.sub_diag in X. cbn [firstn] in X. rewrite app_nil_r in X. exact X. }
  rewrite <- E1.
  destruct (get_round st1' q) as [rq|] eqn:Hrq; [apply T'; [rewrite Hrq; discriminate|exact B]|].
  (* a new round of node 1: both lookups are determined by blocks both nodes have processed *)
  unfold st1', st2.
  rewrite (lookup_is_effective_prefix s1 g o1 ops1 q S1 ltac:(lia)), (lookup_is_effective_prefix s2 g o2 ops2 q S2 ltac:(lia)).
  fold st1' st2. f_equal. unfold validators_at, replay_genesis. f_equal. apply replay_ext.
  apply (effective_agree all s1 s2 g g o1 o2 ops1 ops2 q ID SK FF S1 S2 H1p H2 B1p B2 F1p F2 T').
  - intros d1 Hd1. unfold effective_blocks in Hd1. apply filter_In in Hd1. destruct Hd1 as [Hd1 Hle]. apply Z.leb_le in Hle.
    fold st1' in Hd1. fold st2.
    assert (H0 : 0 <= b_rr d1).
    { pose proof (c10inv_rr_nonneg _ _ (proj2 (hrun_c10inv s1 g o1 ops1 S1))) as Fa. rewrite Forall_forall in Fa. apply Fa. exact Hd1. }
    destruct (exists_last_or_nil ops2) as [->|[ops2' [o2' ->]]].
    + exfalso. apply B. unfold st2. cbn [hrun fold_left]. apply init_no_round.
    + destruct (gap_last_step _ _ _ B2) as [_ G2].
      pose proof (hrun_app (init_hg s2 g o2) ops2' [o2']) as Eapp2. cbn [hrun fold_left] in Eapp2.
      unfold st2. rewrite Eapp2. apply lcle_hstep.
      apply (gap_step_processed _ o2' (b_rr d1) q G2 H0 Hle). rewrite <- Eapp2. fold st2. lia.
  - intros d2 Hd2. unfold effective_blocks in Hd2. apply filter_In in Hd2. destruct Hd2 as [Hd2 Hle]. apply Z.leb_le in Hle.
    fold st2 in Hd2. fold st1'.
    assert (H0 : 0 <= b_rr d2).
    { pose proof (c10inv_rr_nonneg _ _ (proj2 (hrun_c10inv s2 g o2 ops2 S2))) as Fa. rewrite Forall_forall in Fa. apply Fa. exact Hd2. }
    apply (gap_step_processed st1' o (b_rr d2) q G1 H0 Hle). rewrite <- Eapp. fold st1. lia.
Qed.

Theorem tables_agree_runs all g : ids_determine all -> sigkeys_determine all -> fork_free all ->
  forall n s1 s2 o1 o2 ops1 ops2, (length ops1 + length ops2 = n)%nat ->
  s1 <> -1 -> s2 <> -1 -> Forall (hop_ok all) ops1 -> Forall (hop_ok all) ops2 ->
  gap_runb (init_hg s1 g o1) ops1 = true -> gap_runb (init_hg s2 g o2) ops2 = true ->
  failed (hrun (init_hg s1 g o1) ops1) = false -> failed (hrun (init_hg s2 g o2) ops2) = false ->
  tables_agree (hrun (init_hg s1 g o1) ops1) (hrun (init_hg s2 g o2) ops2).
Proof.
  intros ID SK FF. induction n as [|n IH]; intros s1 s2 o1 o2 ops1 ops2 Hn S1 S2 H1 H2 B1 B2 F1 F2.
  - destruct ops1; [|cbn in Hn; lia]. intros q A _. exfalso. apply A. cbn [hrun fold_left]. apply init_no_round.
  - destruct (exists_last_or_nil ops1) as [->|[ops1' [o ->]]].
    + (* node 1 has not moved: remove the last step of node 2 *)
      destruct (exists_last_or_nil ops2) as [->|[ops2' [o ->]]]; [cbn in Hn; lia|].
      apply tables_agree_sym.
      pose proof H2 as H2'. apply Forall_app in H2'. destruct H2' as [H2p _].
      destruct (gap_last_step _ _ _ B2) as [B2p _].
      assert (F2p : failed (hrun (init_hg s2 g o2) ops2') = false).
      { destruct (failed (hrun (init_hg s2 g o2) ops2')) eqn:E; [|reflexivity].
        rewrite hrun_app in F2. cbn [hrun fold_left] in F2. rewrite (hstep_failed_mono _ o E) in F2. discriminate. }
      apply (ta_step all s2 s1 g o2 o1 ops2' o [] ID SK FF S2 S1 H2 H1 B2 B1 F2 F1).
      apply tables_agree_sym. apply (IH s1 s2 o1 o2 [] ops2'); auto. rewrite app_length in Hn. cbn in *. lia.
    + pose proof H1 as H1'. apply Forall_app in H1'. destruct H1' as [H1p _].
      destruct (gap_last_step _ _ _ B1) as [B1p _].
      assert (F1p : failed (hrun (init_hg s1 g o1) ops1') = false).
      { destruct (failed (hrun (init_hg s1 g o1) ops1')) eqn:E; [|reflexivity].
        rewrite hrun_app in F1. cbn [hrun fold_left] in F1. rewrite (hstep_failed_mono _ o E) in F1. discriminate. }
      apply (ta_step all s1 s2 g o1 o2 ops1' o ops2 ID SK FF S1 S2 H1 H2 B1 B2 F1 F2).
      apply (IH s1 s2 o1 o2 ops1' ops2); auto. rewrite app_length in Hn. cbn in *. lia.
Qed.

(** * AGREEMENT UNDER DYNAMIC MEMBERSHIP: the k-th delivered blocks of two nodes that respect the distance bound *)
Section Final.
  Variables (all : list event) (g : peerset).
  Hypothesis ID : ids_determine all.
  Hypothesis SK : sigkeys_determine all.
  Hypothesis FF : fork_free all.
  Variables (s1 s2 : Z) (o1 o2 : list Z) (ops1 ops2 : list hop).
  Hypothesis S1 : s1 <> -1.
  Hypothesis S2 : s2 <> -1.
  Hypothesis H1 : Forall (hop_ok all) ops1.
  Hypothesis H2 : Forall (hop_ok all) ops2.
  Hypothesis B1 : gap_runb (init_hg s1 g o1) ops1 = true.
  Hypothesis B2 : gap_runb (init_hg s2 g o2) ops2 = true.
  Let st1 := hrun (init_hg s1 g o1) ops1.
  Let st2 := hrun (init_hg s2 g o2) ops2.
  Hypothesis F1 : failed st1 = false.
  Hypothesis F2 : failed st2 = false.

  Theorem gap_tables_agree : tables_agree st1 st2.
  Proof. apply (tables_agree_runs all g ID SK FF _ s1 s2 o1 o2 ops1 ops2 eq_refl S1 S2 H1 H2 B1 B2 F1 F2). Qed.

  Theorem blocks_agree_gap k d1 d2 :
    nth_error (delivered st1) k = Some d1 -> nth_error (delivered st2) k = Some d2 ->
    b_index d1 = b_index d2 /\ b_rr d1 = b_rr d2 /\ b_txs d1 = b_txs d2 /\ b_itxs d1 = b_itxs d2.
  Proof.
    intros Hk1 Hk2. pose proof gap_tables_agree as T.
    split; [rewrite (binv_consecutive _ (hrun_binv s1 g o1 ops1) k d1 Hk1), (binv_consecutive _ (hrun_binv s2 g o2 ops2) k d2 Hk2); reflexivity|]. pose proof (tables_agree_sym _ _ T) as T'.
    pose proof (nth_error_In _ _ Hk1) as Hd1. pose proof (nth_error_In _ _ Hk2) as Hd2.
    destruct (proj2 (hrun_rtop s1 g o1 ops1) F1) as [A1 _]. destruct (proj2 (hrun_rtop s2 g o2 ops2) F2) as [A2 _].
    fold st1 in A1. fold st2 in A2.
    assert (Err : b_rr d1 = b_rr d2).
    { destruct (r_del_lc _ A1 d1 Hd1) as [l1 [Hl1 Hle1]]. destruct (r_del_lc _ A2 d2 Hd2) as [l2 [Hl2 Hle2]].
      assert (T12 : forall d, In d (delivered st1) -> b_rr d <= l2 -> In (b_rr d) (map b_rr (delivered st2))).
      { intros d Hd Hle.
        destruct (block_transferD all s1 s2 g g o1 o2 ops1 ops2 ID FF S1 S2 H1 H2 B1 B2 F1 F2 T d Hd ltac:(exists l2; auto)) as [d' [A B]].
        rewrite <- B. apply in_map. exact A. }
      assert (T21 : forall d, In d (delivered st2) -> b_rr d <= l1 -> In (b_rr d) (map b_rr (delivered st1))).
      { intros d Hd Hle.
        destruct (block_transferD all s2 s1 g g o2 o1 ops2 ops1 ID FF S2 S1 H2 H1 B2 B1 F2 F1 T' d Hd ltac:(exists l1; auto)) as [d' [A B]].
        rewrite <- B. apply in_map. exact A. }
      assert (Bd1 : forall d, In d (delivered st1) -> b_rr d <= l1).
      { intros d Hd. destruct (r_del_lc _ A1 d Hd) as [l [Hl Hle]]. congruence. }
      assert (Bd2 : forall d, In d (delivered st2) -> b_rr d <= l2).
      { intros d Hd. destruct (r_del_lc _ A2 d Hd) as [l [Hl Hle]]. congruence. }
      destruct (Z.le_ge_cases l1 l2) as [Hl|Hl].
      - apply (sorted_prefix_nth (map b_rr (delivered st1)) (map b_rr (delivered st2)) (r_del_sorted _ A1) (r_del_sorted _ A2)) with (k := k).
        + intros x Hx. apply in_map_iff in Hx. destruct Hx as [d [<- Hd]]. apply T12; [exact Hd|]. specialize (Bd1 d Hd). lia.
        + intros x y Hx Hy Hlt. apply in_map_iff in Hx. destruct Hx as [d [<- Hd]].
          apply in_map_iff in Hy. destruct Hy as [d' [<- Hd']]. apply T21; [exact Hd|]. specialize (Bd1 d' Hd'). lia.
        + apply map_nth_error. exact Hk1.
        + apply map_nth_error. exact Hk2.
      - symmetry.
        apply (sorted_prefix_nth (map b_rr (delivered st2)) (map b_rr (delivered st1)) (r_del_sorted _ A2) (r_del_sorted _ A1)) with (k := k).
        + intros x Hx. apply in_map_iff in Hx. destruct Hx as [d [<- Hd]]. apply T21; [exact Hd|]. specialize (Bd2 d Hd). lia.
        + intros x y Hx Hy Hlt. apply in_map_iff in Hx. destruct Hx as [d [<- Hd]].
          apply in_map_iff in Hy. destruct Hy as [d' [<- Hd']]. apply T12; [exact Hd|]. specialize (Bd2 d' Hd'). lia.
        + apply map_nth_error. exact Hk2.
        + apply map_nth_error. exact Hk1. }
    split; [exact Err|].
    apply (block_data_agree all s1 s2 g g o1 o2 ops1 ops2 ID SK FF S1 S2 H1 H2 B1 B2 F1 F2 T d1 d2 Hd1 Hd2 Err).
  Qed.
End Final.

(** what two nodes that respect the distance bound compute for a shared event / a shared witness, with NO premise on
    the tables (same genesis set) *)
Theorem gap_consensus_agree all g s1 s2 o1 o2 ops1 ops2 :
  ids_determine all -> sigkeys_determine all -> fork_free all -> s1 <> -1 -> s2 <> -1 ->
  Forall (hop_ok all) ops1 -> Forall (hop_ok all) ops2 ->
  gap_runb (init_hg s1 g o1) ops1 = true -> gap_runb (init_hg s2 g o2) ops2 = true ->
  let st1 := hrun (init_hg s1 g o1) ops1 in
  let st2 := hrun (init_hg s2 g o2) ops2 in
  failed st1 = false -> failed st2 = false ->
  (forall x e1 e2, get_event st1 x = Some e1 -> get_event st2 x = Some e2 ->
     ev_round e1 = ev_round e2 /\ ev_round e1 <> None /\
     (forall i1 i2, ev_rr e1 = Some i1 -> ev_rr e2 = Some i2 -> i1 = i2)) /\
  (forall x r v1 v2, fame_of st1 x r = Some (Some v1) -> fame_of st2 x r = Some (Some v2) -> v1 = v2) /\
  (forall q, get_round st1 q <> None -> get_round st2 q <> None -> get_peerset st1 q = get_peerset st2 q).
Proof.
  intros ID SK FF S1 S2 H1 H2 B1 B2 st1 st2 F1 F2.
  pose proof (gap_tables_agree all g ID SK FF s1 s2 o1 o2 ops1 ops2 S1 S2 H1 H2 B1 B2 F1 F2) as T.
  split; [|split; [|exact T]].
  - intros x e1 e2 E1 E2.
    destruct (gap_round_agree all s1 s2 g g o1 o2 ops1 ops2 ID S1 S2 H1 H2 B1 B2 F1 F2 T x e1 e2 E1 E2) as [A [B _]].
    split; [exact A|split; [exact B|]]. intros i1 i2 R1 R2.
    exact (rr_agreement_gap_universe all s1 s2 g g o1 o2 ops1 ops2 x e1 e2 i1 i2 ID FF S1 S2 H1 H2 B1 B2 F1 F2 T E1 E2 R1 R2).
  - intros x r v1 v2.
    exact (gap_fame_agreement_universe all s1 s2 g g o1 o2 ops1 ops2 x r v1 v2 ID FF S1 S2 H1 H2 B1 B2 F1 F2 T).
Qed.

(** * the block timestamp: median over the timestamps of the famous witnesses of the round received *)
Lemma nodup_fst_filterD {A B} (f : A * B -> bool) (l : list (A * B)) : NoDup (map fst l) -> NoDup (map fst (filter f l)).
Proof.
  induction l as [|a l IH]; intros N; [constructor|]. cbn [map] in N. inversion N as [|? ? Hn N']; subst.
  cbn [filter]. destruct (f a); [|apply IH, N']. cbn [map]. constructor; [|apply IH, N'].
  intros Hin. apply Hn. apply in_map_iff in Hin. destruct Hin as [b [E Hb]]. apply filter_In in Hb.
  apply in_map_iff. exists b. split; [exact E|apply Hb].
Qed.

Section PairTs.
  Variables (all : list event) (s1 s2 : Z) (g1 g2 : peerset) (o1 o2 : list Z) (ops1 ops2 : list hop).
  Hypothesis ID : ids_determine all.
  Hypothesis FF : fork_free all.
  Hypothesis S1 : s1 <> -1.
  Hypothesis S2 : s2 <> -1.
  Hypothesis H1 : Forall (hop_ok all) ops1.
  Hypothesis H2 : Forall (hop_ok all) ops2.
  Hypothesis B1 : gap_runb (init_hg s1 g1 o1) ops1 = true.
  Hypothesis B2 : gap_runb (init_hg s2 g2 o2) ops2 = true.
  Let st1 := hrun (init_hg s1 g1 o1) ops1.
  Let st2 := hrun (init_hg s2 g2 o2) ops2.
  Hypothesis F1 : failed st1 = false.
  Hypothesis F2 : failed st2 = false.
  Hypothesis T : tables_agree st1 st2.

  Lemma block_ts_agree d1 d2 : In d1 (delivered st1) -> In d2 (delivered st2) -> b_rr d1 = b_rr d2 -> b_ts d1 = b_ts d2.
  Proof.
    intros Hd1 Hd2 Er.
    destruct (pair_common all s1 s2 g1 g2 o1 o2 ops1 ops2 ID S1 S2 H1 H2 B1 B2 F1 F2 T) as [P [G1 [G2 [R1 [R2 [SB _]]]]]].
    fold st1 in G1, R1, SB. fold st2 in G2, R2, SB.
    pose proof (pair_ncfD all s1 s2 g1 g2 o1 o2 ops1 ops2 ID FF S1 S2 H1 H2 B1 B2 F1 F2) as NF. fold st1 st2 in NF.
    destruct (block_timestamp_is_median all s1 g1 o1 ops1 d1 ID H1 Hd1) as [M1 [_ St1]].
    destruct (block_timestamp_is_median all s2 g2 o2 ops2 d2 ID H2 Hd2) as [M2 [_ St2]].
    fold st1 in M1, St1. fold st2 in M2, St2. rewrite <- Er in M2, St2.
    destruct (delivered_round_present all s1 g1 o1 ops1 d1 ID H1 F1 Hd1) as [ri1 Hr1].
    destruct (delivered_round_present all s2 g2 o2 ops2 d2 ID H2 F2 Hd2) as [ri2 Hr2].
    fold st1 in Hr1. fold st2 in Hr2. rewrite <- Er in Hr2.
    set (R := b_rr d1) in *.
    assert (HR0 : 0 <= R) by (apply (rinv_contig _ R1 R); congruence).
    destruct (proj2 (hrun_rtop s1 g1 o1 ops1) F1) as [A1 _]. destruct (proj2 (hrun_rtop s2 g2 o2 ops2) F2) as [A2 _].
    fold st1 in A1. fold st2 in A2.
    assert (L1 : lcle st1 R) by (destruct (r_del_lc _ A1 d1 Hd1) as [l [Hl Hle]]; exists l; auto).
    assert (L2 : lcle st2 R) by (destruct (r_del_lc _ A2 d2 Hd2) as [l [Hl Hle]]; exists l; split; [exact Hl|unfold R; lia]).
    destruct (flag_below_lc st1 R R1 L1 HR0) as [ri1' [Hr1' D1]]. rewrite Hr1 in Hr1'. inversion Hr1'; subst ri1'.
    destruct (flag_below_lc st2 R R2 L2 HR0) as [ri2' [Hr2' D2]]. rewrite Hr2 in Hr2'. inversion Hr2'; subst ri2'.
    assert (FX : forall w, In w (famous_witnesses ri1) <-> In w (famous_witnesses ri2)).
    { intros w. apply (famous_witnesses_agree_decided_gap all s1 s2 g1 g2 o1 o2 ops1 ops2 R ri1 ri2 w ID S1 S2 H1 H2 B1 B2 F1 F2 T NF Hr1 Hr2 D1 D2). }
    assert (N1 : NoDup (famous_witnesses ri1)).
    { unfold famous_witnesses. apply nodup_fst_filterD. pose proof (cd_tabu _ _ _ (gD_c _ _ G1) R) as N. unfold wl in N. rewrite Hr1 in N.
      unfold wl_of in N. rewrite map_map in N. cbn [fst] in N. exact N. }
    assert (N2 : NoDup (famous_witnesses ri2)).
    { unfold famous_witnesses. apply nodup_fst_filterD. pose proof (cd_tabu _ _ _ (gD_c _ _ G2) R) as N. unfold wl in N. rewrite Hr2 in N.
      unfold wl_of in N. rewrite map_map in N. cbn [fst] in N. exact N. }
    unfold fws in M1, M2, St1, St2. rewrite Hr1 in M1, St1. rewrite Hr2 in M2, St2.
    rewrite M1, M2.
    assert (E : map (ets st1) (famous_witnesses ri1) = map (ets st2) (famous_witnesses ri1)).
    { apply map_ext_in. intros w Hw. destruct (St1 w Hw) as [e1 [He1 Q1]]. destruct (St2 w (proj1 (FX w) Hw)) as [e2 [He2 Q2]].
      rewrite Q1, Q2, (SB w e1 e2 He1 He2). reflexivity. }
    rewrite E. apply median_perm_invariant. apply Permutation_map. apply NoDup_Permutation; assumption.
  Qed.
End PairTs.

Section FinalTs.
  Variables (all : list event) (g : peerset).
  Hypothesis ID : ids_determine all.
  Hypothesis SK : sigkeys_determine all.
  Hypothesis FF : fork_free all.
  Variables (s1 s2 : Z) (o1 o2 : list Z) (ops1 ops2 : list hop).
  Hypothesis S1 : s1 <> -1.
  Hypothesis S2 : s2 <> -1.
  Hypothesis H1 : Forall (hop_ok all) ops1.
  Hypothesis H2 : Forall (hop_ok all) ops2.
  Hypothesis B1 : gap_runb (init_hg s1 g o1) ops1 = true.
  Hypothesis B2 : gap_runb (init_hg s2 g o2) ops2 = true.
  Let st1 := hrun (init_hg s1 g o1) ops1.
  Let st2 := hrun (init_hg s2 g o2) ops2.
  Hypothesis F1 : failed st1 = false.
  Hypothesis F2 : failed st2 = false.

  Theorem blocks_agree_gap_ts k d1 d2 :
    nth_error (delivered st1) k = Some d1 -> nth_error (delivered st2) k = Some d2 ->
    (b_index d1, b_rr d1, b_ts d1, b_txs d1, b_itxs d1) = (b_index d2, b_rr d2, b_ts d2, b_txs d2, b_itxs d2).
  Proof.
    intros Hk1 Hk2.
    destruct (blocks_agree_gap all g ID SK FF s1 s2 o1 o2 ops1 ops2 S1 S2 H1 H2 B1 B2 F1 F2 k d1 d2 Hk1 Hk2) as [Ei [Er [Et Ex]]].
    pose proof (gap_tables_agree all g ID SK FF s1 s2 o1 o2 ops1 ops2 S1 S2 H1 H2 B1 B2 F1 F2) as T.
    pose proof (block_ts_agree all s1 s2 g g o1 o2 ops1 ops2 ID FF S1 S2 H1 H2 B1 B2 F1 F2 T d1 d2 (nth_error_In _ _ Hk1) (nth_error_In _ _ Hk2) Er) as Ets.
    rewrite Ei, Er, Et, Ex, Ets. reflexivity.
  Qed.
End FinalTs.
