(* C02 / C09 (part): invariants of the block store and of the sequence of commit callbacks,
   for every reachable state. *)
From Coq Require Import ZArith List Bool Lia ZifyBool.
From RecordUpdate Require Import RecordSet.
From V Require Import Model.ZMap Model.Quorum Model.Voting Model.HgImpl
  Proofs.ZMapFacts Proofs.HgFrames Proofs.HgBlockFrames.
Import ListNotations RecordSetNotations.
Open Scope Z_scope.

(* the body of a block: everything but the collected signatures *)
Definition body (b : block) : block := b <| b_sigs := [] |>.
Definition sigs_incl (d b : block) : Prop := forall v o, aget v (b_sigs d) = Some o -> aget v (b_sigs b) = Some o.
(* every recorded signature is over this node's body of the block *)
Definition sigs_valid (b : block) : Prop := forall v o, aget v (b_sigs b) = Some o -> o = b_bodyid b.

Record binv (st : hg) : Prop := {
  b_lb : -1 <= last_block st;
  b_idx : forall i b, zget i (blocks st) = Some b -> b_index b = i /\ 0 <= i <= last_block st;
  b_len : Z.of_nat (length (delivered st)) = last_block st + 1;
  b_del : forall k d, nth_error (delivered st) k = Some d ->
          b_index d = Z.of_nat k /\
          exists b, zget (Z.of_nat k) (blocks st) = Some b /\ body b = body d /\ sigs_incl d b;
  b_valid : forall i b, zget i (blocks st) = Some b -> sigs_valid b
}.

Lemma binv_bview st st' : bview st' = bview st -> binv st -> binv st'.
Proof.
  unfold bview. intros E [H1 H2 H3 H4 H5].
  assert (Eb : blocks st' = blocks st) by congruence.
  assert (El : last_block st' = last_block st) by congruence.
  assert (Ed : delivered st' = delivered st) by congruence.
  constructor; rewrite ?Eb, ?El, ?Ed; auto.
Qed.

Lemma sigs_incl_refl b : sigs_incl b b.
Proof. intros v o H; exact H. Qed.

(* replacing the stored copy of a delivered block by one with the same body and more signatures *)
Lemma binv_restore st b' :
  binv st -> 0 <= b_index b' <= last_block st ->
  (forall b, zget (b_index b') (blocks st) = Some b -> body b' = body b /\ sigs_incl b b') ->
  (exists b, zget (b_index b') (blocks st) = Some b) ->
  sigs_valid b' ->
  binv (store_set_block st b').
Proof.
  intros [H1 H2 H3 H4 H5] Hr Hsame [b0 Hb0] Hv.
  assert (Gb : forall i, zget i (blocks (store_set_block st b')) =
                         if i =? b_index b' then Some b' else zget i (blocks st)).
  { intros i. unfold store_set_block. destruct st; cbn. rewrite zget_zset. rewrite (Z.eqb_sym i).
    destruct (Z.eqb_spec (b_index b') i); cbn [andb]; [|reflexivity].
    replace (0 <=? b_index b') with true by lia. reflexivity. }
  assert (Gl : last_block (store_set_block st b') = last_block st).
  { unfold store_set_block. destruct st; cbn in *. lia. }
  assert (Gd : delivered (store_set_block st b') = delivered st) by (destruct st; reflexivity).
  constructor; rewrite ?Gl, ?Gd; auto.
  - intros i b. rewrite Gb. destruct (Z.eqb_spec i (b_index b')) as [->|Hne].
    + intros H; inversion H; subst. split; [reflexivity|lia].
    + apply H2.
  - intros k d Hk. destruct (H4 k d Hk) as [Hi [b [Hb [Hbody Hincl]]]]. split; [exact Hi|].
    rewrite Gb. destruct (Z.eqb_spec (Z.of_nat k) (b_index b')) as [E|Hne]; [|eauto].
    exists b'. split; [reflexivity|]. rewrite <- E in Hsame. destruct (Hsame _ Hb) as [Hb' Hs'].
    split; [congruence|]. intros v o Hvo. apply Hs'. apply Hincl. exact Hvo.
  - intros i b. rewrite Gb. destruct (Z.eqb_spec i (b_index b')); [intros H; inversion H; subst; exact Hv|apply H5].
Qed.

(* storing a new block at last_block + 1 and delivering a copy with the same body *)
Lemma binv_new st b d :
  binv st -> b_index b = last_block st + 1 -> body b = body d -> sigs_incl d b -> sigs_valid b ->
  binv (deliver (store_set_block st b) d).
Proof.
  intros [H1 H2 H3 H4 H5] Hi Hbody Hincl Hv.
  assert (Gb : forall i, zget i (blocks (deliver (store_set_block st b) d)) =
                         if i =? last_block st + 1 then Some b else zget i (blocks st)).
  { intros i. unfold deliver, store_set_block. destruct st; cbn in *. rewrite zget_zset, Hi. rewrite (Z.eqb_sym i).
    destruct (Z.eqb_spec (last_block + 1) i); cbn [andb]; [|reflexivity].
    replace (0 <=? last_block + 1) with true by lia. reflexivity. }
  assert (Gl : last_block (deliver (store_set_block st b) d) = last_block st + 1).
  { unfold deliver, store_set_block. destruct st; cbn in *. lia. }
  assert (Gd : delivered (deliver (store_set_block st b) d) = delivered st ++ [d]) by (destruct st; reflexivity).
  assert (Hbi : b_index d = b_index b).
  { apply (f_equal b_index) in Hbody. destruct b, d; cbn in *. congruence. }
  constructor; rewrite ?Gl, ?Gd.
  - lia.
  - intros i b0. rewrite Gb. destruct (Z.eqb_spec i (last_block st + 1)) as [->|Hne].
    + intros H; inversion H; subst. split; [auto|lia].
    + intros H. destruct (H2 _ _ H). split; [auto|lia].
  - rewrite app_length. cbn. lia.
  - intros k d0 Hk. destruct (Nat.lt_ge_cases k (length (delivered st))) as [Hlt|Hge].
    + rewrite nth_error_app1 in Hk by auto. destruct (H4 k d0 Hk) as [Hi0 [b0 [Hb0 R]]]. split; [auto|].
      rewrite Gb. destruct (Z.eqb_spec (Z.of_nat k) (last_block st + 1)); [lia|eauto].
    + rewrite nth_error_app2 in Hk by auto.
      destruct (k - length (delivered st))%nat as [|j] eqn:Ej; [|destruct j; discriminate].
      cbn in Hk. inversion Hk; subst d0. assert (Z.of_nat k = last_block st + 1) by lia.
      split; [lia|]. rewrite Gb. replace (Z.of_nat k =? last_block st + 1) with true by lia.
      exists b. auto.
  - intros i b0. rewrite Gb. destruct (Z.eqb_spec i (last_block st + 1)); [intros H; inversion H; subst; auto|apply H5].
Qed.

(** extensional forms (the invariant reads the block map only through zget) *)
Lemma binv_new_ext st st' bf :
  binv st ->
  (forall i, zget i (blocks st') = if i =? last_block st + 1 then Some bf else zget i (blocks st)) ->
  last_block st' = last_block st + 1 -> delivered st' = delivered st ++ [bf] ->
  b_index bf = last_block st + 1 -> sigs_valid bf -> binv st'.
Proof.
  intros [H1 H2 H3 H4 H5] Gb Gl Gd Hi Hv.
  constructor; rewrite ?Gl, ?Gd.
  - lia.
  - intros i b0. rewrite Gb. destruct (Z.eqb_spec i (last_block st + 1)) as [->|Hne].
    + intros H; inversion H; subst. split; [auto|lia].
    + intros H. destruct (H2 _ _ H). split; [auto|lia].
  - rewrite app_length. cbn. lia.
  - intros k d0 Hk. destruct (Nat.lt_ge_cases k (length (delivered st))) as [Hlt|Hge].
    + rewrite nth_error_app1 in Hk by auto. destruct (H4 k d0 Hk) as [Hi0 [b0 [Hb0 R]]]. split; [auto|].
      rewrite Gb. destruct (Z.eqb_spec (Z.of_nat k) (last_block st + 1)); [lia|eauto].
    + rewrite nth_error_app2 in Hk by auto.
      destruct (k - length (delivered st))%nat as [|j] eqn:Ej; [|destruct j; discriminate].
      cbn in Hk. inversion Hk; subst d0. assert (Z.of_nat k = last_block st + 1) by lia.
      split; [lia|]. rewrite Gb. replace (Z.of_nat k =? last_block st + 1) with true by lia.
      exists bf. split; [reflexivity|split; [reflexivity|apply sigs_incl_refl]].
  - intros i b0. rewrite Gb. destruct (Z.eqb_spec i (last_block st + 1)); [intros H; inversion H; subst; auto|apply H5].
Qed.

Definition bl (st : hg) := (blocks st, last_block st, delivered st).

Lemma set_anchor_block_bl st b : bl (set_anchor_block st b) = bl st.
Proof.
  unfold set_anchor_block. destruct (get_peerset st (b_rr b)); [|reflexivity].
  destruct (_ && _); [destruct st; reflexivity|reflexivity].
Qed.

Lemma set_peerset_bl st r ps st' : set_peerset st r ps = Some st' -> bl st' = bl st.
Proof.
  unfold set_peerset. destruct (existsb _ _); [discriminate|]. intros H; inversion H; clear H.
  match goal with |- bl (fold_left ?f ps ?s0) = _ =>
    assert (G : forall l s, bl (fold_left f l s) = bl s) end.
  { induction l as [|p l IH]; intros s; cbn [fold_left]; [reflexivity|]. rewrite IH.
    destruct (zmem _ _); destruct s; reflexivity. }
  rewrite G. destruct st; reflexivity.
Qed.

Lemma process_receipts_bl st rr itxs : bl (process_receipts st rr itxs) = bl st.
Proof.
  unfold process_receipts.
  match goal with |- context [fold_left ?f ?l ?a] => destruct (fold_left f l a) as [vals changed] end.
  destruct changed; [|reflexivity].
  destruct (set_peerset st (rr + 6) vals) eqn:E; [|reflexivity].
  apply set_peerset_bl in E. rewrite <- E. destruct h; reflexivity.
Qed.

Lemma zget_blocks_store st b i :
  0 <= b_index b ->
  zget i (blocks (store_set_block st b)) = if i =? b_index b then Some b else zget i (blocks st).
Proof.
  intros H. unfold store_set_block. destruct st; cbn. rewrite zget_zset. rewrite (Z.eqb_sym i).
  destruct (Z.eqb_spec (b_index b) i); cbn [andb]; [|reflexivity].
  replace (0 <=? b_index b) with true by lia. reflexivity.
Qed.

Lemma last_block_store st b : last_block (store_set_block st b) = Z.max (b_index b) (last_block st).
Proof. destruct st; reflexivity. Qed.
Lemma delivered_store st b : delivered (store_set_block st b) = delivered st.
Proof. destruct st; reflexivity. Qed.

(* what commit does to the block store and to the delivered list *)
Lemma commit_blocks s b :
  0 <= b_index b -> b_sigs b = [] ->
  exists bf,
    (forall i, zget i (blocks (commit (store_set_block s b) b)) = if i =? b_index b then Some bf else zget i (blocks s)) /\
    last_block (commit (store_set_block s b) b) = Z.max (b_index b) (last_block s) /\
    delivered (commit (store_set_block s b) b) = delivered s ++ [bf] /\
    b_index bf = b_index b /\ b_rr bf = b_rr b /\ sigs_valid bf.
Proof.
  intros Hk Hs. unfold commit.
  set (st := store_set_block s b).
  assert (Hst_l : last_block st = Z.max (b_index b) (last_block s)) by (subst st; destruct s; reflexivity).
  assert (Hst_d : delivered st = delivered s) by (subst st; destruct s; reflexivity).
  destruct (self st =? -1).
  - exists b. split; [|split; [|split; [|split; [|split]]]].
    + intros i. change (blocks (deliver st b)) with (blocks st). subst st. apply zget_blocks_store; auto.
    + change (last_block (deliver st b)) with (last_block st). exact Hst_l.
    + change (delivered (deliver st b)) with (delivered st ++ [b]). rewrite Hst_d. reflexivity.
    + reflexivity.
    + reflexivity.
    + intros v o H. rewrite Hs in H. discriminate.
  - cbv zeta.
    set (bid := hd (-1) (oracle st)). set (st0 := st <| oracle := tl (oracle st) |>).
    set (b1 := b <| b_committed := true |> <| b_receipts := _ |> <| b_bodyid := bid |>).
    assert (Hb1i : b_index b1 = b_index b) by (destruct b; reflexivity).
    assert (Hb1r : b_rr b1 = b_rr b) by (destruct b; reflexivity).
    assert (Hb1s : b_sigs b1 = []) by (destruct b; cbn in *; exact Hs).
    assert (Hb1id : b_bodyid b1 = bid) by (destruct b; reflexivity).
    set (st1 := store_set_block st0 b1).
    assert (G1 : forall i, zget i (blocks st1) = if i =? b_index b then Some b1 else zget i (blocks s)).
    { intros i. subst st1. rewrite zget_blocks_store by lia. rewrite Hb1i.
      destruct (Z.eqb_spec i (b_index b)); [reflexivity|].
      change (blocks st0) with (blocks st). subst st. rewrite zget_blocks_store by lia.
      destruct (Z.eqb_spec i (b_index b)); [contradiction|reflexivity]. }
    assert (L1 : last_block st1 = Z.max (b_index b) (last_block s)).
    { subst st1. rewrite last_block_store, Hb1i. change (last_block st0) with (last_block st). lia. }
    assert (D1 : delivered st1 = delivered s).
    { subst st1. rewrite delivered_store. change (delivered st0) with (delivered st). exact Hst_d. }
    destruct (get_peerset st1 (b_rr b1)) as [bps|].
    + unfold sign_block. destruct (mem_key (self st1) (keys bps)).
      * cbn [fst snd].
        set (b2 := b1 <| b_sigs := aset (self st1) (b_bodyid b1) (b_sigs b1) |>).
        set (st2 := (store_set_block st1 b2) <| self_sigs := _ |>).
        assert (Hb2i : b_index b2 = b_index b) by (subst b2; destruct b1; cbn in *; exact Hb1i).
        exists b2. split; [|split; [|split; [|split; [|split]]]].
        -- intros i.
           change (blocks (deliver (process_receipts (set_anchor_block st2 b2) (b_rr b2) (b_itxs b2)) b2))
             with (blocks (process_receipts (set_anchor_block st2 b2) (b_rr b2) (b_itxs b2))).
           pose proof (process_receipts_bl (set_anchor_block st2 b2) (b_rr b2) (b_itxs b2)) as E1.
           pose proof (set_anchor_block_bl st2 b2) as E2. unfold bl in *.
           assert (Eb : blocks (process_receipts (set_anchor_block st2 b2) (b_rr b2) (b_itxs b2)) = blocks st2) by congruence.
           rewrite Eb. change (blocks st2) with (blocks (store_set_block st1 b2)).
           rewrite zget_blocks_store by lia. rewrite Hb2i. destruct (Z.eqb_spec i (b_index b)); [reflexivity|].
           rewrite G1. destruct (Z.eqb_spec i (b_index b)); [contradiction|reflexivity].
        -- pose proof (process_receipts_bl (set_anchor_block st2 b2) (b_rr b2) (b_itxs b2)) as E1.
           pose proof (set_anchor_block_bl st2 b2) as E2. unfold bl in *.
           change (last_block (deliver (process_receipts (set_anchor_block st2 b2) (b_rr b2) (b_itxs b2)) b2))
             with (last_block (process_receipts (set_anchor_block st2 b2) (b_rr b2) (b_itxs b2))).
           assert (El : last_block (process_receipts (set_anchor_block st2 b2) (b_rr b2) (b_itxs b2)) = last_block st2) by congruence.
           rewrite El. change (last_block st2) with (last_block (store_set_block st1 b2)).
           rewrite last_block_store, Hb2i. lia.
        -- pose proof (process_receipts_bl (set_anchor_block st2 b2) (b_rr b2) (b_itxs b2)) as E1.
           pose proof (set_anchor_block_bl st2 b2) as E2. unfold bl in *.
           change (delivered (deliver (process_receipts (set_anchor_block st2 b2) (b_rr b2) (b_itxs b2)) b2))
             with (delivered (process_receipts (set_anchor_block st2 b2) (b_rr b2) (b_itxs b2)) ++ [b2]).
           assert (Ed : delivered (process_receipts (set_anchor_block st2 b2) (b_rr b2) (b_itxs b2)) = delivered st2) by congruence.
           rewrite Ed. change (delivered st2) with (delivered (store_set_block st1 b2)).
           rewrite delivered_store, D1. reflexivity.
        -- exact Hb2i.
        -- subst b2. destruct b1; cbn in *. exact Hb1r.
        -- intros v o. assert (Es : b_sigs b2 = aset (self st1) (b_bodyid b1) []) by (subst b2; rewrite <- Hb1s; destruct b1; reflexivity).
           assert (Eid : b_bodyid b2 = b_bodyid b1) by (subst b2; destruct b1; reflexivity).
           rewrite Es, Eid. cbn [aset aget].
           destruct (Z.eqb (self st1) v); [intros H; inversion H; reflexivity|discriminate].
      * cbn [fst snd]. exists b1. split; [|split; [|split; [|split; [|split]]]].
        -- intros i.
           pose proof (process_receipts_bl (set_anchor_block st1 b1) (b_rr b1) (b_itxs b1)) as E1.
           pose proof (set_anchor_block_bl st1 b1) as E2. unfold bl in *.
           change (blocks (deliver (process_receipts (set_anchor_block st1 b1) (b_rr b1) (b_itxs b1)) b1))
             with (blocks (process_receipts (set_anchor_block st1 b1) (b_rr b1) (b_itxs b1))).
           assert (Eb : blocks (process_receipts (set_anchor_block st1 b1) (b_rr b1) (b_itxs b1)) = blocks st1) by congruence.
           rewrite Eb. apply G1.
        -- pose proof (process_receipts_bl (set_anchor_block st1 b1) (b_rr b1) (b_itxs b1)) as E1.
           pose proof (set_anchor_block_bl st1 b1) as E2. unfold bl in *.
           change (last_block (deliver (process_receipts (set_anchor_block st1 b1) (b_rr b1) (b_itxs b1)) b1))
             with (last_block (process_receipts (set_anchor_block st1 b1) (b_rr b1) (b_itxs b1))).
           congruence.
        -- pose proof (process_receipts_bl (set_anchor_block st1 b1) (b_rr b1) (b_itxs b1)) as E1.
           pose proof (set_anchor_block_bl st1 b1) as E2. unfold bl in *.
           change (delivered (deliver (process_receipts (set_anchor_block st1 b1) (b_rr b1) (b_itxs b1)) b1))
             with (delivered (process_receipts (set_anchor_block st1 b1) (b_rr b1) (b_itxs b1)) ++ [b1]).
           assert (Ed : delivered (process_receipts (set_anchor_block st1 b1) (b_rr b1) (b_itxs b1)) = delivered st1) by congruence.
           rewrite Ed, D1. reflexivity.
        -- exact Hb1i.
        -- exact Hb1r.
        -- intros v o H. rewrite Hb1s in H. discriminate.
    + exists b1. split; [|split; [|split; [|split; [|split]]]].
      * intros i. change (blocks (deliver st1 b1)) with (blocks st1). apply G1.
      * change (last_block (deliver st1 b1)) with (last_block st1). exact L1.
      * change (delivered (deliver st1 b1)) with (delivered st1 ++ [b1]). rewrite D1. reflexivity.
      * exact Hb1i.
      * exact Hb1r.
      * intros v o H. rewrite Hb1s in H. discriminate.
Qed.

Lemma binv_bl st st' : bl st' = bl st -> binv st -> binv st'.
Proof.
  unfold bl. intros E [H1 H2 H3 H4 H5].
  assert (Eb : blocks st' = blocks st) by congruence.
  assert (El : last_block st' = last_block st) by congruence.
  assert (Ed : delivered st' = delivered st) by congruence.
  constructor; rewrite ?Eb, ?El, ?Ed; auto.
Qed.

Lemma bview_bl st st' : bview st' = bview st -> bl st' = bl st.
Proof. unfold bview, bl. intros H. inversion H. reflexivity. Qed.

Lemma get_frame_bl st rr : bl (snd (get_frame st rr)) = bl st.
Proof.
  unfold get_frame.
  destruct (zget rr (frames st)); [reflexivity|].
  destruct (get_round st rr); [|reflexivity].
  destruct (get_peerset st rr); [|reflexivity].
  match goal with |- context [fold_left ?f ?l ?a] => destruct (fold_left f l a) end; [|reflexivity].
  match goal with |- context [fold_left ?f (repertoire st) ?a] => destruct (fold_left f (repertoire st) a) end;
    [|reflexivity].
  cbn [snd]. destruct st; reflexivity.
Qed.

Lemma add_consensus_events_bl l : forall s, bl (fold_left add_consensus_event l s) = bl s.
Proof.
  induction l as [|fe l IH]; intros s; cbn [fold_left]; [reflexivity|]. rewrite IH. destruct s; reflexivity.
Qed.

Lemma block_of_frame_index i f s : b_index (block_of_frame i f s) = i /\ b_sigs (block_of_frame i f s) = [] /\
                                   b_rr (block_of_frame i f s) = f_round f.
Proof. unfold block_of_frame. cbn. auto. Qed.

Lemma process_frame_binv s f : binv s -> binv (process_frame s f).
Proof.
  intros OK. unfold process_frame. destruct (f_events f) as [|fe rest]; [exact OK|].
  cbv zeta. set (s1 := fold_left add_consensus_event (fe :: rest) s).
  assert (E1 : bl s1 = bl s) by apply add_consensus_events_bl.
  assert (OK1 : binv s1) by (eapply binv_bl; eauto).
  set (b := block_of_frame (last_block s1 + 1) f s1).
  destruct (block_of_frame_index (last_block s1 + 1) f s1) as [Hi [Hs _]]. fold b in Hi, Hs.
  assert (Hpay : binv (commit (store_set_block s1 b) b)).
  { pose proof (b_lb s1 OK1) as Hlb.
    destruct (commit_blocks s1 b ltac:(lia) Hs) as [bf [Gb [Gl [Gd [Gi [_ Gv]]]]]].
    eapply (binv_new_ext s1 _ bf OK1).
    - intros i. rewrite Gb, Hi. reflexivity.
    - rewrite Gl, Hi. lia.
    - exact Gd.
    - congruence.
    - exact Gv. }
  destruct (b_txs b), (b_itxs b); auto.
Qed.

Lemma bump_last_consensus_bl s r : bl (bump_last_consensus s r) = bl s.
Proof.
  unfold bump_last_consensus. destruct (last_consensus s) as [l|]; [destruct (l <? r)|];
    try reflexivity; destruct s; reflexivity.
Qed.

Lemma fail_bl s : bl (fail s) = bl s.
Proof. destruct s; reflexivity. Qed.

Lemma process_round_binv s processed stop pr :
  binv s -> binv (fst (fst (process_round (s, processed, stop) pr))).
Proof.
  intros OK. unfold process_round.
  destruct (stop || failed s); [exact OK|].
  destruct (negb (snd pr)); [exact OK|].
  destruct (get_round s (fst pr)); [|cbn [fst]; eapply binv_bl; [apply fail_bl|exact OK]].
  pose proof (get_frame_bl s (fst pr)) as F.
  destruct (get_frame s (fst pr)) as [[f|] s1]; cbn [fst snd] in *.
  - eapply binv_bl; [apply bump_last_consensus_bl|]. apply process_frame_binv. eapply binv_bl; eauto.
  - eapply binv_bl; [apply fail_bl|]. eapply binv_bl; eauto.
Qed.

Lemma process_decided_rounds_binv st : binv st -> binv (process_decided_rounds st).
Proof.
  intros OK. unfold process_decided_rounds.
  assert (G : forall l s p b, binv s -> binv (fst (fst (fold_left process_round l (s, p, b))))).
  { induction l as [|pr rest IH]; intros s p b Hs; cbn [fold_left]; [exact Hs|].
    pose proof (process_round_binv s p b pr Hs) as F.
    destruct (process_round (s, p, b) pr) as [[s' p'] b']. cbn [fst] in F. apply IH. exact F. }
  specialize (G (pending st) st [] false OK).
  destruct (fold_left process_round (pending st) (st, [], false)) as [[s processed] stop]. cbn [fst] in G.
  eapply binv_bl; [|exact G]. destruct s; reflexivity.
Qed.

(** ProcessSigPool *)
Lemma process_sig_binv st s : binv st -> binv (process_sig st s).
Proof.
  intros OK. unfold process_sig.
  destruct (zget (bs_index s) (blocks st)) as [b|] eqn:Hb; [|exact OK].
  destruct (get_peerset st (b_rr b)); [|exact OK].
  destruct (negb (mem_key _ _)); [exact OK|].
  destruct (negb (bs_over s =? b_bodyid b)) eqn:Hov; [exact OK|].
  cbv zeta.
  set (b' := b <| b_sigs := aset (bs_validator s) (bs_over s) (b_sigs b) |>).
  destruct (b_idx st OK _ _ Hb) as [Hi Hr].
  assert (Hi' : b_index b' = bs_index s) by (subst b'; destruct b; cbn in *; exact Hi).
  assert (Hover : bs_over s = b_bodyid b) by lia.
  assert (OK1 : binv (store_set_block st b')).
  { apply binv_restore; auto.
    - rewrite Hi'. exact Hr.
    - rewrite Hi'. intros b0 Hb0. rewrite Hb in Hb0. inversion Hb0; subst b0.
      split; [subst b'; destruct b; reflexivity|].
      intros v o Hvo. subst b'. destruct b; cbn in *.
      destruct (Z.eq_dec (bs_validator s) v) as [->|Hne].
      + rewrite aget_aset_same. pose proof (b_valid st OK _ _ Hb v o) as Hv. cbn in Hv. rewrite (Hv Hvo). congruence.
      + rewrite aget_aset_other by auto. exact Hvo.
    - rewrite Hi'. eauto.
    - intros v o. subst b'. destruct b; cbn in *.
      destruct (Z.eq_dec (bs_validator s) v) as [->|Hne].
      + rewrite aget_aset_same. intros H; inversion H. exact Hover.
      + rewrite aget_aset_other by auto. apply (b_valid st OK _ _ Hb v o). }
  eapply binv_bl; [|exact OK1].
  pose proof (set_anchor_block_bl (store_set_block st b') b') as E. unfold bl in *.
  match goal with |- (blocks ?x, _, _) = _ => change (blocks x) with (blocks (set_anchor_block (store_set_block st b') b'));
     change (last_block x) with (last_block (set_anchor_block (store_set_block st b') b'));
     change (delivered x) with (delivered (set_anchor_block (store_set_block st b') b')) end.
  exact E.
Qed.

Lemma process_sigpool_binv st : binv st -> binv (process_sigpool st).
Proof.
  unfold process_sigpool. generalize (sigpool st). intros l. revert st.
  induction l as [|s l IH]; intros st OK; cbn [fold_left]; [exact OK|]. apply IH. apply process_sig_binv. exact OK.
Qed.

(** InsertEventAndRunConsensus *)
Lemma run_consensus_binv st : binv st -> binv (run_consensus st).
Proof.
  intros OK. unfold run_consensus.
  assert (OK1 : binv (divide_rounds st)) by (eapply binv_bview; [apply divide_rounds_bview|exact OK]).
  destruct (failed (divide_rounds st)); [exact OK1|].
  assert (OK2 : binv (decide_fame (divide_rounds st))) by (eapply binv_bview; [apply decide_fame_bview|exact OK1]).
  destruct (failed (decide_fame _)); [exact OK2|].
  assert (OK3 : binv (decide_round_received (decide_fame (divide_rounds st))))
    by (eapply binv_bview; [apply decide_round_received_bview|exact OK2]).
  destruct (failed (decide_round_received _)); [exact OK3|].
  apply process_decided_rounds_binv. exact OK3.
Qed.

Lemma step_binv st e : binv st -> binv (step st e).
Proof.
  intros OK. unfold step, insert_and_run.
  pose proof (insert_event_bview st e) as E.
  destruct (insert_event st e) as [r s]. cbn [snd] in *.
  assert (OKs : binv s) by (eapply binv_bview; eauto).
  destruct r; cbn [snd]; auto. apply run_consensus_binv. exact OKs.
Qed.

(* operations a node performs on its hashgraph *)
Inductive hop := HInsert (e : event) | HSigPool.
Definition hstep (st : hg) (o : hop) : hg :=
  match o with HInsert e => step st e | HSigPool => process_sigpool st end.
Definition hrun (st : hg) (ops : list hop) : hg := fold_left hstep ops st.

Lemma binv_init self_ genesis oracle_ : binv (init_hg self_ genesis oracle_).
Proof.
  assert (E : bl (init_hg self_ genesis oracle_) = (zempty, -1, [])).
  { unfold init_hg. destruct (set_peerset (empty_hg self_) 0 genesis) as [st|] eqn:S; [|reflexivity].
    apply set_peerset_bl in S. unfold bl in *.
    change (blocks (st <| validators := genesis |> <| oracle := oracle_ |>)) with (blocks st).
    change (last_block (st <| validators := genesis |> <| oracle := oracle_ |>)) with (last_block st).
    change (delivered (st <| validators := genesis |> <| oracle := oracle_ |>)) with (delivered st).
    exact S. }
  assert (Eb : blocks (init_hg self_ genesis oracle_) = zempty) by (apply (f_equal (fun t => fst (fst t))) in E; exact E).
  assert (El : last_block (init_hg self_ genesis oracle_) = -1) by (apply (f_equal (fun t => snd (fst t))) in E; exact E).
  assert (Ed : delivered (init_hg self_ genesis oracle_) = []) by (apply (f_equal (fun t => snd t)) in E; exact E).
  clear E.
  constructor; rewrite ?Eb, ?El, ?Ed.
  - lia.
  - intros i b H. rewrite zget_empty in H. discriminate.
  - reflexivity.
  - intros k d H. destruct k; discriminate.
  - intros i b H. rewrite zget_empty in H. discriminate.
Qed.

Theorem hrun_binv self_ genesis oracle_ ops : binv (hrun (init_hg self_ genesis oracle_) ops).
Proof.
  unfold hrun. generalize (binv_init self_ genesis oracle_). generalize (init_hg self_ genesis oracle_).
  induction ops as [|o ops IH]; intros st OK; cbn [fold_left]; [exact OK|].
  apply IH. destruct o; cbn [hstep]; [apply step_binv|apply process_sigpool_binv]; exact OK.
Qed.

(* consequence: the commit callbacks carry consecutive indexes 0,1,2,... *)
Lemma binv_consecutive st : binv st -> forall k d, nth_error (delivered st) k = Some d -> b_index d = Z.of_nat k.
Proof. intros OK k d H. apply (b_del st OK k d H). Qed.

Lemma nth_error_app1_some' {A} (l l' : list A) n x : nth_error l n = Some x -> nth_error (l ++ l') n = Some x.
Proof. intros H. rewrite nth_error_app1; [exact H|]. apply nth_error_Some. congruence. Qed.

(** the delivered list only grows *)
Definition del_ext (st st' : hg) : Prop := exists l, delivered st' = delivered st ++ l.
Lemma del_ext_refl st : del_ext st st. Proof. exists []. rewrite app_nil_r. reflexivity. Qed.
Lemma del_ext_trans a b c : del_ext a b -> del_ext b c -> del_ext a c.
Proof. intros [l1 H1] [l2 H2]. exists (l1 ++ l2). rewrite H2, H1, app_assoc. reflexivity. Qed.
Lemma del_ext_bl st st' : bl st' = bl st -> del_ext st st'.
Proof. unfold bl. intros H. exists []. rewrite app_nil_r. congruence. Qed.

Lemma process_frame_del s f : binv s -> del_ext s (process_frame s f).
Proof.
  intros OK. unfold process_frame. destruct (f_events f) as [|fe rest]; [apply del_ext_refl|].
  cbv zeta. set (s1 := fold_left add_consensus_event (fe :: rest) s).
  assert (E1 : bl s1 = bl s) by apply add_consensus_events_bl.
  assert (OK1 : binv s1) by (eapply binv_bl; eauto).
  set (b := block_of_frame (last_block s1 + 1) f s1).
  assert (D : del_ext s (commit (store_set_block s1 b) b)).
  { destruct (block_of_frame_index (last_block s1 + 1) f s1) as [Hi [Hs _]]. fold b in Hi, Hs.
    pose proof (b_lb s1 OK1) as Hlb.
    destruct (commit_blocks s1 b ltac:(lia) Hs) as [bf [_ [_ [Gd _]]]]. exists [bf]. rewrite Gd.
    unfold bl in E1. congruence. }
  destruct (b_txs b), (b_itxs b); auto; apply del_ext_bl; exact E1.
Qed.

Lemma process_round_del s processed stop pr : binv s -> del_ext s (fst (fst (process_round (s, processed, stop) pr))).
Proof.
  intros OK. unfold process_round.
  destruct (stop || failed s); [apply del_ext_refl|].
  destruct (negb (snd pr)); [apply del_ext_refl|].
  destruct (get_round s (fst pr)); [|apply del_ext_bl, fail_bl].
  pose proof (get_frame_bl s (fst pr)) as F.
  destruct (get_frame s (fst pr)) as [[f|] s1]; cbn [fst snd] in *.
  - eapply del_ext_trans; [apply del_ext_bl; exact F|].
    eapply del_ext_trans; [apply process_frame_del; eapply binv_bl; eauto|apply del_ext_bl, bump_last_consensus_bl].
  - eapply del_ext_trans; [apply del_ext_bl; exact F|apply del_ext_bl, fail_bl].
Qed.

Lemma process_decided_rounds_del st : binv st -> del_ext st (process_decided_rounds st).
Proof.
  intros OK. unfold process_decided_rounds.
  assert (G : forall l s p b, binv s -> del_ext s (fst (fst (fold_left process_round l (s, p, b))))).
  { induction l as [|pr rest IH]; intros s p b Hs; cbn [fold_left]; [apply del_ext_refl|].
    pose proof (process_round_del s p b pr Hs) as F.
    pose proof (process_round_binv s p b pr Hs) as Hb.
    destruct (process_round (s, p, b) pr) as [[s' p'] b']. cbn [fst] in F, Hb.
    eapply del_ext_trans; [exact F|apply IH; exact Hb]. }
  specialize (G (pending st) st [] false OK).
  destruct (fold_left process_round (pending st) (st, [], false)) as [[s processed] stop]. cbn [fst] in G.
  eapply del_ext_trans; [exact G|]. apply del_ext_bl. destruct s; reflexivity.
Qed.

Lemma process_sig_bl_del st s : del_ext st (process_sig st s).
Proof.
  unfold process_sig.
  destruct (zget (bs_index s) (blocks st)) as [b|]; [|apply del_ext_refl].
  destruct (get_peerset st (b_rr b)); [|apply del_ext_refl].
  destruct (negb (mem_key _ _)); [apply del_ext_refl|].
  destruct (negb (_ =? _)); [apply del_ext_refl|]. cbv zeta.
  exists []. rewrite app_nil_r.
  match goal with |- delivered (?x <| sigpool := _ |>) = _ => change (delivered (x <| sigpool := _ |>)) with (delivered x) end.
  match goal with |- delivered (set_anchor_block ?a ?b) = _ => pose proof (set_anchor_block_bl a b) as E end.
  unfold bl in E. rewrite <- (delivered_store st (b <| b_sigs := aset (bs_validator s) (bs_over s) (b_sigs b) |>)). congruence.
Qed.

Lemma hstep_del st o : binv st -> del_ext st (hstep st o).
Proof.
  intros OK. destruct o as [e|]; cbn [hstep].
  - unfold step, insert_and_run. pose proof (insert_event_bview st e) as E.
    destruct (insert_event st e) as [r s]. cbn [snd] in *.
    assert (D0 : del_ext st s) by (apply del_ext_bl, bview_bl; exact E).
    assert (OKs : binv s) by (eapply binv_bview; eauto).
    destruct r; cbn [snd]; auto.
    eapply del_ext_trans; [exact D0|]. unfold run_consensus.
    assert (D1 : del_ext s (divide_rounds s)) by apply del_ext_bl, bview_bl, divide_rounds_bview.
    assert (OK1 : binv (divide_rounds s)) by (eapply binv_bview; [apply divide_rounds_bview|exact OKs]).
    destruct (failed (divide_rounds s)); [exact D1|].
    assert (D2 : del_ext (divide_rounds s) (decide_fame (divide_rounds s))) by apply del_ext_bl, bview_bl, decide_fame_bview.
    assert (OK2 : binv (decide_fame (divide_rounds s))) by (eapply binv_bview; [apply decide_fame_bview|exact OK1]).
    destruct (failed (decide_fame _)); [eapply del_ext_trans; eauto|].
    assert (D3 : del_ext (decide_fame (divide_rounds s)) (decide_round_received (decide_fame (divide_rounds s))))
      by apply del_ext_bl, bview_bl, decide_round_received_bview.
    assert (OK3 : binv (decide_round_received (decide_fame (divide_rounds s))))
      by (eapply binv_bview; [apply decide_round_received_bview|exact OK2]).
    destruct (failed (decide_round_received _)); [repeat (eapply del_ext_trans; eauto)|].
    eapply del_ext_trans; [exact D1|]. eapply del_ext_trans; [exact D2|]. eapply del_ext_trans; [exact D3|].
    apply process_decided_rounds_del. exact OK3.
  - clear OK. unfold process_sigpool. generalize (sigpool st) as l. intros l. revert st.
    induction l as [|s l IH]; intros st; cbn [fold_left]; [apply del_ext_refl|].
    eapply del_ext_trans; [apply process_sig_bl_del|apply IH].
Qed.

Lemma hstep_binv st o : binv st -> binv (hstep st o).
Proof. intros OK. destruct o; cbn [hstep]; [apply step_binv|apply process_sigpool_binv]; exact OK. Qed.

Lemma hrun_del ops : forall st, binv st -> del_ext st (hrun st ops).
Proof.
  induction ops as [|o ops IH]; intros st OK; cbn [hrun fold_left]; [apply del_ext_refl|].
  eapply del_ext_trans; [apply hstep_del; exact OK|apply IH, hstep_binv; exact OK].
Qed.

Lemma hrun_app st ops ops' : hrun st (ops ++ ops') = hrun (hrun st ops) ops'.
Proof. unfold hrun. apply fold_left_app. Qed.

(* a block delivered at some point is reported unchanged (same body, superset of signatures) at
   every later point *)
Theorem delivered_block_immutable self_ genesis oracle_ ops ops' k d :
  nth_error (delivered (hrun (init_hg self_ genesis oracle_) ops)) k = Some d ->
  nth_error (delivered (hrun (init_hg self_ genesis oracle_) (ops ++ ops'))) k = Some d /\
  exists b, zget (Z.of_nat k) (blocks (hrun (init_hg self_ genesis oracle_) (ops ++ ops'))) = Some b /\
            body b = body d /\ sigs_incl d b.
Proof.
  intros H. rewrite hrun_app.
  destruct (hrun_del ops' (hrun (init_hg self_ genesis oracle_) ops) (hrun_binv self_ genesis oracle_ ops)) as [l Hl].
  assert (H' : nth_error (delivered (hrun (hrun (init_hg self_ genesis oracle_) ops) ops')) k = Some d).
  { rewrite Hl. apply nth_error_app1_some'. exact H. }
  split; [exact H'|].
  pose proof (hrun_binv self_ genesis oracle_ (ops ++ ops')) as OK. rewrite hrun_app in OK.
  destruct (b_del _ OK k d H') as [_ R]. exact R.
Qed.
