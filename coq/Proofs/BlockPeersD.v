(* Dynamic membership: the peers field of a delivered block.  For EVERY run of the model that has not failed (any
   events, any membership changes, no distance bound): the peer-set recorded in a cached frame of round R -- hence the
   peers field of the block built from it -- is [validators_at genesis (delivered st) R]: genesis modified, in block
   order, by the accepted receipts of the delivered blocks with round-received + 6 <= R.  (The frame of R is created
   while R is being processed; every block delivered from then on has round-received >= R, hence takes effect at
   R + 6 or later.)  Consequence, with Proofs/BlockAgreeD.v: the k-th delivered blocks of two nodes that respect the
   distance bound carry the same peers. *)
From Coq Require Import ZArith List Bool Lia ZifyBool Permutation Sorted.
From RecordUpdate Require Import RecordSet.
From V Require Import Proofs.MedianProofs Proofs.TidyC18.
From V Require Import Model.ZMap Model.Quorum Model.HgImpl Model.PeerSetSpec
  Proofs.ZMapFacts Proofs.HgBlockFrames Proofs.BlockInv Proofs.RoundOrder Proofs.OrderFrames Proofs.OrderProofs
  Proofs.AdmissionProofs Proofs.CInvRun Proofs.Committed Proofs.PeerSetProofs Proofs.TidyRR Proofs.GapWindow Proofs.RoundAgreeD
  Proofs.BlockAgree Proofs.Agreement Proofs.BlockAgreeD Proofs.FsvFrames Proofs.FsvD.
Import ListNotations RecordSetNotations.
Open Scope Z_scope.

Definition tbl_below (g : peerset) (ds : list block) (R : Z) : list (Z * peerset) :=
  fst (replay_genesis g (filter (fun d => b_rr d <? R) ds)).
Definition FPI (g : peerset) (s : hg) : Prop :=
  forall R f, zget R (frames s) = Some f ->
    f_peers f = validators_at g (delivered s) R /\ f_peersets f = tbl_below g (delivered s) R.

Definition fv (s : hg) := (frames s, delivered s, last_consensus s).

Lemma fp_ext g s s' : fv s' = fv s -> FR s /\ FPI g s -> FR s' /\ FPI g s'.
Proof.
  unfold fv. intros E [A B]. inversion E as [[E1 E2 E3]]. unfold FR, FPI, lcle. rewrite E1, E2, E3. auto.
Qed.

Lemma fv_bview s s' : bview s' = bview s -> fv s' = fv s.
Proof. unfold bview, fv. intros H. inversion H. reflexivity. Qed.

Lemma fv_rv s s' : rv s' = rv s -> fv s' = fv s.
Proof. intros H. destruct (rv_fields _ _ H) as [_ [_ [L [F D]]]]. unfold fv. congruence. Qed.

Lemma get_frame_peers st rr f s : get_frame st rr = (Some f, s) ->
  (zget rr (frames st) = Some f /\ s = st) \/
  (zget rr (frames st) = None /\ get_peerset st rr = Some (f_peers f) /\ frames s = zset rr f (frames st) /\
   f_peersets f = peersets st).
Proof.
  unfold get_frame.
  destruct (zget rr (frames st)) as [g0|] eqn:Hg.
  { intros H; inversion H; subst. left. auto. }
  destruct (get_round st rr); [|discriminate].
  destruct (get_peerset st rr) as [ps|]; [|discriminate].
  match goal with |- context [fold_left ?f ?l ?a] => destruct (fold_left f l a) end; [|discriminate].
  match goal with |- context [fold_left ?f (repertoire st) ?a] => destruct (fold_left f (repertoire st) a) end;
    [|discriminate].
  intros H; inversion H; subst; clear H. right. cbn [f_peers f_peersets]. split; [reflexivity|]. split; [reflexivity|].
  split; [destruct st; reflexivity|reflexivity].
Qed.

Lemma validators_at_snoc g ds b q : q < b_rr b + 6 -> validators_at g (ds ++ [b]) q = validators_at g ds q.
Proof.
  intros H. unfold validators_at, effective_blocks. rewrite filter_app. cbn [filter].
  replace (b_rr b + 6 <=? q) with false by lia. rewrite app_nil_r. reflexivity.
Qed.

Lemma validators_below_snoc g ds b q : q <= b_rr b -> tbl_below g (ds ++ [b]) q = tbl_below g ds q.
Proof.
  intros H. unfold tbl_below. rewrite filter_app. cbn [filter].
  replace (b_rr b <? q) with false by lia. rewrite app_nil_r. reflexivity.
Qed.

Lemma filter_all {A} (f : A -> bool) l : (forall x, In x l -> f x = true) -> filter f l = l.
Proof.
  induction l as [|a l IH]; intros H; cbn [filter]; [reflexivity|]. rewrite (H a (or_introl eq_refl)).
  rewrite IH; [reflexivity|]. intros x Hx. apply H. right. exact Hx.
Qed.

Lemma process_round_fp g s p stop pr : rinvA s -> lc_lt s (fst pr) -> c10inv g s -> FR s -> FPI g s -> J s ->
  FR (fst (fst (process_round (s, p, stop) pr))) /\ FPI g (fst (fst (process_round (s, p, stop) pr))) /\
  J (fst (fst (process_round (s, p, stop) pr))).
Proof.
  intros A Hlt C Hfr Hfp Hj. unfold process_round.
  assert (Kfail : forall s0, FR s0 -> FPI g s0 -> J s0 -> FR (fail s0) /\ FPI g (fail s0) /\ J (fail s0)).
  { intros s0 X Y Z0. destruct (fp_ext g s0 (fail s0) (fv_rv _ _ (rv_fail s0)) (conj X Y)) as [X' Y'].
    split; [exact X'|]. split; [exact Y'|]. apply (J_qview s0); [apply fail_qview|apply fsv_fail|exact Z0]. }
  destruct (stop || failed s); [cbn [fst]; auto|].
  destruct (snd pr); cbn [negb]; [|cbn [fst]; auto].
  destruct (get_round s (fst pr)) as [ri|] eqn:Hri; [|cbn [fst]; apply Kfail; auto].
  pose proof (get_frame_qview s (fst pr)) as Qg. pose proof (fsv_get_frame s (fst pr)) as Fg.
  destruct (get_frame s (fst pr)) as [[f|] s1] eqn:Hgf; [|apply get_frame_none in Hgf; subst s1; cbn [fst]; apply Kfail; auto].
  cbn [fst snd] in *.
  destruct (get_frame_spec s (fst pr) f s1 (r_frames s A) Hgf) as [HfR [Hd1 [_ [_ [_ [Lc1 _]]]]]].
  set (r := fst pr) in *. set (s2 := process_frame s1 f).
  pose proof (process_frame_cv s1 f) as C2. fold s2 in C2.
  assert (Lc2 : last_consensus s2 = last_consensus s) by (unfold cv in C2; inversion C2; congruence).
  assert (Fr2 : frames s2 = frames s1) by (unfold cv in C2; inversion C2; congruence).
  assert (Lc3 : last_consensus (bump_last_consensus s2 r) = Some r).
  { apply bump_lc. unfold lc_lt in *. rewrite Lc2. exact Hlt. }
  destruct (bump_keep s2 r) as [_ [Fr3 Dl3]].
  assert (Hr0 : 0 <= r) by (apply (r_contig s A); congruence).
  (* the cached frames after GetFrame *)
  assert (Hprev : forall d, In d (delivered s) -> b_rr d < r).
  { intros d Hin. destruct (r_del_lc s A d Hin) as [l [Hl Hle]]. unfold lc_lt in Hlt. rewrite Hl in Hlt. lia. }
  pose proof (f_equal fst (c_replay g s C)) as Et. cbn [fst] in Et.
  assert (Keys : forall q g0, zget q (frames s1) = Some g0 ->
            q <= r /\ f_peers g0 = validators_at g (delivered s) q /\ f_peersets g0 = tbl_below g (delivered s) q).
  { intros q g0 Hq.
    assert (Old : zget q (frames s) = Some g0 ->
              q <= r /\ f_peers g0 = validators_at g (delivered s) q /\ f_peersets g0 = tbl_below g (delivered s) q).
    { intros Hq0. split; [|apply Hfp; exact Hq0]. destruct (Hfr q g0 Hq0) as [l [Hl Hle]]. unfold lc_lt in Hlt. rewrite Hl in Hlt. lia. }
    destruct (get_frame_peers s r f s1 Hgf) as [[_ ->]|[Hz [Hps [Hfs Hpt]]]]; [apply Old; exact Hq|].
    rewrite Hfs, zget_zset in Hq. destruct ((r =? q) && (0 <=? r)) eqn:E; [|apply Old; exact Hq].
    inversion Hq; subst g0. assert (q = r) by lia. subst q. split; [lia|]. split.
    - unfold get_peerset in Hps. rewrite Et in Hps.
      rewrite (lookup_is_prefix_replay g (delivered s) r (r_del_sorted s A) (c10inv_rr_nonneg g s C) Hr0) in Hps.
      inversion Hps. reflexivity.
    - rewrite Hpt, Et. unfold tbl_below. rewrite filter_all; [reflexivity|]. intros d Hd. specialize (Hprev d Hd). lia. }
  (* the table keys lie below r + 6 *)
  assert (Hk : forall k p0, In (k, p0) (peersets s1) -> k < f_round f + 6).
  { intros k p0. destruct (qview_split _ _ Qg) as [Pv _]. unfold pview in Pv. assert (Ept : peersets s1 = peersets s) by (inversion Pv; reflexivity).
    rewrite Ept, Et, HfR. unfold replay_genesis. intros Hin.
    destruct (replay_keys _ _ _ _ _ Hin) as [[p1 [X|[]]]|[d [Hd Ek]]]; [inversion X; lia|]. specialize (Hprev d Hd). lia. }
  split; [|split].
  - intros q g0. rewrite Fr3, Fr2. intros Hq. destruct (Keys q g0 Hq) as [Hle _]. exists r. split; [exact Lc3|exact Hle].
  - intros q g0. rewrite Fr3, Fr2, Dl3. intros Hq. destruct (Keys q g0 Hq) as [Hle [Hp Hp2]]. rewrite Hp, Hp2.
    destruct (process_frame_delivered s1 f) as [E|[bf [E Hb]]]; fold s2 in E; rewrite E, Hd1; [split; reflexivity|].
    split; symmetry; [apply validators_at_snoc; rewrite Hb, HfR; lia|apply validators_below_snoc; rewrite Hb, HfR; lia].
  - apply (J_qview s2); [apply bump_last_consensus_qview|apply fsv_bump|]. unfold s2. apply process_frame_J; [|exact Hk].
    apply (J_qview s); [exact Qg|exact Fg|exact Hj].
Qed.

Lemma process_fold_fp g : forall l s p stop,
  rinvA s -> StronglySorted Z.lt (map fst l) -> (forall r, In r (map fst l) -> lc_lt s r) ->
  binv s -> PeerSetProofs.finv s -> c10inv g s -> FR s -> FPI g s -> J s ->
  FR (fst (fst (fold_left process_round l (s, p, stop)))) /\ FPI g (fst (fst (fold_left process_round l (s, p, stop)))) /\
  J (fst (fst (fold_left process_round l (s, p, stop)))).
Proof.
  induction l as [|pr rest IH]; intros s p stop A Hs Hab OK FI C Hfr Hfp Hj; cbn [fold_left]; [cbn [fst]; auto|].
  cbn [map] in Hs, Hab. inversion Hs as [|? ? Hs' Hall]; subst. rewrite Forall_forall in Hall.
  assert (Hlt : lc_lt s (fst pr)) by (apply Hab; left; reflexivity).
  destruct (process_round_spec s p stop pr A Hlt) as [A' [_ Hcase]].
  pose proof (process_round_binv s p stop pr OK) as OK'.
  destruct (process_round_lift (c10inv g) (fun st st' E _ => c10inv_ext g st st' E) (c10inv_commit g) s p stop pr OK FI C) as [FI' C'].
  destruct (process_round_fp g s p stop pr A Hlt C Hfr Hfp Hj) as [Hfr' [Hfp' Hj']].
  destruct (process_round (s, p, stop) pr) as [[s' p'] stop'] eqn:E. cbn [fst snd] in *.
  apply IH; auto.
  intros r' Hr'. unfold lc_lt. destruct Hcase as [[_ [L _]]|[_ [_ L]]]; rewrite L.
  - apply (Hab r'). right. exact Hr'.
  - apply Hall. exact Hr'.
Qed.

Lemma J_bview s s' : bview s' = bview s -> fsv s' = fsv s -> J s -> J s'.
Proof. intros B. apply J_ext. unfold bview in B. inversion B. reflexivity. Qed.

Lemma fpj_ext g s s' : fv s' = fv s -> bview s' = bview s -> fsv s' = fsv s ->
  FR s /\ FPI g s /\ J s -> FR s' /\ FPI g s' /\ J s'.
Proof.
  intros A B C [X [Y Z0]]. destruct (fp_ext g s s' A (conj X Y)) as [X' Y']. split; [exact X'|]. split; [exact Y'|].
  apply (J_bview s); auto.
Qed.

Lemma run_consensus_fp g st : rinv st -> binv st -> PeerSetProofs.finv st -> c10inv g st -> FR st -> FPI g st -> J st ->
  FR (run_consensus st) /\ FPI g (run_consensus st) /\ J (run_consensus st).
Proof.
  intros R OK FI C Hfr Hfp Hj. unfold run_consensus.
  pose proof (divide_rounds_bview st) as B1.
  assert (X1 : FR (divide_rounds st) /\ FPI g (divide_rounds st) /\ J (divide_rounds st))
    by (apply (fpj_ext g st); [apply fv_bview, B1|exact B1|apply divide_rounds_fsv|auto]).
  destruct (failed (divide_rounds st)) eqn:F1; [exact X1|].
  assert (R1 : rinv (divide_rounds st)).
  { destruct (divide_rounds_rinv st (or_intror R)) as [F|R1]; [congruence|exact R1]. }
  set (s1 := divide_rounds st) in *.
  pose proof (decide_fame_bview s1) as B2.
  assert (X2 : FR (decide_fame s1) /\ FPI g (decide_fame s1) /\ J (decide_fame s1))
    by (apply (fpj_ext g s1); [apply fv_bview, B2|exact B2|apply decide_fame_fsv|auto]).
  destruct (failed (decide_fame s1)) eqn:F2; [exact X2|].
  pose proof (decide_fame_rinv s1 R1) as R2. set (s2 := decide_fame s1) in *.
  pose proof (decide_round_received_bview s2) as B3.
  assert (X3 : FR (decide_round_received s2) /\ FPI g (decide_round_received s2) /\ J (decide_round_received s2))
    by (apply (fpj_ext g s2); [apply fv_bview, B3|exact B3|apply decide_round_received_fsv|auto]).
  destruct (failed (decide_round_received s2)) eqn:F3; [exact X3|].
  pose proof (rinv_rstep s2 _ R2 (decide_round_received_rstep s2 (proj1 (rinv_bounded s2 R2)))) as R3.
  set (s3 := decide_round_received s2) in *.
  assert (Bv : bview s3 = bview st) by (rewrite B3, B2, B1; reflexivity).
  assert (OK3 : binv s3) by (apply (binv_bview st); auto).
  assert (FI3 : PeerSetProofs.finv s3) by (apply (PeerSetProofs.finv_frames st); [apply bview_frames; exact Bv|exact FI]).
  assert (C3 : c10inv g s3) by (apply (c10inv_ext g st); [apply bview_pview; exact Bv|exact C]).
  destruct X3 as [Hfr3 [Hfp3 Hj3]].
  pose proof (process_fold_fp g (pending s3) s3 [] false (proj1 R3) (r_sorted s3 (proj1 R3)) (r_above s3 (proj2 R3)) OK3 FI3 C3 Hfr3 Hfp3 Hj3) as X4.
  unfold process_decided_rounds.
  destruct (fold_left process_round (pending s3) (s3, [], false)) as [[s processed] stop]. cbn [fst] in X4.
  apply (fpj_ext g s); [destruct s; reflexivity|destruct s; reflexivity|destruct s; reflexivity|exact X4].
Qed.

Lemma process_sigpool_fv st : fv (process_sigpool st) = fv st.
Proof.
  unfold process_sigpool. generalize (sigpool st) as l. intros l. revert st.
  induction l as [|s l IH]; intros st; cbn [fold_left]; [reflexivity|]. rewrite IH. apply fv_rv, process_sig_rv.
Qed.

Record KP (g : peerset) (st : hg) : Prop := {
  kp_r : rinv st; kp_b : binv st; kp_f : PeerSetProofs.finv st; kp_c : c10inv g st; kp_fr : FR st; kp_fp : FPI g st;
  kp_j : J st
}.

Lemma hstep_KP g st o : KP g st -> failed (hstep st o) = false -> KP g (hstep st o).
Proof.
  intros [R OK FI C Hfr Hfp Hj] F.
  destruct (hstep_lift0 (c10inv g) (c10inv_ext g) (c10inv_commit g) (fun st0 s _ _ => c10inv_sig g st0 s) st o OK FI C) as [FI' C'].
  assert (X : FR (hstep st o) /\ FPI g (hstep st o) /\ J (hstep st o)).
  { destruct o as [e|]; cbn [hstep].
    - unfold step, insert_and_run.
      pose proof (insert_event_bview st e) as B. pose proof (insert_event_rstep st e) as RS. pose proof (insert_event_fsv st e) as Fs.
      destruct (insert_event st e) as [i s]. cbn [fst snd] in *.
      assert (Xs : FR s /\ FPI g s /\ J s) by (apply (fpj_ext g st); [apply fv_bview, B|exact B|exact Fs|auto]).
      destruct i; cbn [snd]; try exact Xs.
      apply run_consensus_fp; [apply (rinv_rstep st); auto|apply (binv_bview st); auto|
        apply (PeerSetProofs.finv_frames st); [apply bview_frames; exact B|exact FI]|
        apply (c10inv_ext g st); [apply bview_pview; exact B|exact C]|apply Xs|apply Xs|apply Xs].
    - destruct (fp_ext g st (process_sigpool st) (process_sigpool_fv st) (conj Hfr Hfp)) as [X' Y'].
      split; [exact X'|]. split; [exact Y'|]. apply (J_ext st); [|apply process_sigpool_fsv|exact Hj].
      pose proof (only_commit_sigpool st) as Tb. unfold tbl in Tb. inversion Tb. reflexivity. }
  constructor; [|apply hstep_binv; exact OK|exact FI'|exact C'|apply X|apply X|apply X].
  exact (proj2 (hstep_rtop st o (rinv_rtop st R)) F).
Qed.

Lemma hrun_failed_true ops : forall st, failed st = true -> failed (hrun st ops) = true.
Proof. induction ops as [|o ops IH]; intros st F; cbn [hrun fold_left]; [exact F|]. apply IH, hstep_failed_mono, F. Qed.

Lemma hrun_KP g ops : forall st, KP g st -> failed (hrun st ops) = false -> KP g (hrun st ops).
Proof.
  induction ops as [|o ops IH]; intros st K F; [exact K|].
  change (hrun st (o :: ops)) with (hrun (hstep st o) ops) in *.
  apply IH; [|exact F]. apply hstep_KP; [exact K|].
  destruct (failed (hstep st o)) eqn:E; [|reflexivity]. rewrite (hrun_failed_true ops _ E) in F. discriminate.
Qed.

Lemma KP_init self_ genesis oracle_ : self_ <> -1 -> KP genesis (init_hg self_ genesis oracle_).
Proof.
  intros Hs. destruct (init_hg_spec self_ genesis oracle_) as (_ & _ & _ & _ & _ & _ & _ & _ & _ & _ & F).
  constructor; [apply rinv_init|apply binv_init|apply PeerSetProofs.finv_init|apply c10inv_init; exact Hs| | |apply J_init].
  - intros R f. rewrite F, zget_empty. discriminate.
  - intros R f. rewrite F, zget_empty. discriminate.
Qed.

(** * THE PEERS FIELD OF A DELIVERED BLOCK *)
Theorem block_peers_spec all self_ genesis oracle_ ops d :
  self_ <> -1 -> ids_determine all -> Forall (hop_ok all) ops ->
  let st := hrun (init_hg self_ genesis oracle_) ops in
  failed st = false -> In d (delivered st) ->
  b_peers d = validators_at genesis (delivered st) (b_rr d) /\ get_peerset st (b_rr d) = Some (b_peers d).
Proof.
  intros Hs ID H st F Hd.
  pose proof (hrun_KP genesis ops _ (KP_init self_ genesis oracle_ Hs) F) as K. fold st in K.
  pose proof (hrun_ginv all self_ genesis oracle_ ops ID H) as G. fold st in G.
  destruct (delivered_block_payload all st d G Hd) as [Hz _].
  destruct (c_frames genesis st (kp_c _ _ K) d Hd) as [[F0 _] [Ep Er]].
  assert (E : b_peers d = validators_at genesis (delivered st) (b_rr d)) by (rewrite Ep; apply (proj1 (kp_fp _ _ K _ _ Hz))).
  split; [exact E|]. rewrite E. apply (lookup_is_effective_prefix self_ genesis oracle_ ops (b_rr d) Hs). lia.
Qed.

(** * The k-th delivered blocks of two nodes that respect the distance bound: everything but the frame hash *)
Definition cbodyD (d : block) := (b_index d, b_rr d, b_ts d, b_txs d, b_itxs d, b_peers d).
Section FinalPeers.
  Variables (all : list event) (g : peerset).
  Hypothesis ID : ids_determine all.
  Hypothesis SK : sigkeys_determine all.
  Hypothesis FF : fork_free all.
  Variables (s1 s2 : Z) (o1 o2 : list Z) (ops1 ops2 : list hop).
  Hypothesis S1 : s1 <> -1.
  Hypothesis S2 : s2 <> -1.
  Hypothesis H1 : Forall (hop_ok all) ops1.
  Hypothesis H2 : Forall (hop_ok all) ops2.
  Hypothesis B1 : gap_runb (init_hg s1 g o1) ops1 = true.
  Hypothesis B2 : gap_runb (init_hg s2 g o2) ops2 = true.
  Let st1 := hrun (init_hg s1 g o1) ops1.
  Let st2 := hrun (init_hg s2 g o2) ops2.
  Hypothesis F1 : failed st1 = false.
  Hypothesis F2 : failed st2 = false.

  Theorem blocks_agree_gap_full k d1 d2 :
    nth_error (delivered st1) k = Some d1 -> nth_error (delivered st2) k = Some d2 -> cbodyD d1 = cbodyD d2.
  Proof.
    intros Hk1 Hk2. unfold cbodyD.
    pose proof (blocks_agree_gap_ts all g ID SK FF s1 s2 o1 o2 ops1 ops2 S1 S2 H1 H2 B1 B2 F1 F2 k d1 d2 Hk1 Hk2) as E.
    inversion E as [[Ei Er Et Ex Ey]].
    pose proof (gap_tables_agree all g ID SK FF s1 s2 o1 o2 ops1 ops2 S1 S2 H1 H2 B1 B2 F1 F2) as T.
    pose proof (nth_error_In _ _ Hk1) as Hd1. pose proof (nth_error_In _ _ Hk2) as Hd2.
    destruct (block_peers_spec all s1 g o1 ops1 d1 S1 ID H1 F1 Hd1) as [_ P1].
    destruct (block_peers_spec all s2 g o2 ops2 d2 S2 ID H2 F2 Hd2) as [_ P2].
    destruct (delivered_round_present all s1 g o1 ops1 d1 ID H1 F1 Hd1) as [ri1 Hr1].
    destruct (delivered_round_present all s2 g o2 ops2 d2 ID H2 F2 Hd2) as [ri2 Hr2].
    fold st1 in P1, Hr1. fold st2 in P2, Hr2. rewrite <- Er in P2, Hr2.
    assert (Ep : b_peers d1 = b_peers d2).
    { assert (N1 : get_round st1 (b_rr d1) <> None) by (rewrite Hr1; discriminate).
      assert (N2 : get_round st2 (b_rr d1) <> None) by (rewrite Hr2; discriminate).
      pose proof (T (b_rr d1) N1 N2) as Q. fold st1 st2 in Q. rewrite P1, P2 in Q. inversion Q. reflexivity. }
    rewrite Ep. rewrite E. reflexivity.
  Qed.

  (* prefix form *)
  Corollary blocks_prefix_gap : (length (delivered st1) <= length (delivered st2))%nat ->
    map cbodyD (delivered st1) = firstn (length (delivered st1)) (map cbodyD (delivered st2)).
  Proof.
    intros Hlen. rewrite <- (map_length cbodyD (delivered st1)).
    apply prefix_of_pointwise; [rewrite !map_length; exact Hlen|].
    intros k a b Ha Hb.
    destruct (nth_error (delivered st1) k) as [d1|] eqn:D1.
    2:{ apply nth_error_None in D1. assert (C : nth_error (map cbodyD (delivered st1)) k <> None) by (rewrite Ha; discriminate).
        apply nth_error_Some in C. rewrite map_length in C. lia. }
    destruct (nth_error (delivered st2) k) as [d2|] eqn:D2.
    2:{ apply nth_error_None in D2. assert (C : nth_error (map cbodyD (delivered st2)) k <> None) by (rewrite Hb; discriminate).
        apply nth_error_Some in C. rewrite map_length in C. lia. }
    rewrite (map_nth_error cbodyD _ _ D1) in Ha. rewrite (map_nth_error cbodyD _ _ D2) in Hb.
    inversion Ha; inversion Hb; subst. apply (blocks_agree_gap_full k d1 d2 D1 D2).
  Qed.
End FinalPeers.
