(* Stage B: a delivered block carries the timestamp and the peer set of its frame
   (block_of_frame: Timestamp = frame.Timestamp, PeersHash = hash of frame.Peers). *)
From Coq Require Import ZArith List Bool Lia.
From RecordUpdate Require Import RecordSet.
From V Require Import Model.ZMap Model.Quorum Model.Voting Model.HgImpl
  Proofs.ZMapFacts Proofs.HgFrames Proofs.HgDagFrames Proofs.AdmissionProofs Proofs.HgBlockFrames
  Proofs.BlockInv Proofs.RoundOrder Proofs.OrderSort Proofs.OrderFrames Proofs.OrderProofs.
Import ListNotations RecordSetNotations.
Open Scope Z_scope.

Definition tv (b : block) := (b_ts b, b_peers b, b_frame b).
Definition tshape (d : block) : Prop := b_ts d = f_ts (b_frame d) /\ b_peers d = f_peers (b_frame d).

Definition dinv (Q : block -> Prop) (st : hg) : Prop := forall d, In d (delivered st) -> Q d.

Lemma sign_block_tv st b bps : tv (fst (sign_block st b bps)) = tv b.
Proof. unfold sign_block. destruct (mem_key _ _); cbn [fst]; [destruct b; reflexivity|reflexivity]. Qed.

Lemma commit_delivered_tv st b : exists bf, delivered (commit st b) = delivered st ++ [bf] /\ tv bf = tv b.
Proof.
  unfold commit. destruct (self st =? -1); [exists b; split; [destruct st; reflexivity|reflexivity]|]. cbv zeta.
  set (st0 := st <| oracle := _ |>).
  assert (F0 : delivered st0 = delivered st) by (destruct st; reflexivity).
  match goal with |- context [store_set_block st0 ?b1] => set (bb := b1) end.
  assert (Rb : tv bb = tv b) by (subst bb; destruct b; reflexivity).
  pose proof (delivered_store st0 bb) as F1.
  destruct (get_peerset (store_set_block st0 bb) (b_rr bb)) as [bps|].
  - pose proof (delivered_sign_block (store_set_block st0 bb) bb bps) as F2.
    pose proof (sign_block_tv (store_set_block st0 bb) bb bps) as R2.
    destruct (sign_block (store_set_block st0 bb) bb bps) as [b2 st2]. cbn [fst snd] in *.
    exists b2. split; [|congruence].
    pose proof (delivered_bl _ _ (process_receipts_bl (set_anchor_block st2 b2) (b_rr b2) (b_itxs b2))) as F4.
    pose proof (delivered_bl _ _ (set_anchor_block_bl st2 b2)) as F3.
    match goal with |- delivered (deliver ?s ?d) = _ => change (delivered (deliver s d)) with (delivered s ++ [d]) end.
    congruence.
  - exists bb. split; [|exact Rb].
    match goal with |- delivered (deliver ?s ?d) = _ => change (delivered (deliver s d)) with (delivered s ++ [d]) end.
    congruence.
Qed.

Lemma tv_shape bf f : tv bf = (f_ts f, f_peers f, f) -> tshape bf.
Proof. unfold tv, tshape. intros H. inversion H as [[A B C]]. rewrite C. auto. Qed.

Lemma process_frame_tshape s f : dinv tshape s -> dinv tshape (process_frame s f).
Proof.
  intros T. unfold process_frame. destruct (f_events f) as [|fe rest] eqn:Hfe; [exact T|]. cbv zeta.
  set (s1 := fold_left add_consensus_event (fe :: rest) s).
  assert (E1 : delivered s1 = delivered s) by (apply delivered_bl, add_consensus_events_bl).
  set (b := block_of_frame _ _ _).
  assert (Rb : tv b = (f_ts f, f_peers f, f)) by reflexivity.
  assert (T1 : dinv tshape s1) by (intros d; rewrite E1; apply T).
  destruct (b_txs b), (b_itxs b); try exact T1;
    (destruct (commit_delivered_tv (store_set_block s1 b) b) as [bf [Hd Hr]]; intros d; rewrite Hd, delivered_store, E1;
     intros Hin; apply in_app_or in Hin; destruct Hin as [Hin|[<-|[]]]; [apply T; exact Hin|apply (tv_shape bf f); congruence]).
Qed.

Section Generic.
  Variable Q : block -> Prop.
  Hypothesis HQ : forall s f, dinv Q s -> dinv Q (process_frame s f).

Lemma dinv_same s s' : delivered s' = delivered s -> dinv Q s -> dinv Q s'.
Proof. intros E T d. rewrite E. apply T. Qed.

Lemma process_round_dinv s p stop pr : dinv Q s -> dinv Q (fst (fst (process_round (s, p, stop) pr))).
Proof.
  intros T. unfold process_round.
  destruct (stop || failed s); [exact T|]. destruct (negb (snd pr)); [exact T|].
  destruct (get_round s (fst pr)); [|cbn [fst]; apply (dinv_same s); [destruct s; reflexivity|exact T]].
  pose proof (delivered_bl _ _ (get_frame_bl s (fst pr))) as D1.
  destruct (get_frame s (fst pr)) as [[f|] s1]; cbn [fst snd] in *.
  - destruct (bump_keep (process_frame s1 f) (fst pr)) as [_ [_ D3]].
    apply (dinv_same (process_frame s1 f)); [exact D3|]. apply HQ. apply (dinv_same s); assumption.
  - apply (dinv_same s1); [destruct s1; reflexivity|]. apply (dinv_same s); assumption.
Qed.

Lemma process_decided_rounds_dinv st : dinv Q st -> dinv Q (process_decided_rounds st).
Proof.
  intros T. unfold process_decided_rounds.
  assert (G : forall l s p b, dinv Q s -> dinv Q (fst (fst (fold_left process_round l (s, p, b))))).
  { induction l as [|pr l IH]; intros s p b Ts; cbn [fold_left]; [exact Ts|].
    pose proof (process_round_dinv s p b pr Ts) as T1.
    destruct (process_round (s, p, b) pr) as [[s' p'] b']. apply IH. exact T1. }
  specialize (G (pending st) st [] false T).
  destruct (fold_left process_round (pending st) (st, [], false)) as [[s processed] stop]. cbn [fst] in G.
  apply (dinv_same s); [destruct s; reflexivity|exact G].
Qed.

Lemma bview_delivered s s' : bview s' = bview s -> delivered s' = delivered s.
Proof. unfold bview. intros H. inversion H. reflexivity. Qed.

Lemma run_consensus_dinv st : dinv Q st -> dinv Q (run_consensus st).
Proof.
  intros T. unfold run_consensus.
  pose proof (bview_delivered _ _ (divide_rounds_bview st)) as D1. set (s1 := divide_rounds st) in *.
  pose proof (dinv_same st s1 D1 T) as T1. destruct (failed s1); [exact T1|].
  pose proof (bview_delivered _ _ (decide_fame_bview s1)) as D2. set (s2 := decide_fame s1) in *.
  pose proof (dinv_same s1 s2 D2 T1) as T2. destruct (failed s2); [exact T2|].
  pose proof (bview_delivered _ _ (decide_round_received_bview s2)) as D3. set (s3 := decide_round_received s2) in *.
  pose proof (dinv_same s2 s3 D3 T2) as T3. destruct (failed s3); [exact T3|].
  apply process_decided_rounds_dinv. exact T3.
Qed.

Lemma hstep_dinv st o : dinv Q st -> dinv Q (hstep st o).
Proof.
  intros T. destruct o as [e|]; cbn [hstep].
  - unfold step, insert_and_run. pose proof (bview_delivered _ _ (insert_event_bview st e)) as D.
    destruct (insert_event st e) as [r s]. cbn [snd] in D. pose proof (dinv_same st s D T) as Ts.
    destruct r; cbn [snd]; try exact Ts. apply run_consensus_dinv. exact Ts.
  - apply (dinv_same st); [|exact T].
    assert (Erv : rv (process_sigpool st) = rv st).
    { unfold process_sigpool. generalize (sigpool st). intros l. generalize st. clear.
      induction l as [|s l IHl]; intros st; cbn [fold_left]; [reflexivity|]. rewrite IHl. apply (proj1 (process_sig_rv st s)). }
    unfold rv in Erv. inversion Erv. reflexivity.
Qed.


  Theorem hrun_dinv self_ g oracle_ ops : dinv Q (hrun (init_hg self_ g oracle_) ops).
  Proof.
    assert (G : forall st, dinv Q st -> dinv Q (hrun st ops)).
    { induction ops as [|o ops IH]; intros st T; cbn [hrun fold_left]; [exact T|]. apply IH, hstep_dinv, T. }
    apply G. intros d Hd. exfalso.
    assert (E : delivered (init_hg self_ g oracle_) = []).
    { unfold init_hg. destruct (set_peerset (empty_hg self_) 0 g) as [s|] eqn:S; [|reflexivity].
      pose proof (delivered_bl _ _ (set_peerset_bl _ _ _ _ S)) as D.
      replace (delivered (s <| validators := g |> <| oracle := oracle_ |>)) with (delivered s) by (destruct s; reflexivity).
      rewrite D. reflexivity. }
    rewrite E in Hd. destruct Hd.
  Qed.
End Generic.

(* a delivered block has a payload *)
Definition pshape (d : block) : Prop := b_txs d <> [] \/ b_itxs d <> [].

Lemma process_frame_pshape s f : dinv pshape s -> dinv pshape (process_frame s f).
Proof.
  intros T. unfold process_frame. destruct (f_events f) as [|fe rest] eqn:Hfe; [exact T|]. cbv zeta.
  set (s1 := fold_left add_consensus_event (fe :: rest) s).
  assert (E1 : delivered s1 = delivered s) by (apply delivered_bl, add_consensus_events_bl).
  set (b := block_of_frame _ _ _).
  assert (T1 : dinv pshape s1) by (intros d; rewrite E1; apply T).
  assert (K : b_txs b <> [] \/ b_itxs b <> [] -> dinv pshape (commit (store_set_block s1 b) b)).
  { intros Hp. destruct (commit_delivered_pv (store_set_block s1 b) b) as [bf [Hd Hr]]. intros d. rewrite Hd, delivered_store, E1.
    intros Hin. apply in_app_or in Hin. destruct Hin as [Hin|[<-|[]]]; [apply T; exact Hin|].
    unfold pv in Hr. inversion Hr as [[A B C D]]. unfold pshape. rewrite B, C. exact Hp. }
  destruct (b_txs b) as [|t ts] eqn:Et, (b_itxs b) as [|u us] eqn:Eu; try exact T1; apply K;
    try (left; discriminate); right; discriminate.
Qed.

Theorem hrun_payload self_ g oracle_ ops : dinv pshape (hrun (init_hg self_ g oracle_) ops).
Proof. apply hrun_dinv. exact process_frame_pshape. Qed.

Theorem hrun_tinv self_ g oracle_ ops : dinv tshape (hrun (init_hg self_ g oracle_) ops).
Proof. apply hrun_dinv. exact process_frame_tshape. Qed.
