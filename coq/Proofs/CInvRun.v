(* Stage S2: [cinv] holds in every reachable state of the per-event pipeline (hrun) under static
   membership, as long as no consensus pass has failed.  The passes other than the division of
   the new event only touch components the invariant does not read ([ckeep]). *)
From Coq Require Import ZArith List Bool Lia ZifyBool.
From RecordUpdate Require Import RecordSet.
From V Require Import Model.ZMap Model.Quorum Model.Voting Model.HgImpl
  Proofs.ZMapFacts Proofs.HgFrames Proofs.HgDagFrames Proofs.AdmissionProofs Proofs.InsertShape
  Proofs.Ancestry Proofs.HgBlockFrames Proofs.BlockInv Proofs.RoundOrder Proofs.OrderFrames
  Proofs.OrderProofs Proofs.Static Proofs.FirstDesc Proofs.FdWalk Proofs.InsertInv Proofs.DivInv.
Import ListNotations RecordSetNotations.
Open Scope Z_scope.

(** * Elementary ckeep steps *)

Lemma ckeep_set_evst s x es es' :
  get_event s x = Some es -> ev_c es' = ev_c es -> ckeep s (set_evst s x es').
Proof.
  intros Hx Hc. constructor; try (destruct s; reflexivity).
  intros y. rewrite get_event_set_evst.
  destruct (Z.eqb_spec x y) as [->|]; cbn [andb]; [|reflexivity].
  destruct (0 <=? y); [|reflexivity]. rewrite Hx. cbn [option_map]. congruence.
Qed.

Lemma ckeep_fail s : ckeep s (fail s).
Proof. apply ckeep_same_fields; destruct s; reflexivity. Qed.
Lemma ckeep_set_pending s p : ckeep s (s <| pending := p |>).
Proof. apply ckeep_same_fields; destruct s; reflexivity. Qed.
Lemma ckeep_set_undetermined s p : ckeep s (s <| undetermined := p |>).
Proof. apply ckeep_same_fields; destruct s; reflexivity. Qed.

Lemma lamport_f_witness_memo fuel : forall st x, witness_memo (snd (lamport_f fuel st x)) = witness_memo st.
Proof.
  induction fuel as [|f IH]; intros st x; cbn [lamport_f].
  - destruct (zget x (lt_memo st)); reflexivity.
  - destruct (zget x (lt_memo st)); [reflexivity|].
    destruct (get_event st x) as [ex|]; [|reflexivity].
    assert (H1 : witness_memo (snd (if e_sp (ev_e ex) =? -1 then (Some (-1), st) else lamport_f f st (e_sp (ev_e ex)))) = witness_memo st).
    { destruct (e_sp (ev_e ex) =? -1); [reflexivity|apply IH]. }
    destruct (if e_sp (ev_e ex) =? -1 then (Some (-1), st) else lamport_f f st (e_sp (ev_e ex))) as [[plt|] st1];
      cbn [snd] in *; [|exact H1].
    destruct (e_op (ev_e ex) =? -1).
    + cbn [snd]. rewrite <- H1. destruct st1; reflexivity.
    + destruct (get_event st1 (e_op (ev_e ex))).
      * pose proof (IH st1 (e_op (ev_e ex))) as H2.
        destruct (lamport_f f st1 (e_op (ev_e ex))) as [[t|] s]; cbn [snd] in *; [|congruence].
        rewrite <- H1, <- H2. destruct s; reflexivity.
      * cbn [snd]. rewrite <- H1. destruct st1; reflexivity.
Qed.

Lemma lamport_f_ckeep fuel st x : ckeep st (snd (lamport_f fuel st x)).
Proof.
  pose proof (lamport_f_nomemo fuel st x) as N.
  apply ckeep_same_fields.
  - apply nomemo_eq_events; exact N.
  - apply lamport_f_round_memo.
  - apply lamport_f_witness_memo.
  - apply nomemo_eq_rounds; exact N.
  - apply nomemo_eq_peersets; exact N.
  - apply nomemo_eq_topo; exact N.
Qed.

Lemma divide_lt_ckeep st x : ckeep st (divide_lt st x).
Proof.
  unfold divide_lt. pose proof (lamport_f_ckeep (fuel_of st) st x) as K.
  destruct (lamport_f (fuel_of st) st x) as [[t|] s]; cbn [snd] in K.
  - eapply ckeep_trans; [exact K|]. unfold set_event_lt.
    destruct (get_event s x) as [ev|] eqn:E; [|apply ckeep_refl].
    eapply ckeep_set_evst; [exact E|]. destruct ev; reflexivity.
  - eapply ckeep_trans; [exact K|apply ckeep_fail].
Qed.

(** * Updates of the round table that keep the (event, witness flag) listings *)

Lemma get_round_some_nonneg st r ri : get_round st r = Some ri -> 0 <= r.
Proof. unfold get_round. apply zget_some_nonneg. Qed.

Lemma ckeep_rounds_zset st r ri ri' (st' : hg) :
  get_round st r = Some ri -> wl_of ri' = wl_of ri ->
  events st' = events st -> round_memo st' = round_memo st -> witness_memo st' = witness_memo st ->
  rounds st' = zset r ri' (rounds st) -> peersets st' = peersets st -> topo st' = topo st ->
  ckeep st st'.
Proof.
  intros Hg Hw E R W Ro P T.
  pose proof (get_round_some_nonneg _ _ _ Hg) as Hr.
  constructor; auto.
  - intros y. unfold get_event. rewrite E. reflexivity.
  - intros r'. unfold wl. rewrite (get_round_zset st st' r ri' r' Hr Ro).
    destruct (Z.eqb_spec r r') as [<-|]; [rewrite Hg; exact Hw|reflexivity].
  - intros r'. rewrite (get_round_zset st st' r ri' r' Hr Ro).
    destruct (Z.eqb_spec r r') as [<-|]; [rewrite Hg; split; discriminate|reflexivity].
Qed.

Lemma ckeep_set_round st r ri ri' :
  get_round st r = Some ri -> wl_of ri' = wl_of ri -> ckeep st (set_round st r ri').
Proof. intros Hg Hw. eapply ckeep_rounds_zset; eauto; destruct st; reflexivity. Qed.

Lemma aget_in_keys {A} k (l : list (Z * A)) : In k (map fst l) -> aget k l <> None.
Proof.
  induction l as [|[k' v] r IH]; cbn [map fst aget]; [intros []|].
  destruct (Z.eqb_spec k' k); [discriminate|]. intros [E|H]; [contradiction|auto].
Qed.

Lemma wl_of_aset ri x w t t' :
  aget x (ri_created ri) = Some (w, t) ->
  map (fun en : Z * (bool * trilean) => (fst en, fst (snd en))) (aset x (w, t') (ri_created ri)) = wl_of ri.
Proof.
  unfold wl_of. induction (ri_created ri) as [|[k [w0 t0]] l IH]; cbn [aget aset map]; [discriminate|].
  destruct (Z.eqb_spec k x) as [->|Hne].
  - intros H. inversion H; subst. reflexivity.
  - intros H. cbn [map fst snd]. rewrite IH by exact H. reflexivity.
Qed.

Lemma wl_of_set_fame ri x v : aget x (ri_created ri) <> None -> wl_of (set_fame ri x v) = wl_of ri.
Proof.
  intros H. unfold set_fame. destruct (aget x (ri_created ri)) as [[w t]|] eqn:E; [|contradiction].
  destruct ri as [cr rc dc]. cbn [ri_created] in E. unfold wl_of at 1. cbn.
  apply (wl_of_aset (mkRinfo cr rc dc) x w t _ E).
Qed.

Lemma wl_of_witnesses_decided ri ps : wl_of (snd (witnesses_decided ri ps)) = wl_of ri.
Proof.
  unfold witnesses_decided. destruct (ri_decided ri); [reflexivity|].
  destruct (existsb _ _); [reflexivity|]. cbn [snd]. destruct ri; reflexivity.
Qed.

Lemma witnesses_in_keys ri x : In x (witnesses ri) -> In x (map fst (ri_created ri)).
Proof.
  unfold witnesses. intros H. apply in_map_iff in H. destruct H as [en [E H]].
  apply filter_In in H. destruct H as [H _]. subst x. apply in_map. exact H.
Qed.

Lemma wl_of_keys ri ri' : wl_of ri' = wl_of ri -> map fst (ri_created ri') = map fst (ri_created ri).
Proof.
  unfold wl_of. intros H. apply (f_equal (map fst)) in H. rewrite !map_map in H. cbn [fst] in H. exact H.
Qed.

(** * DecideFame *)
Lemma fame_fold_wl s r ws ri : incl ws (witnesses ri) -> forall ri0 ri',
  wl_of ri0 = wl_of ri ->
  fold_left (fun (a : option rinfo) x =>
               match a with
               | None => None
               | Some ri' =>
                 if is_decided ri' x then Some ri'
                 else match fame_of s x r with
                      | None => None
                      | Some None => Some ri'
                      | Some (Some v) => Some (set_fame ri' x v)
                      end
               end) ws (Some ri0) = Some ri' -> wl_of ri' = wl_of ri.
Proof.
  induction ws as [|x ws IH]; intros Hin ri0 ri' H0; cbn [fold_left].
  - intros E. inversion E; subst. exact H0.
  - assert (Hws : incl ws (witnesses ri)) by (intros y Hy; apply Hin; right; exact Hy).
    assert (Hx : aget x (ri_created ri0) <> None).
    { apply aget_in_keys. rewrite (wl_of_keys _ _ H0). apply witnesses_in_keys. apply Hin. left. reflexivity. }
    destruct (is_decided ri0 x); [apply IH; assumption|].
    destruct (fame_of s x r) as [[v|]|].
    + apply IH; [assumption|]. rewrite wl_of_set_fame by exact Hx. exact H0.
    + apply IH; assumption.
    + intros E. exfalso. clear -E. induction ws as [|y ws IH]; cbn [fold_left] in E; [discriminate|auto].
Qed.

Lemma decide_fame_round_ckeep s dec pr : ckeep s (fst (decide_fame_round (s, dec) pr)).
Proof.
  unfold decide_fame_round.
  destruct (failed s); [apply ckeep_refl|].
  destruct (get_round s (fst pr)) as [ri|] eqn:Hg; [|apply ckeep_fail].
  destruct (get_peerset s (fst pr)) as [rps|]; [|apply ckeep_fail].
  match goal with |- context [fold_left ?f ?l ?a] => destruct (fold_left f l a) as [ri'|] eqn:Hf end; [|apply ckeep_fail].
  pose proof (fame_fold_wl s (fst pr) (witnesses ri) ri (incl_refl _) ri ri' eq_refl Hf) as Hw.
  pose proof (wl_of_witnesses_decided ri' rps) as Hd.
  destruct (witnesses_decided ri' rps) as [d ri'']. cbn [fst snd] in *.
  eapply ckeep_set_round; [exact Hg|congruence].
Qed.

Lemma fold_ckeep_fst {A B} (f : hg * B -> A -> hg * B) (l : list A) :
  (forall s b a, ckeep s (fst (f (s, b) a))) ->
  forall st b, ckeep st (fst (fold_left f l (st, b))).
Proof.
  intros Hf. induction l as [|a r IH]; intros st b; cbn [fold_left]; [apply ckeep_refl|].
  specialize (Hf st b a). destruct (f (st, b) a) as [s' b']. cbn [fst] in Hf.
  eapply ckeep_trans; [exact Hf|apply IH].
Qed.

Lemma decide_fame_ckeep st : ckeep st (decide_fame st).
Proof.
  unfold decide_fame.
  pose proof (fold_ckeep_fst decide_fame_round (pending st) decide_fame_round_ckeep st []) as F.
  destruct (fold_left decide_fame_round (pending st) (st, [])) as [s decided]. cbn [fst] in F.
  destruct (failed s); [exact F|]. eapply ckeep_trans; [exact F|apply ckeep_set_pending].
Qed.

(** * DecideRoundReceived *)
Lemma ckeep_set_rounds st i tr tr' :
  get_round st i = Some tr -> wl_of tr' = wl_of tr -> ckeep st (st <| rounds := zset i tr' (rounds st) |>).
Proof. intros Hg Hw. eapply ckeep_rounds_zset; eauto; destruct st; reflexivity. Qed.

Lemma rr_loop_ckeep x : forall is_ st, ckeep st (fst (rr_loop st x is_)).
Proof.
  induction is_ as [|i rest IH]; intros st; cbn [rr_loop]; [apply ckeep_refl|].
  destruct (get_round st i) as [tr|] eqn:Hg;
    [|destruct (lower_bound st) as [lb0|]; [destruct (i <=? lb0); [apply IH|apply ckeep_refl]|apply ckeep_refl]].
  destruct (get_peerset st i) as [tps|]; [|apply ckeep_fail].
  pose proof (wl_of_witnesses_decided tr tps) as Hd.
  destruct (witnesses_decided tr tps) as [d tr']. cbn [snd] in Hd.
  set (st1 := st <| rounds := zset i tr' (rounds st) |>).
  assert (K1 : ckeep st st1) by (apply (ckeep_set_rounds st i tr tr' Hg Hd)).
  assert (Hi : 0 <= i) by (eapply get_round_some_nonneg; eauto).
  assert (Hg1 : get_round st1 i = Some tr').
  { rewrite (get_round_zset st st1 i tr' i Hi) by (unfold st1; destruct st; reflexivity).
    rewrite Z.eqb_refl. reflexivity. }
  destruct d; cbn [negb].
  - match goal with |- context [fold_left ?f ?l ?a] => destruct (fold_left f l a) as [sees|] end;
      [|cbn [fst]; eapply ckeep_trans; [exact K1|apply ckeep_fail]].
    destruct (_ && _).
    + destruct (get_event st1 x) as [ex|] eqn:Hx; cbn [fst]; [|eapply ckeep_trans; [exact K1|apply ckeep_fail]].
      eapply ckeep_trans; [exact K1|].
      set (st2 := set_evst st1 x (ex <| ev_rr := Some i |>)).
      assert (K2 : ckeep st1 st2) by (eapply ckeep_set_evst; [exact Hx|destruct ex; reflexivity]).
      eapply ckeep_trans; [exact K2|].
      apply (ckeep_set_round st2 i tr'); [|destruct tr'; reflexivity].
      unfold st2, get_round, set_evst. unfold get_round in Hg1. destruct st1; exact Hg1.
    + eapply ckeep_trans; [exact K1|apply IH].
  - destruct (lower_bound st1) as [lb|]; [|exact K1].
    destruct (lb <? i); [exact K1|]. eapply ckeep_trans; [exact K1|apply IH].
Qed.

(* with every stored event memoised, round_f only reads *)
Lemma round_f_pure g f st x : cinv g None st -> snd (round_f (S f) st x) = st.
Proof.
  intros I. destruct (rmemo st x) as [r|] eqn:E.
  - rewrite (round_f_memo_hit (S f) st x r E). reflexivity.
  - cbn [round_f]. unfold rmemo in E. rewrite E.
    destruct (get_event st x) as [ex|] eqn:Hx; [|reflexivity].
    exfalso. destruct (c_all _ _ _ I x ex Hx ltac:(discriminate)) as [r [w [Hr _]]].
    unfold rmemo in Hr. congruence.
Qed.

Lemma decide_rr_one_ckeep g s und x : cinv g None s -> ckeep s (fst (decide_rr_one (s, und) x)).
Proof.
  intros I. unfold decide_rr_one.
  destruct (failed s); [apply ckeep_refl|].
  pose proof (round_f_pure g (Z.to_nat (topo s)) s x I) as Hp. unfold fuel_of.
  destruct (round_f (S (Z.to_nat (topo s))) s x) as [[r|] s1]; cbn [snd] in Hp; subst s1;
    [|cbn [fst]; apply ckeep_fail].
  pose proof (rr_loop_ckeep x (zrange (r + 1) (last_round s)) s) as Fl.
  destruct (rr_loop s x (zrange (r + 1) (last_round s))) as [s' received]. exact Fl.
Qed.

Lemma decide_round_received_ckeep g st : cinv g None st -> ckeep st (decide_round_received st).
Proof.
  intros I. unfold decide_round_received.
  assert (G : forall l s und, ckeep st s -> ckeep st (fst (fold_left decide_rr_one l (s, und)))).
  { induction l as [|x l IH]; intros s und K; cbn [fold_left]; [exact K|].
    pose proof (decide_rr_one_ckeep g s und x (cinv_ckeep _ _ _ _ I K)) as K1.
    destruct (decide_rr_one (s, und) x) as [s' und']. cbn [fst] in K1.
    apply IH. eapply ckeep_trans; eauto. }
  specialize (G (undetermined st) st [] (ckeep_refl st)).
  destruct (fold_left decide_rr_one (undetermined st) (st, [])) as [s und]. cbn [fst] in G.
  destruct (failed s); [exact G|]. eapply ckeep_trans; [exact G|apply ckeep_set_undetermined].
Qed.

(** * ProcessDecidedRounds and ProcessSigPool do not touch what the invariant reads, except
      possibly the peer-set table (handled by Static.v) *)
Definition cw (st : hg) := (events st, rounds st, round_memo st, witness_memo st, topo st).

Lemma cw_store_set_block st b : cw (store_set_block st b) = cw st.
Proof. destruct st; reflexivity. Qed.
Lemma cw_deliver st b : cw (deliver st b) = cw st.
Proof. destruct st; reflexivity. Qed.
Lemma cw_set_anchor_block st b : cw (set_anchor_block st b) = cw st.
Proof.
  unfold set_anchor_block. destruct (get_peerset st (b_rr b)); [|reflexivity].
  destruct (_ && _); [destruct st|]; reflexivity.
Qed.
Lemma cw_set_peerset st r ps st' : set_peerset st r ps = Some st' -> cw st' = cw st.
Proof.
  unfold set_peerset. destruct (existsb _ _); [discriminate|]. intros H; inversion H; subst; clear H.
  set (st1 := st <| peersets := _ |>).
  assert (E1 : cw st1 = cw st) by (destruct st; reflexivity). rewrite <- E1. generalize st1. clear.
  induction ps as [|p l IH]; intros s; cbn [fold_left]; [reflexivity|]. rewrite IH.
  cbv zeta. destruct (zmem _ _); destruct s; reflexivity.
Qed.
Lemma cw_process_receipts st rr itxs : cw (process_receipts st rr itxs) = cw st.
Proof.
  unfold process_receipts.
  match goal with |- context [fold_left ?f ?l ?a] => destruct (fold_left f l a) as [vals changed] end.
  destruct changed; [|reflexivity].
  destruct (set_peerset st (rr + 6) vals) eqn:E; [|reflexivity].
  rewrite <- (cw_set_peerset _ _ _ _ E). destruct h; reflexivity.
Qed.
Lemma cw_sign_block st b bps : cw (snd (sign_block st b bps)) = cw st.
Proof. unfold sign_block. destruct (mem_key _ _); cbn [snd]; [destruct st|]; reflexivity. Qed.
Lemma cw_commit st b : cw (commit st b) = cw st.
Proof.
  unfold commit. destruct (self st =? -1); [apply cw_deliver|]. cbv zeta.
  set (st0 := st <| oracle := _ |>).
  assert (F0 : cw st0 = cw st) by (destruct st; reflexivity).
  match goal with |- context [store_set_block st0 ?b1] => set (bb := b1) end.
  pose proof (cw_store_set_block st0 bb) as F1.
  destruct (get_peerset (store_set_block st0 bb) (b_rr bb)) as [bps|].
  - pose proof (cw_sign_block (store_set_block st0 bb) bb bps) as F2.
    destruct (sign_block (store_set_block st0 bb) bb bps) as [b2 st2]. cbn [fst snd] in *.
    rewrite cw_deliver, cw_process_receipts, cw_set_anchor_block. congruence.
  - rewrite cw_deliver. congruence.
Qed.
Lemma cw_add_consensus_events l : forall s, cw (fold_left add_consensus_event l s) = cw s.
Proof. induction l as [|fe r IH]; intros s; cbn [fold_left]; [reflexivity|]. rewrite IH. destruct s; reflexivity. Qed.
Lemma cw_process_frame s f : cw (process_frame s f) = cw s.
Proof.
  unfold process_frame. destruct (f_events f) as [|fe rest] eqn:E; [reflexivity|].
  cbv zeta. set (s1 := fold_left add_consensus_event (fe :: rest) s).
  assert (F1 : cw s1 = cw s) by apply cw_add_consensus_events.
  set (b := block_of_frame _ _ _).
  destruct (b_txs b), (b_itxs b); try exact F1; rewrite cw_commit, cw_store_set_block; exact F1.
Qed.
Lemma cw_get_frame st rr : cw (snd (get_frame st rr)) = cw st.
Proof.
  unfold get_frame.
  destruct (zget rr (frames st)); [reflexivity|].
  destruct (get_round st rr); [|reflexivity].
  destruct (get_peerset st rr); [|reflexivity].
  match goal with |- context [fold_left ?f ?l ?a] => destruct (fold_left f l a) end; [|reflexivity].
  match goal with |- context [fold_left ?f (repertoire st) ?a] => destruct (fold_left f (repertoire st) a) end;
    [|reflexivity].
  cbn [snd]. destruct st; reflexivity.
Qed.
Lemma cw_bump s r : cw (bump_last_consensus s r) = cw s.
Proof.
  unfold bump_last_consensus. destruct (last_consensus s) as [l|]; [destruct (l <? r)|];
    try reflexivity; destruct s; reflexivity.
Qed.
Lemma cw_fail s : cw (fail s) = cw s.
Proof. destruct s; reflexivity. Qed.
Lemma cw_process_round s processed stop pr : cw (fst (fst (process_round (s, processed, stop) pr))) = cw s.
Proof.
  unfold process_round.
  destruct (stop || failed s); [reflexivity|].
  destruct (negb (snd pr)); [reflexivity|].
  destruct (get_round s (fst pr)); [|apply cw_fail].
  pose proof (cw_get_frame s (fst pr)) as F.
  destruct (get_frame s (fst pr)) as [[f|] s1]; cbn [fst snd] in *.
  - rewrite cw_bump, cw_process_frame. exact F.
  - rewrite cw_fail. exact F.
Qed.
Lemma cw_process_decided_rounds st : cw (process_decided_rounds st) = cw st.
Proof.
  unfold process_decided_rounds.
  assert (G : forall l s p b, cw (fst (fst (fold_left process_round l (s, p, b)))) = cw s).
  { induction l as [|pr rest IH]; intros s p b; cbn [fold_left]; [reflexivity|].
    pose proof (cw_process_round s p b pr) as F.
    destruct (process_round (s, p, b) pr) as [[s' p'] b']. cbn [fst] in F. rewrite IH. exact F. }
  specialize (G (pending st) st [] false).
  destruct (fold_left process_round (pending st) (st, [], false)) as [[s processed] stop]. cbn [fst] in G.
  rewrite <- G. destruct s; reflexivity.
Qed.
Lemma cw_process_sig st s : cw (process_sig st s) = cw st.
Proof.
  unfold process_sig.
  destruct (zget (bs_index s) (blocks st)) as [b|]; [|reflexivity].
  destruct (get_peerset st (b_rr b)); [|reflexivity].
  destruct (negb (mem_key _ _)); [reflexivity|].
  destruct (negb (_ =? _)); [reflexivity|].
  cbv zeta. set (b' := b <| b_sigs := _ |>).
  transitivity (cw (set_anchor_block (store_set_block st b') b')); [destruct (set_anchor_block _ _); reflexivity|].
  rewrite cw_set_anchor_block. apply cw_store_set_block.
Qed.
Lemma cw_process_sigpool st : cw (process_sigpool st) = cw st.
Proof.
  unfold process_sigpool. generalize (sigpool st) as l. intros l. revert st.
  induction l as [|s r IH]; intros st; cbn [fold_left]; [reflexivity|].
  rewrite IH. apply cw_process_sig.
Qed.

Lemma ckeep_cw s s' : cw s' = cw s -> peersets s' = peersets s -> ckeep s s'.
Proof. unfold cw. intros H P. inversion H. apply ckeep_same_fields; assumption. Qed.

(** * DivideRounds in per-event mode *)
Definition after_div (E : option Z) (y : Z) : option Z :=
  match E with Some x => if x =? y then None else E | None => None end.

Lemma divide_one_cinv g E s y :
  dag_ok s -> cinv g E s -> failed s = false ->
  failed (divide_one s y) = true \/ cinv g (after_div E y) (divide_one s y).
Proof.
  intros OK I Hf. unfold divide_one. rewrite Hf.
  destruct (get_event s y) as [ev|] eqn:Hy; [|left; apply failed_fail].
  cbv zeta.
  assert (H1 : exists st1, (match ev_round ev with Some _ => s | None => divide_round s y end) = st1 /\
                 cinv g (after_div E y) st1 /\ failed st1 = false).
  { destruct E as [x|]; cbn [after_div].
    - destruct (Z.eqb_spec x y) as [->|Hne].
      + destruct (c_exc _ _ _ I y eq_refl) as [_ [_ [ex [Hx [Hr _]]]]].
        rewrite Hy in Hx. inversion Hx; subst ex. rewrite Hr.
        destruct (divide_round_cinv g s y OK I) as [I' F']. eexists. split; [reflexivity|]. split; [exact I'|congruence].
      + destruct (c_all _ _ _ I y ev Hy ltac:(congruence)) as [r [w [_ [_ Hr]]]]. rewrite Hr. eauto.
    - destruct (c_all _ _ _ I y ev Hy ltac:(discriminate)) as [r [w [_ [_ Hr]]]]. rewrite Hr. eauto. }
  destruct H1 as [st1 [-> [I1 F1]]]. rewrite F1.
  destruct (get_event st1 y) as [ev1|]; [|left; apply failed_fail].
  destruct (ev_lt ev1); [right; exact I1|].
  right. eapply cinv_ckeep; [exact I1|apply divide_lt_ckeep].
Qed.

Lemma divide_rounds_cinv g l : forall s E,
  dag_ok s -> failed s = true \/ cinv g E s ->
  match E with Some x => In x l | None => True end ->
  failed (fold_left divide_one l s) = true \/ cinv g None (fold_left divide_one l s).
Proof.
  induction l as [|y l IH]; intros s E OK H HE; cbn [fold_left].
  - destruct E; [destruct HE|exact H].
  - destruct (failed s) eqn:Hf.
    + rewrite (divide_one_failed s y Hf). apply (IH s None OK); [left; exact Hf|exact Logic.I].
    + destruct H as [H|I]; [congruence|].
      apply (IH (divide_one s y) (after_div E y)).
      * eapply dag_ok_frame; [exact OK|apply divide_one_frame].
      * apply divide_one_cinv; assumption.
      * destruct E as [x|]; cbn [after_div]; [|exact Logic.I].
        destruct (Z.eqb_spec x y) as [->|Hne]; [exact Logic.I|].
        destruct HE as [E0|HE]; [congruence|exact HE].
Qed.

Lemma run_consensus_cinv g all st x :
  dag_ok st -> from_attempts st all -> no_accept all ->
  cinv g (Some x) st -> In x (undetermined st) ->
  failed (run_consensus st) = true \/ cinv g None (run_consensus st).
Proof.
  intros OK FA NA I Hin. unfold run_consensus.
  pose proof (divide_rounds_frame st) as F1.
  pose proof (divide_rounds_cinv g (undetermined st) st (Some x) OK (or_intror I) Hin) as H1.
  fold (divide_rounds st) in H1. set (s1 := divide_rounds st) in *.
  destruct (failed s1) eqn:Hf1; [left; exact Hf1|]. destruct H1 as [H1|I1]; [congruence|].
  pose proof (decide_fame_frame s1) as F2. pose proof (decide_fame_ckeep s1) as K2.
  set (s2 := decide_fame s1) in *.
  assert (I2 : cinv g None s2) by (eapply cinv_ckeep; eauto).
  destruct (failed s2) eqn:Hf2; [left; exact Hf2|].
  pose proof (decide_round_received_frame s2) as F3. pose proof (decide_round_received_ckeep g s2 I2) as K3.
  set (s3 := decide_round_received s2) in *.
  assert (I3 : cinv g None s3) by (eapply cinv_ckeep; eauto).
  destruct (failed s3) eqn:Hf3; [left; exact Hf3|].
  right. eapply cinv_ckeep; [exact I3|]. apply ckeep_cw; [apply cw_process_decided_rounds|].
  apply (process_decided_rounds_peersets all); [|exact NA].
  eapply from_attempts_frame; [|exact F3]. eapply from_attempts_frame; [|exact F2].
  eapply from_attempts_frame; eauto.
Qed.

Lemma step_cinv g all st e :
  dag_ok st -> la_ok st -> from_attempts st all -> ids_determine all -> In e all -> 0 <= e_id e ->
  no_accept all -> cinv g None st ->
  failed (step st e) = true \/ cinv g None (step st e).
Proof.
  intros OK LA FA ID Hin Hid NA I. unfold step, insert_and_run.
  destruct (insert_event st e) as [r s] eqn:E.
  destruct (insert_event_inv st e all r s OK FA ID Hin Hid E) as [OK' [FA' Hns]].
  assert (Hrej : r <> InsOk -> failed (snd (r, s)) = true \/ cinv g None (snd (r, s))).
  { intros Hn. rewrite (insert_reject_noop st e r s E Hn Hns). right. exact I. }
  destruct r; try (apply Hrej; discriminate). clear Hrej. cbn [snd].
  destruct (insert_cinv g all st e s OK LA FA ID Hin Hid I E) as [I' Hund].
  eapply run_consensus_cinv; eauto.
Qed.

(** * The initial state *)
Lemma cw_init self_ g oracle_ : cw (init_hg self_ g oracle_) = cw (empty_hg self_).
Proof.
  unfold init_hg. destruct (set_peerset (empty_hg self_) 0 g) as [st|] eqn:S; [|reflexivity].
  rewrite <- (cw_set_peerset _ _ _ _ S). destruct st; reflexivity.
Qed.

Lemma cw_fields s s' : cw s' = cw s ->
  events s' = events s /\ rounds s' = rounds s /\ round_memo s' = round_memo s /\
  witness_memo s' = witness_memo s /\ topo s' = topo s.
Proof. unfold cw. intros H. inversion H. auto. Qed.

Lemma cinv_init self_ g oracle_ : cinv g None (init_hg self_ g oracle_).
Proof.
  destruct (cw_fields _ _ (cw_init self_ g oracle_)) as [Ev [Ro [Rm [Wm To]]]].
  assert (GE : forall x, get_event (init_hg self_ g oracle_) x = None).
  { intros x. unfold get_event. rewrite Ev. cbn. apply zget_empty. }
  assert (GR : forall x, rmemo (init_hg self_ g oracle_) x = None).
  { intros x. unfold rmemo. rewrite Rm. cbn. apply zget_empty. }
  assert (GW : forall x, wmemo (init_hg self_ g oracle_) x = None).
  { intros x. unfold wmemo. rewrite Wm. cbn. apply zget_empty. }
  assert (GL : forall r, wl (init_hg self_ g oracle_) r = []).
  { intros r. unfold wl, get_round. rewrite Ro. cbn. rewrite zget_empty. reflexivity. }
  constructor; try (intros *; rewrite ?GE, ?GR, ?GW, ?GL; intros; try discriminate; try contradiction; fail).
  - apply static_init.
  - rewrite To. cbn. lia.
  - intros r. rewrite GL. constructor.
  - intros r Hr. exfalso. apply Hr. unfold get_round. rewrite Ro. cbn. apply zget_empty.
Qed.

(** * Every reachable state *)
Record reach_inv (g : peerset) (all : list event) (st : hg) : Prop := {
  ri_g : ginv all st;
  ri_la : la_ok st;
  ri_c : failed st = false -> cinv g None st
}.

Lemma hstep_failed_mono st o : failed st = true -> failed (hstep st o) = true.
Proof.
  intros Hf. destruct o as [e|]; cbn [hstep].
  - unfold step, insert_and_run. pose proof (insert_event_failed st e) as F.
    destruct (insert_event st e) as [r s]. cbn [snd] in F. rewrite <- F in Hf.
    destruct r; cbn [snd]; try exact Hf.
    unfold run_consensus. rewrite (divide_rounds_failed s Hf), Hf. exact Hf.
  - rewrite process_sigpool_failed. exact Hf.
Qed.

Lemma hstep_reach g all st o :
  ids_determine all -> no_accept all -> hop_ok all o -> reach_inv g all st -> reach_inv g all (hstep st o).
Proof.
  intros ID NA Ho [G LA C].
  pose proof (g_dag _ _ (gi_core _ _ G)) as OK. pose proof (g_from _ _ (gi_core _ _ G)) as FA.
  constructor.
  - apply (hstep_ginv all st o ID Ho G).
  - destruct o as [e|]; cbn [hstep].
    + destruct Ho as [Hin Hid]. apply (step_la_inv st e all OK LA FA ID Hin Hid).
    + eapply la_ok_frame; [exact LA|apply process_sigpool_frame].
  - intros Hf. assert (Hf0 : failed st = false).
    { destruct (failed st) eqn:E; [|reflexivity]. rewrite (hstep_failed_mono st o E) in Hf. discriminate. }
    specialize (C Hf0). destruct o as [e|]; cbn [hstep] in *.
    + destruct Ho as [Hin Hid].
      destruct (step_cinv g all st e OK LA FA ID Hin Hid NA C) as [H|H]; [congruence|exact H].
    + eapply cinv_ckeep; [exact C|]. apply ckeep_cw; [apply cw_process_sigpool|apply process_sigpool_peersets].
Qed.

Theorem hrun_reach g all self_ oracle_ ops :
  ids_determine all -> no_accept all -> Forall (hop_ok all) ops ->
  reach_inv g all (hrun (init_hg self_ g oracle_) ops).
Proof.
  intros ID NA H.
  assert (G0 : reach_inv g all (init_hg self_ g oracle_)).
  { constructor; [apply ginv_init| |intros _; apply cinv_init].
    apply la_ok_no_events. intros x. destruct (cw_fields _ _ (cw_init self_ g oracle_)) as [Ev _].
    unfold get_event. rewrite Ev. cbn. apply zget_empty. }
  revert G0. generalize (init_hg self_ g oracle_). induction H as [|o ops Ho Hops IH]; intros st G0; cbn [hrun fold_left].
  - exact G0.
  - apply IH. apply hstep_reach; assumption.
Qed.
