(* Stage D2 (b): [cinvD P None] holds in every state of a run whose validator-set lookups return P
   (Proofs/GapWindow.v: under the distance bound, P = the final table).  Dynamic membership. *)
From Coq Require Import ZArith List Bool Lia ZifyBool.
From RecordUpdate Require Import RecordSet.
From V Require Import Model.ZMap Model.Quorum Model.Voting Model.HgImpl Model.PeerSetSpec Model.Window
  Proofs.ZMapFacts Proofs.HgFrames Proofs.HgDagFrames Proofs.AdmissionProofs Proofs.InsertShape
  Proofs.Ancestry Proofs.HgBlockFrames Proofs.BlockInv Proofs.RoundOrder Proofs.OrderFrames Proofs.OrderProofs
  Proofs.Static Proofs.FirstDesc Proofs.FdWalk Proofs.InsertInv Proofs.DivInv Proofs.CInvRun
  Proofs.PeerSetProofs Proofs.TidyRR Proofs.LrFrames Proofs.LrMono Proofs.WindowStable Proofs.GapWindow
  Proofs.FirstDescD Proofs.InsertInvD Proofs.DivInvD.
Import ListNotations RecordSetNotations.
Open Scope Z_scope.

Lemma ckeepD_same_fields s s' :
  events s' = events s -> round_memo s' = round_memo s -> witness_memo s' = witness_memo s ->
  rounds s' = rounds s -> topo s' = topo s -> ckeepD s s'.
Proof.
  intros E R W Ro T. constructor; auto.
  - intros y. unfold get_event. rewrite E. reflexivity.
  - intros r. unfold wl, get_round. rewrite Ro. reflexivity.
  - intros r. unfold get_round. rewrite Ro. reflexivity.
Qed.

Lemma ckeepD_cw s s' : cw s' = cw s -> ckeepD s s'.
Proof. unfold cw. intros H. inversion H. apply ckeepD_same_fields; assumption. Qed.

(* with every stored event memoised, round_f only reads *)
Lemma round_f_pureD P f st x : cinvD P None st -> snd (round_f (S f) st x) = st.
Proof.
  intros I. destruct (rmemo st x) as [r|] eqn:E.
  - rewrite (round_f_memo_hit (S f) st x r E). reflexivity.
  - cbn [round_f]. unfold rmemo in E. rewrite E.
    destruct (get_event st x) as [ex|] eqn:Hx; [|reflexivity].
    exfalso. destruct (cd_all _ _ _ I x ex Hx ltac:(discriminate)) as [r [w [Hr _]]].
    unfold rmemo in Hr. congruence.
Qed.

Lemma decide_rr_one_ckeepD P s und x : cinvD P None s -> ckeepD s (fst (decide_rr_one (s, und) x)).
Proof.
  intros I. unfold decide_rr_one.
  destruct (failed s); [apply ckeepD_refl|].
  pose proof (round_f_pureD P (Z.to_nat (topo s)) s x I) as Hp. unfold fuel_of.
  destruct (round_f (S (Z.to_nat (topo s))) s x) as [[r|] s1]; cbn [snd] in Hp; subst s1;
    [|cbn [fst]; apply ckeep_ckeepD, ckeep_fail].
  pose proof (rr_loop_ckeep x (zrange (r + 1) (last_round s)) s) as Fl.
  destruct (rr_loop s x (zrange (r + 1) (last_round s))) as [s' received]. apply ckeep_ckeepD. exact Fl.
Qed.

Lemma decide_round_received_ckeepD P st : cinvD P None st -> ckeepD st (decide_round_received st).
Proof.
  intros I. unfold decide_round_received.
  assert (G : forall l s und, ckeepD st s -> ckeepD st (fst (fold_left decide_rr_one l (s, und)))).
  { induction l as [|x l IH]; intros s und K; cbn [fold_left]; [exact K|].
    pose proof (decide_rr_one_ckeepD P s und x (cinvD_ckeepD _ _ _ _ I K)) as K1.
    destruct (decide_rr_one (s, und) x) as [s' und']. cbn [fst] in K1.
    apply IH. eapply ckeepD_trans; eauto. }
  specialize (G (undetermined st) st [] (ckeepD_refl st)).
  destruct (fold_left decide_rr_one (undetermined st) (st, [])) as [s und]. cbn [fst] in G.
  destruct (failed s); [exact G|]. eapply ckeepD_trans; [exact G|apply ckeep_ckeepD, ckeep_set_undetermined].
Qed.

(** * DivideRounds in per-event mode *)
Lemma divide_round_failedD P st x :
  dag_ok st -> cinvD P (Some x) st -> peersets st <> [] -> failed (divide_round st x) = failed st.
Proof.
  intros OK I Hne.
  destruct (cd_exc _ _ _ I x eq_refl) as [Hrx [Hwx [ex [Hx [_ [Hp1 [Hp2 _]]]]]]].
  assert (Hx0 : 0 <= x) by (eapply zget_some_nonneg; exact Hx).
  destruct (prnd st (e_sp (ev_e ex))) as [spr|] eqn:Hs; [|contradiction].
  destruct (prnd st (e_op (ev_e ex))) as [opr|] eqn:Ho; [|contradiction].
  assert (Hspx : e_sp (ev_e ex) <> x).
  { intros C. rewrite C in Hs. unfold prnd in Hs. replace (x =? -1) with false in Hs by lia. congruence. }
  assert (Hc : Z.max spr opr = -1 \/
     exists pri, get_round st (Z.max spr opr) = Some pri /\
                 forall g w, In w (witnesses pri) -> strongly_see st x w g <> None).
  { destruct (Z.eq_dec (Z.max spr opr) (-1)) as [|Hn]; [left; assumption|right].
    assert (Hp : exists p, p <> -1 /\ rmemo st p = Some (Z.max spr opr)).
    { unfold prnd in Hs, Ho. destruct (Z.max_spec spr opr) as [[_ E]|[_ E]]; rewrite E in *.
      - destruct (Z.eqb_spec (e_op (ev_e ex)) (-1)); [inversion Ho; lia|eauto].
      - destruct (Z.eqb_spec (e_sp (ev_e ex)) (-1)); [inversion Hs; lia|eauto]. }
    destruct Hp as [p [Hpn Hrp]].
    destruct (cd_rdom _ _ _ I p _ Hrp) as [_ [ep [Hep _]]].
    assert (Hpx : p <> x) by (intros ->; congruence).
    destruct (cd_all _ _ _ I p ep Hep ltac:(congruence)) as [r0 [w0 [Hr0 [Hw0 _]]]].
    rewrite Hrp in Hr0. inversion Hr0; subst r0.
    pose proof (cd_tabc _ _ _ I p _ w0 Hrp Hw0) as Hin.
    unfold wl in Hin. destruct (get_round st (Z.max spr opr)) as [pri|] eqn:Hg; [|destruct Hin].
    exists pri. split; [reflexivity|]. intros g w Hw.
    rewrite <- (wits_get_round st _ pri Hg) in Hw.
    unfold wits in Hw. apply in_map_iff in Hw. destruct Hw as [[w' b] [E Hw]]. cbn in E. subst w'.
    apply filter_In in Hw. destruct Hw as [Hw _].
    destruct (cd_tab _ _ _ I _ w b Hw) as [Hrw _].
    destruct (cd_rdom _ _ _ I w _ Hrw) as [_ [ew [Hew _]]].
    unfold strongly_see. rewrite Hx, Hew. discriminate. }
  destruct (divide_round_evalD st x ex spr opr Hx0 Hrx Hwx Hx Hs Ho Hspx Hne Hc) as [r [gm [gr [_ [_ [Hdiv _]]]]]].
  rewrite Hdiv. destruct (div_result_obs st x ex r (mem_key (e_creator (ev_e ex)) (keys gr) && (spr <? r)) Hx0) as [_ [_ [_ [_ [_ [_ FF]]]]]].
  exact FF.
Qed.

Lemma divide_round_le_divide_one s y ev : get_event s y = Some ev -> ev_round ev = None -> failed s = false ->
  last_round (divide_round s y) <= last_round (divide_one s y).
Proof.
  intros Hy Hr Hf. unfold divide_one. rewrite Hf, Hy, Hr. cbv zeta.
  destruct (failed (divide_round s y)); [lia|].
  destruct (get_event (divide_round s y) y) as [ev1|]; [|pose proof (lrq_fail (divide_round s y)) as L; unfold lrq in L; lia].
  destruct (ev_lt ev1); [lia|]. pose proof (divide_lt_lrq (divide_round s y) y) as L. unfold lrq in L. lia.
Qed.

Lemma divide_one_cinvD P E s y L :
  dag_ok s -> cinvD P E s -> failed s = false -> rinv s -> peersets s <> [] ->
  (forall q, 0 <= q <= L -> get_peerset s q = Some (P q)) -> last_round (divide_one s y) <= L ->
  failed (divide_one s y) = true \/ cinvD P (after_div E y) (divide_one s y).
Proof.
  intros OK I Hf R Hne Hps HL.
  destruct (get_event s y) as [ev|] eqn:Hy; [|left; unfold divide_one; rewrite Hf, Hy; apply failed_fail].
  assert (H1 : exists st1, (match ev_round ev with Some _ => s | None => divide_round s y end) = st1 /\
                 cinvD P (after_div E y) st1 /\ failed st1 = false).
  { destruct E as [x|]; cbn [after_div].
    - destruct (Z.eqb_spec x y) as [->|Hnxy].
      + destruct (cd_exc _ _ _ I y eq_refl) as [_ [_ [ex [Hx [Hr _]]]]].
        rewrite Hy in Hx. inversion Hx; subst ex. rewrite Hr.
        pose proof (divide_round_failedD P s y OK I Hne) as F'. rewrite Hf in F'.
        destruct (divide_round_rinv s y R) as [Ff|R']; [congruence|].
        destruct (rinv_bounded _ R') as [[_ B] _].
        pose proof (divide_round_le_divide_one s y ev Hy Hr Hf) as Hle.
        assert (Hps' : forall q, get_round (divide_round s y) q <> None -> get_peerset s q = Some (P q)).
        { intros q Hq. specialize (B q Hq). apply Hps. lia. }
        destruct (divide_round_cinvD P s y OK I Hne Hps') as [I' _]. eexists. split; [reflexivity|]. split; [exact I'|exact F'].
      + destruct (cd_all _ _ _ I y ev Hy ltac:(congruence)) as [r [w [_ [_ Hr]]]]. rewrite Hr. eauto.
    - destruct (cd_all _ _ _ I y ev Hy ltac:(discriminate)) as [r [w [_ [_ Hr]]]]. rewrite Hr. eauto. }
  unfold divide_one. rewrite Hf, Hy. cbv zeta.
  destruct H1 as [st1 [-> [I1 F1]]]. rewrite F1.
  destruct (get_event st1 y) as [ev1|]; [|left; apply failed_fail].
  destruct (ev_lt ev1); [right; exact I1|].
  right. eapply cinvD_ckeepD; [exact I1|apply ckeep_ckeepD, divide_lt_ckeep].
Qed.

Lemma get_peerset_bview s s' q : bview s' = bview s -> get_peerset s' q = get_peerset s q.
Proof. intros B. unfold get_peerset. rewrite (bview_peersets _ _ B). reflexivity. Qed.

Lemma divide_rounds_cinvD P L l : forall s E,
  dag_ok s -> failed s = true \/ cinvD P E s -> rinv_f s -> peersets s <> [] ->
  (forall q, 0 <= q <= L -> get_peerset s q = Some (P q)) -> last_round (fold_left divide_one l s) <= L ->
  match E with Some x => In x l | None => True end ->
  failed (fold_left divide_one l s) = true \/ cinvD P None (fold_left divide_one l s).
Proof.
  induction l as [|y l IH]; intros s E OK H R Hne Hps HL HE; cbn [fold_left] in *.
  - destruct E; [destruct HE|exact H].
  - pose proof (divide_one_bview s y) as B1.
    assert (Hne1 : peersets (divide_one s y) <> []) by (rewrite (bview_peersets _ _ B1); exact Hne).
    assert (Hps1 : forall q, 0 <= q <= L -> get_peerset (divide_one s y) q = Some (P q))
      by (intros q Hq; rewrite (get_peerset_bview _ _ q B1); apply Hps; exact Hq).
    destruct (failed s) eqn:Hf.
    + rewrite (divide_one_failed s y Hf) in *. apply (IH s None OK); auto.
    + destruct H as [H|I]; [congruence|]. destruct R as [R|R]; [congruence|].
      assert (HL1 : last_round (divide_one s y) <= L).
      { pose proof (fold_lrq_le divide_one l divide_one_lrq_le (divide_one s y)) as M. unfold lrq in M. lia. }
      apply (IH (divide_one s y) (after_div E y)); auto.
      * eapply dag_ok_frame; [exact OK|apply divide_one_frame].
      * apply (divide_one_cinvD P E s y L); assumption.
      * apply divide_one_rinv. right. exact R.
      * destruct E as [x|]; cbn [after_div]; [|exact Logic.I].
        destruct (Z.eqb_spec x y) as [->|Hnxy]; [exact Logic.I|].
        destruct HE as [E0|HE]; [congruence|exact HE].
Qed.

Lemma run_consensus_cinvD P st x :
  dag_ok st -> rinv st -> peersets st <> [] ->
  (forall q, 0 <= q <= last_round (run_consensus st) -> get_peerset st q = Some (P q)) ->
  cinvD P (Some x) st -> In x (undetermined st) ->
  failed (run_consensus st) = true \/ cinvD P None (run_consensus st).
Proof.
  intros OK R Hne Hps I Hin.
  pose proof (run_consensus_lrq_le st) as Mall. unfold lrq in Mall.
  unfold run_consensus in *.
  set (s1 := divide_rounds st) in *.
  assert (HL1 : last_round s1 <= last_round (if failed s1 then s1 else
            let s := decide_fame s1 in if failed s then s else
            let s0 := decide_round_received s in if failed s0 then s0 else process_decided_rounds s0)).
  { destruct (failed s1); [lia|]. cbv zeta.
    pose proof (decide_fame_lrq_le s1) as L2. unfold lrq in L2. set (s2 := decide_fame s1) in *.
    destruct (failed s2); [lia|].
    pose proof (decide_round_received_lrq_le s2) as L3. unfold lrq in L3. set (s3 := decide_round_received s2) in *.
    destruct (failed s3); [lia|]. pose proof (lrv_process_decided_rounds s3) as L4. unfold LrFrames.lrv in L4. lia. }
  pose proof (divide_rounds_cinvD P _ (undetermined st) st (Some x) OK (or_intror I) (or_intror R) Hne
                (fun q Hq => Hps q Hq) HL1 Hin) as H1.
  fold (divide_rounds st) in H1. fold s1 in H1.
  destruct (failed s1) eqn:Hf1; [left; exact Hf1|]. destruct H1 as [H1|I1]; [congruence|].
  pose proof (decide_fame_ckeep s1) as K2. set (s2 := decide_fame s1) in *.
  assert (I2 : cinvD P None s2) by (eapply cinvD_ckeepD; [exact I1|apply ckeep_ckeepD; exact K2]).
  destruct (failed s2) eqn:Hf2; [left; exact Hf2|].
  pose proof (decide_round_received_ckeepD P s2 I2) as K3. set (s3 := decide_round_received s2) in *.
  assert (I3 : cinvD P None s3) by (eapply cinvD_ckeepD; eauto).
  destruct (failed s3) eqn:Hf3; [left; exact Hf3|].
  right. eapply cinvD_ckeepD; [exact I3|]. apply ckeepD_cw, cw_process_decided_rounds.
Qed.

Lemma step_cinvD P all st e :
  dag_ok st -> la_ok st -> from_attempts st all -> ids_determine all -> In e all -> 0 <= e_id e ->
  rinv st -> peersets st <> [] ->
  (forall q, 0 <= q <= last_round (step st e) -> get_peerset st q = Some (P q)) ->
  cinvD P None st ->
  failed (step st e) = true \/ cinvD P None (step st e).
Proof.
  intros OK LA FA ID Hin Hid R Hne Hps I. unfold step, insert_and_run in *.
  pose proof (insert_event_bview st e) as B. pose proof (insert_event_rstep st e) as S.
  destruct (insert_event st e) as [r s] eqn:E. cbn [snd] in B, S.
  destruct (insert_event_inv st e all r s OK FA ID Hin Hid E) as [OK' [FA' Hns]].
  assert (Hrej : r <> InsOk -> failed (snd (r, s)) = true \/ cinvD P None (snd (r, s))).
  { intros Hn. rewrite (insert_reject_noop st e r s E Hn Hns). right. exact I. }
  destruct r; try (apply Hrej; discriminate). clear Hrej. cbn [snd] in *.
  destruct (insert_cinvD P all st e s OK LA FA ID Hin Hid I E) as [I' Hund].
  apply (run_consensus_cinvD P s (e_id e)); auto.
  - eapply rinv_rstep; eauto.
  - rewrite (bview_peersets _ _ B). exact Hne.
  - intros q Hq. rewrite (get_peerset_bview _ _ q B). apply Hps. exact Hq.
Qed.

Lemma cinvD_init P self_ g oracle_ : cinvD P None (init_hg self_ g oracle_).
Proof.
  destruct (cw_fields _ _ (cw_init self_ g oracle_)) as [Ev [Ro [Rm [Wm To]]]].
  assert (GE : forall x, get_event (init_hg self_ g oracle_) x = None).
  { intros x. unfold get_event. rewrite Ev. cbn. apply zget_empty. }
  assert (GR : forall x, rmemo (init_hg self_ g oracle_) x = None).
  { intros x. unfold rmemo. rewrite Rm. cbn. apply zget_empty. }
  assert (GW : forall x, wmemo (init_hg self_ g oracle_) x = None).
  { intros x. unfold wmemo. rewrite Wm. cbn. apply zget_empty. }
  assert (GL : forall r, wl (init_hg self_ g oracle_) r = []).
  { intros r. unfold wl, get_round. rewrite Ro. cbn. rewrite zget_empty. reflexivity. }
  constructor; try (intros *; rewrite ?GE, ?GR, ?GW, ?GL; intros; try discriminate; try contradiction; fail).
  - rewrite To. cbn. lia.
  - intros r. rewrite GL. constructor.
  - intros r Hr. exfalso. apply Hr. unfold get_round. rewrite Ro. cbn. apply zget_empty.
Qed.

Lemma hrun_la_ok all ops : ids_determine all -> Forall (hop_ok all) ops ->
  forall st, ginv all st -> la_ok st -> la_ok (hrun st ops).
Proof.
  intros ID. induction 1 as [|o ops Ho Hops IH]; intros st G LA; cbn [hrun fold_left]; [exact LA|].
  apply IH; [apply (hstep_ginv all st o ID Ho G)|].
  pose proof (g_dag _ _ (gi_core _ _ G)) as OK. pose proof (g_from _ _ (gi_core _ _ G)) as FA.
  destruct o as [e|]; cbn [hstep].
  - destruct Ho as [Hin Hid]. apply (step_la_inv st e all OK LA FA ID Hin Hid).
  - eapply la_ok_frame; [exact LA|apply process_sigpool_frame].
Qed.

(** * Every state of a run that respects the distance bound *)
Definition psat (st : hg) (q : Z) : peerset := match get_peerset st q with Some ps => ps | None => [] end.

Theorem hrun_cinvD self_ genesis oracle_ all ops :
  self_ <> -1 -> ids_determine all -> Forall (hop_ok all) ops ->
  gap_runb (init_hg self_ genesis oracle_) ops = true ->
  forall k, failed (hrun (init_hg self_ genesis oracle_) (firstn k ops)) = false ->
  cinvD (psat (hrun (init_hg self_ genesis oracle_) ops)) None (hrun (init_hg self_ genesis oracle_) (firstn k ops)).
Proof.
  intros Hs ID H Hg.
  set (init := init_hg self_ genesis oracle_). set (P := psat (hrun init ops)).
  pose proof (gap_run_window self_ genesis oracle_ Hs ops [] Hg) as Hw. cbn [reach hrun fold_left] in Hw. unfold reach in Hw. cbn in Hw. fold init in Hw.
  induction k as [|k IH]; intros Hf.
  - cbn [firstn hrun fold_left]. apply cinvD_init.
  - destruct (nth_error ops k) as [o|] eqn:Eo.
    2:{ apply nth_error_None in Eo. rewrite firstn_all2 in Hf |- * by lia.
        rewrite <- (firstn_all2 (n := k) ops) by lia. apply IH. rewrite firstn_all2 by lia. exact Hf. }
    assert (Hk : (k < length ops)%nat) by (apply nth_error_Some; rewrite Eo; discriminate).
    assert (E1 : firstn (S k) ops = firstn k ops ++ [o]).
    { clear - Eo. revert k Eo. induction ops as [|a l IHl]; intros k Eo; [destruct k; discriminate|].
      destruct k as [|k]; [cbn in Eo; inversion Eo; reflexivity|]. cbn [nth_error] in Eo.
      change (a :: firstn (S k) l = a :: (firstn k l ++ [o])). f_equal. apply IHl. exact Eo. }
    assert (ES : hrun init (firstn (S k) ops) = hstep (hrun init (firstn k ops)) o).
    { rewrite E1, hrun_app. reflexivity. }
    set (Sk := hrun init (firstn k ops)) in *.
    assert (Hfk : failed Sk = false).
    { destruct (failed Sk) eqn:E; [|reflexivity]. rewrite ES, (hstep_failed_mono Sk o E) in Hf. discriminate. }
    specialize (IH Hfk).
    assert (Hpre : Forall (hop_ok all) (firstn k ops)).
    { rewrite Forall_forall in *. intros o' Ho'. apply H. clear - Ho'. revert k Ho'. induction ops as [|a l IHl]; intros k Ho'; destruct k; cbn in *; try contradiction.
      destruct Ho'; [left; assumption|right; eapply IHl; eauto]. }
    assert (Ho : hop_ok all o) by (rewrite Forall_forall in H; apply H; eapply nth_error_In; exact Eo).
    pose proof (hrun_ginv all self_ genesis oracle_ (firstn k ops) ID Hpre) as G. fold init in G. fold Sk in G.
    pose proof (g_dag _ _ (gi_core _ _ G)) as OK. pose proof (g_from _ _ (gi_core _ _ G)) as FA.
    assert (LA : la_ok Sk).
    { apply (hrun_la_ok all (firstn k ops) ID Hpre init); [apply ginv_init|].
      apply la_ok_no_events. intros x. destruct (cw_fields _ _ (cw_init self_ genesis oracle_)) as [Ev _].
      unfold get_event, init. rewrite Ev. cbn. apply zget_empty. }
    assert (R : rinv Sk) by (apply (proj2 (hrun_rtop self_ genesis oracle_ (firstn k ops)) Hfk)).
    destruct (hrun_c10inv self_ genesis oracle_ (firstn k ops) Hs) as [_ C10]. fold init in C10. fold Sk in C10.
    assert (Hne : peersets Sk <> []) by (apply table_wf_nonempty, (c_wf _ _ C10)).
    assert (Hps : forall q, 0 <= q <= last_round (hstep Sk o) -> get_peerset Sk q = Some (P q)).
    { intros q Hq. rewrite <- ES in Hq.
      destruct (window_lookup_final_step self_ genesis oracle_ Hs ops k q Hw Hk) as [A _]; [unfold reach; fold init; lia|].
      unfold reach in A. fold init in A. fold Sk in A. rewrite A. unfold P, psat.
      destruct (hrun_c10inv self_ genesis oracle_ ops Hs) as [_ C10f]. fold init in C10f.
      destruct (get_nonempty q (peersets (hrun init ops)) (table_wf_nonempty _ (c_wf _ _ C10f))) as [ps Hps].
      unfold get_peerset. rewrite Hps. reflexivity. }
    rewrite ES in Hf |- *. destruct o as [e|]; cbn [hstep] in *.
    + destruct Ho as [Hin Hid].
      destruct (step_cinvD P all Sk e OK LA FA ID Hin Hid R Hne Hps IH) as [Hx|Hx]; [congruence|exact Hx].
    + eapply cinvD_ckeepD; [exact IH|]. apply ckeepD_cw, cw_process_sigpool.
Qed.

Theorem hrun_cinvD_final self_ genesis oracle_ all ops :
  self_ <> -1 -> ids_determine all -> Forall (hop_ok all) ops ->
  gap_runb (init_hg self_ genesis oracle_) ops = true ->
  failed (hrun (init_hg self_ genesis oracle_) ops) = false ->
  cinvD (psat (hrun (init_hg self_ genesis oracle_) ops)) None (hrun (init_hg self_ genesis oracle_) ops).
Proof.
  intros Hs ID H Hg Hf.
  pose proof (hrun_cinvD self_ genesis oracle_ all ops Hs ID H Hg (length ops)) as Q.
  rewrite firstn_all in Q. exact (Q Hf).
Qed.

(* the two membership gates of DivideRounds, read with the final table *)
Theorem gates_round_final self_ genesis oracle_ all ops x r :
  self_ <> -1 -> ids_determine all -> Forall (hop_ok all) ops ->
  gap_runb (init_hg self_ genesis oracle_) ops = true ->
  failed (hrun (init_hg self_ genesis oracle_) ops) = false ->
  rmemo (hrun (init_hg self_ genesis oracle_) ops) x = Some r ->
  0 <= r /\ exists ex, get_event (hrun (init_hg self_ genesis oracle_) ops) x = Some ex /\
    reqD (psat (hrun (init_hg self_ genesis oracle_) ops)) (hrun (init_hg self_ genesis oracle_) ops) x ex r.
Proof. intros Hs ID H Hg Hf. apply (cd_rdom _ _ _ (hrun_cinvD_final self_ genesis oracle_ all ops Hs ID H Hg Hf)). Qed.

Theorem gates_witness_final self_ genesis oracle_ all ops x w :
  self_ <> -1 -> ids_determine all -> Forall (hop_ok all) ops ->
  gap_runb (init_hg self_ genesis oracle_) ops = true ->
  failed (hrun (init_hg self_ genesis oracle_) ops) = false ->
  wmemo (hrun (init_hg self_ genesis oracle_) ops) x = Some w ->
  exists ex r, get_event (hrun (init_hg self_ genesis oracle_) ops) x = Some ex /\
    rmemo (hrun (init_hg self_ genesis oracle_) ops) x = Some r /\
    weq (psat (hrun (init_hg self_ genesis oracle_) ops) r) (hrun (init_hg self_ genesis oracle_) ops) ex r w.
Proof. intros Hs ID H Hg Hf. apply (cd_wdom _ _ _ (hrun_cinvD_final self_ genesis oracle_ all ops Hs ID H Hg Hf)). Qed.
