(* Two concrete histories (static membership, no forks, every event valid) used by Properties/C04.v:
   cw: a delivered block whose first frame event has parents that are in no delivered block,
       because the frame that holds them carries no transaction and therefore produced no block
       (process_frame / Hashgraph.ProcessDecidedRounds: "if len(block.Transactions()) > 0 || ...");
   aw: an event with a round-received number whose parent has none: round 2 is held undecided by
       the late witness 19 while round 3 is decided, so the round-2 events 18, 20, 22 are received
       in round 3 and the round-1 events below them (12..17) are still waiting for round 2
       (DecideRoundReceived stops at the first undecided round above the event's own round). *)
From Coq Require Import ZArith List Bool.
From V Require Import Model.ZMap Model.Quorum Model.Voting Model.HgImpl Proofs.AdmissionProofs Proofs.BlockInv
  Proofs.OrderProofs Proofs.Static Proofs.Agreement.
Import ListNotations.
Open Scope Z_scope.

Definition cw_g : peerset := [mkPeer 100 0; mkPeer 101 1].
Definition cw_ev (t : Z * Z * Z * Z * Z * list Z) : event :=
  match t with (id, c, ix, sp, op, txs) => mkEvent id c ix sp op 0 true id txs [] [] true end.
(* (id, creator, index, self-parent, other-parent, transactions) *)
Definition cw_all : list event := map cw_ev
  [(0,1,0,-1,-1,[]); (1,0,0,-1,0,[]); (2,1,1,0,1,[]); (3,1,2,2,-1,[]); (4,0,1,1,3,[1;2;3]); (5,0,2,4,-1,[]);
   (6,0,3,5,-1,[]); (7,1,3,3,6,[]); (8,0,4,6,7,[]); (9,0,5,8,-1,[]); (10,1,4,7,9,[4;5;6;7]); (11,1,5,10,-1,[]);
   (12,0,6,9,11,[]); (13,0,7,12,-1,[]); (14,1,6,11,13,[])].
Definition cw_ops : list hop := map HInsert cw_all.
Definition cw_st : hg := hrun (init_hg 1 cw_g []) cw_ops.

Lemma cw_premises : ids_determine cw_all /\ no_accept cw_all /\ fork_free cw_all /\ Forall (hop_ok cw_all) cw_ops.
Proof.
  split; [apply ids_determine_distinct; vm_compute; reflexivity|].
  split; [apply no_acceptb_sound; vm_compute; reflexivity|].
  split; [apply fork_freeb_sound; vm_compute; reflexivity|].
  apply hop_ok_inserts; vm_compute; reflexivity.
Qed.

Lemma cw_facts :
  failed cw_st = false /\
  map (fun b => (b_index b, b_rr b, b_txs b, map fe_id (f_events (b_frame b)))) (delivered cw_st)
    = [(0, 2, [1; 2; 3], [2; 3; 4; 5; 6])] /\
  map (fun x => match get_event cw_st x with Some e => (e_sp (ev_e e), e_op (ev_e e), ev_round e, ev_rr e) | None => (0, 0, None, None) end)
      [0; 1; 2]
    = [(-1, -1, Some 0, Some 1); (-1, 0, Some 0, Some 1); (0, 1, Some 1, Some 2)] /\
  match zget 1 (frames cw_st) with Some f => map fe_id (f_events f) | None => [] end = [0; 1].
Proof. vm_compute. repeat split; reflexivity. Qed.

Definition aw_g : peerset := [mkPeer 200 0; mkPeer 300 1; mkPeer 100 2; mkPeer 400 3].
Definition aw_ev (t : Z * Z * Z * Z * Z) : event :=
  match t with (id, c, ix, sp, op) => mkEvent id c ix sp op 0 true id [] [] [] true end.
(* (id, creator, index, self-parent, other-parent), in insertion order *)
Definition aw_all : list event := map aw_ev
  [(1,0,0,-1,-1); (2,0,1,1,-1); (3,2,0,-1,-1); (4,0,2,2,3); (5,2,1,3,4); (6,2,2,5,-1); (8,0,3,4,6);
   (7,1,0,-1,2); (9,1,1,7,6); (10,2,3,6,9); (11,2,4,10,-1); (12,0,4,8,11); (13,2,5,11,12);
   (14,2,6,13,-1); (15,1,2,9,14); (16,0,5,12,15); (17,2,7,14,15); (18,2,8,17,16); (20,1,3,15,18);
   (22,0,6,16,20); (21,2,9,18,-1); (23,0,7,22,21); (24,0,8,23,-1); (25,0,9,24,-1); (26,0,10,25,-1);
   (27,1,4,20,26); (28,2,10,21,27); (0,3,0,-1,-1); (19,3,1,0,16); (29,1,5,27,28); (30,1,6,29,-1);
   (31,2,11,28,30); (32,2,12,31,-1); (33,3,2,19,32); (35,0,11,26,-1); (36,0,12,35,33); (37,0,13,36,-1);
   (39,0,14,37,-1); (34,1,7,30,31); (38,1,8,34,32); (41,0,15,39,38); (42,0,16,41,-1); (40,2,13,32,39);
   (43,2,14,40,-1); (46,2,15,43,42); (44,3,3,33,43); (47,2,16,46,44); (48,2,17,47,-1); (45,1,9,38,-1);
   (49,2,18,48,45); (50,1,10,45,-1); (51,2,19,49,50); (52,1,11,50,51); (53,2,20,51,52); (54,0,17,42,53)].
Definition aw_ops : list hop := map HInsert aw_all.
Definition aw_st : hg := hrun (init_hg 0 aw_g []) aw_ops.

Lemma aw_premises : ids_determine aw_all /\ no_accept aw_all /\ fork_free aw_all /\ Forall (hop_ok aw_all) aw_ops.
Proof.
  split; [apply ids_determine_distinct; vm_compute; reflexivity|].
  split; [apply no_acceptb_sound; vm_compute; reflexivity|].
  split; [apply fork_freeb_sound; vm_compute; reflexivity|].
  apply hop_ok_inserts; vm_compute; reflexivity.
Qed.

Lemma aw_facts :
  failed aw_st = false /\
  map (fun x => match get_event aw_st x with Some e => (x, e_sp (ev_e e), e_op (ev_e e), ev_round e, ev_rr e) | None => (x, 0, 0, None, None) end)
      [17; 18; 19]
    = [(17, 14, 15, Some 1, None); (18, 17, 16, Some 2, Some 3); (19, 0, 16, Some 2, None)] /\
  last_consensus aw_st = Some 1 /\
  map (fun r => match get_round aw_st r with Some ri => (r, ri_decided ri) | None => (r, false) end) [1; 2; 3]
    = [(1, true); (2, false); (3, true)].
Proof. vm_compute. repeat split; reflexivity. Qed.

(** * The refutations *)

(* the literal "every ancestor of a committed event is in a delivered block, earlier" fails on cw:
   the first event of the first delivered block has parents, and nothing is delivered before it *)
Lemma cw_literal_refuted :
  ~ (forall all st k d j b a,
       (exists self_ genesis oracle_ ops,
          ids_determine all /\ Forall (hop_ok all) ops /\ st = hrun (init_hg self_ genesis oracle_) ops) ->
       nth_error (delivered st) k = Some d ->
       nth_error (f_events (b_frame d)) j = Some b -> anc st a (fe_id b) ->
       exists k' d' i fa, nth_error (delivered st) k' = Some d' /\
         nth_error (f_events (b_frame d')) i = Some fa /\ fe_id fa = a /\
         ((k' < k)%nat \/ (k' = k /\ (i < j)%nat))).
Proof.
  intros S. destruct cw_premises as [ID [_ [_ H]]].
  assert (D : exists d b, nth_error (delivered cw_st) 0 = Some d /\ nth_error (f_events (b_frame d)) 0 = Some b /\ fe_id b = 2).
  { vm_compute. eexists. eexists. split; [reflexivity|]. split; reflexivity. }
  destruct D as [d [b [Hd [Hb Hid]]]].
  assert (P : exists eb, get_event cw_st 2 = Some eb /\ e_sp (ev_e eb) = 0).
  { vm_compute. eexists. split; reflexivity. }
  destruct P as [eb [Heb Hsp]].
  assert (A : anc cw_st 0 (fe_id b)).
  { rewrite Hid. apply anc_parent. exists eb. split; [exact Heb|]. split; [discriminate|left; symmetry; exact Hsp]. }
  destruct (S cw_all cw_st 0%nat d 0%nat b 0) as [k' [d' [i [fa [_ [_ [_ [Hlt|[_ Hlt]]]]]]]]]; try assumption.
  - exists 1, cw_g, [], cw_ops. split; [exact ID|]. split; [exact H|reflexivity].
  - inversion Hlt.
  - inversion Hlt.
Qed.

Local Notation AW := (hrun (init_hg 0 aw_g []) aw_ops) (only parsing).

(* "an ancestor of an event that has a round-received number has one too" fails on aw:
   event 18 is received in round 3, its self-parent 17 is not received *)
Lemma aw_ancestor_refuted :
  ~ (forall genesis all self_ oracle_ ops a b eb r,
       ids_determine all -> no_accept all -> fork_free all -> Forall (hop_ok all) ops ->
       let st := hrun (init_hg self_ genesis oracle_) ops in
       anc st a b -> get_event st b = Some eb -> ev_rr eb = Some r ->
       exists ea r', get_event st a = Some ea /\ ev_rr ea = Some r').
Proof.
  (* the state is written out (not [aw_st]) so that no conversion has to unfold the run *)
  intros S. destruct aw_premises as [ID [NA [FF H]]].
  assert (P : exists eb, get_event AW 18 = Some eb /\ e_sp (ev_e eb) = 17 /\ ev_rr eb = Some 3).
  { vm_compute. eexists. split; [reflexivity|]. split; reflexivity. }
  destruct P as [eb [Heb [Hsp Hrr]]].
  assert (Q : match get_event AW 17 with Some e => ev_rr e | None => None end = None) by (vm_compute; reflexivity).
  assert (A : anc AW 17 18).
  { apply anc_parent. exists eb. split; [exact Heb|]. split; [discriminate|left; symmetry; exact Hsp]. }
  specialize (S aw_g aw_all 0 [] aw_ops 17 18 eb 3 ID NA FF H). cbv zeta in S.
  destruct (S A Heb Hrr) as [ea [r' [Ha Hr]]].
  rewrite Ha in Q. cbv beta iota in Q. rewrite Hr in Q. discriminate Q.
Qed.
