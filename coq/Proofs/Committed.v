(* Stage A/B(a): processed rounds.  For every reachable state (static membership):
   QP: a round that is not in the pending queue is at or below the last consensus round;
   FR: a cached frame belongs to a round at or below the last consensus round;
   DB: an event received in a round at or below the last consensus round is in the cached frame of
       that round, and, if it carries a payload, in the frame of a delivered block of that round.
   With Undetermined.v: the received set of a processed round is final, an ancestor of a committed
   event is committed (not later), and the committed order extends causality. *)
From Coq Require Import ZArith List Bool Lia ZifyBool Permutation Sorted.
From RecordUpdate Require Import RecordSet.
From V Require Import Model.ZMap Model.Quorum Model.Voting Model.VotingRef Model.HgImpl
  Proofs.ZMapFacts Proofs.QuorumProofs Proofs.HgFrames Proofs.HgDagFrames Proofs.AdmissionProofs Proofs.Ancestry
  Proofs.HgBlockFrames Proofs.BlockInv Proofs.RoundOrder Proofs.OrderSort Proofs.OrderFrames Proofs.OrderProofs
  Proofs.VotingProofs Proofs.FameBridge Proofs.Static Proofs.FirstDesc Proofs.FdWalk Proofs.DivInv Proofs.CInvRun
  Proofs.Height Proofs.StronglySee Proofs.RoundFun Proofs.ViewOk Proofs.SameHistory Proofs.Agreement Proofs.NoFail
  Proofs.LrFrames Proofs.LceFrames Proofs.FameInv Proofs.LateWitness Proofs.FamousSet Proofs.DecidedFlag Proofs.RoundReceived
  Proofs.UndFrames Proofs.Undetermined.
Import ListNotations RecordSetNotations.
Open Scope Z_scope.

Definition lcle (st : hg) (R : Z) : Prop := exists l, last_consensus st = Some l /\ R <= l.
Definition payload (ex : evst) : Prop := e_txs (ev_e ex) <> [] \/ e_itxs (ev_e ex) <> [].

Definition QP (st : hg) : Prop := forall r, get_round st r <> None -> In r (prounds st) \/ lcle st r.
Definition FR (st : hg) : Prop := forall R f, zget R (frames st) = Some f -> lcle st R.
Definition DB (st : hg) : Prop := forall x ex R, get_event st x = Some ex -> ev_rr ex = Some R -> lcle st R ->
  exists f, zget R (frames st) = Some f /\ In x (map fe_id (f_events f)) /\
    (payload ex -> exists d, In d (delivered st) /\ b_rr d = R /\ b_frame d = f).

(* DB for the rounds above the last consensus round of a base state s0 *)
Definition DBL (s0 st : hg) : Prop := forall x ex R, get_event st x = Some ex -> ev_rr ex = Some R -> lcle st R -> ~ lcle s0 R ->
  exists f, zget R (frames st) = Some f /\ In x (map fe_id (f_events f)) /\
    (payload ex -> exists d, In d (delivered st) /\ b_rr d = R /\ b_frame d = f).

(** * ProcessDecidedRounds *)
Lemma process_frame_delivers s f fe ex :
  In fe (f_events f) -> get_event s (fe_id fe) = Some ex -> payload ex ->
  exists bf, delivered (process_frame s f) = delivered s ++ [bf] /\ b_rr bf = f_round f /\ b_frame bf = f.
Proof.
  intros Hin Hx Hp. unfold process_frame. destruct (f_events f) as [|fe0 rest] eqn:Hfe; [destruct Hin|]. cbv zeta.
  set (s1 := fold_left add_consensus_event (fe0 :: rest) s).
  assert (E1 : delivered s1 = delivered s) by (apply delivered_bl, add_consensus_events_bl).
  assert (Ev : events s1 = events s).
  { destruct (ov_nf _ _ (ov_add_consensus_events (fe0 :: rest) s)) as [[_ [Ev _]] _]. exact Ev. }
  set (b := block_of_frame _ _ _).
  assert (Rb : b_rr b = f_round f /\ b_frame b = f /\ b_txs b = flat_map (txs_of s) (fe0 :: rest) /\
               b_itxs b = flat_map (itxs_of s) (fe0 :: rest)).
  { subst b. unfold block_of_frame. cbn [b_rr b_txs b_itxs b_frame]. rewrite Hfe. unfold txs_of, itxs_of, get_event. rewrite Ev. auto. }
  destruct Rb as [R1 [R2 [R3 R4]]].
  assert (C : exists bf, delivered (commit (store_set_block s1 b) b) = delivered s ++ [bf] /\ b_rr bf = f_round f /\ b_frame bf = f).
  { destruct (commit_delivered_pv (store_set_block s1 b) b) as [bf [Hd Hr]]. exists bf.
    rewrite Hd, delivered_store, E1. unfold pv in Hr. inversion Hr. split; [reflexivity|split; congruence]. }
  destruct (b_txs b) as [|t ts] eqn:Et, (b_itxs b) as [|u us] eqn:Eu; try exact C.
  exfalso. destruct Hp as [Hp|Hp].
  - assert (Hsub : incl (txs_of s fe) (flat_map (txs_of s) (fe0 :: rest))).
    { intros z Hz. apply in_flat_map. exists fe. auto. }
    rewrite <- R3 in Hsub. unfold txs_of in Hsub. rewrite Hx in Hsub.
    destruct (e_txs (ev_e ex)) as [|z zs]; [contradiction|]. destruct (Hsub z (or_introl eq_refl)).
  - assert (Hsub : incl (itxs_of s fe) (flat_map (itxs_of s) (fe0 :: rest))).
    { intros z Hz. apply in_flat_map. exists fe. auto. }
    rewrite <- R4 in Hsub. unfold itxs_of in Hsub. rewrite Hx in Hsub.
    destruct (e_itxs (ev_e ex)) as [|z zs]; [contradiction|]. destruct (Hsub z (or_introl eq_refl)).
Qed.

Lemma process_frame_delivered_ext s f : exists l, delivered (process_frame s f) = delivered s ++ l.
Proof.
  destruct (process_frame_delivered_pv s f) as [E|[bf [E _]]]; [exists []; rewrite app_nil_r; exact E|exists [bf]; exact E].
Qed.

(* the state of the fold over the pending rounds, [lst] = the entries still to be visited *)
Record pfold (g : peerset) (all : list event) (s0 : hg) (lst : list (Z * bool)) (s : hg) : Prop := {
  pf_pd : pdinv g all s;
  pf_nf : failed s = false;
  pf_fr : FR s;
  pf_db : DBL s0 s;
  pf_cov : forall r, get_round s r <> None -> lcle s r \/ In r (map fst lst);
  pf_above : forall r, In r (map fst lst) -> lc_lt s r;
  pf_sorted : StronglySorted Z.lt (map fst lst);
  pf_pend : forall pr, In pr lst -> get_round s (fst pr) <> None;
  pf_listed : forall x ex R, get_event s x = Some ex -> ev_rr ex = Some R -> In x (rcv s R)
}.

Lemma lcle_mono s s' R : (forall l, last_consensus s = Some l -> exists l', last_consensus s' = Some l' /\ l <= l') ->
  lcle s R -> lcle s' R.
Proof. intros H [l [Hl Hle]]. destruct (H l Hl) as [l' [Hl' Hle']]. exists l'. split; [exact Hl'|lia]. Qed.

Lemma process_round_pfold g all s0 s p pr rest : no_accept all -> pfold g all s0 (pr :: rest) s ->
  (snd pr = false /\ process_round (s, p, false) pr = (s, p, true)) \/
  (snd pr = true /\ exists s', process_round (s, p, false) pr = (s', p ++ [fst pr], false) /\ pfold g all s0 rest s' /\
     pending s' = pending s /\ fext s s' /\ incl (delivered s) (delivered s')).
Proof.
  intros NA [PD Hf Hfr Hdb Hcov Habove Hsort Hpend Hlist].
  destruct pr as [R d]. cbn [fst snd] in *.
  destruct d; [right; split; [reflexivity|]|left; split; [reflexivity|]; unfold process_round; rewrite Hf; reflexivity].
  assert (HgR : get_round s R <> None) by (apply (Hpend (R, true)); left; reflexivity).
  destruct (process_round_nofail g all s p false (R, true) NA PD Hf HgR) as [F' PD'].
  pose proof (cw_process_round s p false (R, true)) as C'.
  pose proof (Habove R (or_introl eq_refl)) as HlcR.
  revert F' PD' C'. unfold process_round. rewrite Hf. cbn [orb negb fst snd].
  destruct (get_round s R) as [ri|] eqn:Hri; [|contradiction].
  pose proof (get_frame_some g s R (pd_fr _ _ _ PD) ltac:(rewrite Hri; discriminate)) as Hsome.
  destruct (get_frame s R) as [[f|] s1] eqn:Egf; cbn [fst] in Hsome; [|contradiction].
  destruct (OrderProofs.get_frame_some s R f s1 Egf) as [Hz1 [Fx1 [Ev1 Dl1]]].
  intros F' PD' C'. cbn [fst] in F', PD', C'.
  set (s2 := process_frame s1 f) in *. set (s' := bump_last_consensus s2 R) in *.
  exists s'. split; [reflexivity|].
  cut (pfold g all s0 rest s' /\ pending s2 = pending s /\ fext s s' /\ incl (delivered s) (delivered s')).
  { intros [A [B [C D]]]. split; [exact A|]. split; [|split; assumption].
    destruct (bump_keep s2 R) as [[_ [_ [Pe3 _]]] _]. fold s' in Pe3. congruence. }
  (* facts about the intermediate states *)
  assert (Hfr0 : forall q g0, zget q (frames s) = Some g0 -> f_round g0 = q).
  { intros q g0 Hq. destruct (pd_f _ _ _ PD q g0 Hq) as [A _]. exact A. }
  destruct (get_frame_spec s R f s1 Hfr0 Egf) as [HfR [_ [Ro1 [_ [Pe1 [Lc1 _]]]]]].
  pose proof (process_frame_cv s1 f) as Cv2. fold s2 in Cv2.
  assert (Lc2 : last_consensus s2 = last_consensus s1) by (unfold cv in Cv2; inversion Cv2; reflexivity).
  assert (Fr2 : frames s2 = frames s1) by (unfold cv in Cv2; inversion Cv2; reflexivity).
  destruct (bump_keep s2 R) as [_ [Fr3 Dl3]]. fold s' in Fr3, Dl3.
  assert (HlcR2 : lc_lt s2 R) by (unfold lc_lt in *; rewrite Lc2, Lc1; exact HlcR).
  pose proof (bump_lc s2 R HlcR2) as Lc3. fold s' in Lc3.
  destruct (cw_fields _ _ C') as [Ev' [Ro' _]].
  assert (GE : forall y, get_event s' y = get_event s y) by (intros y; unfold get_event; rewrite Ev'; reflexivity).
  assert (GR : forall r, get_round s' r = get_round s r) by (intros r; unfold get_round; rewrite Ro'; reflexivity).
  assert (RC : forall r, rcv s' r = rcv s r) by (intros r; unfold rcv; rewrite GR; reflexivity).
  assert (Mono : forall R0, lcle s R0 -> lcle s' R0).
  { intros R0 [l [Hl Hle]]. exists R. split; [exact Lc3|]. unfold lc_lt in HlcR. rewrite Hl in HlcR. lia. }
  assert (FrExt : forall q g0, zget q (frames s) = Some g0 -> zget q (frames s') = Some g0).
  { intros q g0 Hq. rewrite Fr3, Fr2. apply Fx1. exact Hq. }
  destruct (process_frame_delivered_ext s1 f) as [dl Hdl]. fold s2 in Hdl.
  assert (DlExt : forall d, In d (delivered s) -> In d (delivered s')).
  { intros d Hd. rewrite Dl3, Hdl, Dl1. apply in_or_app. left. exact Hd. }
  (* the frame of round R contains every event received in round R *)
  assert (Hcomplete : forall x, In x (rcv s R) -> In x (map fe_id (f_events f))).
  { intros x Hx. destruct (get_frame_cases s R) as [[E _]|[E|[f' [ri' [evs [E [Hz0 [Hri' [_ [Hev [Hm _]]]]]]]]]]]; rewrite Egf in E.
    - exfalso. inversion E as [[H1 H2]]. symmetry in H1. destruct (Hfr R f H1) as [l [Hl Hle]].
      unfold lc_lt in HlcR. rewrite Hl in HlcR. lia.
    - discriminate.
    - inversion E; subst f'. rewrite Hev. unfold rcv in Hx. rewrite Hri' in Hx.
      apply (Permutation_in _ (Permutation_sym (Permutation_map fe_id (fe_sort_perm s evs)))). rewrite Hm. exact Hx. }
  split; [|split; [unfold cv in Cv2; inversion Cv2; congruence|split; [exact FrExt|exact DlExt]]].
  constructor.
  - exact PD'.
  - exact F'.
  - intros q g0. rewrite Fr3, Fr2. intros Hq.
    destruct (Z.eq_dec q R) as [->|Hne]; [exists R; split; [exact Lc3|lia]|].
    apply Mono. apply (Hfr q g0).
    destruct (get_frame_cases s R) as [[E _]|[E|[f' [ri' [evs [E _]]]]]]; rewrite Egf in E.
    + inversion E; subst. exact Hq.
    + discriminate.
    + inversion E; subst f' s1. revert Hq.
      replace (frames (s <| frames := zset R f (frames s) |>)) with (zset R f (frames s)) by (destruct s; reflexivity).
      rewrite zget_zset. destruct (Z.eqb_spec R q); [congruence|]. cbn [andb]. auto.
  - (* DB *)
    intros x ex R0. rewrite GE. intros Hx Hrr [l [Hl Hle]] Hbase. rewrite Lc3 in Hl. inversion Hl; subst l.
    pose proof (Hlist x ex R0 Hx Hrr) as Hin.
    assert (HgR0 : get_round s R0 <> None).
    { intros D. unfold rcv in Hin. rewrite D in Hin. destruct Hin. }
    destruct (Z.eq_dec R0 R) as [->|Hne].
    + exists f. split; [rewrite Fr3, Fr2; exact Hz1|]. split; [apply Hcomplete; exact Hin|].
      intros Hp. apply Hcomplete in Hin. apply in_map_iff in Hin. destruct Hin as [fe [Efe Hfe]].
      assert (Hx1 : get_event s1 (fe_id fe) = Some ex) by (unfold get_event; rewrite Ev1, Efe; exact Hx).
      destruct (process_frame_delivers s1 f fe ex Hfe Hx1 Hp) as [bf [Hd [Hb1 Hb2]]]. fold s2 in Hd.
      exists bf. split; [rewrite Dl3, Hd; apply in_or_app; right; left; reflexivity|]. split; [congruence|exact Hb2].
    + destruct (Hcov R0 HgR0) as [Hlc|Hin0].
      * destruct (Hdb x ex R0 Hx Hrr Hlc Hbase) as [f0 [Hz0 [Hin1 Hp0]]]. exists f0.
        split; [apply FrExt; exact Hz0|]. split; [exact Hin1|].
        intros Hp. destruct (Hp0 Hp) as [d0 [Hd0 [A B]]]. exists d0. split; [apply DlExt; exact Hd0|auto].
      * exfalso. cbn [map fst] in Hin0. destruct Hin0 as [E|Hin0]; [congruence|].
        inversion Hsort as [|? ? _ Hall]; subst. rewrite Forall_forall in Hall. specialize (Hall R0 Hin0). lia.
  - intros r. rewrite GR. intros Hg. destruct (Hcov r Hg) as [H|[E|H]]; [left; apply Mono; exact H|left; exists R; split; [exact Lc3|cbn in E; lia]|right; exact H].
  - intros r Hr. unfold lc_lt. rewrite Lc3. inversion Hsort as [|? ? _ Hall]; subst. rewrite Forall_forall in Hall. apply Hall. exact Hr.
  - inversion Hsort; assumption.
  - intros pr Hpr. rewrite GR. apply Hpend. right. exact Hpr.
  - intros x ex R0. rewrite GE, RC. apply Hlist.
Qed.

Lemma process_fold_pfold g all s0 : no_accept all -> forall lst s p, pfold g all s0 lst s ->
  exists done rem, lst = done ++ rem /\
    snd (fst (fold_left process_round lst (s, p, false))) = p ++ map fst done /\
    pfold g all s0 rem (fst (fst (fold_left process_round lst (s, p, false)))) /\
    pending (fst (fst (fold_left process_round lst (s, p, false)))) = pending s /\
    fext s (fst (fst (fold_left process_round lst (s, p, false)))) /\
    incl (delivered s) (delivered (fst (fst (fold_left process_round lst (s, p, false))))).
Proof.
  intros NA. induction lst as [|pr rest IH]; intros s p PF; cbn [fold_left].
  - exists [], []. cbn. rewrite app_nil_r.
    split; [reflexivity|]. split; [reflexivity|]. split; [exact PF|]. split; [reflexivity|]. split; [apply fext_refl|apply incl_refl].
  - destruct (process_round_pfold g all s0 s p pr rest NA PF) as [[Hd E]|[Hd [s' [E [PF' [Pe [Fx Dx]]]]]]]; rewrite E.
    + rewrite (process_fold_stopped rest s p true (or_introl eq_refl)). cbn [fst snd].
      exists [], (pr :: rest). cbn. rewrite app_nil_r.
      split; [reflexivity|]. split; [reflexivity|]. split; [exact PF|]. split; [reflexivity|]. split; [apply fext_refl|apply incl_refl].
    + destruct (IH s' (p ++ [fst pr]) PF') as [done [rem [El [Ep [PFr [Pr [Fx2 Dx2]]]]]]].
      exists (pr :: done), rem. split; [cbn; congruence|]. split; [rewrite Ep, <- app_assoc; reflexivity|].
      split; [exact PFr|]. split; [congruence|]. split; [eapply fext_trans; eauto|eapply incl_tran; eauto].
Qed.


Lemma process_decided_rounds_pinv g all st : no_accept all -> pfold g all st (pending st) st ->
  QP (process_decided_rounds st) /\ FR (process_decided_rounds st) /\ DBL st (process_decided_rounds st) /\
  fext st (process_decided_rounds st) /\ incl (delivered st) (delivered (process_decided_rounds st)).
Proof.
  intros NA PF. unfold process_decided_rounds.
  destruct (process_fold_pfold g all st NA (pending st) st [] PF) as [done [rem [El [Ep [PFr [Pe [Fx Dx]]]]]]].
  destruct (fold_left process_round (pending st) (st, [], false)) as [[s processed] stop]. cbn [fst snd app] in *.
  set (F := s <| pending := filter (fun p => negb (existsb (Z.eqb (fst p)) processed)) (pending s) |>).
  assert (GE : forall y, get_event F y = get_event s y) by (intros y; unfold F; destruct s; reflexivity).
  assert (GR : forall r, get_round F r = get_round s r) by (intros r; unfold F; destruct s; reflexivity).
  assert (Lc : last_consensus F = last_consensus s) by (unfold F; destruct s; reflexivity).
  assert (Fr : frames F = frames s) by (unfold F; destruct s; reflexivity).
  assert (Dl : delivered F = delivered s) by (unfold F; destruct s; reflexivity).
  assert (Hl : forall R, lcle F R <-> lcle s R) by (intros R; unfold lcle; rewrite Lc; reflexivity).
  split; [|split; [|split; [|split; [intros q g0 Hq; rewrite Fr; apply Fx; exact Hq|rewrite Dl; exact Dx]]]].
  - intros r. rewrite GR. intros Hg. destruct (pf_cov _ _ _ _ _ PFr r Hg) as [H|H]; [right; apply Hl; exact H|left].
    unfold prounds, F. replace (pending (s <| pending := _ |>)) with
      (filter (fun p => negb (existsb (Z.eqb (fst p)) processed)) (pending s)) by (destruct s; reflexivity).
    apply in_map_iff in H. destruct H as [[r' d] [E Hin]]. cbn in E. subst r'.
    apply in_map_iff. exists (r, d). split; [reflexivity|]. apply filter_In. split; [rewrite Pe, El; apply in_or_app; right; exact Hin|].
    cbn [fst]. apply negb_true_iff. apply not_true_is_false. intros C. apply existsb_exists in C. destruct C as [q [Hq Eq]].
    apply Z.eqb_eq in Eq. subst q. rewrite Ep in Hq.
    (* the queue is strictly sorted: r cannot be both done and remaining *)
    pose proof (pf_sorted _ _ _ _ _ PF) as Hs. rewrite El, map_app in Hs.
    assert (Hr : In r (map fst rem)) by (apply in_map_iff; exists (r, d); auto).
    clear -Hs Hq Hr. induction (map fst done) as [|a l IH]; [destruct Hq|].
    cbn [app] in Hs. inversion Hs as [|? ? Hs' Hall]; subst. destruct Hq as [->|Hq]; [|auto].
    rewrite Forall_forall in Hall. specialize (Hall r (in_or_app _ _ _ (or_intror Hr))). lia.
  - intros R f. rewrite Fr. intros Hz. apply Hl. apply (pf_fr _ _ _ _ _ PFr R f Hz).
  - intros x ex R. rewrite GE, Fr, Dl. intros Hx Hr Hlc Hb. apply Hl in Hlc. apply (pf_db _ _ _ _ _ PFr x ex R Hx Hr Hlc Hb).
Qed.

(** * The pending queue through DivideRounds / DecideFame / DecideRoundReceived *)
Definition plb (st : hg) := (pending st, lower_bound st, last_consensus st, frames st, delivered st).

Lemma plb_nomemo st st' : nomemo st' = nomemo st -> plb st' = plb st.
Proof. intros H. unfold plb. destruct st, st'. cbn in *. inversion H. reflexivity. Qed.

Lemma pending_insert_fst_In r l r' : In r' (map fst (pending_insert r l)) <-> r' = r \/ In r' (map fst l).
Proof. apply pending_insert_fst. Qed.

Lemma divide_round_queue st y :
  lower_bound st = None ->
  (forall r, In r (prounds st) -> In r (prounds (divide_round st y))) /\
  (forall r, get_round (divide_round st y) r <> None -> get_round st r <> None \/ In r (prounds (divide_round st y))) /\
  lower_bound (divide_round st y) = None /\ last_consensus (divide_round st y) = last_consensus st /\
  frames (divide_round st y) = frames st /\ delivered (divide_round st y) = delivered st.
Proof.
  intros Hlb. unfold divide_round.
  pose proof (round_f_nomemo (fuel_of st) st y) as N1.
  pose proof (nomemo_eq_rounds _ _ N1) as R1. pose proof (plb_nomemo _ _ N1) as P1.
  destruct (round_f (fuel_of st) st y) as [[r0|] s]; cbn [snd] in *.
  2:{ unfold plb in P1. inversion P1 as [[A B C D E]].
      replace (prounds (fail s)) with (prounds st) by (unfold prounds; replace (pending (fail s)) with (pending s) by (destruct s; reflexivity); rewrite A; reflexivity).
      split; [auto|]. split; [intros r Hr; left; unfold get_round in *; replace (rounds (fail s)) with (rounds s) in Hr by (destruct s; reflexivity); rewrite R1 in Hr; exact Hr|].
      repeat split; destruct s; cbn in *; congruence. }
  cbv zeta. set (s1 := set_event_round s y r0).
  assert (R2 : rounds s1 = rounds st).
  { rewrite <- R1. unfold s1, set_event_round. destruct (get_event s y); [destruct s|]; reflexivity. }
  assert (P2 : plb s1 = plb st).
  { rewrite <- P1. unfold s1, set_event_round. destruct (get_event s y); [destruct s|]; reflexivity. }
  assert (Eri : round_or_new s1 r0 = round_or_new st r0) by (unfold round_or_new, get_round; rewrite R2; reflexivity).
  rewrite Eri. set (ri := round_or_new st r0). set (s2 := maybe_queue s1 r0 ri).
  assert (R3 : rounds s2 = rounds st) by (unfold s2; rewrite rounds_maybe_queue; exact R2).
  unfold plb in P2. inversion P2 as [[A2 B2 C2 D2 E2]].
  assert (Q3 : (forall r, In r (prounds st) -> In r (prounds s2)) /\
               (get_round st r0 = None -> In r0 (prounds s2)) /\
               lower_bound s2 = None /\ last_consensus s2 = last_consensus st /\ frames s2 = frames st /\ delivered s2 = delivered st).
  { unfold s2, maybe_queue. rewrite B2, Hlb.
    destruct (negb (queued s1 r0) && negb (ri_decided ri) && true) eqn:Eq.
    - replace (prounds (s1 <| pending := pending_insert r0 (pending s1) |>)) with (map fst (pending_insert r0 (pending s1)))
        by (unfold prounds; destruct s1; reflexivity).
      split; [intros r Hr; apply pending_insert_fst; right; unfold prounds in Hr; rewrite <- A2 in Hr; exact Hr|].
      split; [intros _; apply pending_insert_fst; left; reflexivity|].
      repeat split; destruct s1; cbn in *; congruence.
    - split; [intros r Hr; unfold prounds in *; rewrite A2; exact Hr|].
      split; [|repeat split; congruence].
      intros Hn. unfold ri, round_or_new in Eq. rewrite Hn in Eq. cbn [ri_decided new_rinfo negb andb] in Eq.
      rewrite !andb_true_r in Eq. apply negb_false_iff in Eq. apply queued_In in Eq. exact Eq. }
  destruct Q3 as [Q3a [Q3b [Q3c [Q3d [Q3e Q3f]]]]].
  pose proof (witness_f_nomemo (fuel_of s2) s2 y) as N4.
  pose proof (nomemo_eq_rounds _ _ N4) as R4. pose proof (plb_nomemo _ _ N4) as P4.
  destruct (witness_f (fuel_of s2) s2 y) as [[w|] s']; cbn [snd] in *; unfold plb in P4; inversion P4 as [[A4 B4 C4 D4 E4]].
  - assert (Pp : prounds (set_round s' r0 (add_created ri y w)) = prounds s2) by (unfold prounds; replace (pending (set_round s' r0 (add_created ri y w))) with (pending s') by (destruct s'; reflexivity); rewrite A4; reflexivity).
    rewrite Pp. split; [exact Q3a|]. split.
    + intros r Hr. unfold get_round in Hr. replace (rounds (set_round s' r0 (add_created ri y w))) with (zset r0 (add_created ri y w) (rounds s')) in Hr by (destruct s'; reflexivity).
      rewrite zget_zset in Hr. destruct ((r0 =? r) && (0 <=? r0)) eqn:Eb.
      * apply andb_true_iff in Eb. destruct Eb as [Er _]. apply Z.eqb_eq in Er. subst r.
        destruct (get_round st r0) eqn:Hg; [left; discriminate|right; apply Q3b; reflexivity].
      * left. rewrite R4, R3 in Hr. exact Hr.
    + repeat split; destruct s'; cbn in *; congruence.
  - assert (Pp : prounds (fail s') = prounds s2) by (unfold prounds; replace (pending (fail s')) with (pending s') by (destruct s'; reflexivity); rewrite A4; reflexivity).
    rewrite Pp. split; [exact Q3a|]. split.
    + intros r Hr. left. unfold get_round in *. replace (rounds (fail s')) with (rounds s') in Hr by (destruct s'; reflexivity).
      rewrite R4, R3 in Hr. exact Hr.
    + repeat split; destruct s'; cbn in *; congruence.
Qed.

Record qstep (s s' : hg) : Prop := {
  qs_p : forall r, In r (prounds s) -> In r (prounds s');
  qs_r : forall r, get_round s' r <> None -> get_round s r <> None \/ In r (prounds s');
  qs_lb : lower_bound s' = lower_bound s;
  qs_lc : last_consensus s' = last_consensus s;
  qs_fr : frames s' = frames s;
  qs_dl : delivered s' = delivered s
}.
Lemma qstep_refl s : qstep s s.
Proof. constructor; auto. Qed.
Lemma qstep_trans a b c : qstep a b -> qstep b c -> qstep a c.
Proof.
  intros [A1 A2 A3 A4 A5 A6] [B1 B2 B3 B4 B5 B6]. constructor; try congruence; [auto|].
  intros r Hr. destruct (B2 r Hr) as [H|H]; [|auto]. destruct (A2 r H) as [H'|H']; auto.
Qed.
Lemma qstep_same s s' : pending s' = pending s -> rounds s' = rounds s -> lower_bound s' = lower_bound s ->
  last_consensus s' = last_consensus s -> frames s' = frames s -> delivered s' = delivered s -> qstep s s'.
Proof.
  intros P R L C F D. constructor; auto.
  - intros r. unfold prounds. rewrite P. auto.
  - intros r Hr. left. unfold get_round in *. rewrite <- R. exact Hr.
Qed.

Lemma divide_lt_qstep st y : qstep st (divide_lt st y).
Proof.
  unfold divide_lt. pose proof (lamport_f_nomemo (fuel_of st) st y) as N.
  pose proof (nomemo_eq_rounds _ _ N) as R1. pose proof (plb_nomemo _ _ N) as P1. unfold plb in P1. inversion P1.
  destruct (lamport_f (fuel_of st) st y) as [[t|] s]; cbn [snd] in *.
  - unfold set_event_lt. destruct (get_event s y); apply qstep_same; try (destruct s; cbn in *; congruence).
  - apply qstep_same; destruct s; cbn in *; congruence.
Qed.

Lemma divide_one_qstep st y : lower_bound st = None -> qstep st (divide_one st y).
Proof.
  intros Hlb. unfold divide_one. destruct (failed st); [apply qstep_refl|].
  destruct (get_event st y) as [ev|]; [|apply qstep_same; destruct st; reflexivity].
  cbv zeta. set (st1 := match ev_round ev with Some _ => st | None => divide_round st y end).
  assert (H1 : qstep st st1).
  { unfold st1. destruct (ev_round ev); [apply qstep_refl|].
    destruct (divide_round_queue st y Hlb) as [A [B [C [D [E F]]]]]. constructor; auto. congruence. }
  destruct (failed st1); [exact H1|].
  destruct (get_event st1 y) as [ev1|]; [|eapply qstep_trans; [exact H1|apply qstep_same; destruct st1; reflexivity]].
  destruct (ev_lt ev1); [exact H1|]. eapply qstep_trans; [exact H1|apply divide_lt_qstep].
Qed.

Lemma divide_rounds_qstep st : lower_bound st = None -> qstep st (divide_rounds st).
Proof.
  unfold divide_rounds. generalize (undetermined st). intros l. revert st.
  induction l as [|y l IH]; intros st Hlb; cbn [fold_left]; [apply qstep_refl|].
  pose proof (divide_one_qstep st y Hlb) as Q1.
  eapply qstep_trans; [exact Q1|]. apply IH. rewrite (qs_lb _ _ Q1). exact Hlb.
Qed.

Lemma decide_fame_prounds st : prounds (decide_fame st) = prounds st.
Proof.
  unfold decide_fame.
  assert (G : forall l s dec, pending (fst (fold_left decide_fame_round l (s, dec))) = pending s).
  { induction l as [|pr l IH]; intros s dec; cbn [fold_left]; [reflexivity|].
    assert (E : pending (fst (decide_fame_round (s, dec) pr)) = pending s).
    { unfold decide_fame_round. destruct (failed s); [reflexivity|].
      destruct (get_round s (fst pr)); [|destruct s; reflexivity].
      destruct (get_peerset s (fst pr)); [|destruct s; reflexivity].
      match goal with |- context [fold_left ?f ?l0 ?a] => destruct (fold_left f l0 a) end; [|destruct s; reflexivity].
      destruct (witnesses_decided _ _). cbn [fst]. destruct s; reflexivity. }
    destruct (decide_fame_round (s, dec) pr) as [s' dec']. cbn [fst] in *. rewrite IH. exact E. }
  specialize (G (pending st) st []).
  destruct (fold_left decide_fame_round (pending st) (st, [])) as [s decided]. cbn [fst] in G.
  destruct (failed s); [unfold prounds; rewrite G; reflexivity|].
  unfold prounds. replace (pending (s <| pending := _ |>)) with
    (map (fun p : Z * bool => if existsb (Z.eqb (fst p)) decided then (fst p, true) else p) (pending s)) by (destruct s; reflexivity).
  rewrite map_map, <- G. apply map_ext. intros [r d]. cbn. destruct (existsb _ _); reflexivity.
Qed.

(** * Every reachable state *)
Record pinv (st : hg) : Prop := { pi_qp : QP st; pi_fr : FR st; pi_db : DB st }.

Lemma classic_lcle st R : lcle st R \/ ~ lcle st R.
Proof.
  unfold lcle. destruct (last_consensus st) as [l|]; [|right; intros [l [C _]]; discriminate].
  destruct (Z.le_gt_cases R l); [left; exists l; auto|right; intros [l' [E Hle]]; inversion E; lia].
Qed.

(* rounds at or below the last consensus round are flagged decided *)
Lemma flag_below_lc st R : rinv st -> lcle st R -> 0 <= R -> flag st R.
Proof.
  intros [A B] [l [Hl Hle]] H0.
  assert (Hg : get_round st R <> None).
  { apply (r_contig st A). pose proof (r_lc st A l Hl). lia. }
  destruct (get_round st R) as [ri|] eqn:E; [|contradiction]. exists ri. split; [exact E|].
  destruct (r_q st B R ri E) as [Hin|Hd]; [|exact Hd].
  exfalso. pose proof (r_above st B R Hin) as Hlt. unfold lc_lt in Hlt. rewrite Hl in Hlt. lia.
Qed.

Lemma rv_fields s s' : rv s' = rv s ->
  rounds s' = rounds s /\ pending s' = pending s /\ last_consensus s' = last_consensus s /\
  frames s' = frames s /\ delivered s' = delivered s.
Proof. unfold rv, cv. intros H. inversion H. auto. Qed.

Lemma bview_fields s s' : bview s' = bview s ->
  delivered s' = delivered s /\ frames s' = frames s /\ last_consensus s' = last_consensus s.
Proof. unfold bview. intros H. inversion H. auto. Qed.

Section Run.
  Variables (g : peerset) (all : list event).
  Hypothesis ID : ids_determine all.
  Hypothesis NA : no_accept all.
  Variables (self_ : Z) (oracle_ : list Z).
  Let init := init_hg self_ g oracle_.

  (* the receiving condition of a flagged round is the same one step later *)
  Lemma rcond_step ops o j x ex ex' : Forall (hop_ok all) (ops ++ [o]) -> flag (hrun init ops) j ->
    get_event (hrun init ops) x = Some ex -> get_event (hrun init (ops ++ [o])) x = Some ex' ->
    (rcond g (hrun init ops) j x <-> rcond g (hrun init (ops ++ [o])) j x).
  Proof.
    intros H Hfl Hex Hex'. pose proof H as H'. apply Forall_app in H'. destruct H' as [Hops Ho]. inversion Ho as [|? ? Ho' _]; subst.
    pose proof (hrun_nf g all self_ oracle_ ops ID NA Hops) as N. pose proof (hrun_nf g all self_ oracle_ (ops ++ [o]) ID NA H) as N'.
    fold init in N, N'. pose proof (hrun_app init ops [o]) as Eapp. cbn [hrun fold_left] in Eapp.
    set (st := hrun init ops) in *. set (st' := hrun init (ops ++ [o])) in *.
    pose proof (nf_good g all st N) as G. pose proof (nf_good g all st' N') as G'.
    assert (SB : same_bodies st st').
    { apply (same_bodies_of_universe all g); auto;
        [apply (g_from _ _ (gi_core _ _ (nf_g _ _ _ N)))|apply (g_from _ _ (gi_core _ _ (nf_g _ _ _ N')))]. }
    assert (Sub : forall y, get_event st y <> None -> get_event st' y <> None).
    { intros y Hy. rewrite Eapp. destruct (get_event st y) as [ey|] eqn:E; [|contradiction].
      destruct (m_e _ _ (proj2 (hstep_ginv all st o ID Ho' (nf_g _ _ _ N))) y ey E) as [ey' [E' _]]. rewrite E'. discriminate. }
    apply rcond_same; [apply (fam_nodup g st j G)|apply (fam_nodup g st' j G')| |].
    - intros w. apply (fam_stable_step g all ID NA self_ oracle_ ops o j w H Hfl).
    - intros w Hw. apply (fam_frec g st j w G) in Hw.
      destruct (wits_stored g st G j w (frec_wits g st j w true G Hw)) as [ew Hew].
      assert (Hw' : get_event st' w <> None) by (apply Sub; rewrite Hew; discriminate).
      destruct (get_event st' w) as [ew'|] eqn:Hew'; [|contradiction].
      symmetry. apply (see_agree g st st' G G' SB w x ew ew' ex ex' Hew Hew' Hex Hex').
  Qed.

  Theorem hrun_pinv ops : Forall (hop_ok all) ops -> pinv (hrun init ops).
  Proof.
    induction ops as [|o ops IH] using rev_ind; intros H.
    - cbn [hrun fold_left].
      destruct (cw_fields _ _ (cw_init self_ g oracle_)) as [Ev [Ro _]].
      assert (GR : forall r, get_round init r = None) by (intros r; unfold get_round, init; rewrite Ro; cbn; apply zget_empty).
      assert (GE : forall x, get_event init x = None) by (intros x; unfold get_event, init; rewrite Ev; cbn; apply zget_empty).
      constructor.
      + intros r Hr. rewrite GR in Hr. contradiction.
      + intros R f Hz. exfalso. pose proof (r_frames _ (proj1 (rinv_init self_ g oracle_)) R f) as _.
        pose proof (gi_f _ _ (ginv_init all self_ g oracle_) R f Hz) as [_ [_ [_ [_ [Hst _]]]]].
        destruct (f_events f) as [|fe l] eqn:E.
        * (* an empty cached frame cannot exist initially: the frame cache is empty *)
          revert Hz. unfold init, init_hg. destruct (set_peerset (empty_hg self_) 0 g) as [s|] eqn:S.
          -- pose proof (ov_set_peerset _ _ _ _ S) as O. unfold ov in O. apply (f_equal snd) in O. cbn [snd] in O.
             pose proof O as Fr.
             replace (frames (s <| validators := g |> <| oracle := oracle_ |>)) with (frames s) by (destruct s; reflexivity).
             rewrite Fr. cbn. rewrite zget_empty. discriminate.
          -- cbn. rewrite zget_empty. discriminate.
        * destruct (Hst fe (or_introl eq_refl)) as [ex Hex]. rewrite GE in Hex. discriminate.
      + intros x ex R Hx. rewrite GE in Hx. discriminate.
    - pose proof H as H'. apply Forall_app in H'. destruct H' as [Hops Ho]. inversion Ho as [|? ? Ho' _]; subst.
      specialize (IH Hops). destruct IH as [Qp Fr Db].
      pose proof (hrun_nf g all self_ oracle_ ops ID NA Hops) as N. pose proof (hrun_nf g all self_ oracle_ (ops ++ [o]) ID NA H) as N'.
      pose proof (hrun_uinv g all self_ oracle_ ops ID NA Hops) as UI.
      fold init in N, N', UI. pose proof (hrun_app init ops [o]) as Eapp. cbn [hrun fold_left] in Eapp.
      set (st := hrun init ops) in *. set (st' := hrun init (ops ++ [o])) in *.
      (* the uninteresting steps *)
      assert (Same : rv st' = rv st -> events st' = events st -> pinv st').
      { intros Erv Ev. destruct (rv_fields _ _ Erv) as [Ro [Pe [Lc [Frm Dl]]]].
        assert (Hl : forall R, lcle st' R <-> lcle st R) by (intros R; unfold lcle; rewrite Lc; reflexivity).
        constructor.
        - intros r. unfold get_round, prounds. rewrite Ro, Pe. intros Hr. destruct (Qp r Hr); [left; assumption|right; apply Hl; assumption].
        - intros R f. rewrite Frm. intros Hz. apply Hl. eapply Fr; eauto.
        - intros x ex R. unfold get_event. rewrite Ev, Frm, Dl. intros Hx Hr Hlc. apply Hl in Hlc. eapply Db; eauto. }
      destruct o as [e|].
      2:{ apply Same; rewrite Eapp; cbn [hstep].
          - unfold process_sigpool. generalize (sigpool st). intros l. generalize st. clear.
            induction l as [|s l IHl]; intros st; cbn [fold_left]; [reflexivity|]. rewrite IHl. apply (proj1 (process_sig_rv st s)).
          - destruct (cw_fields _ _ (cw_process_sigpool st)) as [Ev _]. exact Ev. }
      destruct Ho' as [Hin Hid]. rewrite Eapp. cbn [hstep]. unfold step, insert_and_run.
      pose proof (g_dag _ _ (gi_core _ _ (nf_g _ _ _ N))) as OK. pose proof (g_from _ _ (gi_core _ _ (nf_g _ _ _ N))) as FA.
      destruct (insert_event st e) as [r0 s] eqn:E.
      destruct (insert_event_inv st e all r0 s OK FA ID Hin Hid E) as [_ [_ Hns]].
      assert (Hrej : r0 <> InsOk -> pinv (snd (r0, s))).
      { intros Hn. rewrite (insert_reject_noop st e r0 s E Hn Hns). constructor; assumption. }
      destruct r0; try (apply Hrej; discriminate). clear Hrej. cbn [snd].
      assert (Est' : st' = run_consensus s).
      { rewrite Eapp. cbn [hstep]. unfold step, insert_and_run. rewrite E. reflexivity. }
      destruct (insert_post_ins g all st e s ID Hin Hid N E) as [PI Hsub].
      pose proof (run_consensus_stages g all (e_id e) s NA PI) as SG. rewrite (sg_eq _ _ _ SG) in Est' |- *.
      set (s1 := divide_rounds s) in *. set (s2 := decide_fame s1) in *. set (s3 := decide_round_received s2) in *.
      (* the queue up to s3 *)
      assert (Q3 : qstep st s3).
      { pose proof (insert_event_rstep st e) as Rs. rewrite E in Rs. cbn [snd] in Rs.
        pose proof (insert_event_rounds st e) as [Ro _]. rewrite E in Ro. cbn [snd] in Ro.
        assert (Q0 : qstep st s) by (apply qstep_same; [apply (s_pend _ _ Rs)|exact Ro|apply (s_lb _ _ Rs)|apply (s_lc _ _ Rs)|apply (s_fr _ _ Rs)|apply (s_del _ _ Rs)]).
        assert (Q1 : qstep s s1) by (apply divide_rounds_qstep, (r_lb _ (proj1 (pi_r _ _ _ _ PI)))).
        assert (Q2 : qstep s1 s2).
        { destruct (bview_fields _ _ (decide_fame_bview s1)) as [Dl [Frm Lc]].
          constructor; auto.
          - intros r. unfold s2. rewrite decide_fame_prounds. auto.
          - intros r Hr. left. intros C. apply Hr. apply (ck_rd _ _ (decide_fame_ckeep s1)). exact C.
          - pose proof (r_lb _ (proj1 (sg_r2 _ _ _ SG))) as L2. pose proof (r_lb _ (proj1 (sg_r1 _ _ _ SG))) as L1.
            fold s1 in L1, L2. fold s2 in L2. congruence. }
        assert (Q3' : qstep s2 s3).
        { pose proof (decide_round_received_rstep s2 (proj1 (rinv_bounded _ (sg_r2 _ _ _ SG)))) as Rs3. fold s3 in Rs3.
          constructor; [intros r; unfold prounds; rewrite (s_pend _ _ Rs3); auto| |apply (s_lb _ _ Rs3)|apply (s_lc _ _ Rs3)|apply (s_fr _ _ Rs3)|apply (s_del _ _ Rs3)].
          intros r Hr. left. intros C. apply Hr. apply (s_dom _ _ Rs3). exact C. }
        eapply qstep_trans; [exact Q0|]. eapply qstep_trans; [exact Q1|]. eapply qstep_trans; eauto. }
      assert (Hl3 : forall R, lcle s3 R <-> lcle st R) by (intros R; unfold lcle; rewrite (qs_lc _ _ Q3); reflexivity).
      assert (QP3 : QP s3).
      { intros r Hr. destruct (qs_r _ _ Q3 r Hr) as [H0|H0]; [|left; exact H0].
        destruct (Qp r H0) as [H1|H1]; [left; apply (qs_p _ _ Q3); exact H1|right; apply Hl3; exact H1]. }
      assert (PF : pfold g all s3 (pending s3) s3).
      { pose proof (sg_r3 _ _ _ SG) as R3. fold s1 in R3. fold s2 in R3. fold s3 in R3. destruct R3 as [A3 B3]. constructor.
        - apply (sg_pd3 _ _ _ SG).
        - apply (sg_f3 _ _ _ SG).
        - intros R f. rewrite (qs_fr _ _ Q3). intros Hz. apply Hl3. eapply Fr; eauto.
        - intros x ex R _ _ Hlc Hn. contradiction.
        - intros r Hr. destruct (QP3 r Hr); auto.
        - intros r Hr. apply (r_above _ B3 r Hr).
        - apply (r_sorted _ A3).
        - intros [r d] Hpr. destruct (r_pend _ A3 r d Hpr) as [ri [Hri _]]. cbn [fst]. rewrite Hri. discriminate.
        - apply (c_listed _ (g_o _ _ (sg_c3 _ _ _ SG))). }
      destruct (process_decided_rounds_pinv g all s3 NA PF) as [QP4 [FR4 [DBL4 [Fx4 Dx4]]]].
      rewrite <- Est' in QP4, FR4, DBL4, Fx4, Dx4 |- *.
      constructor; [exact QP4|exact FR4|].
      (* DB: rounds already processed before this step receive nothing new *)
      intros x ex' R Hx' Hrr Hlc.
      pose proof (nf_good g all st N) as G. pose proof (nf_good g all st' N') as G'.
      assert (SB : same_bodies st st').
      { apply (same_bodies_of_universe all g st st' ID G G');
          [apply (g_from _ _ (gi_core _ _ (nf_g _ _ _ N)))|apply (g_from _ _ (gi_core _ _ (nf_g _ _ _ N')))]. }
      assert (Sub : forall y, get_event st y <> None -> get_event st' y <> None).
      { intros y Hy. rewrite Eapp. destruct (get_event st y) as [ey|] eqn:Ey; [|contradiction].
        destruct (m_e _ _ (proj2 (hstep_ginv all st (HInsert e) ID (conj Hin Hid) (nf_g _ _ _ N))) y ey Ey) as [ey' [E' _]]. rewrite E'. discriminate. }
      destruct (classic_lcle st R) as [HlcR|HlcR]; [|apply (DBL4 x ex' R Hx' Hrr Hlc); intros C; apply HlcR; apply Hl3; exact C].
      assert (Rx' : rr_of st' x = Some R) by (unfold rr_of; rewrite Hx'; exact Hrr).
      destruct (rr_spec_run g all ID NA self_ oracle_ (ops ++ [HInsert e]) H x R Rx') as [r [Hrm [Hlt [Hfl [Hno Hrc]]]]].
      fold init in Hrm, Hfl, Hno, Hrc. fold st' in Hrm, Hfl, Hno, Hrc.
      assert (HR0 : 0 <= R).
      { destruct (c_rdom _ _ _ (gd_c _ _ G') x r Hrm) as [H0 _]. lia. }
      pose proof (flag_below_lc st R (nf_r _ _ _ N) HlcR HR0) as FlR.
      (* x is stored in st: it is an ancestor of a famous witness of round R *)
      assert (Hxs : exists ex, get_event st x = Some ex).
      { destruct Hrc as [Hsee Hsm]. pose proof (super_majority_pos g) as Hp.
        assert (Hne : exists w, In w (fam st' R)).
        { destruct (fam st' R) as [|w l]; [cbn in Hsm; lia|exists w; left; reflexivity]. }
        destruct Hne as [w Hw'].
        assert (Hw : In w (fam st R)) by (apply (fam_stable_step g all ID NA self_ oracle_ ops (HInsert e) R w H FlR); exact Hw').
        apply (fam_frec g st R w G) in Hw.
        destruct (wits_stored g st G R w (frec_wits g st R w true G Hw)) as [ew Hew].
        assert (Hws' : get_event st' w <> None) by (apply Sub; rewrite Hew; discriminate).
        destruct (get_event st' w) as [ew'|] eqn:Hew'; [|contradiction].
        pose proof (Hsee w Hw') as Hs. apply (see_true_anc g st' w x ew' ex' G' Hew' Hx') in Hs.
        destruct (anc_common g st' st G' G (same_bodies_sym _ _ SB) w ew' ew x Hew' Hew Hs) as [_ Hst]. exact Hst. }
      destruct Hxs as [ex Hex].
      destruct (ev_rr ex) as [R0|] eqn:Hrr0.
      + (* already received in st: the same round, and everything persists *)
        destruct (m_rr _ _ (proj2 (hstep_ginv all st (HInsert e) ID (conj Hin Hid) (nf_g _ _ _ N))) x ex R0 Hex Hrr0) as [ex2 [Hx2 Hr2]].
        rewrite <- Eapp in Hx2. rewrite Hx' in Hx2. inversion Hx2; subst ex2. assert (R0 = R) by congruence. subst R0.
        destruct (Db x ex R Hex Hrr0 HlcR) as [f [Hz [Hin1 Hp]]]. exists f.
        split; [apply Fx4; unfold st; rewrite <- (qs_fr _ _ Q3) in Hz; exact Hz|]. split; [exact Hin1|].
        intros Hp'. assert (Hp0 : payload ex) by (unfold payload in *; rewrite (SB x ex ex' Hex Hx'); exact Hp').
        destruct (Hp Hp0) as [d [Hd [A B]]]. exists d. split; [apply Dx4; rewrite (qs_dl _ _ Q3); exact Hd|auto].
      + (* not received in st: impossible *)
        exfalso.
        assert (Hu : ustop g st x) by (apply (ui_u _ _ UI x); [rewrite Hex; discriminate|unfold rr_of; rewrite Hex; exact Hrr0]).
        destruct Hu as [r' [j0 [Hr' [Hlt' [Hnf [_ Hall]]]]]].
        destruct (memo_agree g st st' G G' SB x ex ex' Hex Hx') as [Er _]. assert (r' = r) by congruence. subst r'.
        assert (Hj0 : R < j0).
        { destruct (Z.lt_ge_cases R j0) as [|Hge]; [assumption|exfalso]. apply Hnf.
          apply (flag_below_lc st j0 (nf_r _ _ _ N)); [|destruct (c_rdom _ _ _ (gd_c _ _ G) x r Hr') as [H0 _]; lia].
          destruct HlcR as [l [Hl Hle]]. exists l. split; [exact Hl|lia]. }
        destruct (Hall R ltac:(lia)) as [_ Hnr]. apply Hnr.
        apply (rcond_step ops (HInsert e) R x ex ex' H FlR Hex Hx'). exact Hrc.
  Qed.
  (* the facts about an accepted insertion that the later invariants start from *)
  Lemma step_ok_facts ops e s : Forall (hop_ok all) (ops ++ [HInsert e]) ->
    insert_event (hrun init ops) e = (InsOk, s) ->
    let s3 := decide_round_received (decide_fame (divide_rounds s)) in
    hrun init (ops ++ [HInsert e]) = process_decided_rounds s3 /\ qstep (hrun init ops) s3 /\
    pfold g all s3 (pending s3) s3 /\ rinv s3 /\ lcev s3 = lcev (hrun init ops).
  Proof.
    intros H E. pose proof H as H'. apply Forall_app in H'. destruct H' as [Hops Ho]. inversion Ho as [|? ? Ho' _]; subst.
    destruct (hrun_pinv ops Hops) as [Qp Fr Db].
    pose proof (hrun_nf g all self_ oracle_ ops ID NA Hops) as N.
    fold init in N. pose proof (hrun_app init ops [HInsert e]) as Eapp. cbn [hrun fold_left] in Eapp.
    set (st := hrun init ops) in *.
    destruct Ho' as [Hin Hid].
    assert (Est' : hrun init (ops ++ [HInsert e]) = run_consensus s).
    { rewrite Eapp. cbn [hstep]. unfold step, insert_and_run. rewrite E. reflexivity. }
    destruct (insert_post_ins g all st e s ID Hin Hid N E) as [PI Hsub].
    pose proof (run_consensus_stages g all (e_id e) s NA PI) as SG. rewrite (sg_eq _ _ _ SG) in Est'.
    set (s1 := divide_rounds s) in *. set (s2 := decide_fame s1) in *. set (s3 := decide_round_received s2) in *.
    assert (Q3 : qstep st s3).
    { pose proof (insert_event_rstep st e) as Rs. rewrite E in Rs. cbn [snd] in Rs.
      pose proof (insert_event_rounds st e) as [Ro _]. rewrite E in Ro. cbn [snd] in Ro.
      assert (Q0 : qstep st s) by (apply qstep_same; [apply (s_pend _ _ Rs)|exact Ro|apply (s_lb _ _ Rs)|apply (s_lc _ _ Rs)|apply (s_fr _ _ Rs)|apply (s_del _ _ Rs)]).
      assert (Q1 : qstep s s1) by (apply divide_rounds_qstep, (r_lb _ (proj1 (pi_r _ _ _ _ PI)))).
      assert (Q2 : qstep s1 s2).
      { destruct (bview_fields _ _ (decide_fame_bview s1)) as [Dl [Frm Lc]].
        constructor; auto.
        - intros r. unfold s2. rewrite decide_fame_prounds. auto.
        - intros r Hr. left. intros C. apply Hr. apply (ck_rd _ _ (decide_fame_ckeep s1)). exact C.
        - pose proof (r_lb _ (proj1 (sg_r2 _ _ _ SG))) as L2. pose proof (r_lb _ (proj1 (sg_r1 _ _ _ SG))) as L1.
          fold s1 in L1, L2. fold s2 in L2. congruence. }
      assert (Q3' : qstep s2 s3).
      { pose proof (decide_round_received_rstep s2 (proj1 (rinv_bounded _ (sg_r2 _ _ _ SG)))) as Rs3. fold s3 in Rs3.
        constructor; [intros r; unfold prounds; rewrite (s_pend _ _ Rs3); auto| |apply (s_lb _ _ Rs3)|apply (s_lc _ _ Rs3)|apply (s_fr _ _ Rs3)|apply (s_del _ _ Rs3)].
        intros r Hr. left. intros C. apply Hr. apply (s_dom _ _ Rs3). exact C. }
      eapply qstep_trans; [exact Q0|]. eapply qstep_trans; [exact Q1|]. eapply qstep_trans; eauto. }
    assert (Hl3 : forall R, lcle s3 R <-> lcle st R) by (intros R; unfold lcle; rewrite (qs_lc _ _ Q3); reflexivity).
    assert (QP3 : QP s3).
    { intros r Hr. destruct (qs_r _ _ Q3 r Hr) as [H0|H0]; [|left; exact H0].
      destruct (Qp r H0) as [H1|H1]; [left; apply (qs_p _ _ Q3); exact H1|right; apply Hl3; exact H1]. }
    pose proof (sg_r3 _ _ _ SG) as R3. fold s1 in R3. fold s2 in R3. fold s3 in R3.
    split; [exact Est'|]. split; [exact Q3|]. split; [|split; [exact R3|]].
    - destruct R3 as [A3 B3]. constructor.
      + apply (sg_pd3 _ _ _ SG).
      + apply (sg_f3 _ _ _ SG).
      + intros R f. rewrite (qs_fr _ _ Q3). intros Hz. apply Hl3. eapply Fr; eauto.
      + intros x ex R _ _ Hlc Hn. contradiction.
      + intros r Hr. destruct (QP3 r Hr); auto.
      + intros r Hr. apply (r_above _ B3 r Hr).
      + apply (r_sorted _ A3).
      + intros [r d] Hpr. destruct (r_pend _ A3 r d Hpr) as [ri [Hri _]]. cbn [fst]. rewrite Hri. discriminate.
      + apply (c_listed _ (g_o _ _ (sg_c3 _ _ _ SG))).
    - unfold s3, s2, s1. rewrite decide_round_received_lcev, decide_fame_lcev, divide_rounds_lcev.
      pose proof (insert_event_lcev st e) as L. rewrite E in L. exact L.
  Qed.
End Run.

(** * Consequences: ancestors of committed events, the committed order *)

(* an ancestor of an event received in a processed round is received, and not later *)
Theorem committed_ancestor g all self_ oracle_ ops x a R :
  ids_determine all -> no_accept all -> Forall (hop_ok all) ops ->
  let st := hrun (init_hg self_ g oracle_) ops in
  rr_of st x = Some R -> lcle st R -> Ancestry.anc st x a ->
  exists R', rr_of st a = Some R' /\ R' <= R.
Proof.
  intros ID NA H st Hx Hlc Hanc.
  pose proof (hrun_nf g all self_ oracle_ ops ID NA H) as N. fold st in N.
  pose proof (nf_good g all st N) as G.
  destruct (rr_spec_run g all ID NA self_ oracle_ ops H x R Hx) as [rx [Hrx Sx]]. fold st in Hrx, Sx.
  assert (Hxs : exists ex, get_event st x = Some ex).
  { unfold rr_of in Hx. destruct (get_event st x) as [ex|]; [eauto|discriminate]. }
  destruct Hxs as [ex Hex].
  destruct (StronglySee.anc_stored g st G x ex a Hex Hanc) as [ea Hea].
  destruct (rr_of st a) as [R'|] eqn:Ha.
  - exists R'. split; [reflexivity|].
    destruct (rr_spec_run g all ID NA self_ oracle_ ops H a R' Ha) as [ra [Hra Sa]]. fold st in Hra, Sa.
    apply (rr_monotone_state g st a x R' R ra rx ea ex G Hea Hex Hanc Hra Hrx Sa Sx).
  - exfalso. pose proof (hrun_uinv g all self_ oracle_ ops ID NA H) as UI. fold st in UI.
    assert (Hu : ustop g st a) by (apply (ui_u _ _ UI a); [rewrite Hea; discriminate|exact Ha]).
    destruct Hu as [r [j0 [Hr [Hlt [Hnf [_ Hall]]]]]].
    pose proof (round_anc_le g st G x a Hanc ex rx r Hex Hrx Hr) as Hle.
    destruct Sx as [S1 [S2 [S3 [S4 S5]]]].
    assert (Hj0 : R < j0).
    { destruct (Z.lt_ge_cases R j0) as [|Hge]; [assumption|exfalso]. apply Hnf.
      apply (flag_below_lc st j0 (nf_r _ _ _ N)); [|destruct (c_rdom _ _ _ (gd_c _ _ G) a r Hr) as [H0 _]; lia].
      destruct Hlc as [l [Hl Hle']]. exists l. split; [exact Hl|lia]. }
    destruct (Hall R ltac:(lia)) as [_ Hnr]. apply Hnr. split; [|exact S5].
    intros w Hw. pose proof (S4 w Hw) as Hs.
    apply (fam_frec g st R w G) in Hw.
    destruct (wits_stored g st G R w (frec_wits g st R w true G Hw)) as [ew Hew].
    apply (see_true_anc g st w a ew ea G Hew Hea). eapply Ancestry.anc_trans; [|exact Hanc].
    apply (see_true_anc g st w x ew ex G Hew Hex). exact Hs.
Qed.

(* every event of a cached frame, and every ancestor of it, is in a cached frame of a round that is
   not later; if the ancestor carries a payload, it is in a delivered block that is not later, and
   inside the same block it comes first *)
Theorem order_extends_causality_static g all self_ oracle_ ops k d j b a ea :
  ids_determine all -> no_accept all -> Forall (hop_ok all) ops ->
  let st := hrun (init_hg self_ g oracle_) ops in
  nth_error (delivered st) k = Some d -> nth_error (f_events (b_frame d)) j = Some b ->
  OrderProofs.anc st a (fe_id b) -> get_event st a = Some ea -> payload ea ->
  exists k' d' i fa, nth_error (delivered st) k' = Some d' /\
    nth_error (f_events (b_frame d')) i = Some fa /\ fe_id fa = a /\
    ((k' < k)%nat \/ (k' = k /\ (i < j)%nat)).
Proof.
  intros ID NA H st Hk Hj Hanc Hea Hp.
  pose proof (hrun_nf g all self_ oracle_ ops ID NA H) as N. fold st in N.
  pose proof (nf_g _ _ _ N) as Gi. pose proof (nf_r _ _ _ N) as [RA RB].
  pose proof (hrun_pinv g all ID NA self_ oracle_ ops H) as [Qp Fr Db]. fold st in Qp, Fr, Db.
  assert (Hd : In d (delivered st)) by (eapply nth_error_In; exact Hk).
  destruct (delivered_block_payload all st d Gi Hd) as [Hf _].
  assert (Hb : In b (f_events (b_frame d))) by (eapply nth_error_In; exact Hj).
  destruct (frame_events_received all st (b_rr d) (b_frame d) b Gi Hf Hb) as [_ [_ [eb [Heb [Hrb _]]]]].
  assert (Rb : rr_of st (fe_id b) = Some (b_rr d)) by (unfold rr_of; rewrite Heb; exact Hrb).
  pose proof (Fr _ _ Hf) as Hlc.
  destruct (committed_ancestor g all self_ oracle_ ops (fe_id b) a (b_rr d) ID NA H Rb Hlc (oanc_anc st a (fe_id b) Hanc))
    as [R' [Ra Hle]]. fold st in Ra.
  assert (Hra : ev_rr ea = Some R') by (unfold rr_of in Ra; rewrite Hea in Ra; exact Ra).
  assert (Hlc' : lcle st R') by (destruct Hlc as [l [Hl Hl']]; exists l; split; [exact Hl|lia]).
  destruct (Db a ea R' Hea Hra Hlc') as [f' [Hf' [Hin' Hpay]]].
  destruct (Hpay Hp) as [d' [Hd' [Hr' Hfd']]].
  destruct (In_nth_error _ _ Hd') as [k' Hk'].
  apply in_map_iff in Hin'. destruct Hin' as [fa [Hfa Hin']]. rewrite <- Hfd' in Hin'.
  destruct (In_nth_error _ _ Hin') as [i Hi].
  exists k', d', i, fa. split; [exact Hk'|]. split; [exact Hi|]. split; [exact Hfa|].
  pose proof (r_del_sorted st RA) as Srt.
  assert (Nk : nth_error (map b_rr (delivered st)) k = Some (b_rr d)) by (apply map_nth_error; exact Hk).
  assert (Nk' : nth_error (map b_rr (delivered st)) k' = Some (b_rr d')) by (apply map_nth_error; exact Hk').
  destruct (lt_eq_lt_dec k' k) as [[Hlt|Heq]|Hgt].
  - left; exact Hlt.
  - right. split; [exact Heq|]. subst k'. rewrite Hk in Hk'. inversion Hk'; subst d'.
    apply (delivered_block_respects_ancestry all st d i j fa b Gi Hd Hi Hj). rewrite Hfa. exact Hanc.
  - exfalso. pose proof (sorted_nth_lt_gen _ Srt k k' _ _ Hgt Nk Nk'). lia.
Qed.

(* the same for cached frames, for every ancestor (payload or not): it is in the cached frame of a
   round that is not later *)
Theorem frames_extend_causality_static g all self_ oracle_ ops R f b a :
  ids_determine all -> no_accept all -> Forall (hop_ok all) ops ->
  let st := hrun (init_hg self_ g oracle_) ops in
  zget R (frames st) = Some f -> In b (f_events f) -> OrderProofs.anc st a (fe_id b) ->
  exists R' f' fa, zget R' (frames st) = Some f' /\ In fa (f_events f') /\ fe_id fa = a /\ R' <= R.
Proof.
  intros ID NA H st Hf Hb Hanc.
  pose proof (hrun_nf g all self_ oracle_ ops ID NA H) as N. fold st in N.
  pose proof (nf_g _ _ _ N) as Gi. pose proof (nf_good g all st N) as G.
  pose proof (hrun_pinv g all ID NA self_ oracle_ ops H) as [Qp Fr Db]. fold st in Qp, Fr, Db.
  destruct (frame_events_received all st R f b Gi Hf Hb) as [_ [_ [eb [Heb [Hrb _]]]]].
  assert (Rb : rr_of st (fe_id b) = Some R) by (unfold rr_of; rewrite Heb; exact Hrb).
  pose proof (Fr _ _ Hf) as Hlc.
  pose proof (oanc_anc st a (fe_id b) Hanc) as Hanc'.
  destruct (committed_ancestor g all self_ oracle_ ops (fe_id b) a R ID NA H Rb Hlc Hanc') as [R' [Ra Hle]]. fold st in Ra.
  destruct (StronglySee.anc_stored g st G (fe_id b) eb a Heb Hanc') as [ea Hea].
  assert (Hra : ev_rr ea = Some R') by (unfold rr_of in Ra; rewrite Hea in Ra; exact Ra).
  assert (Hlc' : lcle st R') by (destruct Hlc as [l [Hl Hl']]; exists l; split; [exact Hl|lia]).
  destruct (Db a ea R' Hea Hra Hlc') as [f' [Hf' [Hin' _]]].
  apply in_map_iff in Hin'. destruct Hin' as [fa [Hfa Hin']].
  exists R', f', fa. auto.
Qed.

(* the same with the "proper ancestor" relation of OrderProofs.v and the stored fields *)
Theorem committed_ancestor_o g all self_ oracle_ ops a b eb R :
  ids_determine all -> no_accept all -> Forall (hop_ok all) ops ->
  let st := hrun (init_hg self_ g oracle_) ops in
  OrderProofs.anc st a b -> get_event st b = Some eb -> ev_rr eb = Some R ->
  (exists l, last_consensus st = Some l /\ R <= l) ->
  exists ea R', get_event st a = Some ea /\ ev_rr ea = Some R' /\ R' <= R.
Proof.
  intros ID NA H st Hanc Hb Hr Hlc.
  assert (Rb : rr_of st b = Some R) by (unfold rr_of; rewrite Hb; exact Hr).
  destruct (committed_ancestor g all self_ oracle_ ops b a R ID NA H Rb Hlc (oanc_anc st a b Hanc)) as [R' [Ra Hle]].
  fold st in Ra. unfold rr_of in Ra. destruct (get_event st a) as [ea|] eqn:Ha; [|discriminate].
  exists ea, R'. auto.
Qed.
