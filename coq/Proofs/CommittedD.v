(* Dynamic membership (model after fix 05eda0b): processed rounds, in every state of a run that respects the distance
   bound.  QP / FR / DB of Proofs/Committed.v; the non-failure of ProcessDecidedRounds is taken from the non-failure of
   the final state (failure is sticky), the only frame fact carried through the fold is [frok].
   Adapted from Proofs/Committed.v. *)
From Coq Require Import ZArith List Bool Lia ZifyBool Permutation Sorted.
From RecordUpdate Require Import RecordSet.
From V Require Import Model.ZMap Model.Quorum Model.Voting Model.VotingRef Model.HgImpl Model.PeerSetSpec Model.Window
  Proofs.ZMapFacts Proofs.QuorumProofs Proofs.HgFrames Proofs.HgDagFrames Proofs.AdmissionProofs Proofs.InsertShape Proofs.Ancestry
  Proofs.HgBlockFrames Proofs.BlockInv Proofs.RoundOrder Proofs.OrderSort Proofs.OrderFrames Proofs.OrderProofs
  Proofs.VotingProofs Proofs.FameBridge Proofs.Static Proofs.FirstDesc Proofs.FdWalk Proofs.DivInv Proofs.CInvRun
  Proofs.Height Proofs.StronglySee Proofs.RoundFun Proofs.ViewOk Proofs.SameHistory Proofs.Agreement Proofs.NoFail
  Proofs.LrFrames Proofs.LceFrames Proofs.FameInv Proofs.LateWitness Proofs.FamousSet Proofs.DecidedFlag Proofs.RoundReceived
  Proofs.UndFrames Proofs.Undetermined Proofs.Committed Proofs.PeerSetProofs Proofs.LrMono Proofs.WindowStable Proofs.GapWindow
  Proofs.FirstDescD Proofs.InsertInvD Proofs.DivInvD Proofs.CInvRunD Proofs.StronglySeeD Proofs.RoundFunD Proofs.RoundAgreeD
  Proofs.ViewOkD Proofs.SameHistoryD Proofs.AgreementD Proofs.FameInvD Proofs.LateWitnessD Proofs.FamousSetD Proofs.DecidedFlagD
  Proofs.RoundReceivedD Proofs.UndeterminedD.
Import ListNotations RecordSetNotations.
Open Scope Z_scope.

(** * ProcessDecidedRounds *)
(* the state of the fold over the pending rounds, [lst] = the entries still to be visited *)
Definition frok (s : hg) : Prop := forall q g0, zget q (frames s) = Some g0 -> f_round g0 = q.

Record pfoldD (s0 : hg) (lst : list (Z * bool)) (s : hg) : Prop := {
  pf_pd : frok s;
  pf_nf : failed s = false;
  pf_fr : FR s;
  pf_db : DBL s0 s;
  pf_cov : forall r, get_round s r <> None -> lcle s r \/ In r (map fst lst);
  pf_above : forall r, In r (map fst lst) -> lc_lt s r;
  pf_sorted : StronglySorted Z.lt (map fst lst);
  pf_pend : forall pr, In pr lst -> get_round s (fst pr) <> None;
  pf_listed : forall x ex R, get_event s x = Some ex -> ev_rr ex = Some R -> In x (rcv s R)
}.

Lemma process_round_pfoldD s0 s p pr rest : pfoldD s0 (pr :: rest) s ->
  failed (fst (fst (process_round (s, p, false) pr))) = false ->
  (snd pr = false /\ process_round (s, p, false) pr = (s, p, true)) \/
  (snd pr = true /\ exists s', process_round (s, p, false) pr = (s', p ++ [fst pr], false) /\ pfoldD s0 rest s' /\
     pending s' = pending s /\ fext s s' /\ incl (delivered s) (delivered s')).
Proof.
  intros [PD Hf Hfr Hdb Hcov Habove Hsort Hpend Hlist] F'.
  destruct pr as [R d]. cbn [fst snd] in *.
  destruct d; [right; split; [reflexivity|]|left; split; [reflexivity|]; unfold process_round; rewrite Hf; reflexivity].
  assert (HgR : get_round s R <> None) by (apply (Hpend (R, true)); left; reflexivity).
  pose proof (cw_process_round s p false (R, true)) as C'.
  pose proof (Habove R (or_introl eq_refl)) as HlcR.
  revert F' C'. unfold process_round. rewrite Hf. cbn [orb negb fst snd].
  destruct (get_round s R) as [ri|] eqn:Hri; [|contradiction].
  destruct (get_frame s R) as [[f|] s1] eqn:Egf; [|cbn [fst]; intros F' _; rewrite failed_fail_true in F'; discriminate].
  destruct (OrderProofs.get_frame_some s R f s1 Egf) as [Hz1 [Fx1 [Ev1 Dl1]]].
  intros F' C'. cbn [fst] in F', C'.
  set (s2 := process_frame s1 f) in *. set (s' := bump_last_consensus s2 R) in *.
  exists s'. split; [reflexivity|].
  cut (pfoldD s0 rest s' /\ pending s2 = pending s /\ fext s s' /\ incl (delivered s) (delivered s')).
  { intros [A [B [C D]]]. split; [exact A|]. split; [|split; assumption].
    destruct (bump_keep s2 R) as [[_ [_ [Pe3 _]]] _]. fold s' in Pe3. congruence. }
  (* facts about the intermediate states *)
  assert (Hfr0 : forall q g0, zget q (frames s) = Some g0 -> f_round g0 = q) by exact PD.
  destruct (get_frame_spec s R f s1 Hfr0 Egf) as [HfR [_ [Ro1 [_ [Pe1 [Lc1 [_ [_ Hfr1]]]]]]]].
  pose proof (process_frame_cv s1 f) as Cv2. fold s2 in Cv2.
  assert (Lc2 : last_consensus s2 = last_consensus s1) by (unfold cv in Cv2; inversion Cv2; reflexivity).
  assert (Fr2 : frames s2 = frames s1) by (unfold cv in Cv2; inversion Cv2; reflexivity).
  destruct (bump_keep s2 R) as [_ [Fr3 Dl3]]. fold s' in Fr3, Dl3.
  assert (HlcR2 : lc_lt s2 R) by (unfold lc_lt in *; rewrite Lc2, Lc1; exact HlcR).
  pose proof (bump_lc s2 R HlcR2) as Lc3. fold s' in Lc3.
  destruct (cw_fields _ _ C') as [Ev' [Ro' _]].
  assert (GE : forall y, get_event s' y = get_event s y) by (intros y; unfold get_event; rewrite Ev'; reflexivity).
  assert (GR : forall r, get_round s' r = get_round s r) by (intros r; unfold get_round; rewrite Ro'; reflexivity).
  assert (RC : forall r, rcv s' r = rcv s r) by (intros r; unfold rcv; rewrite GR; reflexivity).
  assert (Mono : forall R0, lcle s R0 -> lcle s' R0).
  { intros R0 [l [Hl Hle]]. exists R. split; [exact Lc3|]. unfold lc_lt in HlcR. rewrite Hl in HlcR. lia. }
  assert (FrExt : forall q g0, zget q (frames s) = Some g0 -> zget q (frames s') = Some g0).
  { intros q g0 Hq. rewrite Fr3, Fr2. apply Fx1. exact Hq. }
  destruct (process_frame_delivered_ext s1 f) as [dl Hdl]. fold s2 in Hdl.
  assert (DlExt : forall d, In d (delivered s) -> In d (delivered s')).
  { intros d Hd. rewrite Dl3, Hdl, Dl1. apply in_or_app. left. exact Hd. }
  (* the frame of round R contains every event received in round R *)
  assert (Hcomplete : forall x, In x (rcv s R) -> In x (map fe_id (f_events f))).
  { intros x Hx. destruct (get_frame_cases s R) as [[E _]|[E|[f' [ri' [evs [E [Hz0 [Hri' [_ [Hev [Hm _]]]]]]]]]]]; rewrite Egf in E.
    - exfalso. inversion E as [[H1 H2]]. symmetry in H1. destruct (Hfr R f H1) as [l [Hl Hle]].
      unfold lc_lt in HlcR. rewrite Hl in HlcR. lia.
    - discriminate.
    - inversion E; subst f'. rewrite Hev. unfold rcv in Hx. rewrite Hri' in Hx.
      apply (Permutation_in _ (Permutation_sym (Permutation_map fe_id (fe_sort_perm s evs)))). rewrite Hm. exact Hx. }
  split; [|split; [unfold cv in Cv2; inversion Cv2; congruence|split; [exact FrExt|exact DlExt]]].
  constructor.
  - intros q g0. rewrite Fr3, Fr2. apply Hfr1.
  - exact F'.
  - intros q g0. rewrite Fr3, Fr2. intros Hq.
    destruct (Z.eq_dec q R) as [->|Hne]; [exists R; split; [exact Lc3|lia]|].
    apply Mono. apply (Hfr q g0).
    destruct (get_frame_cases s R) as [[E _]|[E|[f' [ri' [evs [E _]]]]]]; rewrite Egf in E.
    + inversion E; subst. exact Hq.
    + discriminate.
    + inversion E; subst f' s1. revert Hq.
      replace (frames (s <| frames := zset R f (frames s) |>)) with (zset R f (frames s)) by (destruct s; reflexivity).
      rewrite zget_zset. destruct (Z.eqb_spec R q); [congruence|]. cbn [andb]. auto.
  - (* DB *)
    intros x ex R0. rewrite GE. intros Hx Hrr [l [Hl Hle]] Hbase. rewrite Lc3 in Hl. inversion Hl; subst l.
    pose proof (Hlist x ex R0 Hx Hrr) as Hin.
    assert (HgR0 : get_round s R0 <> None).
    { intros D. unfold rcv in Hin. rewrite D in Hin. destruct Hin. }
    destruct (Z.eq_dec R0 R) as [->|Hne].
    + exists f. split; [rewrite Fr3, Fr2; exact Hz1|]. split; [apply Hcomplete; exact Hin|].
      intros Hp. apply Hcomplete in Hin. apply in_map_iff in Hin. destruct Hin as [fe [Efe Hfe]].
      assert (Hx1 : get_event s1 (fe_id fe) = Some ex) by (unfold get_event; rewrite Ev1, Efe; exact Hx).
      destruct (process_frame_delivers s1 f fe ex Hfe Hx1 Hp) as [bf [Hd [Hb1 Hb2]]]. fold s2 in Hd.
      exists bf. split; [rewrite Dl3, Hd; apply in_or_app; right; left; reflexivity|]. split; [congruence|exact Hb2].
    + destruct (Hcov R0 HgR0) as [Hlc|Hin0].
      * destruct (Hdb x ex R0 Hx Hrr Hlc Hbase) as [f0 [Hz0 [Hin1 Hp0]]]. exists f0.
        split; [apply FrExt; exact Hz0|]. split; [exact Hin1|].
        intros Hp. destruct (Hp0 Hp) as [d0 [Hd0 [A B]]]. exists d0. split; [apply DlExt; exact Hd0|auto].
      * exfalso. cbn [map fst] in Hin0. destruct Hin0 as [E|Hin0]; [congruence|].
        inversion Hsort as [|? ? _ Hall]; subst. rewrite Forall_forall in Hall. specialize (Hall R0 Hin0). lia.
  - intros r. rewrite GR. intros Hg. destruct (Hcov r Hg) as [H|[E|H]]; [left; apply Mono; exact H|left; exists R; split; [exact Lc3|cbn in E; lia]|right; exact H].
  - intros r Hr. unfold lc_lt. rewrite Lc3. inversion Hsort as [|? ? _ Hall]; subst. rewrite Forall_forall in Hall. apply Hall. exact Hr.
  - inversion Hsort; assumption.
  - intros pr Hpr. rewrite GR. apply Hpend. right. exact Hpr.
  - intros x ex R0. rewrite GE, RC. apply Hlist.
Qed.

Lemma process_fold_pfoldD s0 : forall lst s p, pfoldD s0 lst s ->
  failed (fst (fst (fold_left process_round lst (s, p, false)))) = false ->
  exists done rem, lst = done ++ rem /\
    snd (fst (fold_left process_round lst (s, p, false))) = p ++ map fst done /\
    pfoldD s0 rem (fst (fst (fold_left process_round lst (s, p, false)))) /\
    pending (fst (fst (fold_left process_round lst (s, p, false)))) = pending s /\
    fext s (fst (fst (fold_left process_round lst (s, p, false)))) /\
    incl (delivered s) (delivered (fst (fst (fold_left process_round lst (s, p, false))))).
Proof.
  induction lst as [|pr rest IH]; intros s p PF Hfin; cbn [fold_left] in *.
  - exists [], []. cbn. rewrite app_nil_r.
    split; [reflexivity|]. split; [reflexivity|]. split; [exact PF|]. split; [reflexivity|]. split; [apply fext_refl|apply incl_refl].
  - assert (F1 : failed (fst (fst (process_round (s, p, false) pr))) = false).
    { destruct (failed (fst (fst (process_round (s, p, false) pr)))) eqn:E; [|reflexivity].
      destruct (process_round (s, p, false) pr) as [[s' p'] b']. cbn [fst] in E.
      rewrite (process_fold_stopped rest s' p' b' (or_intror E)) in Hfin. cbn [fst] in Hfin. congruence. }
    destruct (process_round_pfoldD s0 s p pr rest PF F1) as [[Hd E]|[Hd [s' [E [PF' [Pe [Fx Dx]]]]]]]; rewrite E in *.
    + rewrite (process_fold_stopped rest s p true (or_introl eq_refl)). cbn [fst snd].
      exists [], (pr :: rest). cbn. rewrite app_nil_r.
      split; [reflexivity|]. split; [reflexivity|]. split; [exact PF|]. split; [reflexivity|]. split; [apply fext_refl|apply incl_refl].
    + destruct (IH s' (p ++ [fst pr]) PF' Hfin) as [done [rem [El [Ep [PFr [Pr [Fx2 Dx2]]]]]]].
      exists (pr :: done), rem. split; [cbn; congruence|]. split; [rewrite Ep, <- app_assoc; reflexivity|].
      split; [exact PFr|]. split; [congruence|]. split; [eapply fext_trans; eauto|eapply incl_tran; eauto].
Qed.


Lemma process_decided_rounds_pinvD st : pfoldD st (pending st) st -> failed (process_decided_rounds st) = false ->
  QP (process_decided_rounds st) /\ FR (process_decided_rounds st) /\ DBL st (process_decided_rounds st) /\
  fext st (process_decided_rounds st) /\ incl (delivered st) (delivered (process_decided_rounds st)).
Proof.
  intros PF Hfin. unfold process_decided_rounds in *.
  assert (Hfold : failed (fst (fst (fold_left process_round (pending st) (st, [], false)))) = false).
  { destruct (fold_left process_round (pending st) (st, [], false)) as [[s processed] stop]. cbn [fst]. revert Hfin. destruct s; cbn. auto. }
  destruct (process_fold_pfoldD st (pending st) st [] PF Hfold) as [done [rem [El [Ep [PFr [Pe [Fx Dx]]]]]]].
  destruct (fold_left process_round (pending st) (st, [], false)) as [[s processed] stop]. cbn [fst snd app] in *.
  set (F := s <| pending := filter (fun p => negb (existsb (Z.eqb (fst p)) processed)) (pending s) |>).
  assert (GE : forall y, get_event F y = get_event s y) by (intros y; unfold F; destruct s; reflexivity).
  assert (GR : forall r, get_round F r = get_round s r) by (intros r; unfold F; destruct s; reflexivity).
  assert (Lc : last_consensus F = last_consensus s) by (unfold F; destruct s; reflexivity).
  assert (Fr : frames F = frames s) by (unfold F; destruct s; reflexivity).
  assert (Dl : delivered F = delivered s) by (unfold F; destruct s; reflexivity).
  assert (Hl : forall R, lcle F R <-> lcle s R) by (intros R; unfold lcle; rewrite Lc; reflexivity).
  split; [|split; [|split; [|split; [intros q g0 Hq; rewrite Fr; apply Fx; exact Hq|rewrite Dl; exact Dx]]]].
  - intros r. rewrite GR. intros Hg. destruct (pf_cov _ _ _ PFr r Hg) as [H|H]; [right; apply Hl; exact H|left].
    unfold prounds, F. replace (pending (s <| pending := _ |>)) with
      (filter (fun p => negb (existsb (Z.eqb (fst p)) processed)) (pending s)) by (destruct s; reflexivity).
    apply in_map_iff in H. destruct H as [[r' d] [E Hin]]. cbn in E. subst r'.
    apply in_map_iff. exists (r, d). split; [reflexivity|]. apply filter_In. split; [rewrite Pe, El; apply in_or_app; right; exact Hin|].
    cbn [fst]. apply negb_true_iff. apply not_true_is_false. intros C. apply existsb_exists in C. destruct C as [q [Hq Eq]].
    apply Z.eqb_eq in Eq. subst q. rewrite Ep in Hq.
    (* the queue is strictly sorted: r cannot be both done and remaining *)
    pose proof (pf_sorted _ _ _ PF) as Hs. rewrite El, map_app in Hs.
    assert (Hr : In r (map fst rem)) by (apply in_map_iff; exists (r, d); auto).
    clear -Hs Hq Hr. induction (map fst done) as [|a l IH]; [destruct Hq|].
    cbn [app] in Hs. inversion Hs as [|? ? Hs' Hall]; subst. destruct Hq as [->|Hq]; [|auto].
    rewrite Forall_forall in Hall. specialize (Hall r (in_or_app _ _ _ (or_intror Hr))). lia.
  - intros R f. rewrite Fr. intros Hz. apply Hl. apply (pf_fr _ _ _ PFr R f Hz).
  - intros x ex R. rewrite GE, Fr, Dl. intros Hx Hr Hlc Hb. apply Hl in Hlc. apply (pf_db _ _ _ PFr x ex R Hx Hr Hlc Hb).
Qed.


(** * Round-received is monotone along ancestry *)
Lemma see_true_ancD P st w x ew ex : goodD P st -> get_event st w = Some ew -> get_event st x = Some ex ->
  (see st w x = Some true <-> Ancestry.anc st w x).
Proof. intros G Hw Hx. apply (ancestor_correct st w x ew ex (gD_dag _ _ G) (gD_la _ _ G) Hw Hx). Qed.

Lemma rr_monotone_stateD P st a b ra rb r_a r_b ea eb :
  goodD P st -> get_event st a = Some ea -> get_event st b = Some eb -> Ancestry.anc st b a ->
  rmemo st a = Some r_a -> rmemo st b = Some r_b ->
  rrspecD P st a r_a ra -> rrspecD P st b r_b rb -> ra <= rb.
Proof.
  intros G Ha Hb Hanc Hra Hrb [A1 [A2 [A3 A4]]] [B1 [B2 [B3 [B4 B5]]]].
  pose proof (round_anc_leD P st G b a Hanc eb r_b r_a Hb Hrb Hra) as Hle.
  destruct (Z.le_gt_cases ra rb) as [|Hgt]; [assumption|exfalso].
  apply (A3 rb ltac:(lia)). split; [|exact B5].
  intros w Hw. pose proof (B4 w Hw) as Hs.
  apply (fam_frecD P st rb w G) in Hw.
  destruct (wits_storedD P st G rb w (frec_witsD P st rb w true G Hw)) as [ew Hew].
  apply (see_true_ancD P st w a ew ea G Hew Ha). eapply anc_trans; [|exact Hanc].
  apply (see_true_ancD P st w b ew eb G Hew Hb). exact Hs.
Qed.

(** * Consequences for a node that respects the distance bound *)
Section Final.
  Variables (self_ : Z) (genesis : peerset) (oracle_ : list Z) (all : list event) (ops : list hop).
  Hypothesis Hs : self_ <> -1.
  Hypothesis ID : ids_determine all.
  Hypothesis H : Forall (hop_ok all) ops.
  Hypothesis Hg : gap_runb (init_hg self_ genesis oracle_) ops = true.
  Let st := hrun (init_hg self_ genesis oracle_) ops.
  Hypothesis Hf : failed st = false.
  Let P := psat st.

  Lemma final_rr_spec x i : rr_of st x = Some i -> exists r, rmemo st x = Some r /\ rrspecD P st x r i.
  Proof.
    intros Hx. pose proof (rr_spec_preD self_ genesis oracle_ all ops Hs ID H Hg P (fun q _ => eq_refl) (length ops)) as Q.
    cbv zeta beta in Q. rewrite firstn_all in Q. exact (Q Hf x i Hx).
  Qed.

  (* round-received is monotone along ancestry *)
  Theorem rr_monotone_gap a b ea eb ra rb :
    Ancestry.anc st b a -> get_event st a = Some ea -> get_event st b = Some eb ->
    ev_rr ea = Some ra -> ev_rr eb = Some rb -> ra <= rb.
  Proof.
    intros Hanc Ha Hb Hra Hrb.
    assert (Ra : rr_of st a = Some ra) by (unfold rr_of; rewrite Ha; exact Hra).
    assert (Rb : rr_of st b = Some rb) by (unfold rr_of; rewrite Hb; exact Hrb).
    destruct (final_rr_spec a ra Ra) as [r_a [Ma Sa]]. destruct (final_rr_spec b rb Rb) as [r_b [Mb Sb]].
    destruct (gap_goodD self_ genesis oracle_ all ops Hs ID H Hg Hf) as [G _].
    apply (rr_monotone_stateD P st a b ra rb r_a r_b ea eb G Ha Hb Hanc Ma Mb Sa Sb).
  Qed.

  (* an ancestor of an event received in a processed round is received, and not later *)
  Theorem committed_ancestorD x a R :
    rr_of st x = Some R -> lcle st R -> Ancestry.anc st x a ->
    exists R', rr_of st a = Some R' /\ R' <= R.
  Proof.
    intros Hx Hlc Hanc.
    destruct (gap_goodD self_ genesis oracle_ all ops Hs ID H Hg Hf) as [G _]. fold st in G. fold P in G.
    pose proof (proj2 (hrun_rtop self_ genesis oracle_ ops) Hf) as Rv. fold st in Rv.
    destruct (final_rr_spec x R Hx) as [rx [Hrx Sx]].
    assert (Hxs : exists ex, get_event st x = Some ex).
    { unfold rr_of in Hx. destruct (get_event st x) as [ex|]; [eauto|discriminate]. }
    destruct Hxs as [ex Hex].
    destruct (anc_storedD P st G x ex a Hex Hanc) as [ea Hea].
    destruct (rr_of st a) as [R'|] eqn:Ha.
    - exists R'. split; [reflexivity|].
      destruct (final_rr_spec a R' Ha) as [ra [Hra Sa]].
      apply (rr_monotone_stateD P st a x R' R ra rx ea ex G Hea Hex Hanc Hra Hrx Sa Sx).
    - exfalso. pose proof (hrun_uinvD self_ genesis oracle_ all ops Hs ID H Hg Hf) as UI. fold st in UI. fold P in UI.
      assert (Hu : ustopD P st a) by (apply (uD_u _ _ UI a); [rewrite Hea; discriminate|exact Ha]).
      destruct Hu as [r [j0 [Hr [Hlt [Hnf [_ Hall]]]]]].
      pose proof (round_anc_leD P st G x a Hanc ex rx r Hex Hrx Hr) as Hle.
      destruct Sx as [S1 [S2 [S3 [S4 S5]]]].
      assert (Hj0 : R < j0).
      { destruct (Z.lt_ge_cases R j0) as [|Hge]; [assumption|exfalso]. apply Hnf.
        apply (flag_below_lc st j0 Rv); [|destruct (cd_rdom _ _ _ (gD_c _ _ G) a r Hr) as [H0 _]; lia].
        destruct Hlc as [l [Hl Hle']]. exists l. split; [exact Hl|lia]. }
      destruct (Hall R ltac:(lia)) as [_ Hnr]. apply Hnr. split; [|exact S5].
      intros w Hw. pose proof (S4 w Hw) as Hs'.
      apply (fam_frecD P st R w G) in Hw.
      destruct (wits_storedD P st G R w (frec_witsD P st R w true G Hw)) as [ew Hew].
      apply (see_true_ancD P st w a ew ea G Hew Hea). eapply Ancestry.anc_trans; [|exact Hanc].
      apply (see_true_ancD P st w x ew ex G Hew Hex). exact Hs'.
  Qed.

  (* the same with the "proper ancestor" relation of OrderProofs.v and the stored fields *)
  Theorem committed_ancestor_oD a b eb R :
    OrderProofs.anc st a b -> get_event st b = Some eb -> ev_rr eb = Some R ->
    (exists l, last_consensus st = Some l /\ R <= l) ->
    exists ea R', get_event st a = Some ea /\ ev_rr ea = Some R' /\ R' <= R.
  Proof.
    intros Hanc Hb Hr Hlc.
    assert (Rb : rr_of st b = Some R) by (unfold rr_of; rewrite Hb; exact Hr).
    destruct (committed_ancestorD b a R Rb Hlc (oanc_anc st a b Hanc)) as [R' [Ra Hle]].
    unfold rr_of in Ra. destruct (get_event st a) as [ea|] eqn:Ha; [|discriminate].
    exists ea, R'. auto.
  Qed.
End Final.

(** * QP / FR / DB in every state of a run that respects the distance bound *)
Section RunD.
  Variables (self_ : Z) (genesis : peerset) (oracle_ : list Z) (all : list event) (ops : list hop).
  Hypothesis Hs : self_ <> -1.
  Hypothesis ID : ids_determine all.
  Hypothesis H : Forall (hop_ok all) ops.
  Hypothesis Hg : gap_runb (init_hg self_ genesis oracle_) ops = true.
  Variable P : Z -> peerset.
  Hypothesis HP : forall q, 0 <= q <= last_round (hrun (init_hg self_ genesis oracle_) ops) ->
    P q = psat (hrun (init_hg self_ genesis oracle_) ops) q.
  Let pre (k : nat) := hrun (init_hg self_ genesis oracle_) (firstn k ops).

  (* the receiving condition of a flagged round is the same one step later *)
  Lemma rcond_stepD k j x ex ex' : failed (pre (S k)) = false -> flag (pre k) j ->
    get_event (pre k) x = Some ex -> get_event (pre (S k)) x = Some ex' ->
    (rcond (P j) (pre k) j x <-> rcond (P j) (pre (S k)) j x).
  Proof.
    unfold pre in *. intros Hf Hfl Hex Hex'.
    assert (Hfk : failed (hrun (init_hg self_ genesis oracle_) (firstn k ops)) = false).
    { apply (pre_failed_mono self_ genesis oracle_ all ops Hs H Hg P HP k 1). rewrite Nat.add_1_r. exact Hf. }
    destruct (pre_facts self_ genesis oracle_ all ops Hs ID H Hg P HP k Hfk) as [Gi [_ [_ [_ [_ G]]]]].
    destruct (pre_facts self_ genesis oracle_ all ops Hs ID H Hg P HP (S k) Hf) as [Gi' [_ [_ [_ [_ G']]]]].
    set (st := hrun (init_hg self_ genesis oracle_) (firstn k ops)) in *.
    set (st' := hrun (init_hg self_ genesis oracle_) (firstn (S k) ops)) in *.
    assert (SB : same_bodies st st').
    { apply (same_bodies_of_universeD all P P _ _ ID G G'); [apply (g_from _ _ (gi_core _ _ Gi))|apply (g_from _ _ (gi_core _ _ Gi'))]. }
    assert (Sub : forall y, get_event st y <> None -> get_event st' y <> None).
    { intros y Hy. pose proof (pre_stored self_ genesis oracle_ all ops Hs ID H Hg P HP k 1 y) as Q.
      rewrite Nat.add_1_r in Q. apply Q; assumption. }
    apply rcond_same; [apply (fam_nodupD P st j G)|apply (fam_nodupD P st' j G')| |].
    - intros w. apply (fam_stable_preD self_ genesis oracle_ all ops Hs ID H Hg P HP k j w Hf Hfl).
    - intros w Hw. apply (fam_frecD P st j w G) in Hw.
      destruct (wits_storedD P st G j w (frec_witsD P st j w true G Hw)) as [ew Hew].
      assert (Hw' : get_event st' w <> None) by (apply Sub; rewrite Hew; discriminate).
      destruct (get_event st' w) as [ew'|] eqn:Hew'; [|contradiction].
      symmetry. apply (see_agreeD P st st' G G' SB w x ew ew' ex ex' Hew Hew' Hex Hex').
  Qed.

  Theorem pinv_preD k : failed (pre k) = false -> pinv (pre k).
  Proof.
    pose proof rcond_stepD as RCS. unfold pre in *.
    induction k as [|k IH]; intros Hf.
    - cbn [firstn hrun fold_left].
      set (init := init_hg self_ genesis oracle_).
      destruct (cw_fields _ _ (cw_init self_ genesis oracle_)) as [Ev [Ro _]].
      assert (GR : forall r, get_round init r = None) by (intros r; unfold get_round, init; rewrite Ro; cbn; apply zget_empty).
      assert (GE : forall x, get_event init x = None) by (intros x; unfold get_event, init; rewrite Ev; cbn; apply zget_empty).
      constructor.
      + intros r Hr. rewrite GR in Hr. contradiction.
      + intros R f Hz. exfalso.
        pose proof (gi_f _ _ (ginv_init all self_ genesis oracle_) R f Hz) as [_ [_ [_ [_ [Hst _]]]]].
        destruct (f_events f) as [|fe l] eqn:E.
        * revert Hz. unfold init, init_hg. destruct (set_peerset (empty_hg self_) 0 genesis) as [s|] eqn:S.
          -- pose proof (ov_set_peerset _ _ _ _ S) as O. unfold ov in O. apply (f_equal snd) in O. cbn [snd] in O.
             pose proof O as Fr.
             replace (frames (s <| validators := genesis |> <| oracle := oracle_ |>)) with (frames s) by (destruct s; reflexivity).
             rewrite Fr. cbn. rewrite zget_empty. discriminate.
          -- cbn. rewrite zget_empty. discriminate.
        * destruct (Hst fe (or_introl eq_refl)) as [ex Hex]. fold init in Hex. rewrite GE in Hex. discriminate.
      + intros x ex R Hx. rewrite GE in Hx. discriminate.
    - destruct (Nat.lt_ge_cases k (length ops)) as [Hk|Hk].
      2:{ assert (E : firstn (S k) ops = firstn k ops) by (rewrite !firstn_all2 by lia; reflexivity).
          rewrite E in *. apply IH; assumption. }
      destruct (pre_step self_ genesis oracle_ all ops Hs H Hg P HP k Hk Hf) as [o [Ho [ES [Hfk Tq]]]].
      destruct (pre_facts self_ genesis oracle_ all ops Hs ID H Hg P HP k Hfk) as [Gi [LA [R [Hne [I G]]]]].
      destruct (pre_facts self_ genesis oracle_ all ops Hs ID H Hg P HP (S k) Hf) as [Gi' [_ [R' [_ [_ G']]]]].
      pose proof (uinv_preD self_ genesis oracle_ all ops Hs ID H Hg P HP k Hfk) as UI.
      pose proof (rr_spec_preD self_ genesis oracle_ all ops Hs ID H Hg P HP (S k)) as RRS. cbv zeta beta in RRS. specialize (RRS Hf).
      pose proof (fun j w => fam_stable_preD self_ genesis oracle_ all ops Hs ID H Hg P HP k j w Hf) as FS.
      specialize (RCS k). specialize (IH Hfk). destruct IH as [Qp Fr Db].
      set (st := hrun (init_hg self_ genesis oracle_) (firstn k ops)) in *.
      set (st' := hrun (init_hg self_ genesis oracle_) (firstn (S k) ops)) in *.
      assert (Same : rv st' = rv st -> events st' = events st -> pinv st').
      { intros Erv Ev. destruct (rv_fields _ _ Erv) as [Ro [Pe [Lc [Frm Dl]]]].
        assert (Hl : forall R0, lcle st' R0 <-> lcle st R0) by (intros R0; unfold lcle; rewrite Lc; reflexivity).
        constructor.
        - intros r. unfold get_round, prounds. rewrite Ro, Pe. intros Hr. destruct (Qp r Hr); [left; assumption|right; apply Hl; assumption].
        - intros R0 f. rewrite Frm. intros Hz. apply Hl. eapply Fr; eauto.
        - intros x ex R0. unfold get_event. rewrite Ev, Frm, Dl. intros Hx Hr Hlc. apply Hl in Hlc. eapply Db; eauto. }
      destruct o as [e|].
      2:{ apply Same; rewrite ES; cbn [hstep].
          - unfold process_sigpool. generalize (sigpool st). intros l. generalize st. clear.
            induction l as [|s l IHl]; intros st; cbn [fold_left]; [reflexivity|]. rewrite IHl. apply (proj1 (process_sig_rv st s)).
          - destruct (cw_fields _ _ (cw_process_sigpool st)) as [Ev _]. exact Ev. }
      destruct Ho as [Hin Hid].
      assert (Hf'' : failed (hstep st (HInsert e)) = false) by (rewrite <- ES; exact Hf).
      pose proof (g_dag _ _ (gi_core _ _ Gi)) as OK. pose proof (g_from _ _ (gi_core _ _ Gi)) as FA.
      pose proof (insert_event_bview st e) as Bv. pose proof (insert_event_rstep st e) as Sr.
      pose proof (NoFail.insert_event_rounds st e) as [Rsr _].
      revert Hf'' Tq ES. cbn [hstep]. unfold step, insert_and_run.
      destruct (insert_event st e) as [r0 s] eqn:E. cbn [snd] in Bv, Sr, Rsr.
      destruct (insert_event_inv st e all r0 s OK FA ID Hin Hid E) as [OK' [FA' Hns]].
      assert (Hrej : r0 <> InsOk -> st' = snd (r0, s) -> pinv st').
      { intros Hn ->. rewrite (insert_reject_noop st e r0 s E Hn Hns). constructor; assumption. }
      destruct r0; try (intros _ _ ES; apply Hrej; [discriminate|exact ES]). clear Hrej. cbn [snd]. intros Hf'' Tq Est'.
      destruct (insert_cinvD P all st e s OK LA FA ID Hin Hid I E) as [Is Hund].
      assert (Rs' : rinv s) by (apply (rinv_rstep st s R Sr)).
      assert (Hnes : peersets s <> []) by (rewrite (bview_peersets _ _ Bv); exact Hne).
      assert (Hpss : forall q, 0 <= q <= last_round (run_consensus s) -> get_peerset s q = Some (P q))
        by (intros q Hq; rewrite (get_peerset_bview _ _ q Bv); apply Tq; exact Hq).
      destruct (run_consensus_stagesD P s (e_id e) OK' Rs' Hnes Hpss Is Hund Hf'') as [Hf1 [Hf2 [Hf3 [Eq [I1 [I2 [I3 [R1 R2]]]]]]]].
      cbv zeta in *. rewrite Eq in *.
      set (s1 := divide_rounds s) in *. set (s2 := decide_fame s1) in *. set (s3 := decide_round_received s2) in *.
      assert (R3 : rinv s3) by (apply (rinv_rstep s2 s3 R2 (decide_round_received_rstep s2 (proj1 (rinv_bounded _ R2))))).
      (* the queue up to s3 *)
      assert (Q3 : qstep st s3).
      { assert (Q0 : qstep st s) by (apply qstep_same; [apply (s_pend _ _ Sr)|exact Rsr|apply (s_lb _ _ Sr)|apply (s_lc _ _ Sr)|apply (s_fr _ _ Sr)|apply (s_del _ _ Sr)]).
        assert (Q1 : qstep s s1) by (apply divide_rounds_qstep, (r_lb _ (proj1 Rs'))).
        assert (Q2 : qstep s1 s2).
        { destruct (bview_fields _ _ (decide_fame_bview s1)) as [Dl [Frm Lc]].
          constructor; auto.
          - intros r. unfold s2. rewrite decide_fame_prounds. auto.
          - intros r Hr. left. intros C. apply Hr. apply (ck_rd _ _ (decide_fame_ckeep s1)). exact C.
          - pose proof (r_lb _ (proj1 R2)) as L2. pose proof (r_lb _ (proj1 R1)) as L1. congruence. }
        assert (Q3' : qstep s2 s3).
        { pose proof (decide_round_received_rstep s2 (proj1 (rinv_bounded _ R2))) as Rs3. fold s3 in Rs3.
          constructor; [intros r; unfold prounds; rewrite (s_pend _ _ Rs3); auto| |apply (s_lb _ _ Rs3)|apply (s_lc _ _ Rs3)|apply (s_fr _ _ Rs3)|apply (s_del _ _ Rs3)].
          intros r Hr. left. intros C. apply Hr. apply (s_dom _ _ Rs3). exact C. }
        eapply qstep_trans; [exact Q0|]. eapply qstep_trans; [exact Q1|]. eapply qstep_trans; eauto. }
      assert (Hl3 : forall R0, lcle s3 R0 <-> lcle st R0) by (intros R0; unfold lcle; rewrite (qs_lc _ _ Q3); reflexivity).
      assert (QP3 : QP s3).
      { intros r Hr. destruct (qs_r _ _ Q3 r Hr) as [H0|H0]; [|left; exact H0].
        destruct (Qp r H0) as [H1|H1]; [left; apply (qs_p _ _ Q3); exact H1|right; apply Hl3; exact H1]. }
      destruct (cw_fields _ _ (cw_process_decided_rounds s3)) as [Ev4 [Ro4 _]].
      assert (PF : pfoldD s3 (pending s3) s3).
      { destruct R3 as [A3 B3]. constructor.
        - intros q g0. rewrite (qs_fr _ _ Q3). intros Hz. destruct (gi_f _ _ Gi q g0 Hz) as [A _]. exact A.
        - exact Hf3.
        - intros R0 f. rewrite (qs_fr _ _ Q3). intros Hz. apply Hl3. eapply Fr; eauto.
        - intros x ex R0 _ _ Hlc Hn. contradiction.
        - intros r Hr. destruct (QP3 r Hr); auto.
        - intros r Hr. apply (r_above _ B3 r Hr).
        - apply (r_sorted _ A3).
        - intros [r d] Hpr. destruct (r_pend _ A3 r d Hpr) as [ri [Hri _]]. cbn [fst]. rewrite Hri. discriminate.
        - intros x ex R0 Hx Hr.
          pose proof (c_listed _ (g_o _ _ (gi_core _ _ Gi')) x ex R0) as CL. rewrite Est' in CL.
          unfold get_event, rcv, get_round in CL |- *. rewrite Ev4, Ro4 in CL. apply CL; assumption. }
      destruct (process_decided_rounds_pinvD s3 PF Hf'') as [QP4 [FR4 [DBL4 [Fx4 Dx4]]]].
      rewrite <- Est' in QP4, FR4, DBL4, Fx4, Dx4.
      constructor; [exact QP4|exact FR4|].
      (* DB: rounds already processed before this step receive nothing new *)
      intros x ex' R0 Hx' Hrr Hlc.
      assert (SB : same_bodies st st').
      { apply (same_bodies_of_universeD all P P st st' ID G G'); [apply (g_from _ _ (gi_core _ _ Gi))|apply (g_from _ _ (gi_core _ _ Gi'))]. }
      assert (Mo : rmono st st').
      { rewrite Est'. rewrite <- Eq.
        pose proof (proj2 (hstep_ginv all st (HInsert e) ID (conj Hin Hid) Gi)) as M. cbn [hstep] in M. unfold step, insert_and_run in M. rewrite E in M. exact M. }
      assert (Sub : forall y, get_event st y <> None -> get_event st' y <> None).
      { intros y Hy. destruct (get_event st y) as [ey|] eqn:Ey; [|contradiction].
        destruct (m_e _ _ Mo y ey Ey) as [ey' [E' _]]. rewrite E'. discriminate. }
      destruct (classic_lcle st R0) as [HlcR|HlcR]; [|apply (DBL4 x ex' R0 Hx' Hrr Hlc); intros C; apply HlcR; apply Hl3; exact C].
      assert (Rx' : rr_of st' x = Some R0) by (unfold rr_of; rewrite Hx'; exact Hrr).
      destruct (RRS x R0 Rx') as [r [Hrm [Hlt [Hfl [Hno Hrc]]]]].
      assert (HR0 : 0 <= R0).
      { destruct (cd_rdom _ _ _ (gD_c _ _ G') x r Hrm) as [H0 _]. lia. }
      pose proof (flag_below_lc st R0 R HlcR HR0) as FlR.
      assert (Hxs : exists ex, get_event st x = Some ex).
      { destruct Hrc as [Hsee Hsm]. pose proof (super_majority_pos (P R0)) as Hp.
        assert (Hne' : exists w, In w (fam st' R0)).
        { destruct (fam st' R0) as [|w l]; [cbn in Hsm; lia|exists w; left; reflexivity]. }
        destruct Hne' as [w Hw'].
        assert (Hw : In w (fam st R0)) by (apply (FS R0 w FlR); exact Hw').
        apply (fam_frecD P st R0 w G) in Hw.
        destruct (wits_storedD P st G R0 w (frec_witsD P st R0 w true G Hw)) as [ew Hew].
        assert (Hws' : get_event st' w <> None) by (apply Sub; rewrite Hew; discriminate).
        destruct (get_event st' w) as [ew'|] eqn:Hew'; [|contradiction].
        pose proof (Hsee w Hw') as Hs'. apply (see_true_ancD P st' w x ew' ex' G' Hew' Hx') in Hs'.
        destruct (anc_commonD P P st' st G' G (same_bodies_sym _ _ SB) w ew' ew x Hew' Hew Hs') as [_ Hst]. exact Hst. }
      destruct Hxs as [ex Hex].
      destruct (ev_rr ex) as [R00|] eqn:Hrr0.
      + destruct (m_rr _ _ Mo x ex R00 Hex Hrr0) as [ex2 [Hx2 Hr2]].
        rewrite Hx' in Hx2. inversion Hx2; subst ex2. assert (R00 = R0) by congruence. subst R00.
        destruct (Db x ex R0 Hex Hrr0 HlcR) as [f [Hz [Hin1 Hp]]]. exists f.
        split; [apply Fx4; rewrite (qs_fr _ _ Q3); exact Hz|]. split; [exact Hin1|].
        intros Hp'. assert (Hp0 : payload ex) by (unfold payload in *; rewrite (SB x ex ex' Hex Hx'); exact Hp').
        destruct (Hp Hp0) as [d [Hd [A B]]]. exists d. split; [apply Dx4; rewrite (qs_dl _ _ Q3); exact Hd|auto].
      + exfalso.
        assert (Hu : ustopD P st x) by (apply (uD_u _ _ UI x); [rewrite Hex; discriminate|unfold rr_of; rewrite Hex; exact Hrr0]).
        destruct Hu as [r' [j0 [Hr' [Hlt' [Hnf [_ Hall]]]]]].
        destruct (memo_agreeD P P st st' G G' SB (fun q _ _ => eq_refl) x ex ex' Hex Hx') as [Er _]. assert (r' = r) by congruence. subst r'.
        assert (Hj0 : R0 < j0).
        { destruct (Z.lt_ge_cases R0 j0) as [|Hge]; [assumption|exfalso]. apply Hnf.
          apply (flag_below_lc st j0 R); [|destruct (cd_rdom _ _ _ (gD_c _ _ G) x r Hr') as [H0 _]; lia].
          destruct HlcR as [l [Hl Hle]]. exists l. split; [exact Hl|lia]. }
        destruct (Hall R0 ltac:(lia)) as [_ Hnr]. apply Hnr.
        apply (RCS R0 x ex ex' Hf FlR Hex Hx'). exact Hrc.
  Qed.
End RunD.

(** * The committed order extends causality (one node that respects the distance bound) *)
Section Causality.
  Variables (self_ : Z) (genesis : peerset) (oracle_ : list Z) (all : list event) (ops : list hop).
  Hypothesis Hs : self_ <> -1.
  Hypothesis ID : ids_determine all.
  Hypothesis H : Forall (hop_ok all) ops.
  Hypothesis Hg : gap_runb (init_hg self_ genesis oracle_) ops = true.
  Let st := hrun (init_hg self_ genesis oracle_) ops.
  Hypothesis Hf : failed st = false.

  Theorem hrun_pinvD : pinv st.
  Proof.
    pose proof (pinv_preD self_ genesis oracle_ all ops Hs ID H Hg (psat st) (fun q _ => eq_refl) (length ops)) as Q.
    cbv zeta beta in Q. rewrite firstn_all in Q. exact (Q Hf).
  Qed.

  (* every event of a delivered block, and every ancestor of it that carries a payload, is in a delivered block that is
     not later; inside the same block it comes first *)
  Theorem order_extends_causalityD k d j b a ea :
    nth_error (delivered st) k = Some d -> nth_error (f_events (b_frame d)) j = Some b ->
    OrderProofs.anc st a (fe_id b) -> get_event st a = Some ea -> payload ea ->
    exists k' d' i fa, nth_error (delivered st) k' = Some d' /\
      nth_error (f_events (b_frame d')) i = Some fa /\ fe_id fa = a /\
      ((k' < k)%nat \/ (k' = k /\ (i < j)%nat)).
  Proof.
    intros Hk Hj Hanc Hea Hp.
    pose proof (hrun_ginv all self_ genesis oracle_ ops ID H) as Gi. fold st in Gi.
    pose proof (proj2 (hrun_rtop self_ genesis oracle_ ops) Hf) as [RA RB]. fold st in RA, RB.
    destruct hrun_pinvD as [Qp Fr Db].
    assert (Hd : In d (delivered st)) by (eapply nth_error_In; exact Hk).
    destruct (delivered_block_payload all st d Gi Hd) as [Hfd _].
    assert (Hb : In b (f_events (b_frame d))) by (eapply nth_error_In; exact Hj).
    destruct (frame_events_received all st (b_rr d) (b_frame d) b Gi Hfd Hb) as [_ [_ [eb [Heb [Hrb _]]]]].
    pose proof (Fr _ _ Hfd) as Hlc.
    destruct (committed_ancestor_oD self_ genesis oracle_ all ops Hs ID H Hg Hf a (fe_id b) eb (b_rr d) Hanc Heb Hrb Hlc)
      as [ea' [R' [Hea' [Hra Hle]]]]. fold st in Hea'. rewrite Hea in Hea'. inversion Hea'; subst ea'.
    assert (Hlc' : lcle st R') by (destruct Hlc as [l [Hl Hl']]; exists l; split; [exact Hl|lia]).
    destruct (Db a ea R' Hea Hra Hlc') as [f' [Hf' [Hin' Hpay]]].
    destruct (Hpay Hp) as [d' [Hd' [Hr' Hfd']]].
    destruct (In_nth_error _ _ Hd') as [k' Hk'].
    apply in_map_iff in Hin'. destruct Hin' as [fa [Hfa Hin']]. rewrite <- Hfd' in Hin'.
    destruct (In_nth_error _ _ Hin') as [i Hi].
    exists k', d', i, fa. split; [exact Hk'|]. split; [exact Hi|]. split; [exact Hfa|].
    pose proof (r_del_sorted st RA) as Srt.
    assert (Nk : nth_error (map b_rr (delivered st)) k = Some (b_rr d)) by (apply map_nth_error; exact Hk).
    assert (Nk' : nth_error (map b_rr (delivered st)) k' = Some (b_rr d')) by (apply map_nth_error; exact Hk').
    destruct (lt_eq_lt_dec k' k) as [[Hlt|Heq]|Hgt].
    - left; exact Hlt.
    - right. split; [exact Heq|]. subst k'. rewrite Hk in Hk'. inversion Hk'; subst d'.
      apply (delivered_block_respects_ancestry all st d i j fa b Gi Hd Hi Hj). rewrite Hfa. exact Hanc.
    - exfalso. pose proof (sorted_nth_lt_gen _ Srt k k' _ _ Hgt Nk Nk'). lia.
  Qed.

  (* the same for cached frames, for every ancestor (payload or not) *)
  Theorem frames_extend_causalityD R f b a :
    zget R (frames st) = Some f -> In b (f_events f) -> OrderProofs.anc st a (fe_id b) ->
    exists R' f' fa, zget R' (frames st) = Some f' /\ In fa (f_events f') /\ fe_id fa = a /\ R' <= R.
  Proof.
    intros Hfr Hb Hanc.
    pose proof (hrun_ginv all self_ genesis oracle_ ops ID H) as Gi. fold st in Gi.
    destruct hrun_pinvD as [Qp Fr Db].
    destruct (frame_events_received all st R f b Gi Hfr Hb) as [_ [_ [eb [Heb [Hrb _]]]]].
    pose proof (Fr _ _ Hfr) as Hlc.
    destruct (committed_ancestor_oD self_ genesis oracle_ all ops Hs ID H Hg Hf a (fe_id b) eb R Hanc Heb Hrb Hlc)
      as [ea [R' [Hea [Hra Hle]]]]. fold st in Hea.
    assert (Hlc' : lcle st R') by (destruct Hlc as [l [Hl Hl']]; exists l; split; [exact Hl|lia]).
    destruct (Db a ea R' Hea Hra Hlc') as [f' [Hf' [Hin' _]]].
    apply in_map_iff in Hin'. destruct Hin' as [fa [Hfa Hin']].
    exists R', f', fa. auto.
  Qed.
End Causality.
