(* C05 on the combined model of the node core over the hashgraph (Model/CoreModel.v):
   for every operation sequence from the initial state,
   - the hashgraph component is an [hrun] state of the calls the core made (so every theorem
     about [hrun] applies to it);
   - the node's own stored events are exactly the self-events made by addSelfEvent, in order, with
     the payloads captured from the pools (this is the hypothesis [from_pools] of
     Proofs/TidyC05.v, now a theorem);
   - conservation: what addTransactions accepted = payloads of the own stored events ++ pool;
   - hence no accepted transaction is committed twice and every transaction committed through an
     own event was accepted.
   Premise: identifiers determine events among the events the node ever hands to the hashgraph
   (SHA-256 collision freedom; it implies that the identifier of a new self-event is fresh), they
   are non-negative, and no event claiming this node as creator verifies unless the node made it
   (signature unforgeability; [e_sigok] is data in the model). *)
From Coq Require Import ZArith List Bool Lia ZifyBool.
From RecordUpdate Require Import RecordSet.
From V Require Import Model.ZMap Model.Quorum Model.HgImpl Model.NodeModel Model.CoreModel
  Proofs.ZMapFacts Proofs.HgDagFrames Proofs.AdmissionProofs Proofs.InsertShape Proofs.BlockInv
  Proofs.OrderProofs Proofs.NodeProofs Proofs.TidyC05 Proofs.TidyC07.
Import ListNotations RecordSetNotations.
Open Scope Z_scope.

(** * The hashgraph component is an hrun state *)
Definition hop_of (h : hcall) : hop := match h with HCInsert e => HInsert e | HCSigPool => HSigPool end.

Lemma cinsert_hg c e : c_hg (snd (cinsert c e)) = step (c_hg c) e.
Proof. unfold cinsert, step. cbv zeta. destruct (_ && _); reflexivity. Qed.

Lemma hrun_inserts st l : hrun st (map hop_of (map HCInsert l)) = fold_left step l st.
Proof. revert st. induction l as [|e l IH]; intros st; cbn; [reflexivity|apply IH]. Qed.

Lemma add_self_event_hg c id op ts coin sigkey sigs :
  c_hg (fst (add_self_event c id op ts coin sigkey sigs)) =
  fold_left step (snd (add_self_event c id op ts coin sigkey sigs)) (c_hg c).
Proof.
  unfold add_self_event. destruct (_ <? _); [reflexivity|]. cbv zeta.
  pose proof (cinsert_hg c (self_event c id op ts coin sigkey sigs)) as H.
  destruct (cinsert c (self_event c id op ts coin sigkey sigs)) as [[r err] c1]. cbn [snd] in H.
  destruct (err && negb (c_head c1 =? id)); cbn [fst snd fold_left]; [exact H|].
  rewrite <- H. destruct c1; reflexivity.
Qed.

Lemma sync_loop_hg evs : forall c,
  c_hg (fst (sync_loop c evs)) = fold_left step (snd (sync_loop c evs)) (c_hg c).
Proof.
  induction evs as [|e rest IH]; intros c; cbn [sync_loop]; [reflexivity|].
  pose proof (cinsert_hg c e) as H. destruct (cinsert c e) as [[r err] c1]. cbn [snd] in H.
  destruct (err && negb (is_normal r)); cbn [fst snd fold_left]; [exact H|].
  specialize (IH c1). destruct (sync_loop c1 rest) as [c2 l]. cbn [fst snd fold_left] in *. rewrite <- H. exact IH.
Qed.

Lemma cstep_h_hg c o : c_hg (fst (cstep_h c o)) = hrun (c_hg c) (map hop_of (snd (cstep_h c o))).
Proof.
  destruct o as [txs|t|id op ts coin sigkey sigs|evs|]; cbn [cstep_h].
  - destruct c; reflexivity.
  - destruct c; reflexivity.
  - pose proof (add_self_event_hg c id op ts coin sigkey sigs) as H.
    destruct (add_self_event c id op ts coin sigkey sigs) as [c' l]. cbn [fst snd] in *. rewrite hrun_inserts. exact H.
  - pose proof (sync_loop_hg evs c) as H.
    destruct (sync_loop c evs) as [c' l]. cbn [fst snd] in *. rewrite hrun_inserts. exact H.
  - destruct c; reflexivity.
Qed.

Theorem crun_h_hg ops : forall c, c_hg (fst (crun_h c ops)) = hrun (c_hg c) (map hop_of (snd (crun_h c ops))).
Proof.
  induction ops as [|o rest IH]; intros c; cbn [crun_h]; [reflexivity|].
  pose proof (cstep_h_hg c o) as H1. destruct (cstep_h c o) as [c1 l1]. cbn [fst snd] in H1.
  specialize (IH c1). destruct (crun_h c1 rest) as [c2 l2]. cbn [fst snd] in *.
  rewrite map_app, hrun_app, <- H1. exact IH.
Qed.

(** * One insertion, seen on the stored events *)
Lemma ev_e_frame st st' : dag_frame st st' ->
  forall x, option_map ev_e (get_event st' x) = option_map ev_e (get_event st x).
Proof.
  intros F x. destruct (frame_get_event st st' x F) as [B Fw].
  destruct (get_event st x) as [es|] eqn:E.
  - destruct (Fw es eq_refl) as [es' [E' Ee]]. rewrite E'. cbn. congruence.
  - destruct (get_event st' x) as [es'|] eqn:E'; [|reflexivity].
    destruct (B es' eq_refl) as [es [E0 _]]. congruence.
Qed.

Lemma step_events all st e :
  dag_ok st -> from_attempts st all -> ids_determine all -> In e all -> 0 <= e_id e ->
  (fst (insert_and_run st e) = InsOk /\ get_event st (e_id e) = None /\
   forall x, option_map ev_e (get_event (snd (insert_and_run st e)) x) =
             if x =? e_id e then Some e else option_map ev_e (get_event st x)) \/
  (fst (insert_and_run st e) <> InsOk /\ snd (insert_and_run st e) = st).
Proof.
  intros OK FA ID Hin Hid. unfold insert_and_run.
  destruct (insert_event st e) as [r s] eqn:E.
  destruct (insert_event_inv st e all r s OK FA ID Hin Hid E) as [_ [_ Hns]].
  assert (Hrej : r <> InsOk -> fst (r, s) <> InsOk /\ snd (r, s) = st).
  { intros Hn. split; [exact Hn|]. exact (insert_reject_noop st e r s E Hn Hns). }
  destruct r; try (right; apply Hrej; discriminate). clear Hrej. left. cbn [fst snd].
  destruct (insert_event_ok_shape st e all s OK FA ID Hin Hid E) as [st2 [G2 [Hfresh [DF _]]]]. cbv zeta in G2.
  split; [reflexivity|]. split; [exact Hfresh|].
  intros x. rewrite (ev_e_frame _ _ (run_consensus_frame s)), (ev_e_frame _ _ DF), G2.
  destruct (x =? e_id e); reflexivity.
Qed.

(** * The invariant *)
Definition created_ids (c : core) : list Z := map fst (c_created c).

Record cinv (all : list event) (c : core) : Prop := {
  ci_dag : dag_ok (c_hg c);
  ci_from : from_attempts (c_hg c) all;
  (* the k-th self-event made by addSelfEvent is stored, is ours, has index k and the captured payload *)
  ci_a : forall k id txs itxs, nth_error (c_created c) k = Some (id, (txs, itxs)) ->
         exists ex, get_event (c_hg c) id = Some ex /\ e_creator (ev_e ex) = c_self c /\
                    e_index (ev_e ex) = Z.of_nat k /\ e_txs (ev_e ex) = txs /\ e_itxs (ev_e ex) = itxs;
  (* every stored event of ours is one of them *)
  ci_b : forall x ex, get_event (c_hg c) x = Some ex -> e_creator (ev_e ex) = c_self c -> In x (created_ids c);
  ci_seq : c_seq c = Z.of_nat (length (c_created c)) - 1;
  ci_head : c_head c = last (created_ids c) (-1);
  ci_nn : forall x, In x (created_ids c) -> 0 <= x;
  ci_cons : c_submitted c = flat_map (fun p => fst (snd p)) (c_created c) ++ c_txs c;
  ci_icons : c_isubmitted c = flat_map (fun p => snd (snd p)) (c_created c) ++ c_itxs c
}.

(* the position of a created identifier *)
Lemma created_position all c x : cinv all c -> In x (created_ids c) ->
  exists k ex, (k < length (c_created c))%nat /\ get_event (c_hg c) x = Some ex /\
               e_creator (ev_e ex) = c_self c /\ e_index (ev_e ex) = Z.of_nat k.
Proof.
  intros I Hx. unfold created_ids in Hx. apply in_map_iff in Hx. destruct Hx as [[id [txs itxs]] [E Hin]]. cbn in E. subst id.
  destruct (In_nth_error _ _ Hin) as [k Hk].
  destruct (ci_a _ _ I k x txs itxs Hk) as [ex [H1 [H2 [H3 _]]]].
  exists k, ex. split; [apply nth_error_Some; congruence|auto].
Qed.

(* an event claiming to be ours that is not one of those we made does not verify; one we made is
   not inserted again; in both cases insertEventAndRunConsensus changes nothing *)
Definition not_forged (c : core) (e : event) : Prop :=
  e_creator e = c_self c -> e_sigok e = false \/ In (e_id e) (created_ids c).

Lemma last_app_one {A} (l : list A) x d : last (l ++ [x]) d = x.
Proof. apply last_last. Qed.

Lemma stored_same_id all c e ex : cinv all c -> ids_determine all -> In e all ->
  get_event (c_hg c) (e_id e) = Some ex -> ev_e ex = e.
Proof.
  intros I ID Hin Hx. apply ID; [exact (ci_from _ _ I _ _ Hx)|exact Hin|exact (d_id _ (ci_dag _ _ I) _ _ Hx)].
Qed.

(* an own event with an index above seq is not stored *)
Lemma own_above_seq_not_stored all c e : cinv all c -> ids_determine all -> In e all ->
  e_creator e = c_self c -> c_seq c < e_index e -> get_event (c_hg c) (e_id e) = None.
Proof.
  intros I ID Hin Hc Hs. destruct (get_event (c_hg c) (e_id e)) as [ex|] eqn:Hx; [exfalso|reflexivity].
  pose proof (stored_same_id all c e ex I ID Hin Hx) as Ee.
  assert (Hown : e_creator (ev_e ex) = c_self c) by (rewrite Ee; exact Hc).
  destruct (created_position all c _ I (ci_b _ _ I _ _ Hx Hown)) as [k [ex' [Hk [Hx' [_ Hi]]]]].
  rewrite Hx in Hx'. inversion Hx'; subst ex'. rewrite Ee in Hi. pose proof (ci_seq _ _ I). lia.
Qed.

Lemma ev_e_some st st' x ex :
  option_map ev_e (get_event st' x) = option_map ev_e (get_event st x) -> get_event st x = Some ex ->
  exists ex', get_event st' x = Some ex' /\ ev_e ex' = ev_e ex.
Proof.
  intros H Hx. rewrite Hx in H. destruct (get_event st' x) as [ex'|]; [|discriminate].
  cbn in H. inversion H. eauto.
Qed.

Lemma set_hg_same c : c <| c_hg := c_hg c |> = c.
Proof. destruct c; reflexivity. Qed.

(* the pools and ghosts *)
Definition pv (c : core) := (c_self c, c_txs c, c_itxs c, c_head c, c_seq c, c_accepted c, c_created c, c_submitted c, c_isubmitted c).

(* a rejected insertion leaves the core as it is *)
Lemma cinsert_rejected all c e :
  cinv all c -> ids_determine all -> In e all ->
  fst (insert_and_run (c_hg c) e) <> InsOk -> snd (insert_and_run (c_hg c) e) = c_hg c ->
  snd (cinsert c e) = c /\ snd (fst (cinsert c e)) = true.
Proof.
  intros I ID Hin Hr Hs. unfold cinsert. cbv zeta. rewrite Hs.
  assert (Ok : is_ok (fst (insert_and_run (c_hg c) e)) = false) by (destruct (fst (insert_and_run (c_hg c) e)); [contradiction| | | | | |]; reflexivity).
  rewrite Ok. cbn [negb orb andb].
  assert (U : (match get_event (c_hg c) (e_id e) with Some _ => true | None => false end && (c_seq c <? e_index e)) &&
              (e_creator e =? c_self c) = false).
  { destruct (Z.eqb_spec (e_creator e) (c_self c)) as [Hc|]; [|apply andb_false_r]. rewrite andb_true_r.
    destruct (Z.ltb_spec (c_seq c) (e_index e)) as [Hlt|]; [|apply andb_false_r]. rewrite andb_true_r.
    rewrite (own_above_seq_not_stored all c e I ID Hin Hc Hlt). reflexivity. }
  rewrite U. cbn [fst snd]. split; [apply set_hg_same|reflexivity].
Qed.

Lemma insert_ok_sig st e : fst (insert_and_run st e) = InsOk -> e_sigok e = true.
Proof.
  unfold insert_and_run. destruct (insert_event st e) as [r s] eqn:E. destruct r; cbn [fst]; try discriminate.
  intros _. apply (insert_ok_checks st e s E).
Qed.

(* an event of somebody else (or a forgery / a replay of an own event): the pools, head, seq and
   ghosts are untouched and the invariant is kept *)
Lemma cinsert_other all c e :
  cinv all c -> ids_determine all -> In e all -> 0 <= e_id e -> not_forged c e ->
  cinv all (snd (cinsert c e)) /\ pv (snd (cinsert c e)) = pv c /\
  (forall x, In x (created_ids c) -> True).
Proof.
  intros I ID Hin Hid NF.
  destruct (step_events all (c_hg c) e (ci_dag _ _ I) (ci_from _ _ I) ID Hin Hid) as [[Hr [Hfresh Hev]]|[Hr Hs]].
  2:{ destruct (cinsert_rejected all c e I ID Hin Hr Hs) as [E _]. rewrite E. auto. }
  (* inserted: it is not ours *)
  assert (Hne : e_creator e <> c_self c).
  { intros Hc. destruct (NF Hc) as [Hsig|Hcr].
    - rewrite (insert_ok_sig _ _ Hr) in Hsig. discriminate.
    - destruct (created_position all c _ I Hcr) as [k [ex [_ [Hx _]]]]. congruence. }
  pose proof (step_inv (c_hg c) e all (ci_dag _ _ I) (ci_from _ _ I) ID Hin Hid) as [OK' FA'].
  unfold cinsert. cbv zeta. replace (e_creator e =? c_self c) with false by lia. rewrite andb_false_r. cbn [snd].
  set (st' := snd (insert_and_run (c_hg c) e)) in *. fold (step (c_hg c) e) in st'.
  split; [|split; [destruct c; reflexivity|auto]].
  assert (Gne : forall x, In x (created_ids c) -> (x =? e_id e) = false).
  { intros x Hx. destruct (Z.eqb_spec x (e_id e)) as [->|]; [|reflexivity].
    destruct (created_position all c _ I Hx) as [k [ex [_ [Hx' _]]]]. congruence. }
  constructor; [exact OK'|exact FA'| | |destruct I; destruct c; assumption..].
  - intros k id txs itxs Hk. replace (c_created (c <| c_hg := st' |>)) with (c_created c) in Hk by (destruct c; reflexivity).
    destruct (ci_a _ _ I k id txs itxs Hk) as [ex [H1 [H2 [H3 [H4 H5]]]]].
    assert (Hid' : In id (created_ids c)) by (unfold created_ids; apply in_map_iff; exists (id, (txs, itxs)); split; [reflexivity|eapply nth_error_In; exact Hk]).
    pose proof (Hev id) as He. rewrite (Gne id Hid') in He.
    destruct (ev_e_some _ _ _ _ He H1) as [ex' [H1' Ee]].
    exists ex'. replace (c_hg (c <| c_hg := st' |>)) with st' by (destruct c; reflexivity).
    replace (c_self (c <| c_hg := st' |>)) with (c_self c) by (destruct c; reflexivity).
    rewrite Ee. auto.
  - intros x ex'. replace (c_hg (c <| c_hg := st' |>)) with st' by (destruct c; reflexivity).
    replace (c_self (c <| c_hg := st' |>)) with (c_self c) by (destruct c; reflexivity).
    replace (created_ids (c <| c_hg := st' |>)) with (created_ids c) by (destruct c; reflexivity).
    intros Hx' Hown. pose proof (Hev x) as He. rewrite Hx' in He.
    destruct (Z.eqb_spec x (e_id e)) as [->|Hnx].
    + cbn in He. inversion He as [Ee]. rewrite Ee in Hown. contradiction.
    + destruct (get_event (c_hg c) x) as [ex|] eqn:Hx; [|discriminate]. cbn in He. inversion He as [Ee].
      apply (ci_b _ _ I x ex Hx). rewrite <- Ee. exact Hown.
Qed.

Lemma not_forged_pv c c' e : pv c' = pv c -> not_forged c e -> not_forged c' e.
Proof.
  unfold pv, not_forged, created_ids. intros H. inversion H as [[H1 H2 H3 H4 H5 H6 H7 H8 H9]]. rewrite H1, H7. auto.
Qed.

Lemma sync_loop_cinv all evs : forall c,
  cinv all c -> ids_determine all ->
  (forall e, In e evs -> In e all /\ 0 <= e_id e /\ not_forged c e) ->
  cinv all (fst (sync_loop c evs)) /\ pv (fst (sync_loop c evs)) = pv c.
Proof.
  induction evs as [|e rest IH]; intros c I ID H; cbn [sync_loop]; [auto|].
  destruct (H e (or_introl eq_refl)) as [Hin [Hid NF]].
  destruct (cinsert_other all c e I ID Hin Hid NF) as [I1 [P1 _]].
  destruct (cinsert c e) as [[r err] c1]. cbn [snd] in I1, P1.
  destruct (err && negb (is_normal r)); cbn [fst]; [auto|].
  assert (H1 : forall e0, In e0 rest -> In e0 all /\ 0 <= e_id e0 /\ not_forged c1 e0).
  { intros e0 He0. destruct (H e0 (or_intror He0)) as [A [B C]]. split; [exact A|split; [exact B|]].
    eapply not_forged_pv; eauto. }
  destruct (IH c1 I1 ID H1) as [I2 P2]. destruct (sync_loop c1 rest) as [c2 l]. cbn [fst] in *.
  split; [exact I2|congruence].
Qed.

Lemma last_In_nonneg (l : list Z) x : last l (-1) = x -> 0 <= x -> In x l.
Proof.
  induction l as [|a l IH]; cbn [last]; [lia|]. destruct l as [|b l]; [intros ->; left; reflexivity|].
  intros H Hx. right. apply IH; assumption.
Qed.

Lemma skipn_all_nil {A} (l : list A) : skipn (length l) l = [].
Proof. induction l; cbn; auto. Qed.

(* addSelfEvent: what it does and that it keeps the invariant *)
Lemma add_self_event_cinv all c id op ts coin sigkey sigs :
  cinv all c -> ids_determine all ->
  In (self_event c id op ts coin sigkey sigs) all -> 0 <= id ->
  let c' := fst (add_self_event c id op ts coin sigkey sigs) in
  cinv all c' /\
  (pv c' = pv c \/
   (c_created c' = c_created c ++ [(id, (c_txs c, c_itxs c))] /\ c_txs c' = [] /\ c_itxs c' = [] /\
    c_submitted c' = c_submitted c /\ c_isubmitted c' = c_isubmitted c /\ c_self c' = c_self c /\
    c_accepted c' = c_accepted c /\ get_event (c_hg c) id = None)).
Proof.
  intros I ID Hin Hid. unfold add_self_event. destruct (_ <? _); [cbn; auto|]. cbv zeta.
  set (e := self_event c id op ts coin sigkey sigs) in *.
  assert (Ee : e_id e = id /\ e_creator e = c_self c /\ e_index e = c_seq c + 1 /\ e_txs e = c_txs c /\ e_itxs e = c_itxs c)
    by (subst e; cbn; auto).
  destruct Ee as [Eid [Ecr [Eix [Etx Eitx]]]].
  assert (Hid' : 0 <= e_id e) by lia.
  assert (Hns : get_event (c_hg c) (e_id e) = None) by (apply (own_above_seq_not_stored all c e I ID Hin Ecr); lia).
  destruct (step_events all (c_hg c) e (ci_dag _ _ I) (ci_from _ _ I) ID Hin Hid') as [[Hr [Hfresh Hev]]|[Hr Hs]].
  2:{ destruct (cinsert_rejected all c e I ID Hin Hr Hs) as [E Herr].
      destruct (cinsert c e) as [[r err] c1]. cbn [fst snd] in E, Herr. subst c1 err.
      assert (Hh : (c_head c =? id) = false).
      { destruct (Z.eqb_spec (c_head c) id) as [Hh|]; [exfalso|reflexivity].
        rewrite (ci_head _ _ I) in Hh. pose proof (last_In_nonneg _ _ Hh Hid) as HI.
        destruct (created_position all c _ I HI) as [k [ex [_ [Hx _]]]]. rewrite <- Eid in Hx. congruence. }
      rewrite Hh. cbn. auto. }
  (* inserted *)
  pose proof (step_inv (c_hg c) e all (ci_dag _ _ I) (ci_from _ _ I) ID Hin Hid') as [OK' FA'].
  unfold cinsert. cbv zeta.
  set (st' := snd (insert_and_run (c_hg c) e)) in *. fold (step (c_hg c) e) in st'.
  assert (Hnew : exists exn, get_event st' id = Some exn /\ ev_e exn = e).
  { pose proof (Hev id) as He. rewrite <- Eid in He at 2. rewrite Z.eqb_refl in He.
    destruct (get_event st' id) as [exn|]; [|discriminate]. cbn in He. inversion He. eauto. }
  destruct Hnew as [exn [Hxn Een]].
  rewrite Eid, Hxn, Eix, Ecr, Z.eqb_refl. replace (c_seq c <? c_seq c + 1) with true by lia.
  rewrite andb_true_r, orb_true_r. cbn [fst snd]. 
  replace (c_head (c <| c_hg := st' |> <| c_head := id |> <| c_seq := c_seq c + 1 |>) =? id) with true
    by (destruct c; cbn; lia).
  rewrite andb_false_r. cbn [fst].
  set (c1 := c <| c_hg := st' |> <| c_head := id |> <| c_seq := c_seq c + 1 |>).
  assert (F1 : c_hg c1 = st' /\ c_self c1 = c_self c /\ c_txs c1 = c_txs c /\ c_itxs c1 = c_itxs c /\ c_head c1 = id /\
               c_seq c1 = c_seq c + 1 /\ c_accepted c1 = c_accepted c /\ c_created c1 = c_created c /\
               c_submitted c1 = c_submitted c /\ c_isubmitted c1 = c_isubmitted c) by (subst c1; destruct c; cbn; auto 12).
  destruct F1 as [G1 [G2 [G3 [G4 [G5 [G6 [G7 [G8 [G9 G10]]]]]]]]].
  set (c2 := c1 <| c_txs := skipn (length (c_txs c)) (c_txs c1) |> <| c_itxs := skipn (length (c_itxs c)) (c_itxs c1) |>
                <| c_created := c_created c1 ++ [(id, (c_txs c, c_itxs c))] |>).
  assert (F2 : c_hg c2 = st' /\ c_self c2 = c_self c /\ c_txs c2 = [] /\ c_itxs c2 = [] /\ c_head c2 = id /\
               c_seq c2 = c_seq c + 1 /\ c_accepted c2 = c_accepted c /\
               c_created c2 = c_created c ++ [(id, (c_txs c, c_itxs c))] /\
               c_submitted c2 = c_submitted c /\ c_isubmitted c2 = c_isubmitted c).
  { subst c2. destruct c1. cbn in *. subst. rewrite !skipn_all_nil. auto 12. }
  clearbody c2. clear G1 G2 G3 G4 G5 G6 G7 G8 G9 G10 c1.
  destruct F2 as [G1 [G2 [G3 [G4 [G5 [G6 [G7 [G8 [G9 G10]]]]]]]]].
  split; [|right; rewrite Eid in Hns; auto 10].
  assert (Gne : forall x, In x (created_ids c) -> (x =? e_id e) = false).
  { intros x Hx. destruct (Z.eqb_spec x (e_id e)) as [->|]; [|reflexivity].
    destruct (created_position all c _ I Hx) as [k [ex [_ [Hx' _]]]]. congruence. }
  assert (Gids : created_ids c2 = created_ids c ++ [id]) by (unfold created_ids; rewrite G8, map_app; reflexivity).
  constructor.
  - rewrite G1. exact OK'.
  - rewrite G1. exact FA'.
  - intros k id0 txs itxs. rewrite G8, G1, G2. intros Hk.
    destruct (Nat.lt_ge_cases k (length (c_created c))) as [Hlt|Hge].
    + rewrite nth_error_app1 in Hk by exact Hlt.
      destruct (ci_a _ _ I k id0 txs itxs Hk) as [ex [H1 [H2 [H3 [H4 H5]]]]].
      assert (Hid0 : In id0 (created_ids c)) by (unfold created_ids; apply in_map_iff; exists (id0, (txs, itxs)); split; [reflexivity|eapply nth_error_In; exact Hk]).
      pose proof (Hev id0) as He. rewrite (Gne id0 Hid0) in He.
      destruct (ev_e_some _ _ _ _ He H1) as [ex' [H1' Ee']]. exists ex'. rewrite Ee'. auto.
    + rewrite nth_error_app2 in Hk by exact Hge.
      destruct (k - length (c_created c))%nat as [|m] eqn:Ek; [|destruct m; discriminate]. cbn in Hk. inversion Hk; subst id0 txs itxs.
      exists exn. rewrite Een. pose proof (ci_seq _ _ I). repeat split; try assumption. lia.
  - intros x ex'. rewrite G1, G2, Gids. intros Hx' Hown. apply in_or_app.
    pose proof (Hev x) as He. rewrite Hx' in He.
    destruct (Z.eqb_spec x (e_id e)) as [->|Hnx]; [right; left; symmetry; exact Eid|]. left.
    destruct (get_event (c_hg c) x) as [ex|] eqn:Hx; [|discriminate]. cbn in He. inversion He as [Ee'].
    apply (ci_b _ _ I x ex Hx). rewrite <- Ee'. exact Hown.
  - rewrite G6, G8, app_length. cbn [length]. pose proof (ci_seq _ _ I). lia.
  - rewrite G5, Gids. symmetry. apply last_app_one.
  - intros x. rewrite Gids. intros Hx. apply in_app_or in Hx. destruct Hx as [Hx|[<-|[]]]; [apply (ci_nn _ _ I); exact Hx|exact Hid].
  - rewrite G9, G8, G3, flat_map_app. cbn [flat_map fst snd]. rewrite !app_nil_r. apply (ci_cons _ _ I).
  - rewrite G10, G8, G4, flat_map_app. cbn [flat_map fst snd]. rewrite !app_nil_r. apply (ci_icons _ _ I).
Qed.

(** * Runs *)
(* premises on an operation, read in the state it is applied to: the events handed to the
   hashgraph are in [all] (the list in which identifiers determine events) with identifiers >= 0;
   a synced event that claims this node as creator does not verify unless the node made it *)
Definition cop_ok (all : list event) (c : core) (o : cop) : Prop :=
  match o with
  | CAddSelfEvent id op ts coin sigkey sigs => 0 <= id /\ In (self_event c id op ts coin sigkey sigs) all
  | CSync evs => forall e, In e evs -> In e all /\ 0 <= e_id e /\ not_forged c e
  | _ => True
  end.
Fixpoint run_ok (all : list event) (c : core) (ops : list cop) : Prop :=
  match ops with
  | [] => True
  | o :: rest => cop_ok all c o /\ run_ok all (cstep c o) rest
  end.

Lemma crun_cons c o rest : crun c (o :: rest) = crun (cstep c o) rest.
Proof.
  unfold crun, cstep. cbn [crun_h]. destruct (cstep_h c o) as [c1 l1]. cbn [fst].
  destruct (crun_h c1 rest) as [c2 l2]. reflexivity.
Qed.

Lemma cstep_cinv all c o : cinv all c -> ids_determine all -> cop_ok all c o -> cinv all (cstep c o).
Proof.
  intros I ID Ho. unfold cstep. destruct o as [txs|t|id op ts coin sigkey sigs|evs|]; cbn [cstep_h].
  - cbn [fst]. destruct I as [H1 H2 H3 H4 H5 H6 H7 H8 H9]. constructor; try (destruct c; assumption).
    destruct c; cbn in *. rewrite H8, app_assoc. reflexivity.
  - cbn [fst]. destruct I as [H1 H2 H3 H4 H5 H6 H7 H8 H9]. constructor; try (destruct c; assumption).
    destruct c; cbn in *. rewrite H9, app_assoc. reflexivity.
  - destruct Ho as [Hid Hin].
    pose proof (add_self_event_cinv all c id op ts coin sigkey sigs I ID Hin Hid) as [I' _].
    destruct (add_self_event c id op ts coin sigkey sigs) as [c' l]. exact I'.
  - pose proof (sync_loop_cinv all evs c I ID Ho) as [I' _].
    destruct (sync_loop c evs) as [c' l]. exact I'.
  - cbn [fst]. pose proof (process_sigpool_frame (c_hg c)) as F.
    destruct I as [H1 H2 H3 H4 H5 H6 H7 H8 H9].
    constructor; try (destruct c; assumption).
    + replace (c_hg (c <| c_hg := process_sigpool (c_hg c) |>)) with (process_sigpool (c_hg c)) by (destruct c; reflexivity).
      eapply dag_ok_frame; eauto.
    + replace (c_hg (c <| c_hg := process_sigpool (c_hg c) |>)) with (process_sigpool (c_hg c)) by (destruct c; reflexivity).
      eapply from_attempts_frame; eauto.
    + intros k id txs itxs Hk. replace (c_created (c <| c_hg := process_sigpool (c_hg c) |>)) with (c_created c) in Hk by (destruct c; reflexivity).
      destruct (H3 k id txs itxs Hk) as [ex [A1 [A2 [A3 [A4 A5]]]]].
      destruct (ev_e_some _ _ _ _ (ev_e_frame _ _ F id) A1) as [ex' [B1 B2]].
      exists ex'. replace (c_hg (c <| c_hg := process_sigpool (c_hg c) |>)) with (process_sigpool (c_hg c)) by (destruct c; reflexivity).
      replace (c_self (c <| c_hg := process_sigpool (c_hg c) |>)) with (c_self c) by (destruct c; reflexivity).
      rewrite B2. auto.
    + intros x ex'. replace (c_hg (c <| c_hg := process_sigpool (c_hg c) |>)) with (process_sigpool (c_hg c)) by (destruct c; reflexivity).
      replace (c_self (c <| c_hg := process_sigpool (c_hg c) |>)) with (c_self c) by (destruct c; reflexivity).
      replace (created_ids (c <| c_hg := process_sigpool (c_hg c) |>)) with (created_ids c) by (destruct c; reflexivity).
      intros Hx' Hown. pose proof (ev_e_frame _ _ F x) as He. rewrite Hx' in He.
      destruct (get_event (c_hg c) x) as [ex|] eqn:Hx; [|discriminate]. cbn in He. inversion He as [Ee].
      apply (H4 x ex Hx). rewrite <- Ee. exact Hown.
Qed.

Theorem crun_cinv all ops : forall c, cinv all c -> ids_determine all -> run_ok all c ops -> cinv all (crun c ops).
Proof.
  induction ops as [|o rest IH]; intros c I ID H; [exact I|]. destruct H as [Ho Hr].
  rewrite crun_cons. apply IH; [apply cstep_cinv; assumption|exact ID|exact Hr].
Qed.

Lemma cinv_init all self_ genesis oracle_ : cinv all (core_init self_ genesis oracle_).
Proof.
  constructor; cbn.
  - apply dag_ok_init.
  - apply init_no_event.
  - intros k id txs itxs H. destruct k; discriminate.
  - intros x ex H. exfalso. exact (init_no_event self_ genesis oracle_ [] x ex H).
  - reflexivity.
  - reflexivity.
  - intros x [].
  - reflexivity.
  - reflexivity.
Qed.

(* the hashgraph calls of a run satisfy the premise of the hrun theorems *)
Lemma sync_loop_attempted evs : forall c, incl (snd (sync_loop c evs)) evs.
Proof.
  induction evs as [|e rest IH]; intros c; cbn [sync_loop]; [apply incl_refl|].
  destruct (cinsert c e) as [[r err] c1]. destruct (err && negb (is_normal r)); cbn [snd].
  - intros x [<-|[]]. left; reflexivity.
  - specialize (IH c1). destruct (sync_loop c1 rest) as [c2 l]. cbn [snd] in *.
    intros x [<-|Hx]; [left; reflexivity|right; apply IH; exact Hx].
Qed.

Lemma cstep_calls_ok all c o : cop_ok all c o -> Forall (hop_ok all) (map hop_of (snd (cstep_h c o))).
Proof.
  intros Ho. apply Forall_forall. intros h Hh. apply in_map_iff in Hh. destruct Hh as [hc [<- Hc]].
  destruct o as [txs|t|id op ts coin sigkey sigs|evs|]; cbn [cstep_h] in Hc.
  - destruct Hc.
  - destruct Hc.
  - destruct Ho as [Hid Hin]. unfold add_self_event in Hc. destruct (_ <? _); [destruct Hc|]. cbv zeta in Hc.
    destruct (cinsert c (self_event c id op ts coin sigkey sigs)) as [[r err] c1].
    destruct (err && negb (c_head c1 =? id)); cbn [snd map] in Hc; destruct Hc as [<-|[]]; cbn; auto.
  - pose proof (sync_loop_attempted evs c) as Hi. destruct (sync_loop c evs) as [c' l]. cbn [snd] in *.
    apply in_map_iff in Hc. destruct Hc as [e [<- He]]. cbn. destruct (Ho e (Hi e He)) as [A [B _]]. auto.
  - cbn [snd] in Hc. destruct Hc as [<-|[]]. exact I.
Qed.

Lemma crun_calls_ok all ops : forall c, run_ok all c ops -> Forall (hop_ok all) (map hop_of (snd (crun_h c ops))).
Proof.
  induction ops as [|o rest IH]; intros c H; cbn [crun_h]; [constructor|]. destruct H as [Ho Hr].
  pose proof (cstep_calls_ok all c o Ho) as H1. unfold cstep in Hr.
  destruct (cstep_h c o) as [c1 l1]. cbn [fst snd] in *.
  specialize (IH c1 Hr). destruct (crun_h c1 rest) as [c2 l2]. cbn [snd] in *.
  rewrite map_app. apply Forall_app. split; assumption.
Qed.

(** * The node, from its initial state *)
Definition node (self_ : Z) (genesis : peerset) (oracle_ : list Z) (ops : list cop) : core :=
  crun (core_init self_ genesis oracle_) ops.
Definition node_calls (self_ : Z) (genesis : peerset) (oracle_ : list Z) (ops : list cop) : list hop :=
  map hop_of (snd (crun_h (core_init self_ genesis oracle_) ops)).

Lemma cinsert_self c e : c_self (snd (cinsert c e)) = c_self c.
Proof. unfold cinsert. cbv zeta. destruct (_ && _); destruct c; reflexivity. Qed.
Lemma add_self_event_self c id op ts coin sigkey sigs : c_self (fst (add_self_event c id op ts coin sigkey sigs)) = c_self c.
Proof.
  unfold add_self_event. destruct (_ <? _); [reflexivity|]. cbv zeta.
  pose proof (cinsert_self c (self_event c id op ts coin sigkey sigs)) as H.
  destruct (cinsert c (self_event c id op ts coin sigkey sigs)) as [[r err] c1]. cbn [snd] in H.
  destruct (err && negb (c_head c1 =? id)); cbn [fst]; [exact H|]. rewrite <- H. destruct c1; reflexivity.
Qed.
Lemma sync_loop_self evs : forall c, c_self (fst (sync_loop c evs)) = c_self c.
Proof.
  induction evs as [|e rest IH]; intros c; cbn [sync_loop]; [reflexivity|].
  pose proof (cinsert_self c e) as H. destruct (cinsert c e) as [[r err] c1]. cbn [snd] in H.
  destruct (err && negb (is_normal r)); cbn [fst]; [exact H|].
  specialize (IH c1). destruct (sync_loop c1 rest) as [c2 l]. cbn [fst] in *. congruence.
Qed.
Lemma cstep_self c o : c_self (cstep c o) = c_self c.
Proof.
  unfold cstep. destruct o as [txs|t|id op ts coin sigkey sigs|evs|]; cbn [cstep_h].
  - destruct c; reflexivity.
  - destruct c; reflexivity.
  - pose proof (add_self_event_self c id op ts coin sigkey sigs) as H.
    destruct (add_self_event c id op ts coin sigkey sigs) as [c' l]. exact H.
  - pose proof (sync_loop_self evs c) as H. destruct (sync_loop c evs) as [c' l]. exact H.
  - destruct c; reflexivity.
Qed.
Lemma crun_self ops : forall c, c_self (crun c ops) = c_self c.
Proof. induction ops as [|o rest IH]; intros c; [reflexivity|]. rewrite crun_cons, IH. apply cstep_self. Qed.

Theorem node_cinv all self_ genesis oracle_ ops :
  ids_determine all -> run_ok all (core_init self_ genesis oracle_) ops -> cinv all (node self_ genesis oracle_ ops).
Proof. intros ID H. apply crun_cinv; [apply cinv_init|exact ID|exact H]. Qed.

(* the hashgraph of the node is the hrun state of the calls it made, which satisfy the premises
   of the hashgraph theorems *)
Theorem node_hg all self_ genesis oracle_ ops :
  run_ok all (core_init self_ genesis oracle_) ops ->
  c_hg (node self_ genesis oracle_ ops) = hrun (init_hg self_ genesis oracle_) (node_calls self_ genesis oracle_ ops) /\
  Forall (hop_ok all) (node_calls self_ genesis oracle_ ops).
Proof.
  intros H. split; [exact (crun_h_hg ops (core_init self_ genesis oracle_))|apply crun_calls_ok; exact H].
Qed.

(** (1) the node's own stored events are exactly the self-events made by addSelfEvent, in order,
    with the payloads captured from the pools *)
Theorem own_events_are_created all self_ genesis oracle_ ops :
  ids_determine all -> run_ok all (core_init self_ genesis oracle_) ops ->
  let c := node self_ genesis oracle_ ops in
  (forall k id txs itxs, nth_error (c_created c) k = Some (id, (txs, itxs)) ->
     exists ex, get_event (c_hg c) id = Some ex /\ e_creator (ev_e ex) = self_ /\
                e_index (ev_e ex) = Z.of_nat k /\ e_txs (ev_e ex) = txs /\ e_itxs (ev_e ex) = itxs) /\
  (forall x ex, get_event (c_hg c) x = Some ex -> e_creator (ev_e ex) = self_ ->
     exists txs itxs, nth_error (c_created c) (Z.to_nat (e_index (ev_e ex))) = Some (x, (txs, itxs))) /\
  c_seq c = Z.of_nat (length (c_created c)) - 1 /\ c_head c = last (map fst (c_created c)) (-1).
Proof.
  intros ID H c. pose proof (node_cinv all self_ genesis oracle_ ops ID H) as I. fold c in I.
  assert (Es : c_self c = self_) by (unfold c, node; rewrite crun_self; reflexivity).
  split; [|split; [|split; [apply (ci_seq _ _ I)|apply (ci_head _ _ I)]]].
  - intros k id txs itxs Hk. rewrite <- Es. apply (ci_a _ _ I); exact Hk.
  - intros x ex Hx Hown. rewrite <- Es in Hown.
    pose proof (ci_b _ _ I x ex Hx Hown) as Hin. unfold created_ids in Hin. apply in_map_iff in Hin.
    destruct Hin as [[id [txs itxs]] [E Hin]]. cbn in E. subst id.
    destruct (In_nth_error _ _ Hin) as [k Hk].
    destruct (ci_a _ _ I k x txs itxs Hk) as [ex' [H1 [_ [H3 _]]]]. rewrite Hx in H1. inversion H1; subst ex'.
    exists txs, itxs. rewrite H3, Nat2Z.id. exact Hk.
Qed.

(* consequences used below *)
Lemma created_payload all c k id txs itxs : cinv all c -> nth_error (c_created c) k = Some (id, (txs, itxs)) ->
  etxs (c_hg c) id = txs.
Proof.
  intros I Hk. destruct (ci_a _ _ I k id txs itxs Hk) as [ex [H1 [_ [_ [H4 _]]]]]. unfold etxs. rewrite H1. exact H4.
Qed.

Lemma created_stream all c : cinv all c ->
  flat_map (etxs (c_hg c)) (created_ids c) = flat_map (fun p => fst (snd p)) (c_created c).
Proof.
  intros I. unfold created_ids. rewrite flat_map_map. apply flat_map_ext_in.
  intros [id [txs itxs]] Hin. destruct (In_nth_error _ _ Hin) as [k Hk]. cbn [fst snd].
  exact (created_payload all c k id txs itxs I Hk).
Qed.

Lemma created_ids_nodup all c : cinv all c -> NoDup (created_ids c).
Proof.
  intros I. apply (proj2 (NoDup_nth_error (created_ids c))). intros i j Hi Hij.
  unfold created_ids in *. rewrite !nth_error_map in Hij.
  destruct (nth_error (c_created c) i) as [[id [txs itxs]]|] eqn:Ei; [|apply nth_error_Some in Hi; rewrite nth_error_map, Ei in Hi; contradiction].
  destruct (nth_error (c_created c) j) as [[id' [txs' itxs']]|] eqn:Ej; [|discriminate].
  cbn in Hij. inversion Hij; subst id'.
  destruct (ci_a _ _ I i id txs itxs Ei) as [ex [H1 [_ [H3 _]]]].
  destruct (ci_a _ _ I j id txs' itxs' Ej) as [ex' [H1' [_ [H3' _]]]].
  rewrite H1 in H1'. inversion H1'; subst ex'. lia.
Qed.

(** (2) conservation: what addTransactions accepted = payloads of the own stored events, in
    creation order, followed by the pool; with distinct accepted transactions each is in exactly one
    own stored event or still in the pool, never both *)
Theorem node_conservation all self_ genesis oracle_ ops :
  ids_determine all -> run_ok all (core_init self_ genesis oracle_) ops ->
  let c := node self_ genesis oracle_ ops in
  c_submitted c = flat_map (etxs (c_hg c)) (created_ids c) ++ c_txs c /\
  NoDup (created_ids c) /\
  (forall x, In x (created_ids c) <-> exists ex, get_event (c_hg c) x = Some ex /\ e_creator (ev_e ex) = self_).
Proof.
  intros ID H c. pose proof (node_cinv all self_ genesis oracle_ ops ID H) as I. fold c in I.
  assert (Es : c_self c = self_) by (unfold c, node; rewrite crun_self; reflexivity).
  split; [rewrite (created_stream all c I); apply (ci_cons _ _ I)|].
  split; [apply (created_ids_nodup all c I)|].
  intros x. split.
  - intros Hx. destruct (created_position all c x I Hx) as [k [ex [_ [H1 [H2 _]]]]]. exists ex. rewrite <- Es. auto.
  - intros [ex [H1 H2]]. rewrite <- Es in H2. apply (ci_b _ _ I x ex H1 H2).
Qed.

Theorem node_exactly_one all self_ genesis oracle_ ops t :
  ids_determine all -> run_ok all (core_init self_ genesis oracle_) ops ->
  let c := node self_ genesis oracle_ ops in
  NoDup (c_submitted c) -> In t (c_submitted c) ->
  (In t (c_txs c) /\ forall x, In x (created_ids c) -> ~ In t (etxs (c_hg c) x)) \/
  (~ In t (c_txs c) /\ exists x, In x (created_ids c) /\ In t (etxs (c_hg c) x) /\
                        forall y, In y (created_ids c) -> In t (etxs (c_hg c) y) -> y = x).
Proof.
  intros ID H c N Ht.
  destruct (node_conservation all self_ genesis oracle_ ops ID H) as [E [Nc _]]. fold c in E, Nc.
  rewrite E in N, Ht. apply in_app_or in Ht. destruct Ht as [Ht|Ht].
  - right. split; [intros Hp; exact (NoDup_app_disjoint _ _ t N Ht Hp)|].
    apply in_flat_map in Ht. destruct Ht as [x [Hx Htx]]. exists x. split; [exact Hx|split; [exact Htx|]].
    intros y Hy Hty. destruct (In_nth_error _ _ Hx) as [k Hk]. destruct (In_nth_error _ _ Hy) as [k' Hk'].
    assert (Ek : k' = k) by (eapply (NoDup_flat_map_pos_inv _ _ (NoDup_app_l _ _ N)); eauto). subst k'. congruence.
  - left. split; [exact Ht|]. intros x Hx Htx. apply (NoDup_app_disjoint _ _ t N); [|exact Ht].
    apply in_flat_map. exists x. auto.
Qed.

(** (3) commit side.  The transactions this node committed through its OWN events *)
Definition own_committed_events (c : core) : list Z :=
  filter (fun x => creator_of (c_hg c) x =? c_self c) (committed_events (c_hg c)).
Definition own_committed_txs (c : core) : list Z := flat_map (etxs (c_hg c)) (own_committed_events c).

Theorem node_commit_side all self_ genesis oracle_ ops :
  ids_determine all -> run_ok all (core_init self_ genesis oracle_) ops ->
  let c := node self_ genesis oracle_ ops in
  (* committed own events are self-events of addSelfEvent, none twice *)
  NoDup (own_committed_events c) /\ incl (own_committed_events c) (created_ids c) /\
  (* a transaction committed through an own event was accepted by addTransactions and has left the pool *)
  incl (own_committed_txs c) (c_submitted c) /\
  (NoDup (c_submitted c) ->
     NoDup (own_committed_txs c) /\ forall t, In t (own_committed_txs c) -> ~ In t (c_txs c)).
Proof.
  intros ID H c. pose proof (node_cinv all self_ genesis oracle_ ops ID H) as I. fold c in I.
  destruct (node_hg all self_ genesis oracle_ ops H) as [Eh Hc]. fold c in Eh.
  destruct (node_conservation all self_ genesis oracle_ ops ID H) as [E [Nc _]]. fold c in E, Nc.
  assert (Nce : NoDup (committed_events (c_hg c))) by (rewrite Eh; apply (committed_events_nodup all); assumption).
  assert (G : ginv all (c_hg c)) by (rewrite Eh; apply hrun_ginv; assumption).
  assert (Hincl : incl (own_committed_events c) (created_ids c)).
  { intros x Hx. unfold own_committed_events in Hx. apply filter_In in Hx. destruct Hx as [Hx Hcr].
    destruct (committed_event_stored all _ x G Hx) as [ex Hex]. unfold creator_of in Hcr. rewrite Hex in Hcr.
    apply (ci_b _ _ I x ex Hex). lia. }
  assert (Hsub : incl (own_committed_txs c) (flat_map (etxs (c_hg c)) (created_ids c))).
  { intros t Ht. unfold own_committed_txs in Ht. apply in_flat_map in Ht. destruct Ht as [x [Hx Htx]].
    apply in_flat_map. exists x. split; [apply Hincl; exact Hx|exact Htx]. }
  split; [apply NoDup_filter; exact Nce|]. split; [exact Hincl|].
  split; [intros t Ht; rewrite E; apply in_or_app; left; apply Hsub; exact Ht|].
  intros N. rewrite E in N. split.
  - unfold own_committed_txs. apply NoDup_flat_map_disjoint; [apply NoDup_filter; exact Nce| |].
    + intros x Hx. exact (NoDup_flat_map_piece _ _ x (NoDup_app_l _ _ N) (Hincl x Hx)).
    + intros x y t Hx Hy Htx Hty.
      destruct (In_nth_error _ _ (Hincl x Hx)) as [k Hk]. destruct (In_nth_error _ _ (Hincl y Hy)) as [k' Hk'].
      assert (Ek : k = k') by (eapply (NoDup_flat_map_pos_inv _ _ (NoDup_app_l _ _ N)); eauto). subst k'. congruence.
  - intros t Ht Hp. exact (NoDup_app_disjoint _ _ t N (Hsub t Ht) Hp).
Qed.

(** * The hypothesis [from_pools] of Proofs/TidyC05.v, discharged *)

(* the pools of Model/NodeModel.v seen in a core obey NodeModel's conservation law *)
Lemma map_flat_map {A B C} (f : B -> C) (g : A -> list B) l : map f (flat_map g l) = flat_map (fun a => map f (g a)) l.
Proof. induction l as [|a l IH]; cbn [flat_map map]; [reflexivity|]. rewrite map_app, IH. reflexivity. Qed.

Lemma pools_of_conserved all c : cinv all c -> conserved (pools_of c).
Proof.
  intros I. unfold conserved, pools_of. cbn [p_submitted p_isubmitted p_created p_txs p_itxs]. split.
  - rewrite flat_map_map. cbn [fst]. apply (ci_cons _ _ I).
  - rewrite flat_map_map. cbn [snd]. rewrite (ci_icons _ _ I), map_app, map_flat_map. reflexivity.
Qed.

(* pools_payloads_disjoint of TidyC05.v for any conserved pools (not only [prun] ones) *)
Theorem pools_payloads_disjoint_gen all creators (P : Z -> pools) slot :
  (forall c, In c creators -> conserved (P c)) ->
  from_pools all creators P slot ->
  NoDup creators -> NoDup (flat_map (fun c => p_submitted (P c)) creators) ->
  (forall e, In e all -> NoDup (e_txs e)) /\
  (forall e e' t, In e all -> In e' all -> In t (e_txs e) -> In t (e_txs e') -> e = e').
Proof.
  intros Hcv [Hsl Hinj] Nc Ns.
  assert (Own : forall c, In c creators -> NoDup (flat_map fst (p_created (P c)))).
  { intros c Hc. pose proof (NoDup_flat_map_piece _ _ c Ns Hc) as N. cbv beta in N.
    rewrite (proj1 (Hcv c Hc)) in N. exact (NoDup_app_l _ _ N). }
  assert (Sub : forall c l t, In c creators -> In l (map fst (p_created (P c))) -> In t l -> In t (p_submitted (P c))).
  { intros c l t Hc Hl Ht. rewrite (proj1 (Hcv c Hc)). apply in_or_app. left.
    apply in_map_iff in Hl. destruct Hl as [pr [<- Hpr]]. apply in_flat_map. exists pr. split; assumption. }
  split.
  - intros e He. destruct (Hsl e He) as [Hc Hn]. specialize (Own _ Hc).
    rewrite <- (flat_map_map (fun l : list Z => l) fst) in Own.
    exact (NoDup_flat_map_piece (fun l : list Z => l) _ (e_txs e) Own (nth_error_In _ _ Hn)).
  - intros e e' t He He' Ht Ht'. destruct (Hsl e He) as [Hc Hn]. destruct (Hsl e' He') as [Hc' Hn'].
    assert (Ec : e_creator e = e_creator e').
    { destruct (In_nth_error _ _ Hc) as [k Hk]. destruct (In_nth_error _ _ Hc') as [k' Hk'].
      assert (E : k = k').
      { eapply (NoDup_flat_map_pos_inv _ _ Ns k k' _ _ t Hk Hk').
        - eapply Sub; [exact Hc|eapply nth_error_In; exact Hn|exact Ht].
        - eapply Sub; [exact Hc'|eapply nth_error_In; exact Hn'|exact Ht']. }
      subst k'. congruence. }
    apply Hinj; [exact He|exact He'|exact Ec|].
    specialize (Own _ Hc). rewrite <- (flat_map_map (fun l : list Z => l) fst) in Own.
    rewrite <- Ec in Hn'.
    exact (NoDup_flat_map_pos_inv (fun l : list Z => l) _ Own _ _ _ _ t Hn Hn' Ht Ht').
Qed.

Section Network.
  (* the nodes of the network: node k has key ordinal k, its own genesis view, application and life *)
  Variables (all : list event) (creators : list Z) (G : Z -> peerset) (Or : Z -> list Z) (Ops : Z -> list cop).
  Definition nd (k : Z) : core := node k (G k) (Or k) (Ops k).
  Hypothesis ID : ids_determine all.
  Hypothesis Hn : forall k, In k creators -> run_ok all (core_init k (G k) (Or k)) (Ops k).

  Lemma nd_cinv k : In k creators -> cinv all (nd k).
  Proof. intros Hk. apply node_cinv; [exact ID|apply Hn; exact Hk]. Qed.
  Lemma nd_self k : c_self (nd k) = k.
  Proof. unfold nd, node. rewrite crun_self. reflexivity. Qed.

  (* an event of [all] that is stored at its creator's node is one of that node's self-events, at
     the position given by its index, with its payload *)
  Lemma stored_at_creator e :
    In e all -> In (e_creator e) creators -> get_event (c_hg (nd (e_creator e))) (e_id e) <> None ->
    nth_error (map fst (p_created (pools_of (nd (e_creator e))))) (Z.to_nat (e_index e)) = Some (e_txs e) /\
    0 <= e_index e.
  Proof.
    intros He Hc Hs. set (k := e_creator e) in *. pose proof (nd_cinv k Hc) as I.
    destruct (get_event (c_hg (nd k)) (e_id e)) as [ex|] eqn:Hx; [|contradiction].
    pose proof (stored_same_id all (nd k) e ex I ID He Hx) as Ee.
    assert (Hown : e_creator (ev_e ex) = c_self (nd k)) by (rewrite Ee, nd_self; reflexivity).
    pose proof (ci_b _ _ I _ _ Hx Hown) as Hin. unfold created_ids in Hin. apply in_map_iff in Hin.
    destruct Hin as [[id [txs itxs]] [E Hin]]. cbn in E. subst id.
    destruct (In_nth_error _ _ Hin) as [pos Hpos].
    destruct (ci_a _ _ I pos (e_id e) txs itxs Hpos) as [ex' [H1 [_ [H3 [H4 _]]]]].
    rewrite Hx in H1. inversion H1; subst ex'. rewrite Ee in H3, H4.
    split; [|lia]. rewrite H3, Nat2Z.id. unfold pools_of. cbn [p_created]. rewrite map_map, nth_error_map, Hpos.
    cbn. rewrite H4. reflexivity.
  Qed.

  (* [from_pools] holds for every list of events of [all] that are stored at their creators' nodes
     (what a creator does with an event of its own when it makes it) *)
  Theorem nodes_from_pools evs :
    (forall e, In e evs -> In e all /\ In (e_creator e) creators /\
                           get_event (c_hg (nd (e_creator e))) (e_id e) <> None) ->
    from_pools evs creators (fun k => pools_of (nd k)) (fun e => Z.to_nat (e_index e)).
  Proof.
    intros H. split.
    - intros e He. destruct (H e He) as [A [B C]]. split; [exact B|]. apply (stored_at_creator e A B C).
    - intros e e' He He' Ec Es. destruct (H e He) as [A [B C]]. destruct (H e' He') as [A' [B' C']].
      destruct (stored_at_creator e A B C) as [_ H0]. destruct (stored_at_creator e' A' B' C') as [_ H0'].
      assert (Ei : e_index e = e_index e') by lia.
      pose proof (nd_cinv _ B) as I.
      destruct (get_event (c_hg (nd (e_creator e))) (e_id e)) as [ex|] eqn:Hx; [|contradiction].
      rewrite <- Ec in C'. destruct (get_event (c_hg (nd (e_creator e))) (e_id e')) as [ex'|] eqn:Hx'; [|contradiction].
      pose proof (stored_same_id all _ e ex I ID A Hx) as Ee.
      pose proof (stored_same_id all _ e' ex' I ID A' Hx') as Ee'.
      assert (Eid : e_id e = e_id e').
      { apply (dag_ok_no_fork _ _ _ ex ex' (ci_dag _ _ I) Hx Hx'); rewrite Ee, Ee'; assumption. }
      apply ID; assumption.
  Qed.

  (* END TO END, no pool hypothesis left: an observer (any node, any operation sequence) that
     admits only events made by their creators' cores -- i.e. stored at the creator's node --
     never commits a transaction twice, provided the transactions accepted by the nodes are
     pairwise distinct within and across nodes *)
  Theorem network_committed_at_most_once self_ genesis oracle_ hops :
    Forall (hop_ok all) hops ->
    let R := hrun (init_hg self_ genesis oracle_) hops in
    NoDup creators ->
    (forall x ex, get_event R x = Some ex ->
       In (e_creator (ev_e ex)) creators /\ get_event (c_hg (nd (e_creator (ev_e ex)))) x <> None) ->
    NoDup (flat_map (fun k => c_submitted (nd k)) creators) ->
    NoDup (committed_txs R).
  Proof.
    intros Hops R Nc Hst Ns.
    pose proof (hrun_ginv all self_ genesis oracle_ hops ID Hops) as Gi. fold R in Gi.
    set (evs := fun e => exists x ex, get_event R x = Some ex /\ ev_e ex = e).
    assert (Hev : forall x ex, get_event R x = Some ex ->
              In (ev_e ex) all /\ In (e_creator (ev_e ex)) creators /\
              get_event (c_hg (nd (e_creator (ev_e ex)))) (e_id (ev_e ex)) <> None).
    { intros x ex Hx. destruct Gi as [[D FA _ _] _ _ _]. destruct (Hst x ex Hx) as [A B].
      split; [exact (FA _ _ Hx)|]. split; [exact A|]. rewrite (d_id _ D _ _ Hx). exact B. }
    assert (Cv : forall k, In k creators -> conserved (pools_of (nd k))).
    { intros k Hk. apply (pools_of_conserved all). apply nd_cinv; exact Hk. }
    assert (Ns' : NoDup (flat_map (fun k => p_submitted (pools_of (nd k))) creators)) by exact Ns.
    apply (no_transaction_committed_twice all); [exact ID|exact Hops|]. fold R.
    split.
    - intros x ex Hx. destruct (Hev x ex Hx) as [A [B C]].
      destruct (pools_payloads_disjoint_gen [ev_e ex] creators (fun k => pools_of (nd k)) (fun e => Z.to_nat (e_index e)) Cv) as [P1 _];
        [apply nodes_from_pools; intros e [<-|[]]; auto|exact Nc|exact Ns'|].
      apply P1. left; reflexivity.
    - intros x y ex ey t Hx Hy Ht Hty. destruct (Hev x ex Hx) as [A [B C]]. destruct (Hev y ey Hy) as [A' [B' C']].
      destruct (pools_payloads_disjoint_gen [ev_e ex; ev_e ey] creators (fun k => pools_of (nd k)) (fun e => Z.to_nat (e_index e)) Cv) as [_ P2];
        [apply nodes_from_pools; intros e [<-|[<-|[]]]; auto|exact Nc|exact Ns'|].
      assert (E : ev_e ex = ev_e ey) by (apply (P2 _ _ t); cbn; auto).
      destruct Gi as [[D _ _ _] _ _ _]. rewrite <- (d_id _ D _ _ Hx), <- (d_id _ D _ _ Hy), E. reflexivity.
  Qed.
End Network.

(** * Discharging [run_ok] on concrete runs *)
Lemma run_ok_of_checks all ops : forall c,
  incl (run_evs c ops) all -> (forall e, In e all -> 0 <= e_id e) -> sync_foreignb (c_self c) ops = true ->
  run_ok all c ops.
Proof.
  induction ops as [|o rest IH]; intros c Hi Hp Hf; cbn [run_ok]; [exact I|].
  cbn [run_evs] in Hi. cbn [sync_foreignb forallb] in Hf. apply andb_prop in Hf. destruct Hf as [Hf1 Hf2].
  split.
  - destruct o as [txs|t|id op ts coin sigkey sigs|evs|]; cbn [cop_ok]; try exact I.
    + assert (Hin : In (self_event c id op ts coin sigkey sigs) all) by (apply Hi; apply in_or_app; left; left; reflexivity).
      split; [exact (Hp _ Hin)|exact Hin].
    + intros e He. assert (Hin : In e all) by (apply Hi; apply in_or_app; left; exact He).
      split; [exact Hin|]. split; [exact (Hp _ Hin)|].
      intros Hc. exfalso. rewrite forallb_forall in Hf1. specialize (Hf1 e He). lia.
  - apply IH; [intros e He; apply Hi; apply in_or_app; right; exact He|exact Hp|rewrite cstep_self; exact Hf2].
Qed.
